open Spike
let rec mk n acc = if n = 0 then acc else mk (n-1) (X41 :: acc)
let rec nat_of_int n = if n = 0 then O else S (nat_of_int (n-1))
let rec ilen l acc = match l with [] -> acc | _::t -> ilen t (acc+1)
let () =
  let n = int_of_string Sys.argv.(1) in
  let v = VTup [VBytes (mk n []); VNone] in
  let t0 = Sys.time () in
  let bs = dump v in
  Printf.printf "dumped %d bytes in %.2fs\n%!" (ilen bs 0) (Sys.time () -. t0);
  match load (nat_of_int 5) bs with
  | Ok (p) -> Printf.printf "ok %.2fs\n" (Sys.time () -. t0)
  | Err _ -> print_endline "err"
