# Spike: deterministic scheduler with virtual Lock/Condition/poll/time driving real Connection.serve / AsyncResult.wait
import sys, threading
sys.path.insert(0, "/repo")
import rpyc.lib, rpyc.core.protocol as P, rpyc.core.async_ as A, rpyc.utils.helpers as H
from rpyc.core import brine, consts
from rpyc.core.service import VoidService

class Deadlock(Exception): pass

class Sched:
    def __init__(self, codes):
        self.codes=set(codes); self.now=0.0
        self.sem={}; self.done=set(); self.blocked={}   # tid -> (pred, deadline)
        self.main=threading.Semaphore(0); self.tid_of={}; self.trace=[]; self.pos={}
    def me(self): return self.tid_of[threading.get_ident()]
    def yield_(self):
        tid=self.me(); self.main.release(); self.sem[tid].acquire()
    def block(self, pred, deadline=None):
        """block current thread until pred() or virtual deadline; returns True if pred held"""
        tid=self.me()
        while True:
            if pred(): return True
            if deadline is not None and self.now>=deadline: return False
            self.blocked[tid]=(pred,deadline); self.yield_(); self.blocked.pop(tid,None)
    def enabled(self, tid):
        if tid in self.done: return False
        b=self.blocked.get(tid)
        if b is None: return True
        pred,dl=b
        return pred() or (dl is not None and self.now>=dl)
    def tracer(self):
        def local(frame, event, arg):
            if event=="line":
                self.pos[self.me()]=(frame.f_code.co_name, frame.f_lineno); self.yield_()
            return local
        def glob(frame, event, arg):
            return local if frame.f_code in self.codes else None
        return glob
    def spawn(self, tid, fn):
        self.sem[tid]=threading.Semaphore(0)
        def body():
            self.tid_of[threading.get_ident()]=tid
            self.sem[tid].acquire(); sys.settrace(self.tracer())
            try: fn()
            finally: sys.settrace(None); self.done.add(tid); self.main.release()
        threading.Thread(target=body, daemon=True).start()
    def run(self, choose, max_steps=100000):
        tids=sorted(self.sem)
        for step in range(max_steps):
            if all(t in self.done for t in tids): return
            en=[t for t in tids if self.enabled(t)]
            if not en:
                dls=[b[1] for t,b in self.blocked.items() if b[1] is not None and t not in self.done]
                if not dls: raise Deadlock(dict(self.pos))
                self.now=min(dls); self.trace.append(("clock",self.now)); continue
            t=choose(en, step)
            self.sem[t].release(); self.main.acquire()
            self.trace.append((t, self.pos.get(t)))
        raise RuntimeError("step budget")

S=None
class VLock:
    def __init__(self): self.owner=None
    def acquire(self, blocking=True, timeout=-1):
        if self.owner is None: self.owner=S.me(); return True
        if not blocking: return False
        S.block(lambda: self.owner is None); self.owner=S.me(); return True
    def release(self): self.owner=None
    __enter__=lambda self: self.acquire()
    def __exit__(self,*a): self.release()
class VCond:
    def __init__(self): self.m=VLock(); self.gen=0
    def __enter__(self): self.m.acquire(); return self
    def __exit__(self,*a): self.m.release()
    def wait(self, timeout=None):
        g=self.gen; self.m.release()
        r=S.block(lambda: self.gen!=g, None if timeout is None else S.now+timeout)
        self.m.acquire(); return r
    def notify_all(self): self.gen+=1
class VChan:
    def __init__(self): self.inq=[]; self.out=[]; self.closed=False; self.on_send=None
    def poll(self, timeout):
        tl=timeout.timeleft() if hasattr(timeout,"timeleft") else timeout
        return S.block(lambda: bool(self.inq), None if tl is None else S.now+tl)
    def recv(self): return self.inq.pop(0)
    def send(self, data):
        self.out.append(data)
        if self.on_send: self.on_send(data)
    def close(self): self.closed=True
class VTime:
    @staticmethod
    def time(): return S.now
    @staticmethod
    def sleep(d): S.block(lambda: False, S.now+d)

def scenario(choose, swap=False):
    global S
    codes=[P.Connection.serve.__code__, P.Connection._dispatch.__code__, P.Connection._seq_request_callback.__code__,
           A.AsyncResult.wait.__code__, A.AsyncResult.__call__.__code__]
    S=Sched(codes)
    rpyc.lib.time=VTime; H.time=VTime
    ch=VChan(); conn=P.Connection(VoidService(), ch, {"sync_request_timeout":30})
    conn._recvlock=VLock(); conn._recv_event=VCond()
    # scripted peer: answer every request with an echo reply, delivered 1s (virtual) later -> we just enqueue immediately
    def peer(data):
        msg,seq,args=brine.load(data)
        if msg==consts.MSG_REQUEST: ch.inq.append(brine.dump((consts.MSG_REPLY, seq, (consts.LABEL_VALUE, "pong"))))
    ch.on_send=peer
    out={}
    def waiter():
        t0=S.now; r=conn.sync_request(consts.HANDLE_PING,"x"); out["W"]=(r, S.now-t0)
    stop=[False]
    def bg():
        while not stop[0] and "W" not in out:
            conn.serve(0.0); VTime.sleep(0.1)
    S.spawn("W", waiter); S.spawn("B", bg)
    S.run(choose)
    return out, S
if __name__=="__main__":
    import random
    # round-robin and random schedules; report worst-case lateness of W
    worst=0; cnt=0; late=0
    for seed in range(300):
        rnd=random.Random(seed)
        out,s=scenario(lambda en,step: rnd.choice(en))
        cnt+=1; d=out["W"][1]
        if d>0.5: late+=1
        worst=max(worst,d)
    print("schedules",cnt,"late (>0.5 virtual s):",late,"worst virtual wait:",worst)
