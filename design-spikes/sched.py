# feasibility: deterministic line-granularity scheduler driving real Connection._send
import sys, threading, itertools
sys.path.insert(0, "/repo")
from rpyc.core.protocol import Connection
from rpyc.core.service import VoidService

class RecChan:
    def __init__(self): self.log=[]; self.closed=False
    def send(self, data): self.log.append(data)
    def close(self): self.closed=True

class Sched:
    def __init__(self, target_code): 
        self.code=target_code; self.turn={} ; self.done=set(); self.cur=None
        self.main=threading.Semaphore(0)
    def tracer(self, tid):
        sem=self.turn[tid]
        def local(frame, event, arg):
            if event=="line":
                self.pos[tid]=frame.f_lineno
                self.main.release(); sem.acquire()
            return local
        def glob(frame, event, arg):
            if frame.f_code is self.code: return local
            return None
        return glob
    def run(self, thunks, schedule):
        self.pos={}
        ths=[]
        for tid,th in enumerate(thunks):
            self.turn[tid]=threading.Semaphore(0)
            def body(tid=tid, th=th):
                self.turn[tid].acquire()
                sys.settrace(self.tracer(tid))
                try: th()
                finally:
                    sys.settrace(None); self.done.add(tid); self.main.release()
            t=threading.Thread(target=body); t.start(); ths.append(t)
        trace=[]
        for tid in schedule:
            if tid in self.done: continue
            self.turn[tid].release(); self.main.acquire()
            trace.append((tid, self.pos.get(tid) if tid not in self.done else "ret"))
        # drain
        for tid in range(len(thunks)):
            while tid not in self.done:
                self.turn[tid].release(); self.main.acquire()
                trace.append((tid, self.pos.get(tid) if tid not in self.done else "ret"))
        for t in ths: t.join()
        return trace

def one(schedule):
    ch=RecChan(); conn=Connection(VoidService(), ch)
    s=Sched(Connection._send.__code__)
    tr=s.run([lambda: conn._send(1,10,()), lambda: conn._send(1,20,())], schedule)
    r=(len(ch.log), len(conn._send_queue))
    conn._closed=True
    return tr, r
tr,r=one([0,0,0,1,1,1,0,0,1,1,0,0,0])
print(tr); print(r)
import random, time
t0=time.time(); bad=0; n=0
for sch in itertools.product([0,1], repeat=12):
    _,r=one(sch); n+=1
    if r!=(2,0): bad+=1
print(n, "schedules", bad, "bad", round(time.time()-t0,1), "s")
