From Coq Require Import List Arith Lia Bool Relations.
Import ListNotations.

Inductive side := SA | SB.
Definition other (s:side) := match s with SA => SB | SB => SA end.
Definition side_eqb a b := match a, b with SA,SA | SB,SB => true | _,_ => false end.
Lemma side_eqb_refl s : side_eqb s s = true. Proof. now destruct s. Qed.
Lemma side_eqb_other s : side_eqb (other s) s = false. Proof. now destruct s. Qed.
Lemma side_eqb_other' s : side_eqb s (other s) = false. Proof. now destruct s. Qed.
Lemma side_eqb_eq a b : side_eqb a b = true -> a = b. Proof. destruct a, b; simpl; congruence. Qed.
Lemma side_neq_other a b : side_eqb a b = false -> a = other b. Proof. destruct a, b; simpl; congruence. Qed.
Lemma other_other s : other (other s) = s. Proof. now destruct s. Qed.

Inductive node := Node (s:side) (id:nat) (kids:list (node * bool)) (raises:bool).
Definition nside n := match n with Node s _ _ _ => s end.
Definition nid n := match n with Node _ i _ _ => i end.
Definition nkids n := match n with Node _ _ k _ => k end.
Definition nraises n := match n with Node _ _ _ r => r end.
Inductive outcome := Val (v:nat) | Exc (e:nat).
Definition finish (n:node) (acc:nat) : outcome := if nraises n then Exc (nid n) else Val (nid n + acc).

(* ---------- local semantics: one process ---------- *)
Fixpoint eval (n:node) : list nat * outcome :=
  match n with Node s i kids r =>
    let '(l,o) := (fix go (ks:list (node*bool)) (acc:nat) : list nat * outcome :=
      match ks with
      | [] => ([], finish (Node s i kids r) acc)
      | (k,c)::ks' =>
          let '(l1,o) := eval k in
          match o with
          | Val v => let '(l2,o2) := go ks' (acc+v) in (l1++l2, o2)
          | Exc e => if c then let '(l2,o2) := go ks' acc in (l1++l2, o2) else (l1, Exc e)
          end
      end) kids 0 in (i::l, o)
  end.
Fixpoint evalk (n:node) (ks:list (node*bool)) (acc:nat) : list nat * outcome :=
  match ks with
  | [] => ([], finish n acc)
  | (k,c)::ks' =>
      let '(l1,o) := eval k in
      match o with
      | Val v => let '(l2,o2) := evalk n ks' (acc+v) in (l1++l2, o2)
      | Exc e => if c then let '(l2,o2) := evalk n ks' acc in (l1++l2, o2) else (l1, Exc e)
      end
  end.
Lemma eval_evalk n : eval n = let '(l,o) := evalk n (nkids n) 0 in (nid n :: l, o).
Proof.
  destruct n as [s i kids r]. cbn [eval nkids nid].
  match goal with |- (let '(l,o) := ?g kids 0 in _) = _ =>
    assert (H: forall ks acc, g ks acc = evalk (Node s i kids r) ks acc) end.
  { induction ks as [|[k c] ks IH]; intros acc; [reflexivity|]. cbn [evalk].
    destruct (eval k) as [l1 [v|e]]; [now rewrite IH| destruct c; [now rewrite IH|reflexivity]]. }
  now rewrite H.
Qed.

(* ---------- distributed machine: two endpoints, message queues, re-entrant serve ---------- *)
Inductive msg := Req (seq:nat) (n:node) | Rep (seq:nat) (o:outcome).
Inductive frame :=
| FRun (reply_to:option nat) (n:node) (rest:list (node*bool)) (acc:nat)
| FCall (reply_to:option nat) (n:node) (rest:list (node*bool)) (acc:nat) (catch:bool)
| FRet (reply_to:option nat) (o:outcome)
| FWait (seq:nat).
Record peer := { stack : list frame; nseq : nat; inbox : list msg }.
Record sys := { peers : side -> peer; log : list nat; result : option outcome }.
Definition upd (f:side -> peer) (s:side) (p:peer) : side -> peer := fun t => if side_eqb t s then p else f t.
Definition mk (f:side->peer) l r := {| peers := f; log := l; result := r |}.
Definition send (f:side->peer) (to:side) (m:msg) :=
  upd f to {| stack := stack (f to); nseq := nseq (f to); inbox := inbox (f to) ++ [m] |}.

Inductive pstep (s:side) : sys -> sys -> Prop :=
| st_fin f l res r n acc K q ib :
    f s = {| stack := FRun r n [] acc :: K; nseq := q; inbox := ib |} ->
    pstep s (mk f l res) (mk (upd f s {| stack := FRet r (finish n acc) :: K; nseq := q; inbox := ib |}) l res)
| st_local f l res r n k c ks acc K q ib :
    f s = {| stack := FRun r n ((k,c)::ks) acc :: K; nseq := q; inbox := ib |} -> nside k = s ->
    pstep s (mk f l res)
            (mk (upd f s {| stack := FRun None k (nkids k) 0 :: FCall r n ks acc c :: K; nseq := q; inbox := ib |}) (l ++ [nid k]) res)
| st_remote f l res r n k c ks acc K q ib :
    f s = {| stack := FRun r n ((k,c)::ks) acc :: K; nseq := q; inbox := ib |} -> nside k = other s ->
    pstep s (mk f l res)
            (mk (send (upd f s {| stack := FWait q :: FCall r n ks acc c :: K; nseq := S q; inbox := ib |}) (other s) (Req q k)) l res)
| st_reply f l res q0 o K q ib :
    f s = {| stack := FWait q0 :: K; nseq := q; inbox := Rep q0 o :: ib |} ->
    pstep s (mk f l res) (mk (upd f s {| stack := FRet None o :: K; nseq := q; inbox := ib |}) l res)
| st_nested f l res q0 rq k K q ib :
    f s = {| stack := FWait q0 :: K; nseq := q; inbox := Req rq k :: ib |} ->
    pstep s (mk f l res)
            (mk (upd f s {| stack := FRun (Some rq) k (nkids k) 0 :: FWait q0 :: K; nseq := q; inbox := ib |}) (l ++ [nid k]) res)
| st_idle f l res rq k q ib :
    f s = {| stack := []; nseq := q; inbox := Req rq k :: ib |} ->
    pstep s (mk f l res)
            (mk (upd f s {| stack := [FRun (Some rq) k (nkids k) 0]; nseq := q; inbox := ib |}) (l ++ [nid k]) res)
| st_ret_remote f l res rq o K q ib :
    f s = {| stack := FRet (Some rq) o :: K; nseq := q; inbox := ib |} ->
    pstep s (mk f l res)
            (mk (send (upd f s {| stack := K; nseq := q; inbox := ib |}) (other s) (Rep rq o)) l res)
| st_ret_val f l res v r n ks acc c K q ib :
    f s = {| stack := FRet None (Val v) :: FCall r n ks acc c :: K; nseq := q; inbox := ib |} ->
    pstep s (mk f l res) (mk (upd f s {| stack := FRun r n ks (acc+v) :: K; nseq := q; inbox := ib |}) l res)
| st_ret_caught f l res e r n ks acc K q ib :
    f s = {| stack := FRet None (Exc e) :: FCall r n ks acc true :: K; nseq := q; inbox := ib |} ->
    pstep s (mk f l res) (mk (upd f s {| stack := FRun r n ks acc :: K; nseq := q; inbox := ib |}) l res)
| st_ret_uncaught f l res e r n ks acc K q ib :
    f s = {| stack := FRet None (Exc e) :: FCall r n ks acc false :: K; nseq := q; inbox := ib |} ->
    pstep s (mk f l res) (mk (upd f s {| stack := FRet r (Exc e) :: K; nseq := q; inbox := ib |}) l res)
| st_root f l o q ib :
    f s = {| stack := [FRet None o]; nseq := q; inbox := ib |} ->
    pstep s (mk f l None) (mk (upd f s {| stack := []; nseq := q; inbox := ib |}) l (Some o)).

Definition step (y y':sys) := exists s, pstep s y y'.
Definition steps := clos_refl_trans sys step.
