import sys, itertools, inspect, textwrap
exec(open("sched.py").read().split("tr,r=one(")[0])
import rpyc.core.protocol as P
src = textwrap.dedent(inspect.getsource(Connection._send))
muts = [("loop-once", "while self._send_queue:", "for _once in [0]:"),
        ("recheck->return", "            continue", "            return")]
for name, old, new in muts:
    assert old in src, name
    ns = dict(P.__dict__); exec(src.replace(old, new, 1), ns)
    Connection._send = ns["_send"]
    bad=0; first=None
    for sch in itertools.product([0,1], repeat=12):
        _,r=one(sch)
        if r!=(2,0):
            bad+=1; first=first or (sch,r)
    print(name, "bad schedules:", bad, "first:", first)
