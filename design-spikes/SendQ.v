From Coq Require Import List Arith Lia Bool.
Import ListNotations.

Inductive pc := P0 | P1 | P2 | P3 | P4 | P5 | P6 | Done.
Definition msg := nat.
Record thr := { tpc : pc; todo : list msg; cur : option msg }.
Record st := { thrs : nat -> thr; queue : list msg; lock : option nat; wire : list msg }.

Definition upd (f:nat -> thr) (i:nat) (t:thr) : nat -> thr := fun j => if Nat.eqb j i then t else f j.
Definition in_cs (p:pc) := match p with P3 | P4 | P5 | P6 => true | _ => false end.
Definition nxt (t:thr) := match todo t with [] => Done | _ => P0 end.

Definition step (i:nat) (s:st) : option st :=
  let t := thrs s i in
  let set p td c q l w := Some {| thrs := upd (thrs s) i {| tpc := p; todo := td; cur := c |}; queue := q; lock := l; wire := w |} in
  match tpc t with
  | P0 => match todo t with [] => None | m :: ms => set P1 ms None (queue s ++ [m]) (lock s) (wire s) end
  | P1 => match queue s with [] => set (nxt t) (todo t) None (queue s) (lock s) (wire s)
                           | _ => set P2 (todo t) None (queue s) (lock s) (wire s) end
  | P2 => match lock s with None => set P3 (todo t) None (queue s) (Some i) (wire s)
                          | Some _ => set (nxt t) (todo t) None (queue s) (lock s) (wire s) end
  | P3 => match queue s with [] => set P6 (todo t) None (queue s) (lock s) (wire s)
                           | _ => set P4 (todo t) None (queue s) (lock s) (wire s) end
  | P4 => match queue s with [] => None | m :: q => set P5 (todo t) (Some m) q (lock s) (wire s) end
  | P5 => match cur t with None => None | Some m => set P6 (todo t) None (queue s) (lock s) (wire s ++ [m]) end
  | P6 => set P1 (todo t) None (queue s) None (wire s)
  | Done => None
  end.

Inductive reach (s0:st) : st -> Prop :=
| r0 : reach s0 s0
| rS s i s' : reach s0 s -> step i s = Some s' -> reach s0 s'.

Definition mutex (s:st) : Prop := forall i, in_cs (tpc (thrs s i)) = true <-> lock s = Some i.
Definition will_retest (s:st) : Prop :=
  queue s <> [] ->
  exists i, let p := tpc (thrs s i) in p = P1 \/ in_cs p = true \/ (p = P2 /\ lock s = None).
Definition Inv s := mutex s /\ will_retest s.

Lemma upd_same f i t : upd f i t i = t.
Proof. unfold upd. now rewrite Nat.eqb_refl. Qed.
Lemma upd_other f i j t : j <> i -> upd f i t j = f j.
Proof. unfold upd. intros H. apply Nat.eqb_neq in H. now rewrite H. Qed.

Lemma inv_step_preserved s i s' : Inv s -> step i s = Some s' -> Inv s'.
Proof.
  intros [Hm Hw] H.
  assert (Hme := Hm i).
  unfold step in H. cbv zeta in H.
  destruct (tpc (thrs s i)) eqn:Epc; simpl in Hme;
  repeat match type of H with
       | context [match ?x with _ => _ end] => destruct x eqn:?; try discriminate
       end; inversion H; subst; clear H; split.
  all: try (intros j; simpl; destruct (Nat.eq_dec j i) as [->|Hne];
            [rewrite upd_same; simpl | rewrite upd_other by assumption; specialize (Hm j)];
            unfold nxt; simpl in *; try destruct (todo _); simpl;
            intuition (try congruence); fail).
  all: try (intros Hq; simpl in *; exists i; rewrite upd_same; simpl; tauto).
  - (* P1 -> P2 *) intros _. simpl. destruct (lock s) as [h|] eqn:El.
    + assert (h <> i) by (intros ->; destruct Hme as [_ X]; specialize (X eq_refl); discriminate).
      exists h. rewrite upd_other by assumption. right; left. apply (Hm h). exact El.
    + exists i. rewrite upd_same. simpl. tauto.
  - (* P2 fails: mutex *) intros j. simpl. destruct (Nat.eq_dec j i) as [->|Hne].
    + rewrite upd_same. simpl. assert (in_cs (nxt (thrs s i)) = false) by (unfold nxt; destruct (todo _); reflexivity).
      rewrite H. split; [discriminate|]. intros E. destruct Hme as [_ X]. specialize (X E). discriminate.
    + rewrite upd_other by assumption. rewrite <- Heqo. apply Hm.
  - (* P2 fails: retest *) intros _. simpl.
    assert (n <> i) by (intros ->; destruct Hme as [_ X]; specialize (X eq_refl); discriminate).
    exists n. rewrite upd_other by assumption. right; left. apply (Hm n). exact Heqo.
Qed.

Theorem inv_reach s0 s : Inv s0 -> reach s0 s -> Inv s.
Proof. intros H R. induction R; eauto using inv_step_preserved. Qed.

Definition all_done (s:st) := forall i, tpc (thrs s i) = Done \/ tpc (thrs s i) = P0.
Theorem quiescent_empty s0 s : Inv s0 -> reach s0 s -> all_done s -> queue s = [].
Proof.
  intros H R D. destruct (inv_reach _ _ H R) as [_ W].
  destruct (queue s) eqn:E; [reflexivity|exfalso].
  unfold will_retest in W. rewrite E in W. destruct W as [i Hi]; [discriminate|].
  destruct (D i) as [X|X]; rewrite X in Hi; simpl in Hi; intuition discriminate.
Qed.
Print Assumptions quiescent_empty.
