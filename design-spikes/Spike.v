From Coq Require Import List NArith ZArith Lia Bool.
From Coq.Strings Require Import Byte.
Import ListNotations.
Open Scope N_scope.

Inductive res (A:Type) := Ok (a:A) | Err (e:nat).
Arguments Ok {A}. Arguments Err {A}.

Inductive v := VNone | VBytes (b:list byte) | VTup (l:list v).

Definition b_of (n:N) : byte := match Byte.of_N (n mod 256) with Some b => b | None => x00 end.
Definition be4 (n:N) : list byte := [b_of (n / 16777216); b_of (n / 65536); b_of (n / 256); b_of n].
Definition un4 (a b c d:byte) : N := Byte.to_N a * 16777216 + Byte.to_N b * 65536 + Byte.to_N c * 256 + Byte.to_N d.

Definition len {A} (l:list A) : N := N.of_nat (length l).

Definition hdr_bytes (n:N) : list byte :=
  if n =? 0 then [x01] else if n =? 1 then [x0a] else if n <? 256 then [x0e; b_of n] else x0f :: be4 n.
Definition hdr_tup (n:N) : list byte :=
  if n =? 0 then [x02] else if n =? 1 then [x10] else if n <? 256 then [x14; b_of n] else x15 :: be4 n.

Fixpoint dump (x:v) : list byte :=
  match x with
  | VNone => [x00]
  | VBytes b => hdr_bytes (len b) ++ b
  | VTup l => hdr_tup (len l) ++ (fix go l := match l with [] => [] | y::ys => dump y ++ go ys end) l
  end.

Definition take (n:N) (bs:list byte) : res (list byte * list byte) :=
  if len bs <? n then Err 1 else Ok (firstn (N.to_nat n) bs, skipn (N.to_nat n) bs).

Fixpoint load (f:nat) (bs:list byte) {struct f} : res (v * list byte) :=
  match f with O => Err 0 | S f' =>
  let items := fix items (k:nat) (n:N) (bs:list byte) (acc:list v) {struct k} : res (list v * list byte) :=
      if n =? 0 then Ok (rev acc, bs) else
      match k with O => Err 2 | S k' =>
        match load f' bs with Ok (y, r) => items k' (n-1) r (y::acc) | Err e => Err e end end in
  match bs with
  | [] => Err 3
  | t :: r =>
    match t with
    | x00 => Ok (VNone, r)
    | x01 => Ok (VBytes [], r)
    | x0a => match take 1 r with Ok (b,r') => Ok (VBytes b, r') | Err e => Err e end
    | x0e => match r with n::r1 => match take (Byte.to_N n) r1 with Ok (b,r') => Ok (VBytes b, r') | Err e => Err e end | _ => Err 4 end
    | x0f => match r with a::b::c::d::r1 => match take (un4 a b c d) r1 with Ok (b,r') => Ok (VBytes b, r') | Err e => Err e end | _ => Err 4 end
    | x02 => Ok (VTup [], r)
    | x10 => match items (length r) 1 r [] with Ok (l,r') => Ok (VTup l, r') | Err e => Err e end
    | x14 => match r with n::r1 => match items (length r1) (Byte.to_N n) r1 [] with Ok (l,r') => Ok (VTup l, r') | Err e => Err e end | _ => Err 4 end
    | x15 => match r with a::b::c::d::r1 => match items (length r1) (un4 a b c d) r1 [] with Ok (l,r') => Ok (VTup l, r') | Err e => Err e end | _ => Err 4 end
    | _ => Err 5
    end
  end end.

Eval vm_compute in load 10 (dump (VTup [VNone; VBytes [x41;x42]; VTup [VTup []; VBytes []]])).
Require Extraction. Require Import ExtrOcamlBasic.
Extraction "spike.ml" dump load.
