import rpyc, time
class S(rpyc.Service):
    def exposed_bad(self): return "\ud800"
    def exposed_big(self): return 10**5000
    def exposed_ok(self): return 7
    def exposed_raise_bad(self): raise ValueError("\ud800")
c = rpyc.connect_thread(remote_service=S)
print(c.root.ok())
for name in ("bad","big","raise_bad"):
    c = rpyc.connect_thread(remote_service=S, config={"sync_request_timeout":3})
    try:
        print(name, getattr(c.root,name)())
    except BaseException as e:
        print(name, "->", type(e).__name__, str(e)[:60])
    try:
        print(" after:", c.root.ok())
    except BaseException as e:
        print(" after ->", type(e).__name__)
