import itertools, sys
sys.path.insert(0,"/repo")
from rpyc.core.protocol import Connection
from rpyc.core.service import VoidService
class Ch:
    closed=False
    def close(self): pass
    def send(self,d): pass
def spec(cfg, perm, name, has_name, has_twin):
    if not cfg[perm]: return "AttributeError"
    prefix = cfg["exposed_prefix"]
    exposed = cfg["allow_exposed_attrs"]
    allowed = cfg["allow_all_attrs"] or (exposed and name.startswith(prefix)) or \
              (cfg["allow_safe_attrs"] and name in cfg["safe_attrs"]) or (cfg["allow_public_attrs"] and not name.startswith("_"))
    twin = exposed and prefix != "" and has_twin
    if allowed and (not twin or has_name): return ("plain",)
    if twin: return ("twin",)
    if allowed: return ("plain",)
    return "AttributeError"
n=0; bad=0
names = ["exposed_x", "__len__", "pub", "_priv", "__secret__", "zz_exposed_", ""]
for bits in itertools.product([False,True], repeat=7):
    for prefix in ["exposed_", "", "_x"]:
        cfg = dict(zip(["allow_safe_attrs","allow_exposed_attrs","allow_public_attrs","allow_all_attrs","allow_getattr","allow_setattr","allow_delattr"], bits))
        cfg["exposed_prefix"]=prefix
        conn = Connection(VoidService(), Ch(), cfg)
        full = conn._config
        for name in names + [prefix+"y"]:
            for has_name, has_twin in itertools.product([False,True],repeat=2):
                class O: pass
                o=O()
                if has_name and name: setattr(o, name, 1)
                if has_twin and (prefix+name): 
                    try: setattr(o, prefix+name, 2)
                    except Exception: pass
                hn = hasattr(o, name) if name else False
                ht = hasattr(o, prefix+name) if (prefix+name) else False
                for perm in ["allow_getattr","allow_setattr","allow_delattr"]:
                    try:
                        r = conn._check_attr(o, name, perm)
                        got = ("plain",) if r==name and not (prefix and r==prefix+name and prefix) else ("twin",)
                        if prefix and r == prefix+name: got=("twin",)
                        if r == name: got=("plain",)
                    except AttributeError: got="AttributeError"
                    exp = spec(full, perm, name, hn, ht)
                    n+=1
                    if got!=exp:
                        bad+=1
                        if bad<10: print("MISMATCH", cfg, name, hn, ht, perm, got, exp)
        conn._closed=True
print(n, "points", bad, "mismatches")
