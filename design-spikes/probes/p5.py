import rpyc, time, threading, logging
logging.disable(logging.CRITICAL)
class S(rpyc.Service):
    def exposed_ok(self): return 7
c = rpyc.connect_thread(remote_service=S, config={"sync_request_timeout":5})
c.root  # warm
# widen the window between notify_all and _dispatch on the bg thread only
orig = c._dispatch
bg_ident = []
def slow_dispatch(data):
    if threading.get_ident() in bg_ident: time.sleep(0.3)
    return orig(data)
c._dispatch = slow_dispatch
bg = rpyc.BgServingThread(c); bg_ident.append(bg._thread.ident)
for i in range(5):
    t0=time.time()
    try: r = c.root.ok()
    except BaseException as e: r = type(e).__name__
    print(i, r, round(time.time()-t0,2))
