import socket, time, threading, logging
logging.disable(logging.CRITICAL)
from rpyc.utils.registry import UDPRegistryServer, UDPRegistryClient, TCPRegistryServer, TCPRegistryClient
from rpyc.core import brine
ev=[]
class R(UDPRegistryServer):
    def on_service_added(self,n,a): ev.append(("add",n,a))
    def on_service_removed(self,n,a): ev.append(("rem",n,a))
r = R(host="127.0.0.1", port=18899, pruning_timeout=5)
t = threading.Thread(target=r.start, daemon=True); t.start(); time.sleep(0.3)
c = UDPRegistryClient(ip="127.0.0.1", port=18899, timeout=1)
print(c.register(("foo",), 1234, interface="127.0.0.1"))
print(c.register(("bar",), 999, interface="127.0.0.1"))
print(c.discover("foo"))
c.unregister(999); time.sleep(0.3)
print("events", ev)
s = socket.socket(socket.AF_INET, socket.SOCK_DGRAM)
s.sendto(brine.dump(("RPYC", 5, ())), ("127.0.0.1",18899)); time.sleep(1.5)
print("alive after numeric cmd:", t.is_alive())
