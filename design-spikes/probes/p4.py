import rpyc, socket, logging
logging.disable(logging.CRITICAL)
hook=[]
class Cli(rpyc.Service):
    def on_disconnect(self, conn): hook.append(1)
class S(rpyc.Service):
    def exposed_call(self, cb): return cb()
c = rpyc.connect_thread(service=Cli, remote_service=S, config={"sync_request_timeout":3})
def cb():
    c._channel.stream.sock.shutdown(socket.SHUT_RDWR)   # transport dies while we are serving
    return 1
try:
    c.root.call(cb)
except BaseException as e:
    print("caller got", type(e).__name__)
print("closed:", c.closed, "stream closed:", c._channel.closed, "hook:", hook)
try: c.ping()
except BaseException as e: print("next use ->", type(e).__name__)
print("closed:", c.closed, "hook:", hook)
