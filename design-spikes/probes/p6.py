import rpyc, socket, time, threading, logging, os
logging.disable(logging.CRITICAL)
from rpyc.utils.registry import TCPRegistryServer, TCPRegistryClient
r = TCPRegistryServer(host="127.0.0.1", port=18898, pruning_timeout=5)
t = threading.Thread(target=r.start, daemon=True); t.start(); time.sleep(0.3)
c = TCPRegistryClient("127.0.0.1", port=18898, timeout=2)
print("register:", c.register(("foo",), 1234, interface="127.0.0.1"))
silent = socket.create_connection(("127.0.0.1",18898)); time.sleep(0.2)
t0=time.time(); 
try: print("discover with silent client:", c.discover("foo"), round(time.time()-t0,1))
except Exception as e: print("discover ->", type(e).__name__, round(time.time()-t0,1))
silent.close(); time.sleep(0.3)
print("after silent left:", c.discover("foo"))
# threaded server with garbage
from rpyc.utils.server import ThreadedServer
class S(rpyc.Service):
    def exposed_ok(self): return 7
srv = ThreadedServer(S, hostname="127.0.0.1", port=0); srv._start_in_thread(); time.sleep(0.2)
for payload in [os.urandom(50), b"\x00\x00\xff\xff\x00abc", b"\x00\x00\x00\x05\x01hello\n", b"\xff"*9]:
    s=socket.create_connection(("127.0.0.1",srv.port)); s.sendall(payload); time.sleep(0.1)
g = rpyc.connect("127.0.0.1", srv.port, config={"sync_request_timeout":3})
print("threaded good client:", g.root.ok(), "clients tracked:", len(srv.clients))
srv.close()
try: g.root.ok()
except BaseException as e: print("after close ->", type(e).__name__)
