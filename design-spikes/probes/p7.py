import rpyc, copy, random, logging, collections
logging.disable(logging.CRITICAL)
c = rpyc.classic.connect_thread()
def mk():
    return [ [1,2,3,"a"], {"k":1, 2:(1,2)}, {1,2,3}, bytearray(b"abc"), collections.deque([1,2]) ]
c.execute("import collections\ndef mk():\n    return [ [1,2,3,'a'], {'k':1, 2:(1,2)}, {1,2,3}, bytearray(b'abc'), collections.deque([1,2]) ]")
ops = [
 ("len", lambda o: len(o)), ("repr", lambda o: repr(o)), ("str", lambda o: str(o)), ("bool", lambda o: bool(o)),
 ("getitem0", lambda o: o[0]), ("getitem9", lambda o: o[9]), ("getitem_k", lambda o: o["k"]), ("slice", lambda o: o[0:2]),
 ("setitem0", lambda o: o.__setitem__(0, 5)), ("delitem0", lambda o: o.__delitem__(0)),
 ("contains", lambda o: 2 in o), ("iter", lambda o: list(iter(o))), ("hash", lambda o: hash(o)),
 ("eq_self", lambda o: o == o), ("eq_5", lambda o: o == 5), ("lt_5", lambda o: o < 5), ("add", lambda o: o + o),
 ("iadd", lambda o: o.__iadd__([9])), ("mul", lambda o: o * 2), ("append", lambda o: o.append(4)), ("pop", lambda o: o.pop()),
 ("dir", lambda o: sorted(dir(o))[:3]), ("isinst_list", lambda o: isinstance(o, list)), ("cls", lambda o: o.__class__.__name__),
 ("reversed", lambda o: list(reversed(o))), ("sorted", lambda o: sorted(o)), ("neq", lambda o: o != [1]),
 ("format", lambda o: format(o)), ("sum", lambda o: sum(o)), ("update", lambda o: o.update({3:4})), ("keys", lambda o: sorted(map(str,o.keys()))),
]
def run(o, f):
    try:
        r = f(o)
        try: r = rpyc.classic.obtain(r) if hasattr(r,"____conn__") else r
        except Exception: r = "<netref>"
        return ("ok", r)
    except BaseException as e: return ("exc", type(e).__name__)
diffs=0
for idx in range(5):
    for name,f in ops:
        lo = mk()[idx]; ro = c.namespace["mk"]()[idx]
        a = run(lo,f); b = run(ro,f)
        la = repr(lo); rb = repr(ro)
        if a!=b or la!=rb:
            diffs+=1; print("DIFF", type(lo).__name__, name, a, b, la, rb)
print("diffs", diffs)
