import sys, random, gc, weakref, logging
sys.path.insert(0,"/repo")
logging.disable(logging.CRITICAL)
import rpyc, socket
from rpyc.lib import get_id_pack
from rpyc.core import consts

class Keeper(rpyc.Service):
    def __init__(self): self.held=[]
    def exposed_keep(self, *xs): self.held.extend(xs)

def run(seed, nops=60, nobj=3):
    rnd=random.Random(seed)
    s1,s2=socket.socketpair()
    keeper=Keeper()
    A=rpyc.connect_stream(rpyc.SocketStream(s1), service=rpyc.VoidService)
    B=rpyc.connect_stream(rpyc.SocketStream(s2), service=keeper)
    # bootstrap: A gets proxy to B.keep (needs both sides serving) -> do it with manual stepping
    bg=rpyc.BgServingThread(B)
    keep=A.root.keep
    bg.stop()
    objs=[[i] for i in range(nobj)]
    keys=[get_id_pack(o) for o in objs]
    # model
    slot={k:None for k in keys}; proxy={k:None for k in keys}
    qAB=[]; qBA=[]   # model in-flight: ('ref',k,mult) lists per message ; ('del',k,n)
    pending=[]
    def real_state():
        d=A._local_objects._dict
        return {k:(d[k][1] if k in d else None) for k in keys}
    def model_check(tag):
        rs=real_state()
        assert rs==slot, (tag, rs, slot)
        for k in keys:
            p=B._proxy_cache.get((str(k[0]),k[1],k[2]))
            pr = p.____refcount__ if p is not None else None
            assert pr==proxy[k], (tag, "proxy", k, pr, proxy[k])
    for step in range(nops):
        op=rnd.choice(["send","send2","drop","dAB","dBA","dBA"])
        if op in ("send","send2"):
            ks=[rnd.randrange(nobj) for _ in range(1 if op=="send" else rnd.randint(2,3))]
            args=tuple(objs[i] for i in ks)
            pending.append(rpyc.async_(keep)(*args))
            for i in ks:
                k=keys[i]; slot[k]=0 if slot[k] is None else slot[k]+1
            qAB.append(("refs",[keys[i] for i in ks]))
        elif op=="drop":
            if keeper.held:
                i=rnd.randrange(len(keeper.held)); x=keeper.held.pop(i)
                k=tuple(object.__getattribute__(x,"____id_pack__")); k=(k[0],k[1],k[2])
                kk=[q for q in keys if (str(q[0]),q[1],q[2])==k][0]
                still = any(y is x for y in keeper.held)
                n=object.__getattribute__(x,"____refcount__")
                del x; gc.collect()
                if not still:
                    proxy[kk]=None; qBA.append(("del",kk,n))
        elif op=="dAB":
            if qAB:
                m=qAB.pop(0); B.poll(0.5)
                if m[0]=="refs":
                    for k in m[1]:
                        proxy[k]=1 if proxy[k] is None else proxy[k]+1
                    qBA.append(("reply",))
                elif m[0]=="reply": pass
        elif op=="dBA":
            if qBA:
                m=qBA.pop(0); A.poll(0.5)
                if m[0]=="del":
                    _,k,n=m
                    if slot[k] < n: slot[k]=None
                    else: slot[k]-=n
                    qAB.append(("reply",))
        model_check((seed,step,op))
    # quiesce: drop everything, deliver all
    for _ in range(100): A.poll(0.005); B.poll(0.005)
    keeper.held.clear(); pending.clear(); gc.collect()
    for _ in range(200):
        a=A.poll(0.01); b=B.poll(0.01)
    gc.collect()
    for _ in range(50): A.poll(0.01); B.poll(0.01)
    rs=real_state()
    assert all(v is None for v in rs.values()), ("leak at quiescence", rs)
    A.close(); B.close()
bad=0
for seed in range(60):
    try: run(seed)
    except AssertionError as e:
        bad+=1; print("seed",seed,"FAIL",e)
print("done, failures:",bad)
