import rpyc, socket, time, threading, logging
logging.disable(logging.CRITICAL)
from rpyc.utils.server import ThreadPoolServer, ThreadedServer
class S(rpyc.Service):
    def exposed_ok(self): return 7
# 1. starvation: nbThreads=2, 2 bad clients with truncated packets
srv = ThreadPoolServer(S, hostname="127.0.0.1", port=0, nbThreads=2)
srv._start_in_thread(); time.sleep(0.2)
bads=[]
for i in range(2):
    s=socket.create_connection(("127.0.0.1",srv.port)); s.sendall(b"\x00\x00\xff\xff\x00abc"); bads.append(s)
time.sleep(0.5)
good = rpyc.connect("127.0.0.1", srv.port, config={"sync_request_timeout":3})
t0=time.time()
try: print("good client:", good.root.ok())
except BaseException as e: print("good client ->", type(e).__name__, round(time.time()-t0,1))
for s in bads: s.close()
time.sleep(0.5)
try: print("after bad left:", good.root.ok())
except BaseException as e: print("after bad left ->", type(e).__name__)
# 2. close leaves clients connected
c2 = rpyc.connect("127.0.0.1", srv.port, config={"sync_request_timeout":3})
print(c2.root.ok())
th=threading.Thread(target=srv.close); th.start(); th.join(5); print("close returned:", not th.is_alive())
t0=time.time()
try: print("after close:", c2.root.ok())
except BaseException as e: print("after close ->", type(e).__name__, round(time.time()-t0,1))
