import rpyc, builtins, logging, warnings
logging.disable(logging.CRITICAL); warnings.simplefilter("ignore")
class S(rpyc.Service):
    def exposed_raise_(self, name, args):
        cls = getattr(builtins, name)
        raise cls(*args)
c = rpyc.connect_thread(remote_service=S, config={"sync_request_timeout":5})
names = sorted(n for n,v in vars(builtins).items() if isinstance(v,type) and issubclass(v,BaseException))
bad=[]
for n in names:
    if n in ("KeyboardInterrupt",): continue
    cls=getattr(builtins,n)
    for args in [(), ("x",), (1,"y"), (2,"No such file","fn")]:
        try:
            local = cls(*args)
        except Exception: continue
        try:
            c.root.raise_(n, args); got=None
        except BaseException as e: got=e
        if c.closed:
            bad.append((n,args,"CONN CLOSED")); c = rpyc.connect_thread(remote_service=S, config={"sync_request_timeout":5}); continue
        ok = isinstance(got, cls) and type(got).__name__==n and got.args==local.args
        if not ok: bad.append((n,args,type(got).__name__, getattr(got,"args",None), local.args))
print(len(names),"classes;", len(bad), "mismatches")
for b in bad[:40]: print(b)
