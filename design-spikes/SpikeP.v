From Coq Require Import List NArith ZArith Lia Bool.
From Coq.Strings Require Import Byte.
Require Import Spike.
Import ListNotations.
Open Scope N_scope.

Lemma to_b_of n : Byte.to_N (b_of n) = n mod 256.
Proof.
  unfold b_of. assert (H: n mod 256 < 256) by (apply N.mod_lt; lia).
  destruct (Byte.of_N (n mod 256)) eqn:E.
  - apply Byte.to_of_N in E. exact E.
  - apply Byte.of_N_None_iff in E. lia.
Qed.

Lemma un4_be4 n : n < 4294967296 ->
  match be4 n with [a;b;c;d] => un4 a b c d = n | _ => False end.
Proof.
  intros H. unfold be4, un4. rewrite !to_b_of.
  pose proof (N.div_mod n 256 ltac:(lia)).
  pose proof (N.div_mod (n/256) 256 ltac:(lia)).
  pose proof (N.div_mod (n/256/256) 256 ltac:(lia)).
  pose proof (N.mod_lt n 256 ltac:(lia)).
  pose proof (N.mod_lt (n/256) 256 ltac:(lia)).
  pose proof (N.mod_lt (n/256/256) 256 ltac:(lia)).
  assert (n / 65536 = n/256/256) by (rewrite N.div_div by lia; reflexivity).
  assert (n / 16777216 = n/256/256/256) by (rewrite !N.div_div by lia; reflexivity).
  assert (n/256/256/256 < 256).
  { apply N.div_lt_upper_bound; try lia. apply N.div_lt_upper_bound; try lia. apply N.div_lt_upper_bound; lia. }
  rewrite H6, H7. rewrite (N.mod_small (n/256/256/256)) by lia. lia.
Qed.

Lemma take_app b r : take (len b) (b ++ r) = Ok (b, r).
Proof.
  unfold take, len. rewrite app_length.
  destruct (N.ltb_spec (N.of_nat (length b + length r)) (N.of_nat (length b))); [lia|].
  rewrite Nat2N.id, firstn_app, skipn_app, firstn_all, skipn_all, Nat.sub_diag. simpl.
  now rewrite app_nil_r.
Qed.

Fixpoint depth (x:v) : nat :=
  match x with VTup l => S (fold_right (fun y m => Nat.max (depth y) m) O l) | _ => 1%nat end.

Definition dumps (l:list v) := (fix go l := match l with [] => [] | y::ys => dump y ++ go ys end) l.

Lemma dump_nonempty x : (1 <= length (dump x))%nat.
Proof.
  destruct x; simpl; try lia.
  - unfold hdr_bytes. repeat destruct (_ =? _); try destruct (_ <? _); simpl; rewrite ?app_length; simpl; lia.
  - unfold hdr_tup. repeat destruct (_ =? _); try destruct (_ <? _); simpl; rewrite ?app_length; simpl; lia.
Qed.

Lemma dumps_len l : (length l <= length (dumps l))%nat.
Proof. induction l; simpl; [lia|]. rewrite app_length. pose proof (dump_nonempty a). fold (dumps l). lia. Qed.
