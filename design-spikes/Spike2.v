From Coq Require Import List NArith ZArith Lia Bool.
From Coq.Strings Require Import Byte.
Require Import Spike SpikeP.
Import ListNotations.
Open Scope N_scope.

Section Open.
Variable rec : list byte -> res (v * list byte).
Fixpoint items (k:nat) (n:N) (bs:list byte) (acc:list v) {struct k} : res (list v * list byte) :=
  if n =? 0 then Ok (rev acc, bs) else
  match k with O => Err 2 | S k' =>
    match rec bs with Ok (y, r) => items k' (n-1) r (y::acc) | Err e => Err e end end.
Definition bytes_of (n:N) r := match take n r with Ok (b,r') => Ok (VBytes b, r') | Err e => Err e end.
Definition tup_of (n:N) r := match items (length r) n r [] with Ok (l,r') => Ok (VTup l, r') | Err e => Err e end.
Definition load_body (bs:list byte) : res (v * list byte) :=
  match bs with
  | [] => Err 3
  | t :: r =>
    match t with
    | x00 => Ok (VNone, r)
    | x01 => Ok (VBytes [], r)
    | x0a => bytes_of 1 r
    | x0e => match r with n::r1 => bytes_of (Byte.to_N n) r1 | _ => Err 4 end
    | x0f => match r with a::b::c::d::r1 => bytes_of (un4 a b c d) r1 | _ => Err 4 end
    | x02 => Ok (VTup [], r)
    | x10 => tup_of 1 r
    | x14 => match r with n::r1 => tup_of (Byte.to_N n) r1 | _ => Err 4 end
    | x15 => match r with a::b::c::d::r1 => tup_of (un4 a b c d) r1 | _ => Err 4 end
    | _ => Err 5
    end
  end.
End Open.
Fixpoint load2 (f:nat) : list byte -> res (v * list byte) :=
  match f with O => fun _ => Err 0 | S f' => load_body (load2 f') end.

Inductive wf : v -> Prop :=
| wf_none : wf VNone
| wf_bytes b : len b < 4294967296 -> wf (VBytes b)
| wf_tup l : len l < 4294967296 -> Forall wf l -> wf (VTup l).

Lemma v_ind' (P : v -> Prop) :
  P VNone -> (forall b, P (VBytes b)) -> (forall l, Forall P l -> P (VTup l)) -> forall x, P x.
Proof.
  intros H0 H1 H2. fix IH 1. intros [| b | l]; [exact H0 | apply H1 |].
  apply H2. induction l as [|y ys IHl]; constructor; [apply IH | exact IHl].
Qed.

Lemma items_ok rec l : forall acc k rest,
  Forall (fun y => forall rest, rec (dump y ++ rest) = Ok (y, rest)) l ->
  (length l <= k)%nat ->
  items rec k (len l) (dumps l ++ rest) acc = Ok (rev acc ++ l, rest).
Proof.
  induction l as [|y ys IH]; intros acc k rest HF Hk.
  - destruct k; simpl; now rewrite app_nil_r.
  - destruct k as [|k]; [simpl in Hk; lia|].
    inversion HF as [|? ? Hy Hys]; subst.
    assert (E: len (y::ys) =? 0 = false) by (apply N.eqb_neq; unfold len; simpl length; lia).
    cbn [items]. rewrite E.
    cbn [dumps]. fold (dumps ys). rewrite <- app_assoc, Hy.
    replace (len (y::ys) - 1) with (len ys) by (unfold len; simpl length; lia).
    rewrite IH; auto; [|simpl in Hk; lia]. simpl. now rewrite <- app_assoc.
Qed.

Theorem roundtrip : forall x, wf x -> forall f rest, (depth x <= f)%nat ->
  load2 f (dump x ++ rest) = Ok (x, rest).
Proof.
  induction x as [| b | l IH] using v_ind'; intros Hwf f rest Hd; (destruct f as [|f]; [simpl in Hd; lia|]).
  - reflexivity.
  - inversion Hwf; subst. cbn [load2 dump]. unfold hdr_bytes.
    destruct (N.eqb_spec (len b) 0) as [E|E].
    { destruct b; [reflexivity| unfold len in E; simpl in E; lia]. }
    destruct (N.eqb_spec (len b) 1) as [E1|E1].
    { cbn. unfold bytes_of. rewrite <- E1, take_app. reflexivity. }
    destruct (N.ltb_spec (len b) 256) as [E2|E2].
    { cbn. unfold bytes_of. rewrite to_b_of, N.mod_small, take_app by lia. reflexivity. }
    pose proof (un4_be4 (len b) ltac:(assumption)) as U. unfold be4 in *.
    cbn. unfold bytes_of. rewrite U, take_app. reflexivity.
  - inversion Hwf as [| |? Hl HF]; subst. cbn [load2 dump]. fold (dumps l). unfold hdr_tup.
    assert (HI: Forall (fun y => forall rest, load2 f (dump y ++ rest) = Ok (y, rest)) l).
    { rewrite Forall_forall in *. intros y Hy rest'. apply IH; auto.
      simpl in Hd. assert (depth y <= fold_right (fun y m => Nat.max (depth y) m) 0%nat l)%nat.
      { clear -Hy. induction l; simpl in *; [tauto|]. destruct Hy; subst; [lia|]. specialize (IHl H). lia. }
      lia. }
    assert (HK: forall rest, (length l <= length (dumps l ++ rest))%nat).
    { intros. rewrite app_length. pose proof (dumps_len l). lia. }
    destruct (N.eqb_spec (len l) 0) as [E|E].
    { destruct l; [reflexivity| unfold len in E; simpl in E; lia]. }
    destruct (N.eqb_spec (len l) 1) as [E1|E1].
    { cbn. unfold tup_of. rewrite <- E1, items_ok; auto. }
    destruct (N.ltb_spec (len l) 256) as [E2|E2].
    { cbn. unfold tup_of. rewrite to_b_of, N.mod_small, items_ok by (auto; lia). reflexivity. }
    pose proof (un4_be4 (len l) ltac:(assumption)) as U. unfold be4 in *.
    cbn. unfold tup_of. rewrite U, items_ok; auto.
Qed.
Print Assumptions roundtrip.
