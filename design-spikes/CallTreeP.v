From Coq Require Import List Arith Lia Bool Relations.
Require Import CallTree.
Import ListNotations.

Lemma peer_eta p : p = {| stack := stack p; nseq := nseq p; inbox := inbox p |}.
Proof. now destruct p. Qed.
Lemma upd_same f s p : upd f s p s = p.
Proof. unfold upd. now rewrite side_eqb_refl. Qed.
Lemma upd_other f s p : upd f s p (other s) = f (other s).
Proof. unfold upd. now rewrite side_eqb_other. Qed.
Lemma upd_other' f s p : upd f (other s) p s = f s.
Proof. unfold upd. now rewrite side_eqb_other'. Qed.
Lemma send_same f t m : send f t m t = {| stack := stack (f t); nseq := nseq (f t); inbox := inbox (f t) ++ [m] |}.
Proof. unfold send. apply upd_same. Qed.
Lemma send_other f t m : send f t m (other t) = f (other t).
Proof. unfold send. apply upd_other. Qed.
Lemma send_other' f t m : send f (other t) m t = f t.
Proof. unfold send. apply upd_other'. Qed.

Lemma node_ind' (P : node -> Prop) :
  (forall s i kids r, Forall (fun kc => P (fst kc)) kids -> P (Node s i kids r)) -> forall n, P n.
Proof.
  intros H. fix IH 1. intros [s i kids r]. apply H.
  induction kids as [|[k c] ks IHk]; constructor; [apply IH | exact IHk].
Qed.

Definition can_serve (p:peer) := inbox p = [] /\ (stack p = [] \/ exists q K, stack p = FWait q :: K).

(* what "running [FRun r n ks acc] on top of K at peer s to completion" means *)
Definition runs_to (s:side) (f:side->peer) (l:list nat) (res:option outcome)
                   (r:option nat) (K:list frame) (lo:list nat * outcome) : Prop :=
  exists f', steps (mk f l res) (mk f' (l ++ fst lo) res) /\
    stack (f' s) = FRet r (snd lo) :: K /\ inbox (f' s) = [] /\
    stack (f' (other s)) = stack (f (other s)) /\ inbox (f' (other s)) = [].

Definition P (k:node) : Prop := forall r s f l res K,
  stack (f s) = FRun r k (nkids k) 0 :: K -> inbox (f s) = [] -> can_serve (f (other s)) ->
  runs_to s f l res r K (evalk k (nkids k) 0).

Lemma step1 s y y' : pstep s y y' -> steps y y'.
Proof. intros H. apply rt_step. now exists s. Qed.
Lemma steps_trans a b c : steps a b -> steps b c -> steps a c.
Proof. apply rt_trans. Qed.

Lemma kids_run n : forall ks, Forall (fun kc => P (fst kc)) ks ->
  forall acc r s f l res K,
  stack (f s) = FRun r n ks acc :: K -> inbox (f s) = [] -> can_serve (f (other s)) ->
  runs_to s f l res r K (evalk n ks acc).
Proof.
  induction ks as [|[k c] ks IH]; intros HF acc r s f l res K Hst Hib Hcs.
  - (* no kids left: finish *)
    eexists. split; [|split; [|split; [|split]]].
    + cbn [evalk fst]. rewrite app_nil_r. apply step1 with (s:=s).
      eapply st_fin. rewrite (peer_eta (f s)), Hst, Hib. reflexivity.
    + rewrite upd_same. reflexivity.
    + rewrite upd_same. reflexivity.
    + now rewrite upd_other.
    + rewrite upd_other. apply Hcs.
  - inversion HF as [|? ? Pk HF']; subst. cbn [fst] in Pk.
    (* common continuation once the child's outcome sits in FRet None on top of the FCall frame *)
    assert (CONT: forall f1 (lo:list nat * outcome),
        stack (f1 s) = FRet None (snd lo) :: FCall r n ks acc c :: K -> inbox (f1 s) = [] ->
        can_serve (f1 (other s)) ->
        steps (mk f l res) (mk f1 (l ++ nid k :: fst lo) res) ->
        stack (f1 (other s)) = stack (f (other s)) ->
        lo = evalk k (nkids k) 0 ->
        runs_to s f l res r K (evalk n ((k,c)::ks) acc)).
    { intros f1 lo Hs1 Hi1 Hc1 Hsteps Hoth Hlo.
      cbn [evalk]. rewrite (eval_evalk k), <- Hlo. destruct lo as [lk [v|e]]; cbn [fst snd] in *.
      - (* value *)
        destruct (IH HF' (acc+v) r s
                    (upd f1 s {| stack := FRun r n ks (acc+v) :: K; nseq := nseq (f1 s); inbox := [] |})
                    (l ++ nid k :: lk) res K) as (f2 & S2 & A & B & C & D).
        { now rewrite upd_same. } { now rewrite upd_same. } { now rewrite upd_other. }
        destruct (evalk n ks (acc+v)) as [l2 o2] eqn:E2. cbn [fst snd] in *.
        exists f2. split; [|split; [|split; [|split]]]; auto.
        + eapply steps_trans; [exact Hsteps|]. eapply steps_trans; [|rewrite <- app_assoc in S2; exact S2].
          apply step1 with (s:=s). eapply st_ret_val. rewrite (peer_eta (f1 s)), Hs1, Hi1. reflexivity.
        + rewrite C, upd_other. exact Hoth.
      - destruct c.
        + (* caught *)
          destruct (IH HF' acc r s
                      (upd f1 s {| stack := FRun r n ks acc :: K; nseq := nseq (f1 s); inbox := [] |})
                      (l ++ nid k :: lk) res K) as (f2 & S2 & A & B & C & D).
          { now rewrite upd_same. } { now rewrite upd_same. } { now rewrite upd_other. }
          destruct (evalk n ks acc) as [l2 o2] eqn:E2. cbn [fst snd] in *.
          exists f2. split; [|split; [|split; [|split]]]; auto.
          * eapply steps_trans; [exact Hsteps|]. eapply steps_trans; [|rewrite <- app_assoc in S2; exact S2].
            apply step1 with (s:=s). eapply st_ret_caught. rewrite (peer_eta (f1 s)), Hs1, Hi1. reflexivity.
          * rewrite C, upd_other. exact Hoth.
        + (* uncaught: propagate *)
          eexists. split; [|split; [|split; [|split]]].
          * cbn [fst]. eapply steps_trans; [exact Hsteps|].
            apply step1 with (s:=s). eapply st_ret_uncaught. rewrite (peer_eta (f1 s)), Hs1, Hi1. reflexivity.
          * now rewrite upd_same.
          * now rewrite upd_same.
          * now rewrite upd_other.
          * rewrite upd_other. apply Hc1. }
    destruct (side_eqb (nside k) s) eqn:Eside.
    + (* local call *)
      apply side_eqb_eq in Eside.
      set (f0 := upd f s {| stack := FRun None k (nkids k) 0 :: FCall r n ks acc c :: K; nseq := nseq (f s); inbox := [] |}).
      destruct (Pk None s f0 (l ++ [nid k]) res (FCall r n ks acc c :: K)) as (f1 & S1 & A & B & C & D).
      { unfold f0. now rewrite upd_same. } { unfold f0. now rewrite upd_same. } { unfold f0. now rewrite upd_other. }
      eapply (CONT f1 (evalk k (nkids k) 0)); auto.
      * split; [exact D|]. rewrite C. unfold f0. rewrite upd_other. apply Hcs.
      * eapply steps_trans; [|rewrite <- app_assoc in S1; exact S1].
        apply step1 with (s:=s). eapply st_local; [|exact Eside]. rewrite (peer_eta (f s)), Hst, Hib. reflexivity.
      * rewrite C. unfold f0. now rewrite upd_other.
    + (* remote call *)
      apply side_neq_other in Eside. set (o := other s) in *.
      assert (Eso: side_eqb s o = false) by (unfold o; apply side_eqb_other').
      assert (Eos: side_eqb o s = false) by (unfold o; apply side_eqb_other).
      assert (Hoo: other o = s) by (unfold o; apply other_other).
      destruct Hcs as [Hoi Hos].
      set (q := nseq (f s)).
      (* 1. s sends the request and waits *)
      set (f0 := send (upd f s {| stack := FWait q :: FCall r n ks acc c :: K; nseq := S q; inbox := [] |}) o (Req q k)).
      assert (S0: steps (mk f l res) (mk f0 l res)).
      { apply step1 with (s:=s). unfold f0, o. eapply st_remote; [|exact Eside].
        rewrite (peer_eta (f s)), Hst, Hib. reflexivity. }
      assert (F0s: f0 s = {| stack := FWait q :: FCall r n ks acc c :: K; nseq := S q; inbox := [] |}).
      { unfold f0, send, upd. rewrite Eso, side_eqb_refl. reflexivity. }
      assert (F0o: f0 o = {| stack := stack (f o); nseq := nseq (f o); inbox := [Req q k] |}).
      { unfold f0, send. rewrite upd_same. unfold upd. rewrite Eos, Hoi. reflexivity. }
      (* 2. the peer picks the request up: idle or nested inside its own wait *)
      set (f1 := upd f0 o {| stack := FRun (Some q) k (nkids k) 0 :: stack (f o); nseq := nseq (f o); inbox := [] |}).
      assert (S1: steps (mk f0 l res) (mk f1 (l ++ [nid k]) res)).
      { apply step1 with (s:=o). unfold f1. destruct Hos as [Hnil | (q' & Ko & HK)].
        - rewrite Hnil. eapply st_idle. rewrite F0o, Hnil. reflexivity.
        - rewrite HK. eapply st_nested. rewrite F0o, HK. reflexivity. }
      assert (F1s: f1 s = f0 s) by (unfold f1, upd; now rewrite Eso).
      destruct (Pk (Some q) o f1 (l ++ [nid k]) res (stack (f o))) as (f2 & S2 & A & B & C & D).
      { unfold f1. now rewrite upd_same. } { unfold f1. now rewrite upd_same. }
      { rewrite Hoo, F1s, F0s. split; [reflexivity|]. right. cbn [stack]. eauto. }
      rewrite Hoo in C, D. rewrite F1s, F0s in C. cbn [stack] in C.
      (* 3. the peer replies *)
      set (lo := evalk k (nkids k) 0) in *.
      set (f3 := send (upd f2 o {| stack := stack (f o); nseq := nseq (f2 o); inbox := [] |}) (other o) (Rep q (snd lo))).
      assert (S3: steps (mk f2 ((l ++ [nid k]) ++ fst lo) res) (mk f3 ((l ++ [nid k]) ++ fst lo) res)).
      { apply step1 with (s:=o). unfold f3. eapply st_ret_remote.
        rewrite (peer_eta (f2 o)), A, B. reflexivity. }
      assert (F3s: f3 s = {| stack := FWait q :: FCall r n ks acc c :: K; nseq := nseq (f2 s); inbox := [Rep q (snd lo)] |}).
      { unfold f3. rewrite Hoo, send_same. unfold upd. rewrite Eso, C, D. reflexivity. }
      assert (F3o: f3 o = {| stack := stack (f o); nseq := nseq (f2 o); inbox := [] |}).
      { unfold f3. rewrite Hoo. unfold send, upd. rewrite Eos, side_eqb_refl. reflexivity. }
      (* 4. s matches the reply to its wait frame *)
      set (f4 := upd f3 s {| stack := FRet None (snd lo) :: FCall r n ks acc c :: K; nseq := nseq (f2 s); inbox := [] |}).
      assert (S4: steps (mk f3 ((l ++ [nid k]) ++ fst lo) res) (mk f4 ((l ++ [nid k]) ++ fst lo) res)).
      { apply step1 with (s:=s). unfold f4. eapply st_reply. rewrite F3s. reflexivity. }
      assert (F4o: f4 o = f3 o) by (unfold f4, upd; now rewrite Eos).
      eapply (CONT f4 lo); auto.
      * unfold f4. now rewrite upd_same.
      * unfold f4. now rewrite upd_same.
      * fold o. rewrite F4o, F3o. split; [reflexivity|exact Hos].
      * rewrite <- app_assoc in S2, S3, S4. cbn [app] in S2, S3, S4.
        eapply steps_trans; [exact S0|]. eapply steps_trans; [exact S1|].
        eapply steps_trans; [exact S2|]. eapply steps_trans; [exact S3|exact S4].
      * fold o. rewrite F4o, F3o. reflexivity.
Qed.

Theorem node_runs : forall k, P k.
Proof.
  induction k as [s i kids r HF] using node_ind'. unfold P. intros.
  cbn [nkids] in *. eapply kids_run; eauto.
Qed.

(* whole program: A runs the root; B is an idle server *)
Definition idle := {| stack := []; nseq := 0; inbox := [] |}.
Definition init (root:node) : sys :=
  mk (fun t => match t with SA => {| stack := [FRun None root (nkids root) 0]; nseq := 0; inbox := [] |} | SB => idle end)
     [nid root] None.

Theorem distributed_eq_local root :
  exists f' : side -> peer,
    steps (init root) (mk f' (fst (eval root)) (Some (snd (eval root)))) /\
    stack (f' SA) = [] /\ stack (f' SB) = [] /\ inbox (f' SA) = [] /\ inbox (f' SB) = [].
Proof.
  destruct (node_runs root None SA
     (fun t => match t with SA => {| stack := [FRun None root (nkids root) 0]; nseq := 0; inbox := [] |} | SB => idle end)
     [nid root] None []) as (f1 & S1 & A & B & C & D); try reflexivity.
  { split; [reflexivity| left; reflexivity]. }
  rewrite (eval_evalk root). destruct (evalk root (nkids root) 0) as [l o]. cbn [fst snd] in *.
  exists (upd f1 SA {| stack := []; nseq := nseq (f1 SA); inbox := [] |}). split; [|repeat split].
  - eapply steps_trans; [exact S1|]. apply step1 with (s:=SA). eapply st_root.
    rewrite (peer_eta (f1 SA)), A, B. reflexivity.
  - exact C.
  - exact D.
Qed.
Print Assumptions distributed_eq_local.
