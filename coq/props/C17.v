(* C17 — Closing a server ends all its clients; departed clients leave nothing behind.

   Reading guide (model/Server.v).  A state [s] is the server's bookkeeping (flags, Server.clients, the pool's fd_to_conn /
   poll set / queue / worker slots, the listener's queue) plus one record per client connection (stage, what the client
   sent and whether it left, whether the server shut its socket down, Connection._closed, on_disconnect counter, endpoint).
   [reach s]: s is reachable from the freshly started server by ANY history of events: clients connecting, sending ANY
   bytes, leaving gracefully or abruptly; the accept loop, per-client workers, the pool's poller and workers taking their
   steps in any order; close() at any point, any number of times.  [quiescent s]: no thread of the server can take a step.
   [decomp]/[decode] are zlib and the request decoder: arbitrary functions.  [K] is the configuration: kind of server,
   authenticator or not, service class or instance, pool size, batch size, and the three facts tools/pygen reads off
   rpyc/utils/server.py ([fx K]).  [close_reaches K] says whether close() reaches the connections being served: for the
   threaded and one-shot servers always, unless the authenticator replaces the socket and the worker does not re-register it
   (fact worker_tracks_served); by the generated facts for the thread pool and the forking server. *)
From V Require Import lib.Base model.Server proofs.ServerP proofs.ServerTie gen.Gen_server.

Section C17.
Variable decomp : list byte -> option (list byte).
Variable decode : list byte -> option req.
Variable K : cfg.
Notation step := (Server.step decomp decode K).
Notation reach := (Server.reach decomp decode K).
Notation quiescent := (Server.quiescent decomp decode K).

(* 1. close(), from any reachable state: the listener is closed and its queue reset, Server.clients is empty, and every
      connection that was being served (own worker, pool, inline authenticator) has had its socket shut down IN THAT STEP,
      so its client reads end-of-stream without any further step of the server *)
(* SCOPE (c17_close_ends_clients_partial in all but name): servers whose authenticator does NOT replace the accepted socket.  The model fixes a
   client's authentication behaviour when it connects and registers the served socket in one step with the end of authentication; it has no
   "the client finishes authenticating later" event and no handshake during which Server.clients holds only the detached original.  For
   socket-replacing authenticators (TLS) the behaviour is checked by the harness only: close() during the handshake misses the client
   (findings close-misses-client-in-authentication:*, close-leaves-client-connected:*:in-socket-replacing-handshake). *)
Theorem c17_close_ends_clients : forall s, reach s -> close_reaches K = true -> Server.accept_rechecks_closed (fx K) = true ->
  has_auth K && auth_replaces K = false ->
  let s' := server_close K s in
  step EClose s = Some s'
  /\ closed s' = true /\ active s' = false /\ lopen s' = false /\ clients s' = [] /\ backlog s' = []
  /\ forall c, serving (stg (conns s c)) = true -> shut (conns s' c) = true.
Proof. intros s R H _ _. split; [reflexivity|]. exact (close_ends_clients decomp decode K s R H). Qed.
(* The hypothesis on accept: the transition system takes accept() as ONE step.  That is faithful on a tree whose accept looks at _closed
   again after clients.add(sock): whichever way a concurrent close() interleaves, the socket is closed by one of the two
   (c17_accept_close_race_harmless).  On a tree without the re-check a close() that runs between the `active` test and clients.add
   misses the socket: c17_accept_close_race_refuted. *)
Theorem c17_accept_close_race_harmless : forall s c, Server.accept_rechecks_closed (fx K) = true -> closed s = true ->
  let s' := late_register K c s in
  clients s' = clients s /\ closed s' = true /\ shut (conns s' c) = true /\ stg (conns s' c) = Finished
  /\ forall x, x <> c -> conns s' x = conns s x.
Proof. exact (late_register_harmless K). Qed.
Theorem c17_accept_close_race_refuted : kind K = Threaded -> Server.accept_rechecks_closed (fx K) = false ->
  let s0 := server_close K (with_backlog (w_connected K 1 AuthOk) []) in       (* the listener handed connection 1 out, then close() ran *)
  let s := late_register K 1 s0 in
  closed s = true /\ active s = false /\ clients s = [1] /\ stg (conns s 1) = Own /\ shut (conns s 1) = false.
Proof. exact (accept_close_race_refuted K). Qed.

(* 1'. each service's disconnect hook: never more than once; after close() no worker is blocked, and once the server's
       threads have nothing left to do nobody is being served and every connection that got a service instance has run
       its hook exactly once *)
Theorem c17_hook_at_most_once : forall s, reach s -> forall c,
  hooks (conns s c) <= 1 /\ (hooks (conns s c) = 1 <-> cclosed (conns s c) = true).
Proof. exact (hook_at_most_once decomp decode K). Qed.
Theorem c17_after_close_workers_not_blocked : forall s, reach s -> closed s = true -> close_reaches K = true ->
  forall c, stg (conns s c) = Own \/ stg (conns s c) = Authing -> exists s', step (EWork c) s = Some s'.
Proof. exact (closed_workers_not_blocked decomp decode K). Qed.
Theorem c17_after_close_hooks_ran : forall s, reach s -> closed s = true -> close_reaches K = true -> quiescent s ->
  forall c, serving (stg (conns s c)) = false
            /\ (authd (conns s c) = true -> hooks (conns s c) = 1 /\ stg (conns s c) = Finished).
Proof. exact (closed_and_quiet decomp decode K). Qed.

(* SCOPE: the model's initial state is the STARTED server; close() on a server that was created and never started is outside it
   (the thread pool raises AttributeError there: finding close-before-start-raises:pool:AttributeError, harness only). *)
(* 2. closing twice is harmless: close() is always enabled and the second one is the identity *)
Theorem c17_close_idempotent : forall s,
  step EClose s = Some (server_close K s) /\ server_close K (server_close K s) = server_close K s.
Proof. intros s. split; [reflexivity|apply close_idempotent]. Qed.

(* 3. departed clients leave nothing behind.  While the server runs: when its threads have nothing left to do, a client
      that has left is in no table.  (Server.clients of the thread pool: on a tree whose _accept_method discards the socket
      of a failed authentication; the pool's own tables: provided no worker thread has died and a worker is idle or the queue
      is empty -- a pool whose workers all sit in unfinished reads, or whose workers were killed, is C16's business.)  After close(): the tables close() is responsible for are empty. *)
Theorem c17_no_residue : forall s, reach s -> active s = true -> quiescent s ->
  forall c, gone (conns s c) = true ->
    stg (conns s c) <> Own /\ stg (conns s c) <> Authing
    /\ (clients_guard K -> mem c (clients s) = false)
    /\ (no_dead_worker s -> pool_has_idle_worker s \/ queue s = [] ->
        stg (conns s c) <> Pooled /\ mem c (fdmap s) = false /\ mem c (pollset s) = false /\ mem c (queue s) = false
        /\ cnt c (held s) = 0).
Proof. exact (no_residue_running decomp decode K). Qed.
Theorem c17_no_residue_closed : forall s, reach s -> closed s = true -> Server.accept_rechecks_closed (fx K) = true ->
  clients s = [] /\ backlog s = [] /\ (pool_fix K = true -> fdmap s = [] /\ pollset s = []) /\ active s = false /\ lopen s = false.
Proof. intros s R Hc _. exact (no_residue_closed decomp decode K s R Hc). Qed.
(* SCOPE: the model identifies a pooled connection with its table key, and keys are never reused.  The code keys its tables by descriptor
   NUMBER, which the kernel reuses; the identification is faithful on a tree whose _serve_requests drops a connection only if the table still
   holds THAT connection (translator fact pool_drop_checks_identity; otherwise finding good-client-dropped:pool:descriptor-number-reused,
   found by the harness op `hookhold`), and whose worker serves descriptor 0 like any other (fact pool_serves_fd_zero). *)
(* the pool's tables are consistent in every reachable running state: a registered descriptor is in exactly one of
   poll set / queue / a worker's hands, and nothing else is anywhere *)
Theorem c17_pool_single_owner : forall s, reach s -> active s = true ->
  forall c, cnt c (pollset s) + cnt c (queue s) + cnt c (held s) = if mem c (fdmap s) then 1 else 0.
Proof. intros s R A c. destruct (inv_reach decomp decode K s R) as (_ & _ & I3). exact (I3 A c). Qed.

(* 4. a one-shot server accepts at most one connection, no second accept is ever enabled, and it is closed as soon as
      that connection's worker has finished *)
Theorem c17_oneshot : forall s, kind K = OneShot -> reach s ->
  List.length (accepted s) <= 1
  /\ (accepted s <> [] -> step EAccept s = None)
  /\ (forall c, In c (accepted s) -> stg (conns s c) = Finished -> closed s = true /\ active s = false /\ lopen s = false).
Proof. exact (oneshot_serves_one decomp decode K). Qed.
(* ... and it does accept that one connection: a fresh one-shot server with a connection queued takes it.  (A first client that then
   fails authentication IS the one connection: the server closes after it, like after any other.) *)
Theorem c17_oneshot_accepts_first : forall s, kind K = OneShot -> reach s -> accepted s = [] -> closed s = false -> backlog s <> [] ->
  exists s', step EAccept s = Some s' /\ List.length (accepted s') = 1.
Proof. exact (oneshot_accepts_first decomp decode K). Qed.

(* Refutations: on a tree where close() does not reach the served connections, the history [connect; accept; close]
   ends in a closed, quiescent server whose client is still being served: socket never shut down, hook not run. *)
Theorem c17_close_ends_clients_refuted_pool : kind K = Pool -> Server.pool_close_drops (fx K) = false ->
  exists s, exec decomp decode K [EConnect 1 AuthOk; EAccept; EClose] (init K) = Some s
    /\ closed s = true /\ quiescent s
    /\ stg (conns s 1) = Pooled /\ shut (conns s 1) = false /\ gone (conns s 1) = false
    /\ authd (conns s 1) = true /\ hooks (conns s 1) = 0 /\ mem 1 (fdmap s) = true.
Proof. exact (close_refuted_pool decomp decode K). Qed.
Theorem c17_close_ends_clients_refuted_forking : kind K = Forking -> Server.fork_parent_keeps (fx K) = false -> has_auth K = false ->
  exists s, exec decomp decode K [EConnect 1 AuthOk; EAccept; EWork 1; EClose] (init K) = Some s
    /\ closed s = true /\ quiescent s
    /\ stg (conns s 1) = Own /\ shut (conns s 1) = false /\ gone (conns s 1) = false
    /\ authd (conns s 1) = true /\ hooks (conns s 1) = 0.
Proof. exact (close_refuted_forking decomp decode K). Qed.
(* an authenticator that returns another socket object (TLS): unless the worker re-registers the socket it serves, Server.clients is left
   with the dead original and close() reaches nothing *)
Theorem c17_close_ends_clients_refuted_wrapping_auth : kind K = Threaded -> has_auth K = true -> auth_replaces K = true ->
  Server.worker_tracks_served (fx K) = false ->
  exists s, exec decomp decode K [EConnect 1 AuthOk; EAccept; EWork 1; EClose] (init K) = Some s
    /\ closed s = true /\ quiescent s
    /\ stg (conns s 1) = Own /\ shut (conns s 1) = false /\ gone (conns s 1) = false
    /\ authd (conns s 1) = true /\ hooks (conns s 1) = 0.
Proof. exact (close_refuted_wrapping_auth decomp decode K). Qed.
Theorem c17_no_residue_refuted_pool_clients : kind K = Pool -> Server.pool_fail_discards (fx K) = false -> has_auth K = true ->
  exists s, exec decomp decode K [EConnect 1 AuthFail; EAccept; ELeave 1 false] (init K) = Some s
    /\ active s = true /\ quiescent s /\ gone (conns s 1) = true /\ mem 1 (clients s) = true.
Proof. exact (residue_refuted_pool decomp decode K). Qed.
End C17.
Print Assumptions c17_close_ends_clients.
Print Assumptions c17_hook_at_most_once.
Print Assumptions c17_after_close_workers_not_blocked.
Print Assumptions c17_after_close_hooks_ran.
Print Assumptions c17_close_idempotent.
Print Assumptions c17_no_residue.
Print Assumptions c17_no_residue_closed.
Print Assumptions c17_pool_single_owner.
Print Assumptions c17_oneshot.
Print Assumptions c17_close_ends_clients_refuted_pool.
Print Assumptions c17_close_ends_clients_refuted_forking.
Print Assumptions c17_no_residue_refuted_pool_clients.
Print Assumptions c17_accept_close_race_harmless.
Print Assumptions c17_accept_close_race_refuted.
Print Assumptions c17_oneshot_accepts_first.
Print Assumptions c17_close_ends_clients_refuted_wrapping_auth.

(* The model is the one the current source was translated to: control skeletons and facts (proofs/ServerTie.v). *)
Theorem c17_program_is_current :
  Gen_server.close_prog = Server.close_prog /\ Gen_server.accept_prog = Server.accept_prog_of Gen_server.accept_survives_oserror Gen_server.accept_rechecks_closed Gen_server.accept_survives_spawn_failure
  /\ Gen_server.worker_prog = Server.worker_prog_of Gen_server.worker_tracks_served /\ Gen_server.oneshot_prog = Server.oneshot_prog
  /\ Gen_server.threaded_prog = Server.threaded_prog /\ Gen_server.forking_prog = Server.forking_prog
  /\ (exists before, Gen_server.pool_close_prog = Server.pool_close_prog_of before Gen_server.pool_close_drops)
  /\ Gen_server.pool_accept_prog = Server.pool_accept_prog_of Gen_server.pool_fail_discards
  /\ Gen_server.drop_prog = Server.drop_prog /\ Gen_server.poll_result_prog = Server.poll_result_prog
  /\ Gen_server.serve_requests_prog = Server.serve_requests_prog_of Gen_server.pool_catches_base
  /\ Gen_server.conn_close_guarded = true /\ Gen_server.cleanup_runs_hook = true /\ Gen_server.serve_all_closes_in_finally = true.
Proof.
  pose proof tie_base_progs. pose proof tie_accept_methods. pose proof tie_pool_progs. pose proof tie_endpoint_facts.
  pose proof tie_pool_close. pose proof tie_pool_accept. intuition.
Qed.
Print Assumptions c17_program_is_current.

(* what the theorems say about THIS tree: which servers' close() reaches the clients *)
Definition this_tree (k : skind) : cfg :=
  {| kind := k; fx := gen_facts; has_auth := false; class_svc := true; nworkers := 2; batch := 10; auth_replaces := false |}.
Theorem c17_this_tree_threaded_oneshot : close_reaches (this_tree Threaded) = true /\ close_reaches (this_tree OneShot) = true.
Proof. split; reflexivity. Qed.
Print Assumptions c17_this_tree_threaded_oneshot.

(* ---- non-vacuity ---- *)
Definition no_z (b : list byte) : option (list byte) := None.
Definition no_d (b : list byte) : option req := None.
Definition KT (k : skind) (fix_ : bool) : cfg :=
  {| kind := k; fx := {| Server.pool_close_drops := fix_; Server.pool_fail_discards := fix_; Server.fork_parent_keeps := false; Server.pool_catches_base := false;
             Server.worker_tracks_served := false; Server.accept_survives_oserror := false; Server.accept_rechecks_closed := false;
             Server.accept_survives_spawn_failure := false |};
     has_auth := false; class_svc := true; nworkers := 2; batch := 10; auth_replaces := false |}.
Definition runx (K : cfg) (l : list event) : option st := exec no_z no_d K l (init K).

(* threaded: two clients are served, one leaves, close(): the other one is shut down at once; after the workers' steps
   both hooks have run once and nothing is left *)
Example c17_threaded_history :
  match runx (KT Threaded false) [EConnect 1 AuthOk; EConnect 2 AuthOk; EAccept; EAccept; EWork 1; EWork 2; ELeave 1 false; EWork 1; EClose] with
  | Some s => closed s = true /\ clients s = [] /\ shut (conns s 2) = true /\ hooks (conns s 1) = 1 /\ hooks (conns s 2) = 0
              /\ stg (conns s 2) = Own
              /\ match step no_z no_d (KT Threaded false) (EWork 2) s with
                 | Some s' => hooks (conns s' 2) = 1 /\ stg (conns s' 2) = Finished
                 | None => False
                 end
  | None => False
  end.
Proof. vm_compute. repeat split. Qed.
(* thread pool with the repaired close(): the served connection is closed by close() itself *)
Example c17_pool_fixed_history :
  match runx (KT Pool true) [EConnect 1 AuthOk; EAccept; EClose; EClose] with
  | Some s => closed s = true /\ fdmap s = [] /\ pollset s = [] /\ shut (conns s 1) = true /\ hooks (conns s 1) = 1 /\ stg (conns s 1) = Finished
  | None => False
  end.
Proof. vm_compute. repeat split. Qed.
(* thread pool: a client leaves; poller, worker: its descriptor is gone from every table *)
Example c17_pool_leave_history :
  match runx (KT Pool false) [EConnect 1 AuthOk; EAccept; ELeave 1 false; EPoll 1 false; ETake 0; EServe 0] with
  | Some s => active s = true /\ fdmap s = [] /\ pollset s = [] /\ queue s = [] /\ workers s = [None; None] /\ hooks (conns s 1) = 1
  | None => False
  end.
Proof. vm_compute. repeat split. Qed.
(* one-shot: the second client is never accepted; the server closes itself when the first one has left *)
Example c17_oneshot_history :
  match runx (KT OneShot false) [EConnect 1 AuthOk; EConnect 2 AuthOk; EAccept; EWork 1; ELeave 1 false] with
  | Some s => step no_z no_d (KT OneShot false) EAccept s = None
              /\ match step no_z no_d (KT OneShot false) (EWork 1) s with
                 | Some s' => closed s' = true /\ accepted s' = [1] /\ hooks (conns s' 1) = 1 /\ shut (conns s' 2) = true
                 | None => False
                 end
  | None => False
  end.
Proof. vm_compute. repeat split. Qed.
