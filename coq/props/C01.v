(* C01 — Remote calls compute what a local call would, at any nesting depth.
   Programs are arbitrary finite call trees over two peers: each node runs on one peer, calls its children in order (each on
   either peer, so callbacks nest in both directions to any depth), may catch a child's failure, and finally returns a value
   computed from its children's results or raises.  [eval] is the one-process semantics; the machine is rpyc's: request and
   reply frames with sequence numbers, a waiting caller that serves incoming requests re-entrantly, an idle serving loop.
   PARTIAL in one respect, stated openly: values are natural numbers here; that arguments and results of every shape cross
   unchanged (immutables) or as references to the same object (everything else) is C03/C04's theorems plus this check's
   differential run, not part of this model. *)
(* SCOPE. In the model an exception has one class and a call site either catches every failure of its callee or none. What the
   model therefore does not say: (a) class-selective catching of exception classes that do not cross unchanged (user-defined classes
   under the default configuration are replaced by a generic stand-in: C09's gating clause; for C01 that is known finding F46, found
   by the harness's second phase); (b) that a result/argument of any SHAPE is the same value or a reference to the same object
   (C03/C04; run differentially here); (c) the machine's waits have no expiry: the real sync_request_timeout (30 s by default) turns a
   callee that runs longer into a TimeoutError at the caller (timeouts are C15's). *)
From V Require Import lib.Base model.CallTree proofs.CallTreeP proofs.CallTreeTie gen.Gen_calls.
From Coq Require Import Relations.

(* 1. for every call tree the two-peer machine reaches a quiescent state — both stacks and both inboxes empty — whose result
      and whose sequence of node invocations are exactly those of the local evaluation *)
Theorem c01_dist_eq_local_partial : forall root, exists f' : side -> peer,
  steps (init root) (mk f' (fst (eval root)) (Some (snd (eval root)))) /\
  stack (f' SA) = [] /\ stack (f' SB) = [] /\ inbox (f' SA) = [] /\ inbox (f' SB) = [].
Proof. exact distributed_eq_local. Qed.
Print Assumptions c01_dist_eq_local_partial.

(* 2. and that is what EVERY execution does, whatever the interleaving of the two peers: any reachable state that holds a result
      holds the local result, with the invocation log of the local evaluation (each node invoked exactly once, in the same
      order, the exception raised at one level surfacing exactly where the local run catches or propagates it) *)
Theorem c01_every_execution : forall root y o, steps (init root) y -> result y = Some o ->
  o = snd (eval root) /\ log y = fst (eval root).
Proof. exact every_execution_is_local. Qed.
Print Assumptions c01_every_execution.

(* 3. no execution deadlocks or diverges before the result is delivered *)
Theorem c01_no_deadlock : forall root y, steps (init root) y -> result y = None ->
  (exists y', step y y') /\ exists f', steps y (mk f' (fst (eval root)) (Some (snd (eval root)))).
Proof. exact no_deadlock_before_result. Qed.
Print Assumptions c01_no_deadlock.

(* 4. at most one peer can move at any time, and its move is determined (the machine is sequential, like the local run) *)
Theorem c01_deterministic : forall root y y1 y2, steps (init root) y -> step y y1 -> step y y2 -> y1 = y2.
Proof. intros root y y1 y2 H. apply step_functional. eapply tok2_steps; [apply tok2_init|exact H]. Qed.
Print Assumptions c01_deterministic.

(* 5. the extracted runner used by the harness performs steps of this machine *)
Theorem c01_runner_is_the_machine : forall fuel y, steps y (exec fuel y).
Proof. exact exec_steps. Qed.
Print Assumptions c01_runner_is_the_machine.

(* 6. tie: the call path of the source (netref call -> sync request = async request + value; value waits by serving; the handler
      applies the target once with the positional and keyword arguments) *)
Theorem c01_tie : Gen_calls.sync_request_is_async_value = true /\ Gen_calls.handle_call_applies_target_once = true
  /\ Gen_calls.handle_callattr_is_getattr_then_call = true /\ Gen_calls.netref_call_sends_args_and_kwargs_items = true
  /\ Gen_calls.value_waits_then_returns_or_raises = true /\ Gen_calls.wait_serves_while_waiting = true.
Proof. exact tie_calls. Qed.
Print Assumptions c01_tie.

(* non-vacuity: A calls B, which calls back into A twice (one callback raises and is caught on B), then A calls a local child
   that raises uncaught: the machine's result and log equal the local ones *)
Definition sample : node :=
  Node SA 1 [(Node SB 2 [(Node SA 3 [] false, false); (Node SA 4 [(Node SB 5 [] true, false)] false, true)] false, false);
             (Node SA 6 [] true, false)] false.
Example c01_sample : let y := exec 200 (init sample) in
  result y = Some (snd (eval sample)) /\ log y = fst (eval sample) /\ snd (eval sample) = Exc 6 /\ fst (eval sample) = [1; 2; 3; 4; 5; 6].
Proof. vm_compute. repeat split. Qed.
