(* C01 — Remote calls compute what a local call would, at any nesting depth.
   Programs are arbitrary finite call trees over two peers: each node runs on one peer, calls its children in order (each on
   either peer, so callbacks nest in both directions to any depth), may catch a child's failure, and finally returns a value
   computed from its children's results or raises.  [eval] is the one-process semantics; the machine is rpyc's: request and
   reply frames with sequence numbers, a waiting caller that serves incoming requests re-entrantly, an idle serving loop.
   PARTIAL in one respect, stated openly: values are natural numbers here; that arguments and results of every shape cross
   unchanged (immutables) or as references to the same object (everything else) is C03/C04's theorems plus this check's
   differential run, not part of this model. *)
(* SCOPE. An exception in the model is the raiser's number plus the ancestry of its class; a call site catches everything, nothing, or
   the classes it names (Python's isinstance test on the ancestry). What the connection does to the class of a failure that crosses
   it is the parameter [xw]: the theorems hold for EVERY xw with the evaluation "seen through the connection" (evalroot xw), and for
   an xw that reproduces classes (the identity: builtin classes always, user-defined ones when the configuration lets the receiver
   rebuild them - C09) that evaluation is the one-process evaluation. Under the default configuration a user-defined class arrives as
   a stand-in: class-selective catching then differs from the local run (c01_selective_catch_refuted_when_class_replaced; known
   finding F46, produced for real by the harness's second phase, whose trees are now run through the model with the table of the
   configuration in force). [xw] is one function per RECEIVING peer (what a class becomes depends on the receiver's configuration), so
   connections whose ends are configured differently are instances too (the harness generates them: c01_asymmetric_sample is one). Classes
   the code never sends back at all
   are excluded: KeyboardInterrupt (and SystemExit when configured so) raised by a callee is re-raised in the callee's serving
   thread instead of being answered (propagate_*_locally: known finding F26 under C08) and exception groups are not rebuilt (F10
   under C09) - the machine answers every request, so a tree raising those is not described by these theorems; the harness does
   not generate them. Still outside the model: (b) that a result/argument of any SHAPE is the same value or a reference to the
   same object (C03/C04; run differentially here); (c) the machine's waits have no expiry: the real sync_request_timeout (30 s by
   default) turns a callee that runs longer into a TimeoutError at the caller (timeouts are C15's). *)
From V Require Import lib.Base model.CallTree proofs.CallTreeP proofs.CallTreeTie gen.Gen_calls.
From Coq Require Import Relations.

(* 0. for EVERY behaviour xw of the connection towards exception classes and every call tree, the two-peer machine reaches a
      quiescent state - both stacks and both inboxes empty - whose result and sequence of node invocations are those of the
      evaluation seen through the connection; every execution that delivers a result delivers that one; none deadlocks or diverges *)
Theorem c01_machine_is_evaluation_through_connection : forall xw root,
  (exists f' : side -> peer,
     steps xw (init root) (mk f' (fst (evalroot xw root)) (Some (snd (evalroot xw root)))) /\
     stack (f' SA) = [] /\ stack (f' SB) = [] /\ inbox (f' SA) = [] /\ inbox (f' SB) = [])
  /\ (forall y o, steps xw (init root) y -> result y = Some o -> o = snd (evalroot xw root) /\ log y = fst (evalroot xw root))
  /\ (forall y, steps xw (init root) y -> result y = None ->
        (exists y', step xw y y') /\ exists f', steps xw y (mk f' (fst (evalroot xw root)) (Some (snd (evalroot xw root))))).
Proof.
  intros xw root. split; [apply distributed_eq_local|split].
  - intros y o. apply every_execution_is_local.
  - intros y. apply no_deadlock_before_result.
Qed.
Print Assumptions c01_machine_is_evaluation_through_connection.

Section ClassesReproduced.
Variable xw : side -> list nat -> list nat.
Hypothesis reproduced : forall t m, xw t m = m.

(* 1. when the connection reproduces exception classes: for every call tree - any exception classes, any class-selective catching at
      any level - the two-peer machine reaches a quiescent state whose result and whose sequence of node invocations are exactly
      those of the local evaluation *)
Theorem c01_dist_eq_local_partial : forall root, exists f' : side -> peer,
  steps xw (init root) (mk f' (fst (eval root)) (Some (snd (eval root)))) /\
  stack (f' SA) = [] /\ stack (f' SB) = [] /\ inbox (f' SA) = [] /\ inbox (f' SB) = [].
Proof. exact (distributed_eq_local_id xw reproduced). Qed.

(* 2. and that is what EVERY execution does, whatever the interleaving of the two peers: any reachable state that holds a result
      holds the local result, with the invocation log of the local evaluation (each node invoked exactly once, in the same
      order, the exception raised at one level surfacing exactly where the local run catches or propagates it) *)
Theorem c01_every_execution : forall root y o, steps xw (init root) y -> result y = Some o ->
  o = snd (eval root) /\ log y = fst (eval root).
Proof. exact (every_execution_is_local_id xw reproduced). Qed.

(* 3. no execution deadlocks or diverges before the result is delivered *)
Theorem c01_no_deadlock : forall root y, steps xw (init root) y -> result y = None ->
  (exists y', step xw y y') /\ exists f', steps xw y (mk f' (fst (eval root)) (Some (snd (eval root)))).
Proof. exact (no_deadlock_before_result_id xw reproduced). Qed.
End ClassesReproduced.
Print Assumptions c01_dist_eq_local_partial.
Print Assumptions c01_every_execution.
Print Assumptions c01_no_deadlock.

(* 1b. when a class is NOT reproduced (the default configuration replaces a user-defined class by a stand-in derived from Exception):
      a call site that names the class catches the failure in one process and misses it across the connection. Classes: 0 BaseException,
      1 Exception, 5 a user-defined subclass of Exception, 8 its stand-in, 9 the stand-in's generic base. *)
Definition default_table : list (nat * list nat) := [(5, [8; 9; 1; 0])].
Definition selective : node := Node SA 1 [(Node SB 2 [] [5; 1; 0], CatchOnly [5])] [].
Theorem c01_selective_catch_refuted_when_class_replaced :
  eval selective = ([1; 2], Val 1) /\ evalroot (fun _ => xw_table default_table) selective = ([1; 2], Exc (2, [8; 9; 1; 0]))
  /\ result (exec (fun _ => xw_table default_table) 50 (init selective)) = Some (Exc (2, [8; 9; 1; 0]))
  /\ (* a site naming Exception still catches it *)
     evalroot (fun _ => xw_table default_table) (Node SA 1 [(Node SB 2 [] [5; 1; 0], CatchOnly [1])] []) = ([1; 2], Val 1).
Proof. vm_compute. repeat split. Qed.
Print Assumptions c01_selective_catch_refuted_when_class_replaced.

(* 4. at most one peer can move at any time, and its move is determined (the machine is sequential, like the local run) *)
Theorem c01_deterministic : forall xw root y y1 y2, steps xw (init root) y -> step xw y y1 -> step xw y y2 -> y1 = y2.
Proof. intros xw root y y1 y2 H. apply step_functional. eapply tok2_steps; [apply tok2_init|exact H]. Qed.
Print Assumptions c01_deterministic.

(* 5. the extracted runner used by the harness performs steps of this machine *)
Theorem c01_runner_is_the_machine : forall xw fuel y, steps xw y (exec xw fuel y).
Proof. exact exec_steps. Qed.
Print Assumptions c01_runner_is_the_machine.

(* 6. tie: the call path of the source (netref call -> sync request = async request + value; value waits by serving; the handler
      applies the target once with the positional and keyword arguments) *)
Theorem c01_tie : Gen_calls.sync_request_is_async_value = true /\ Gen_calls.handle_call_applies_target_once = true
  /\ Gen_calls.handle_callattr_is_getattr_then_call = true /\ Gen_calls.netref_call_sends_args_and_kwargs_items = true
  /\ Gen_calls.value_waits_then_returns_or_raises = true /\ Gen_calls.wait_serves_while_waiting = true.
Proof. exact tie_calls. Qed.
Print Assumptions c01_tie.

(* non-vacuity: A calls B, which calls back into A twice (one callback raises a KeyError-like class [4;3;1;0] and is caught on B by a
   site naming its base 3), then A calls a local child that raises a ValueError-like class uncaught by a site naming 4: the machine's
   result and log equal the local ones *)
Definition sample : node :=
  Node SA 1 [(Node SB 2 [(Node SA 3 [] [], CatchOnly []); (Node SA 4 [(Node SB 5 [] [4; 3; 1; 0], CatchOnly [2])] [], CatchOnly [3])] [], CatchOnly []);
             (Node SA 6 [] [2; 1; 0], CatchOnly [4])] [].
Example c01_sample : let y := exec (fun _ m => m) 200 (init sample) in
  result y = Some (snd (eval sample)) /\ log y = fst (eval sample) /\ snd (eval sample) = Exc (6, [2; 1; 0]) /\ fst (eval sample) = [1; 2; 3; 4; 5; 6].
Proof. vm_compute. repeat split. Qed.
(* non-vacuity for differently configured ends: A (default) does not reproduce the user-defined class 5, B does. B's failure caught by
   A's site naming 5 is missed (A receives the stand-in), A's failure caught by B's site naming 5 is caught (B reproduces it) *)
Example c01_asymmetric_sample :
  let xw := fun t => match t with SA => xw_table default_table | SB => fun m => m end in
  evalroot xw (Node SA 1 [(Node SB 2 [] [5; 1; 0], CatchOnly [5])] []) = ([1; 2], Exc (2, [8; 9; 1; 0]))
  /\ evalroot xw (Node SA 1 [(Node SB 2 [(Node SA 3 [] [5; 1; 0], CatchOnly [5])] [], CatchOnly [])] []) = ([1; 2; 3], Val 3)
  /\ result (exec xw 80 (init (Node SA 1 [(Node SB 2 [(Node SA 3 [] [5; 1; 0], CatchOnly [5])] [], CatchOnly [])] []))) = Some (Val 3).
Proof. vm_compute. repeat split. Qed.
