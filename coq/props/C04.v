(* C04 — The value serializer is lossless and exact about what it accepts.
   Only statements, [exact]s and Print Assumptions live here. *)
From V Require Import lib.Base lib.Utf8 model.Ladder model.Brine proofs.BrineP proofs.BrineTie gen.Gen_brine.
Open Scope N_scope.

(* 1. every well-formed value the predicate accepts is encoded, and decoding returns exactly it,
      whatever follows it in the stream and at any nesting depth *)
Theorem c04_roundtrip : forall P v, wf P v = true -> dumpable v = true -> text_ok P v = true ->
  exists bs, dump P v = Ok bs /\ load P bs = Ok v /\
    forall rest f, (depth v <= f)%nat -> load_f P f (bs ++ rest) = Ok (v, rest).
Proof.
  intros P v Hw Hd Ht. destruct (load_dump P v Hw Hd Ht) as (bs & E & L). exists bs. repeat split; auto.
  intros rest f Hf. destruct (roundtrip_rt P v Hw Hd Ht f Hf) as (bs' & E' & _ & H). rewrite E in E'. injection E' as <-. apply H.
Qed.
Print Assumptions c04_roundtrip.

(* 2. predicate and encoder agree: accepted => encodes; rejected => TypeError *)
Theorem c04_decision_exact : forall P v, wf P v = true -> text_ok P v = true ->
  (dumpable v = true -> exists bs, dump P v = Ok bs) /\ (dumpable v = false -> dump P v = Raise TypeError).
Proof. exact decision_exact. Qed.
Print Assumptions c04_decision_exact.

(* 2'. on a tree whose text codec is strict the agreement fails for lone surrogates (finding F1);
       on a tree with surrogatepass [text_ok] is vacuous and 2 covers every well-formed value *)
Theorem c04_decision_exact_refuted_when_strict : forall P, sp P = false ->
  exists v, wf P v = true /\ dumpable v = true /\ dump P v = Raise UnicodeError.
Proof. exact decision_exact_refuted. Qed.
Print Assumptions c04_decision_exact_refuted_when_strict.

Theorem c04_text_ok_when_surrogatepass : forall P v, sp P = true -> text_ok P v = true.
Proof. intros P v H. unfold text_ok. now rewrite H. Qed.
Print Assumptions c04_text_ok_when_surrogatepass.

(* 3. decoding arbitrary bytes yields, if anything, only immutable plain values *)
Theorem c04_decode_safe : forall P bs v, load P bs = Ok v -> dumpable v = true.
Proof.
  intros P bs v. unfold load. destruct (load_f P (S (length bs)) bs) as [[v' r]| | |] eqn:E; cbn [bind]; try discriminate.
  intros [= <-]. exact (load_safe P _ _ _ _ E).
Qed.
Print Assumptions c04_decode_safe.

(* 3'. decoding arbitrary bytes always ends with a definite outcome — a value or an exception; the model's fuel (which only bounds
       nesting depth, never above the number of bytes) is never exhausted *)
Theorem c04_decode_total : forall P bs, load P bs <> OutOfFuel.
Proof. exact load_total. Qed.
Print Assumptions c04_decode_total.

(* 4. tie to the generated facts of the current source tree *)
Theorem c04_tie :
  Gen_brine.bytes_ladder = Brine.str_ladder /\ Gen_brine.tuple_ladder = Brine.tup_ladder /\ Gen_brine.int_ladder = Brine.int_ladder
  /\ Gen_brine.imm_lo = Brine.IMM_LO /\ Gen_brine.imm_hi = Brine.IMM_HI /\ Gen_brine.imm_off = Brine.IMM_OFF
  /\ Gen_brine.str_encode_surrogatepass = Gen_brine.str_decode_surrogatepass
  /\ length Gen_brine.all_tags = 26%nat /\ length Gen_brine.dump_types = 12%nat /\ length Gen_brine.load_tags = 26%nat.
Proof.
  pose proof tie_ladders as (A & B & C). pose proof tie_imm as (D & E & F). pose proof tie_tags as T.
  pose proof tie_dump_types as DT. pose proof tie_load_tags as LT. pose proof tie_simple_types. pose proof tie_structs. pose proof tie_ladder_tags.
  repeat split; auto; try exact tie_utf8_mode; try (now rewrite T); try (now rewrite DT); now rewrite LT.
Qed.
Print Assumptions c04_tie.

(* non-vacuity: a nested value with a 256-element tuple, a long integer, NaN with payload, -0.0, text, slice, frozenset *)
Definition sample : pyval :=
  PTuple [PTuple (repeat (PInt 7) 256); PInt (10 ^ 255); PFloat [x7f; xf8; x00; x00; x00; x00; x01; x23];
          PFloat [x80; x00; x00; x00; x00; x00; x00; x00]; PStr [0x20ac; 0x10ffff; 0x41];
          PSlice PNone (PInt (-49)) (PBytes [x00; xff]); PFset [PBool true; PEllipsis; PNotImpl]; PComplex (repeat x00 16)].
Example c04_sample_meets_hypotheses :
  wf (Pgen 4300) sample = true /\ dumpable sample = true /\ text_ok (Pgen 4300) sample = true /\
  match dump (Pgen 4300) sample with Ok bs => load (Pgen 4300) bs | _ => Raise OtherError end = Ok sample.
Proof. vm_compute. repeat split. Qed.
