(* C16 — A server keeps serving good clients correctly whatever bad clients do.

   Reading guide: see props/C17.v for the model (model/Server.v).  A client's traffic is [ESend c bs] with ANY byte string
   [bs], at any time, any number of times, and [ELeave c abrupt] at any point; what a reader makes of the bytes in a
   connection's buffer is [next_input]: a complete frame carrying a request ([NReq]), a complete frame that raises (garbage
   payload, corrupt compressed data: [NBad]), an empty payload ([NNop]), an incomplete frame -- truncated, absurd length,
   fewer than five bytes -- on which the reader BLOCKS ([NBlock]), or nothing.  [decomp] and [decode] (zlib, brine + dispatch)
   are arbitrary functions.  Authentication behaviour of a client: pass, fail, never finish.
   Each connection record carries its endpoint: the service instance made for it (class registered) and its table of exported
   objects; [ep_of c l] is the pure semantics of an endpoint that served the requests [l]. *)
From V Require Import lib.Base lib.Sx model.Server proofs.ServerP proofs.ServerTie gen.Gen_server.

Section C16.
Variable decomp : list byte -> option (list byte).
Variable decode : list byte -> option req.
Variable K : cfg.
Notation step := (Server.step decomp decode K).
Notation reach := (Server.reach decomp decode K).
Notation reach_by := (Server.reach_by decomp decode K).
Notation next_input := (Server.next_input decomp decode).

(* SCOPE of 1(a) and 3 for the thread pool: connections are identified with their table keys, which the model never reuses (see the SCOPE note
   at c17_pool_single_owner: descriptor-number reuse is checked by the harness op `hookhold`).  2(a): [EAcceptFail] is an error of
   listener.accept(); [ESpawnFail] is the failure to START the worker for an accepted client (spawn / os.fork at the thread or process
   limit: harness op `nospawn`, finding accept-loop-ended-on-spawn-failure:threaded, fact accept_survives_spawn_failure). *)
(* 1. isolation.  (a) Nothing a client does, and nothing the server does on behalf of that client -- accepting it, serving,
      failing, dropping it -- changes the record (service instance, table, buffers, replies) of any OTHER connection. *)
Theorem c16_isolation_noninterference : forall s e s', kind K <> OneShot -> e <> EClose -> e <> EAcceptFail ->
  (e = ESpawnFail -> Server.accept_survives_spawn_failure (fx K) = true) -> step e s = Some s' ->
  forall x, subject s e <> Some x -> conns s' x = conns s x.
Proof. exact (noninterference decomp decode K). Qed.
(*    (b) With a service class registered, a connection's service instance, table and replies are a function of the
      requests served on that very connection. *)
Theorem c16_isolation_endpoint : forall s, class_svc K = true -> reach s ->
  forall c, (own (conns s c), table (conns s c), out (conns s c)) = ep_of K c (hist (conns s c)).
Proof. exact (endpoint_is_function_of_own_requests decomp decode K). Qed.
(*    (c) The endpoint changes only by serving a request decoded from that connection's own buffer. *)
Theorem c16_isolation_own_bytes : forall s e s', step e s = Some s' ->
  forall x, ep4 (conns s' x) = ep4 (conns s x)
            \/ exists q rest, next_input (inb (conns s x)) = NReq q rest /\ ep4 (conns s' x) = ep4 (served_conn K s x q rest).
Proof. exact (step_ep decomp decode K). Qed.
(*    (d) References never leak: a connection resolves only ids it was itself given in a reply, and (class registered) an id
      harvested on another connection never resolves. *)
Theorem c16_only_given_ids_resolve : forall s, reach s -> forall x o, omem o (table (conns s x)) = true -> In (POid o) (out (conns s x)).
Proof. exact (only_given_ids_resolve decomp decode K). Qed.
Theorem c16_foreign_id_never_resolves : forall s, class_svc K = true -> reach s ->
  forall x y o, x <> y -> In (POid o) (out (conns s y)) -> omem o (table (conns s x)) = false.
Proof. exact (foreign_id_never_resolves decomp decode K). Qed.

(* 2. confinement (threaded and forking servers; the one-shot server for its single client).
      (a) Whatever the clients did, as long as nobody called close() the accept loop takes the next queued connection --
      provided accept() itself did not fail with an OS error ([EAcceptFail]: descriptor limit reached, connection aborted), or the
      tree's accept loop survives such errors (fact accept_survives_oserror), and likewise for a worker thread / child process that
      cannot be started ([ESpawnFail], fact accept_survives_spawn_failure).  On a tree that does not, see c16_accept_error_refuted and
      c16_spawn_failure_refuted: the accept loop ends and start() closes the server, throwing every client out. *)
Theorem c16_accept_stays_enabled : forall l s, kind K = Threaded \/ kind K = Forking -> reach_by l s -> ~ In EClose l ->
  (Server.accept_survives_oserror (fx K) = true \/ ~ In EAcceptFail l) ->
  (Server.accept_survives_spawn_failure (fx K) = true \/ ~ In ESpawnFail l) ->
  backlog s <> [] -> exists s', step EAccept s = Some s'.
Proof.
  intros l s Hk R Nc Nf Ns Hb. apply (accept_stays_enabled decomp decode K l s); auto.
  - destruct Hk; congruence.
  - apply (threaded_forking_never_busy decomp decode K s Hk). now exists l.
Qed.
(*    (a') A client for which no worker can be started costs that client and nobody else: the server stays open, every other
      connection's record is untouched, the client's socket is closed and forgotten, no disconnect hook runs for a connection that never
      existed, and (by (a)) the loop goes on to the next queued connection. *)
Theorem c16_spawn_failure_costs_one : forall s c rest s', kind K <> OneShot -> Server.accept_survives_spawn_failure (fx K) = true ->
  backlog s = c :: rest -> step ESpawnFail s = Some s' ->
  closed s' = closed s /\ (forall x, x <> c -> conns s' x = conns s x)
  /\ stg (conns s' c) = Finished /\ shut (conns s' c) = true /\ authd (conns s' c) = authd (conns s c) /\ hooks (conns s' c) = hooks (conns s c)
  /\ mem c (clients s') = false /\ workers s' = workers s.
Proof. exact (spawn_failure_costs_one decomp decode K). Qed.
(*    (b) A well-behaved client's next request is served by its own worker from its own state, with the reply of its own
      endpoint -- no hypothesis about any other connection. *)
Theorem c16_good_client_served : forall s c q rest,
  stg (conns s c) = Own -> authd (conns s c) = true -> shut (conns s c) = false -> next_input (inb (conns s c)) = NReq q rest ->
  exists s', step (EWork c) s = Some s' /\ out (conns s' c) = out (conns s c) ++ [reply_of K s c q]
             /\ (is_close q = false -> stg (conns s' c) = Own /\ shut (conns s' c) = false /\ inb (conns s' c) = rest).
Proof. exact (own_worker_serves decomp decode K). Qed.
(*    (2(b) is one unfolding of the worker's step function: its content is that the step has NO hypothesis about other connections.)
      (c) A worker's failure -- a frame that raises, or one that ends in a BaseException -- is confined to its connection: that
      connection is closed, its hook runs (once), its socket is shut down and leaves Server.clients; the server stays active and
      every other connection's record is untouched. *)
Theorem c16_worker_failure_confined : forall s c rest, kind K <> OneShot -> reach s ->
  stg (conns s c) = Own -> authd (conns s c) = true -> shut (conns s c) = false ->
  (next_input (inb (conns s c)) = NBad rest \/ next_input (inb (conns s c)) = NKill rest) ->
  exists s', step (EWork c) s = Some s'
    /\ stg (conns s' c) = Finished /\ hooks (conns s' c) = 1 /\ shut (conns s' c) = true /\ cclosed (conns s' c) = true
    /\ clients s' = rm c (clients s) /\ active s' = active s /\ (forall x, x <> c -> conns s' x = conns s x).
Proof. exact (own_worker_failure decomp decode K). Qed.

(* 3. the thread pool.  Wherever a connection with a complete request is, its next step is enabled -- except when it waits
      in the active queue and no worker is free.
      [NReq] is a message the worker can process without waiting for the client again; a complete message that makes the server
      wait for THIS client (a nested request it never answers, a reply it never reads) is [NStall]: the worker blocks on it exactly as on
      an unfinished frame, and F7's witness applies to it unchanged.
      FULL STATEMENT (c16_pool_liveness): every well-behaved client with a pending request is eventually served under any
      fair scheduling of the server's threads.  It is FALSE on this tree (finding F7): see the refutation below. *)
Theorem c16_pool_liveness_partial : forall s c q rest, kind K = Pool -> active s = true -> mem c (fdmap s) = true ->
  next_input (inb (conns s c)) = NReq q rest ->
  (mem c (pollset s) = true -> exists s', step (EPoll c false) s = Some s')
  /\ (forall w r, nth_error (workers s) w = Some None -> queue s = c :: r ->
        exists s1 s2, step (ETake w) s = Some s1 /\ step (EServe w) s1 = Some s2
                      /\ out (conns s2 c) = out (conns s c) ++ [reply_of K s c q])
  /\ (forall w n, nth_error (workers s) w = Some (Some (c, S n)) ->
        exists s', step (EServe w) s = Some s' /\ out (conns s' c) = out (conns s c) ++ [reply_of K s c q]).
Proof. exact (pool_next_step_enabled decomp decode K). Qed.
(* 4. no pool worker thread ever dies -- on a tree whose _serve_requests catches a BaseException that is not an Exception
      (a client can make the server raise SystemExit: unsolicited reply with a remote reference, nested HANDLE_INSPECT answered
      with an exception record).  [(c, 0)] in a worker slot is the model's "this thread died while it held c". *)
Theorem c16_no_worker_dies : forall s, Server.pool_catches_base (fx K) = true -> reach s -> no_dead_worker s.
Proof. exact (no_dead_worker_when_caught decomp decode K). Qed.
End C16.
Print Assumptions c16_isolation_noninterference.
Print Assumptions c16_isolation_endpoint.
Print Assumptions c16_isolation_own_bytes.
Print Assumptions c16_only_given_ids_resolve.
Print Assumptions c16_foreign_id_never_resolves.
Print Assumptions c16_accept_stays_enabled.
Print Assumptions c16_spawn_failure_costs_one.
Print Assumptions c16_good_client_served.
Print Assumptions c16_worker_failure_confined.
Print Assumptions c16_pool_liveness_partial.
Print Assumptions c16_no_worker_dies.

(* Refutation of 2(a) on a tree whose accept loop does not survive an OS error of accept(): one served client, then accept() fails
   (EMFILE): the server is closed although nobody called close(), and the client has been thrown out. *)
Theorem c16_accept_error_refuted : forall decomp decode K, kind K = Threaded -> has_auth K = false ->
  Server.accept_survives_oserror (fx K) = false ->
  exists s, exec decomp decode K [EConnect 1 AuthOk; EAccept; EWork 1; EAcceptFail] (init K) = Some s
    /\ closed s = true /\ active s = false /\ shut (conns s 1) = true /\ authd (conns s 1) = true /\ gone (conns s 1) = false.
Proof. exact accept_error_refuted. Qed.
Print Assumptions c16_accept_error_refuted.

(* Refutation of 2(a') on a tree that lets the failure to start a worker leave accept(): one served client, a second one connects while
   the thread limit is reached: the server is closed although nobody called close(), and the FIRST client has been thrown out (F96). *)
Theorem c16_spawn_failure_refuted : forall decomp decode K, kind K = Threaded -> has_auth K = false ->
  Server.accept_survives_spawn_failure (fx K) = false ->
  exists s, exec decomp decode K [EConnect 1 AuthOk; EAccept; EWork 1; EConnect 2 AuthOk; ESpawnFail] (init K) = Some s
    /\ closed s = true /\ active s = false /\ shut (conns s 1) = true /\ authd (conns s 1) = true /\ gone (conns s 1) = false.
Proof. exact spawn_failure_refuted. Qed.
Print Assumptions c16_spawn_failure_refuted.
(* non-vacuity of c16_spawn_failure_costs_one: on the generated facts the event is enabled for a threaded server with a queued client *)
Example c16_spawn_failure_enabled : forall decomp decode,
  let K := {| kind := Threaded; fx := gen_facts; has_auth := false; class_svc := true; nworkers := 0; batch := 1; auth_replaces := false |} in
  exists s s', exec decomp decode K [EConnect 1 AuthOk] (init K) = Some s /\ backlog s = [1] /\ Server.step decomp decode K ESpawnFail s = Some s'.
Proof. intros decomp decode K. eexists _, _. repeat split. Qed.

(* Refutation of pool liveness (F7): nbThreads = 2, two clients that sent a truncated frame (header promises 10 bytes) and stay
   connected, one well-behaved client with a complete request.  Both workers sit in Channel.recv; the good client's
   connection waits in the active queue; the server is running and NO thread of it can take a step. *)
Theorem c16_pool_liveness_refuted : forall f,
  match exec w_decomp w_decode (w_pool f false) starve_history (init (w_pool f false)) with
  | Some s => active s = true /\ Server.quiescent w_decomp w_decode (w_pool f false) s
              /\ stg (conns s 3) = Pooled /\ gone (conns s 3) = false /\ queue s = [3]
              /\ Server.next_input w_decomp w_decode (inb (conns s 3)) = NReq QRoot [] /\ out (conns s 3) = []
              /\ workers s = [Some (1, 10); Some (2, 10)]
              /\ Server.next_input w_decomp w_decode (inb (conns s 1)) = NBlock /\ gone (conns s 1) = false
              /\ Server.next_input w_decomp w_decode (inb (conns s 2)) = NBlock /\ gone (conns s 2) = false
  | None => False
  end.
Proof. exact pool_liveness_refuted. Qed.
Print Assumptions c16_pool_liveness_refuted.
(* Refutation of "keeps accepting" for the thread pool with an authenticator: authentication runs inside the accept loop, so a
   client that connects and never finishes it keeps every later client in the listener's queue. *)
Theorem c16_pool_accept_blocked_refuted : forall f,
  match exec w_decomp w_decode (w_pool f true) [EConnect 1 AuthStall; EAccept; EConnect 2 AuthOk] (init (w_pool f true)) with
  | Some s => active s = true /\ closed s = false /\ Server.quiescent w_decomp w_decode (w_pool f true) s
              /\ backlog s = [2] /\ busy s = Some 1 /\ gone (conns s 1) = false /\ stg (conns s 2) = Backlog
  | None => False
  end.
Proof. exact pool_accept_blocked_refuted. Qed.
Print Assumptions c16_pool_accept_blocked_refuted.

(* Refutation of 4 on a tree that does not catch it: nbThreads = 2, two clients each make one worker raise SystemExit, one
   well-behaved client: both worker threads are dead, the good request waits in the queue, no thread of the running server
   can take a step.  On a tree that catches it the same history drops the two connections and serves the good client. *)
Theorem c16_pool_worker_death_refuted :
  match exec w_decomp k_decode (w_pool (k_facts false) false) kill_history (init (w_pool (k_facts false) false)) with
  | Some s => active s = true /\ Server.quiescent w_decomp k_decode (w_pool (k_facts false) false) s
              /\ workers s = [Some (1, 0); Some (2, 0)] /\ queue s = [3] /\ gone (conns s 3) = false
              /\ Server.next_input w_decomp k_decode (inb (conns s 3)) = NReq QRoot [] /\ out (conns s 3) = []
  | None => False
  end.
Proof. exact pool_worker_death_refuted. Qed.
Print Assumptions c16_pool_worker_death_refuted.
Theorem c16_pool_worker_survives_when_caught :
  match exec w_decomp k_decode (w_pool (k_facts true) false) (kill_history ++ [ETake 0; EServe 0]) (init (w_pool (k_facts true) false)) with
  | Some s => out (conns s 3) = [POid (3, 0)] /\ stg (conns s 1) = Finished /\ hooks (conns s 1) = 1 /\ stg (conns s 2) = Finished
              /\ fdmap s = [3] /\ workers s = [Some (3, 9); None]
  | None => False
  end.
Proof. exact pool_worker_survives_when_caught. Qed.
Print Assumptions c16_pool_worker_survives_when_caught.

(* The model is the one the current source was translated to. *)
Theorem c16_program_is_current :
  Gen_server.accept_prog = Server.accept_prog_of Gen_server.accept_survives_oserror Gen_server.accept_rechecks_closed Gen_server.accept_survives_spawn_failure /\ Gen_server.worker_prog = Server.worker_prog_of Gen_server.worker_tracks_served
  /\ Gen_server.serve_client_prog = Server.serve_client_prog /\ Gen_server.handle_prog = Server.handle_prog
  /\ Gen_server.threaded_prog = Server.threaded_prog /\ Gen_server.forking_prog = Server.forking_prog
  /\ Gen_server.pool_accept_prog = Server.pool_accept_prog_of Gen_server.pool_fail_discards
  /\ Gen_server.pool_build_prog = Server.pool_build_prog /\ Gen_server.poll_result_prog = Server.poll_result_prog
  /\ Gen_server.poller_prog = Server.poller_prog /\ Gen_server.serve_requests_prog = Server.serve_requests_prog_of Gen_server.pool_catches_base
  /\ Gen_server.pool_worker_prog = Server.pool_worker_prog
  /\ Gen_server.connect_instantiates_class = true /\ Gen_server.conn_tables_fresh = true
  /\ Gen_server.pool_spawns_nbthreads_workers_and_one_poller = true /\ Gen_server.serve_ignores_empty_payload = true.
Proof.
  pose proof tie_base_progs. pose proof tie_accept_methods. pose proof tie_pool_progs. pose proof tie_endpoint_facts.
  pose proof tie_pool_accept. intuition.
Qed.
Print Assumptions c16_program_is_current.

(* ---- non-vacuity ---- *)
Definition KT16 (k : skind) (cls : bool) : cfg :=
  {| kind := k; fx := {| Server.pool_close_drops := true; Server.pool_fail_discards := true; Server.fork_parent_keeps := false; Server.pool_catches_base := false;
             Server.worker_tracks_served := false; Server.accept_survives_oserror := false; Server.accept_rechecks_closed := false;
             Server.accept_survives_spawn_failure := false |};
     has_auth := false; class_svc := cls; nworkers := 2; batch := 10; auth_replaces := false |}.
Definition d16 (b : list byte) : option req :=
  if bytes_eqb b [x51] then Some QRoot else if bytes_eqb b [x52] then Some (QMake (1, 0)) else if bytes_eqb b [x53] then Some (QStr (1, 1)) else None.
Definition fr (p : byte) : list byte := [x00; x00; x00; x01; x00; p; x0a].
(* threaded: client 2 sends garbage (its worker dies, hook runs); client 1's requests are answered from its own endpoint;
   client 3 tries the id client 1 was given: it does not resolve *)
Example c16_threaded_history :
  match exec w_decomp d16 (KT16 Threaded true)
          [EConnect 1 AuthOk; EConnect 2 AuthOk; EConnect 3 AuthOk; EAccept; EAccept; EAccept; EWork 1; EWork 2; EWork 3;
           ESend 1 (fr x51); EWork 1; ESend 2 (fr xff); EWork 2; ESend 1 (fr x52); EWork 1; ESend 3 (fr x53); EWork 3;
           ESend 1 (fr x53); EWork 1] (init (KT16 Threaded true)) with
  | Some s => out (conns s 1) = [POid (1, 0); POid (1, 1); POk] /\ out (conns s 3) = [PErr]
              /\ stg (conns s 2) = Finished /\ hooks (conns s 2) = 1 /\ stg (conns s 1) = Own /\ active s = true
              /\ clients s = [1; 3]
  | None => False
  end.
Proof. vm_compute. repeat split. Qed.
(* pool: a garbage frame costs its sender nothing but the frame; the good client is served *)
Example c16_pool_history :
  match exec w_decomp d16 (KT16 Pool true)
          [EConnect 1 AuthOk; EConnect 2 AuthOk; EAccept; EAccept; ESend 2 (fr xff); EPoll 2 false; ETake 0; EServe 0; ETake 0; EServe 0;
           ESend 1 (fr x51); EPoll 1 false; ETake 1; EServe 1; EServe 1] (init (KT16 Pool true)) with
  | Some s => out (conns s 1) = [POid (1, 0)] /\ workers s = [None; None] /\ queue s = [] /\ pollset s = [2; 1] /\ fdmap s = [1; 2]
              /\ hooks (conns s 2) = 0 /\ stg (conns s 2) = Pooled
  | None => False
  end.
Proof. vm_compute. repeat split. Qed.
