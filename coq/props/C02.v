(* C02 — Operating on a proxy is indistinguishable from operating on the target.
   Only statements, [exact]s and Print Assumptions live here.  The forwarding layer is what is proved (routing table of
   netref.py composed with the handler bodies of protocol.py is the identity on operations; sequences; buffered iteration);
   Python's own semantics of objects is a parameter ([apply]), exercised for real by harness/C02.py. *)
From V Require Import lib.Base lib.Sx model.Attr model.ProxyOps proofs.ProxyOpsP proofs.ProxyOpsTie.
From Coq Require Import String.
Open Scope string_scope.

(* 1. every forwarded operation reaches a handler that applies the same operation to the target with the same operands, and
      checks the permission of exactly the names the operation itself involves.
      F: facts of the tree; ms: the methods synthesized on the proxy's class; f: the operands; faithful (proofs/ProxyOpsP.v):
        route ms o = RSend rq _  and  serve_request F truthy byval (rqmap f rq) = Ok sv  with  sv_act sv = direct truthy f o,
                  sv_checks sv = direct_checks o,  sv_reflect sv = serve_reflect F byval f o (what the owner does after a
                  NotImplemented: nothing, or on a tree with f_reflects the operand's reflected method against the target)
        or route ms o = RNoMethod and neither the class nor BaseNetref defines the special method (the interpreter answers). *)
(*    SCOPE (what `direct` is): for a special method d other than the comparisons, repr/str/hash/dir, __call__ and __exit__, `direct`
      is ACallAttr d = getattr(obj, d)( *args) -- the bound-method call on the INSTANCE, which is also what _handle_callattr does.
      The interpreter itself dispatches through the TYPE's slot (type(obj).d(obj, *args)) without any attribute lookup on the instance;
      the two coincide exactly for objects that do not shadow the special name in their instance namespace and whose type does not
      observe attribute lookups (__getattribute__/__getattr__ with effects).  For other objects this theorem compares the code with
      the same reading of the operation, not with the interpreter: see known findings special-method:looked-up-on-the-instance
      (harness/C02.py; the differential run has both kinds of targets). *)
Theorem c02_routing_faithful : forall F A (f : nat -> A) (truthy byval : A -> bool) ms o,
  forwarded o = true -> well_formed o = true -> exit_ok F (truthy (f 0%nat)) o = true -> faithful F A f truthy byval ms o.
Proof. exact routing_faithful. Qed.
Print Assumptions c02_routing_faithful.

(* 1a. the three configurations: classic permits every name; the other two permit every special method behind the operation
       kinds the property lists, public additionally every name not starting with "_"; default permits a name iff it is in
       safe_attrs or carries the exposed prefix; neither permits attribute writes or deletes *)
Theorem c02_classic_permits_all : forall checks, permitted conf_classic checks = true.
Proof. exact classic_permits_all. Qed.
Print Assumptions c02_classic_permits_all.
Theorem c02_listed_operations_permitted : forall d n k, In d listed_specials ->
  permitted conf_default (direct_checks (OSpecial d n k)) = true /\ permitted conf_public (direct_checks (OSpecial d n k)) = true
  /\ permitted conf_classic (direct_checks (OSpecial d n k)) = true.
Proof. exact listed_specials_permitted. Qed.
Print Assumptions c02_listed_operations_permitted.
Theorem c02_public_and_default_names : forall n,
  (sprefix "_" n = false -> permitted conf_public [(PGet, n)] = true)
  /\ permitted conf_default [(PGet, n)] = (smem n default_safe_attrs || sprefix "exposed_" n)%bool
  /\ (forall p, p <> PGet -> permitted conf_default [(p, n)] = false /\ permitted conf_public [(p, n)] = false).
Proof.
  intros n. split; [apply public_permits_public_names|]. split; [apply default_permits_iff|].
  intros p. apply default_and_public_refuse_writes.
Qed.
Print Assumptions c02_public_and_default_names.

(* 2. any sequence of permitted, forwarded operations run through proxies gives the same results (values, references,
      classes of exceptions) as run on a twin, and leaves the same heap and the same objects reached -- for every semantics
      [apply] of the objects, every operand list, every class shape [methods].
      An operator step x OP a with a value operand a is the whole binary-operator protocol: the target's own method, then --
      if that declines with NotImplemented -- the operand's reflected method given the other operand, then identity (==, !=)
      or TypeError; on the twin the reflected method is given the target, through a proxy the caller's interpreter can only
      give it the proxy (which no value's method accepts) unless the owner completes the protocol (f_reflects).
      reflection_ok: on a tree without f_reflects no value's reflected method may accept one of the objects
      (reflection_inert: true of lists, dicts, files ...; false of an int subclass -- 2e shows the restriction is necessary);
      reads_ok: on a tree whose __getattr__ repeats a failed read (f_getattr_repeats), failing reads must be repeatable;
      step_ok contains exit_ok: on a tree that does not deliver the exception class to __exit__ only exits without an
      exception are covered (2b, 2c show both restrictions are necessary on such a tree) *)
Theorem c02_sequence_equiv : forall imm truthy_imm is_ni imm_bool heap apply methods no_method conf F steps tw pw,
  inv heap tw pw -> forallb (step_ok imm truthy_imm conf F) steps = true -> reads_ok imm heap apply F ->
  reflection_ok imm is_ni heap apply F ->
  match t_run imm truthy_imm is_ni imm_bool heap apply methods no_method tw steps,
        p_run imm truthy_imm is_ni imm_bool heap apply methods no_method conf F pw steps with
  | Some (rs, tw'), Some (rs', pw') => rs = rs' /\ inv heap tw' pw'
  | None, None => True
  | _, _ => False
  end.
Proof. intros. now apply run_sim. Qed.
Print Assumptions c02_sequence_equiv.

(* 2a. an operation that needs a name the configuration does not permit is refused and changes nothing *)
Theorem c02_refused_unchanged : forall imm truthy_imm is_ni imm_bool heap apply methods no_method conf F tw pw s,
  inv heap tw pw -> forwarded (st_op imm s) = true -> well_formed (st_op imm s) = true ->
  exit_ok F (first_truthy imm truthy_imm (st_operands imm s)) (st_op imm s) = true ->
  permitted conf (direct_checks (st_op imm s)) = false ->
  match p_step imm truthy_imm is_ni imm_bool heap apply methods no_method conf F pw s with
  | Some (r, pw') => (exists e, r = Raise e) /\ pw_heap heap pw' = pw_heap heap pw /\ pw_slots heap pw' = pw_slots heap pw
  | None => True
  end.
Proof. intros. now apply (refused_unchanged imm truthy_imm is_ni imm_bool heap apply methods no_method conf F tw). Qed.
Print Assumptions c02_refused_unchanged.

(* 2b. on a tree that passes the class of the exception as a reference to the caller's object (the pinned tree), the
       target's __exit__ is told TypeError whenever the with block raised *)
Theorem c02_exit_refuted : forall F ms A (f : nat -> A) truthy byval, f_ctxexit_delivers F = false -> truthy (f 0%nat) = true ->
  exists rq w sv, route ms (OSpecial "__exit__" 3 []) = RSend rq w /\ serve_request F truthy byval (rqmap f rq) = Ok sv
    /\ sv_act sv = AExit TTypeError /\ direct truthy f (OSpecial "__exit__" 3 []) = AExit (TClass (f 0%nat)).
Proof. exact exit_refuted. Qed.
Print Assumptions c02_exit_refuted.
(* 2b'. on a tree whose handler guards its `raise` with `except Exception` (step_ok's exit_class_ok excludes this), an exception
        outside Exception raised in the with block -- KeyboardInterrupt, SystemExit, GeneratorExit: OtherError in the model's
        enumeration -- escapes the handler: the request fails with it and the target's __exit__ is never called *)
Theorem c02_exit_base_exception_refuted : forall F, f_ctxexit_delivers F = true -> f_ctxexit_base F = false ->
  let tw := {| tw_heap := []; tw_slots := [0%nat] |} in
  let pw := {| pw_heap := []; pw_exported := [0%nat]; pw_slots := [0%nat] |} in
  option_map (fun x => (fst x, tw_heap _ (snd x)))
             (t_run unit (fun _ => true) (fun _ => false) (fun _ => tt) _ w_apply_log (fun _ => ["__exit__"]) (fun _ => TypeError) tw [w_step_exit_base])
    = Some ([Ok (VImm unit tt)], [TClass (VExc unit OtherError)]) /\
  option_map (fun x => (fst x, pw_heap _ (snd x)))
             (p_run unit (fun _ => true) (fun _ => false) (fun _ => tt) _ w_apply_log (fun _ => ["__exit__"]) (fun _ => TypeError) conf_classic F pw [w_step_exit_base])
    = Some ([Raise OtherError], []).
Proof. exact exit_skipped_for_base_exceptions. Qed.
Print Assumptions c02_exit_base_exception_refuted.
Theorem c02_exit_base_exception_covered_when_repaired : forall F, f_ctxexit_delivers F = true -> f_ctxexit_base F = true ->
  step_ok unit (fun _ => true) conf_classic F w_step_exit_base = true.
Proof. exact exit_kept_for_base_exceptions. Qed.
Print Assumptions c02_exit_base_exception_covered_when_repaired.
(* 2c. on a tree whose __getattr__ asks again (the pinned tree), a read that fails with AttributeError runs twice on the target *)
Theorem c02_failing_read_refuted : forall F, f_getattr_repeats F = true ->
  let tw := {| tw_heap := 0%nat; tw_slots := [0%nat] |} in
  let pw := {| pw_heap := 0%nat; pw_exported := [0%nat]; pw_slots := [0%nat] |} in
  step_ok unit (fun _ => true) conf_classic F w_step_read = true /\
  option_map (fun x => tw_heap nat (snd x))
             (t_run unit (fun _ => true) (fun _ => false) (fun _ => tt) nat w_apply_count (fun _ => []) (fun _ => TypeError) tw [w_step_read]) = Some 1%nat /\
  option_map (fun x => pw_heap nat (snd x))
             (p_run unit (fun _ => true) (fun _ => false) (fun _ => tt) nat w_apply_count (fun _ => []) (fun _ => TypeError) conf_classic F pw [w_step_read]) = Some 2%nat.
Proof. exact failing_read_runs_twice. Qed.
Print Assumptions c02_failing_read_refuted.
Theorem c02_failing_read_once_when_repaired : forall F o, f_getattr_repeats F = false -> forwarded o = true -> fallback F o = None.
Proof. exact getattr_once. Qed.
Print Assumptions c02_failing_read_once_when_repaired.
(* 2e. on a tree whose owner does not complete the operator protocol (the pinned tree), x + a and x == a give a wrong answer
       or TypeError as soon as the target's method declines the value a and a's reflected method would have accepted the
       target: MyInt(3) + 5.0, MyInt(3) == 3.0 (here: values >= 100 play the floats, None plays NotImplemented) *)
Theorem c02_reflection_refuted : forall F, f_reflects F = false ->
  let tw := {| tw_heap := 3%nat; tw_slots := [0%nat] |} in
  let pw := {| pw_heap := 3%nat; pw_exported := [0%nat]; pw_slots := [0%nat] |} in
  forallb (step_ok (option nat) (fun _ => true) conf_classic F) w_steps_num = true /\
  option_map fst (t_run _ (fun _ => true) w_ni w_bool nat w_apply_num (fun _ => ["__add__"]) (fun _ => TypeError) tw w_steps_num)
    = Some [Ok (VImm _ (Some 8%nat)); Ok (VImm _ (Some 108%nat)); Ok (VImm _ (Some 1%nat))] /\
  option_map fst (p_run _ (fun _ => true) w_ni w_bool nat w_apply_num (fun _ => ["__add__"]) (fun _ => TypeError) conf_classic F pw w_steps_num)
    = Some [Ok (VImm _ (Some 8%nat)); Raise TypeError; Ok (VImm _ (Some 0%nat))].
Proof. exact reflection_lost. Qed.
Print Assumptions c02_reflection_refuted.
Theorem c02_reflection_kept_when_repaired : forall F, f_reflects F = true ->
  let tw := {| tw_heap := 3%nat; tw_slots := [0%nat] |} in
  let pw := {| pw_heap := 3%nat; pw_exported := [0%nat]; pw_slots := [0%nat] |} in
  option_map fst (p_run _ (fun _ => true) w_ni w_bool nat w_apply_num (fun _ => ["__add__"]) (fun _ => TypeError) conf_classic F pw w_steps_num)
  = option_map fst (t_run _ (fun _ => true) w_ni w_bool nat w_apply_num (fun _ => ["__add__"]) (fun _ => TypeError) tw w_steps_num).
Proof. exact reflection_kept. Qed.
Print Assumptions c02_reflection_kept_when_repaired.
(* 2d. the names in LOCAL_ATTRS are the proxy's own: reading one (except __doc__) or writing/deleting one never asks the
       target -- the reason `forwarded` excludes them *)
Theorem c02_local_names_not_forwarded : forall ms,
  forallb (fun n => (String.eqb n "__doc__" || match route ms (OGetAttr n) with RSend _ _ => false | RNoMethod => false | _ => true end)%bool)
          local_attrs = true
  /\ forallb (fun n => match route ms (OSetAttr n), route ms (ODelAttr n) with RLocal, RLocal => true | _, _ => false end) local_attrs = true.
Proof. intros ms. split; [apply local_names_not_forwarded | apply local_names_not_written]. Qed.
Print Assumptions c02_local_names_not_forwarded.
(* BaseNetref's own forwarding methods can never be shadowed by a synthesized method *)
Theorem c02_base_methods_not_shadowed : forall ms d, In d (map fst base_methods) -> synthesized ms d = false.
Proof.
  intros ms d Hin. unfold synthesized. pose proof base_methods_local as H. rewrite forallb_forall in H.
  apply in_map_iff in Hin. destruct Hin as (e & <- & He). rewrite (H e He). apply Bool.andb_false_r.
Qed.
Print Assumptions c02_base_methods_not_shadowed.

(* 2f. class queries (p.__class__, hence isinstance(p, C); isinstance(x, p)).
       - the caller has no class of the target's module-qualified name: the query is the forwarded read of "__class__" (so theorem 1
         and 2 cover it: OGetAttr "__class__" is then an ordinary attribute read) -- permitted by classic only;
       - the caller has one: the answer is that class, right exactly when a name means one class on both sides
         (c02_class_query_by_name), wrong for namesakes (c02_class_query_wrong_for_namesakes);
       - isinstance(x, p): the decision tree of __instancecheck__ (regenerated) in its locally decided cases; the case sent to
         HANDLE_INSTANCECHECK is outside the model (_partial: the handler's body is cache-dependent and only exercised by the
         harness) *)
Theorem c02_class_query_forwarded_when_unknown : forall F A (f : nat -> A) truthy byval,
  exists rq sv, class_query_route false = CAAsk rq /\ serve_request F truthy byval (rqmap f rq) = Ok sv
    /\ sv_act sv = direct truthy f (OGetAttr "__class__") /\ sv_checks sv = [(PGet, "__class__")]
    /\ permitted conf_classic (sv_checks sv) = true /\ permitted conf_public (sv_checks sv) = false
    /\ permitted conf_default (sv_checks sv) = false.
Proof. exact class_query_unknown. Qed.
Print Assumptions c02_class_query_forwarded_when_unknown.
Theorem c02_class_query_by_name : forall cls (name_of : cls -> string) callers,
  (forall n c, callers n = Some c -> name_of c = n) -> (forall c c', name_of c = name_of c' -> c = c') ->
  forall t c, class_query_by_name cls name_of callers t = Some c -> c = t.
Proof. exact class_query_right. Qed.
Print Assumptions c02_class_query_by_name.
Theorem c02_class_query_wrong_for_namesakes :
  exists (name_of : bool -> string) (callers : string -> option bool),
    (forall n c, callers n = Some c -> name_of c = n) /\ class_query_by_name bool name_of callers true = Some false.
Proof. exact class_query_wrong_for_namesakes. Qed.
Print Assumptions c02_class_query_wrong_for_namesakes.
Theorem c02_instancecheck_partial : forall asks resolved,
  (forall a b c, instancecheck_route asks resolved a false b c = ICRaiseTypeError)
  /\ instancecheck_route asks resolved true true true false = ICTrue
  /\ instancecheck_route asks resolved true true true true = ICFalse
  /\ (forall c, instancecheck_route asks resolved true true false c = ICSync "HANDLE_INSTANCECHECK")
  /\ (forall b c, instancecheck_route asks true false true b c = ICLocalIsinstance).
Proof. exact instancecheck_cases. Qed.
Print Assumptions c02_instancecheck_partial.
Theorem c02_instancecheck_unknown_class_refuted : forall b c, instancecheck_route false false false true b c = ICAttributeError.
Proof. exact instancecheck_unknown_class_refuted. Qed.
Print Assumptions c02_instancecheck_unknown_class_refuted.
Theorem c02_instancecheck_unknown_class_when_repaired : forall F A (f : nat -> A) truthy byval b c,
  instancecheck_route true false false true b c = ICSync "HANDLE_CALLATTR"
  /\ exists sv, serve_request F truthy byval (rqmap f {| rq_handler := "HANDLE_CALLATTR"; rq_args := [WStr "__instancecheck__"; WTuple [0%nat]; WKw []] |}) = Ok sv
       /\ sv_act sv = ACallAttr "__instancecheck__" [f 0%nat] [] /\ sv_checks sv = [(PGet, "__instancecheck__")].
Proof. exact instancecheck_unknown_class_asks. Qed.
Print Assumptions c02_instancecheck_unknown_class_when_repaired.

(* 3. buffered iteration yields exactly the target's items in order and exhausts the target's iterator, for every
      chunk, factor, max_chunk >= 1; the counts requested are chunk, min(chunk*factor, max_chunk), ... ; at most one request
      more than there are items *)
(*    SCOPE: the target's iterator is a list of remaining items that never raises (islice cannot fail).  For an iterator that raises
      after some items the items already taken into the current batch are lost (the whole request fails): not covered here, found by
      the differential run (known finding buffiter:items-before-a-failure-are-lost); hence _partial. *)
Theorem c02_buffiter_partial : forall A chunk maxc factor (xs : list A), (1 <= chunk)%Z -> (1 <= factor)%Z -> (1 <= maxc)%Z ->
  exists cs, buffiter A chunk maxc factor xs = Ok (xs, [], cs) /\ schedule chunk factor maxc cs
             /\ Forall (fun c => (1 <= c)%Z) cs /\ (List.length cs <= S (List.length xs))%nat.
Proof. exact buffiter_exact. Qed.
Print Assumptions c02_buffiter_partial.
Theorem c02_buffiter_rejects_factor_below_one : forall A chunk maxc factor (xs : list A), (factor < 1)%Z ->
  buffiter A chunk maxc factor xs = Raise ValueError.
Proof. exact buffiter_bad_factor. Qed.
Print Assumptions c02_buffiter_rejects_factor_below_one.
Theorem c02_buffiter_needs_positive_chunk : forall A maxc factor (xs : list A), (1 <= factor)%Z ->
  buffiter A 0 maxc factor xs = Ok ([], xs, [0%Z]).
Proof. exact buffiter_zero_chunk. Qed.
Print Assumptions c02_buffiter_needs_positive_chunk.

(* 4. the tables these theorems are about are the ones regenerated from the sources on this run *)
Theorem c02_tie : Gen_netref.local_attrs = local_attrs /\ Gen_netref.base_methods = base_methods
  /\ Gen_netref.getattribute_route = getattribute_route /\ Gen_netref.getattr_route = getattr_route Fgen
  /\ Gen_netref.setattr_route = setattr_route /\ Gen_netref.delattr_route = delattr_route
  /\ Gen_netref.make_method = make_method /\ Gen_netref.class_factory_skips_local = class_factory_skips_local
  /\ Gen_netref.handler_bodies = handler_bodies Fgen /\ Gen_netref.buff_skel_gen = buff_skel_model
  /\ Gen_netref.reflected_table = reflect_table Fgen.
Proof.
  destruct tie_local_attrs as [L _]. destruct tie_attribute_methods as (G1 & G2 & G3 & G4). destruct tie_make_method as [M _].
  destruct tie_class_factory as [C _].
  repeat split; auto using tie_base_methods, tie_handler_bodies, tie_buffiter, tie_reflected_table.
Qed.
Print Assumptions c02_tie.

(* 4'. the module-level part of netref.py (which types share a pre-generated proxy class, generated from the type itself) and the
       class-query code are the ones the model describes *)
Theorem c02_tie_classes : Gen_netref.builtin_types = builtin_cached_types /\ Gen_netref.builtin_loop_as_expected = true
  /\ Gen_netref.instancecheck_route = instancecheck_route Gen_netref.instancecheck_asks_owner
  /\ Gen_netref.class_descriptor_owner_for_classes_instance_for_instances = true
  /\ Gen_netref.class_found_by_module_qualified_name = true /\ getattribute_route "__class__" = ARClass.
Proof. destruct tie_builtin_classes as [B1 B2]. destruct tie_class_queries as (Q1 & Q2 & Q3 & Q4). repeat split; auto. Qed.
Print Assumptions c02_tie_classes.

(* 4a. ... and so are the configurations: _check_attr, the default switches, prefix and safe_attrs, the classic update *)
Theorem c02_tie_configurations :
  (forall s perm pne n o, Gen_attrpolicy.check_attr s perm pne n o = Attr.check_attr s perm pne n o)
  /\ Gen_attrpolicy.default_switches = sw_default /\ Gen_protocol.exposed_prefix = pc_prefix conf_default
  /\ forallb (fun n => smem n default_safe_attrs) Gen_protocol.safe_attrs = true
  /\ forallb (fun n => smem n Gen_protocol.safe_attrs) default_safe_attrs = true
  /\ sw_classic = {| allow_safe := upd "allow_safe_attrs" (allow_safe sw_default); allow_exposed := upd "allow_exposed_attrs" (allow_exposed sw_default);
                     allow_public := upd "allow_public_attrs" (allow_public sw_default); allow_all := upd "allow_all_attrs" (allow_all sw_default);
                     allow_getattr := upd "allow_getattr" (allow_getattr sw_default); allow_setattr := upd "allow_setattr" (allow_setattr sw_default);
                     allow_delattr := upd "allow_delattr" (allow_delattr sw_default) |}.
Proof.
  destruct tie_classic_switches as [D K]. destruct tie_safe_attrs as [S1 S2]. destruct tie_default_switches as [_ P].
  split; [exact tie_check_attr|]. repeat split; auto.
Qed.
Print Assumptions c02_tie_configurations.

(* ---- non-vacuity ---- *)
Definition F_pinned : facts := {| f_getattr_repeats := true; f_ctxexit_delivers := false; f_ctxexit_base := false; f_reflects := false |}.
Definition F_repaired : facts := {| f_getattr_repeats := false; f_ctxexit_delivers := true; f_ctxexit_base := true; f_reflects := true |}.
(* len(p) on a proxy of a list: a CALLATTR request that the peer answers with getattr(obj, "__len__")() *)
Example ex_route_len : route ["__len__"; "__getitem__"; "append"] (OSpecial "__len__" 0 [])
  = RSend {| rq_handler := "HANDLE_CALLATTR"; rq_args := [WStr "__len__"; WTuple []; WKw []] |} WNone.
Proof. reflexivity. Qed.
Example ex_route_cmp : route ["__len__"; "__eq__"] (OSpecial "__eq__" 1 [])
  = RSend {| rq_handler := "HANDLE_CMP"; rq_args := [WOp 0%nat; WStr "__eq__"] |} WNone.
Proof. reflexivity. Qed.
Example ex_hypotheses_hold : forwarded (OSpecial "__getitem__" 1 []) = true /\ well_formed (OSpecial "__getitem__" 1 []) = true
  /\ exit_ok F_pinned true (OSpecial "__getitem__" 1 []) = true /\ permitted conf_default (direct_checks (OSpecial "__getitem__" 1 [])) = true
  /\ forwarded (OGetAttr "append") = true /\ permitted conf_default (direct_checks (OGetAttr "append")) = false
  /\ permitted conf_public (direct_checks (OGetAttr "append")) = true /\ In "__getitem__" listed_specials.
Proof. vm_compute. repeat split; auto 40. Qed.
Example ex_matmul_refused_by_default : permitted conf_default (direct_checks (OSpecial "__matmul__" 1 [])) = false
  /\ permitted conf_classic (direct_checks (OSpecial "__matmul__" 1 [])) = true.
Proof. split; reflexivity. Qed.

(* a small world: objects are lists of numbers; append / __len__ / __getitem__ / copy (a new object); three steps *)
Definition ex_heap := list (list nat).
Definition ex_apply (a : act (val nat)) (h : ex_heap) (o : oid) : result (val nat) * ex_heap :=
  let me := nth o h [] in
  match a with
  | ACallAttr "append" [VImm _ n] [] => (Ok (VImm nat 0%nat), firstn o h ++ [me ++ [n]] ++ skipn (S o) h)%list
  | ACallAttr "__len__" [] [] => (Ok (VImm nat (List.length me)), h)
  | ACallAttr "__getitem__" [VImm _ i] [] => (match nth_error me i with Some x => Ok (VImm nat x) | None => Raise IndexError end, h)
  | ACallAttr "copy" [] [] => (Ok (VRef nat (List.length h)), h ++ [me])%list
  | AGetAttr _ => (Raise AttributeError, h)
  | _ => (Raise TypeError, h)
  end.
Definition ex_steps : list (step nat) :=
  [ {| st_target := 0; st_op := OSpecial "append" 1 []; st_operands := [PImm nat 7%nat] |};
    {| st_target := 0; st_op := OSpecial "copy" 0 []; st_operands := [] |};
    {| st_target := 1; st_op := OSpecial "append" 1 []; st_operands := [PImm nat 9%nat] |};
    {| st_target := 1; st_op := OSpecial "__len__" 0 []; st_operands := [] |};
    {| st_target := 0; st_op := OSpecial "__getitem__" 1 []; st_operands := [PImm nat 5%nat] |};
    {| st_target := 0; st_op := OSpecial "__iter__" 0 []; st_operands := [] |};
    {| st_target := 0; st_op := OGetAttr "nope"; st_operands := [] |} ].
Definition ex_methods (o : oid) : list string := ["append"; "copy"; "__len__"; "__getitem__"].
Example ex_sequence :
  let tw := {| tw_heap := [[1; 2]]%nat; tw_slots := [0%nat] |} in
  let pw := {| pw_heap := [[1; 2]]%nat; pw_exported := [0%nat]; pw_slots := [0%nat] |} in
  forallb (step_ok nat (fun n => negb (Nat.eqb n 0)) conf_classic F_pinned) ex_steps = true
  /\ t_run nat (fun n => negb (Nat.eqb n 0)) (fun _ => false) (fun b => if b then 1%nat else 0%nat) ex_heap ex_apply ex_methods (fun _ => TypeError) tw ex_steps
     = Some ([Ok (VImm nat 0); Ok (VRef nat 1); Ok (VImm nat 0); Ok (VImm nat 4); Raise IndexError; Raise TypeError; Raise AttributeError]%nat,
             {| tw_heap := [[1; 2; 7]; [1; 2; 7; 9]]%nat; tw_slots := [0; 1]%nat |})
  /\ option_map fst (p_run nat (fun n => negb (Nat.eqb n 0)) (fun _ => false) (fun b => if b then 1%nat else 0%nat) ex_heap ex_apply ex_methods (fun _ => TypeError) conf_classic F_pinned pw ex_steps)
     = option_map fst (t_run nat (fun n => negb (Nat.eqb n 0)) (fun _ => false) (fun b => if b then 1%nat else 0%nat) ex_heap ex_apply ex_methods (fun _ => TypeError) tw ex_steps)
  /\ option_map (fun x => (pw_heap _ (snd x), pw_exported _ (snd x), pw_slots _ (snd x)))
                (p_run nat (fun n => negb (Nat.eqb n 0)) (fun _ => false) (fun b => if b then 1%nat else 0%nat) ex_heap ex_apply ex_methods (fun _ => TypeError) conf_classic F_pinned pw ex_steps)
     = Some ([[1; 2; 7]; [1; 2; 7; 9]], [0; 1], [0; 1])%nat.
Proof. vm_compute. repeat split. Qed.
Example ex_inv : inv ex_heap {| tw_heap := [[1; 2]]%nat; tw_slots := [0%nat] |} {| pw_heap := [[1; 2]]%nat; pw_exported := [0%nat]; pw_slots := [0%nat] |}.
Proof. repeat split. intros o [<-|[]]. reflexivity. Qed.
Example ex_reads_ok : reads_ok nat ex_heap ex_apply F_pinned.
Proof. right. intros n h o h' H. cbn in *. injection H as <-. reflexivity. Qed.
(* the hypothesis about reflected methods is satisfiable on the pinned tree (objects no value's method accepts: lists) and
   vacuous on a repaired one *)
Example ex_reflection_ok :
  reflection_ok unit (fun _ => true) nat (fun a h o => match a with AReflected _ _ => (Ok (VImm unit tt), h) | _ => (Raise TypeError, h) end) F_pinned
  /\ reflection_ok nat (fun _ => false) ex_heap ex_apply F_repaired.
Proof. split; [right; intros rd a h o; exists tt; split; reflexivity | left; reflexivity]. Qed.
(* refused under the default configuration: p.append is not a permitted name *)
Example ex_refused :
  option_map fst (p_step nat (fun n => negb (Nat.eqb n 0)) (fun _ => false) (fun b => if b then 1%nat else 0%nat) ex_heap ex_apply ex_methods (fun _ => TypeError) conf_default F_pinned
                         {| pw_heap := [[1; 2]]%nat; pw_exported := [0%nat]; pw_slots := [0%nat] |}
                         {| st_target := 0; st_op := OSpecial "append" 1 []; st_operands := [PImm nat 7%nat] |})
  = Some (Raise AttributeError).
Proof. reflexivity. Qed.
Example ex_exit_pinned_vs_repaired :
  (exists sv, serve_request F_pinned (fun _ : nat => true) (fun _ : nat => true) {| rq_handler := "HANDLE_CTXEXIT"; rq_args := [WOp 0%nat] |} = Ok sv /\ sv_act sv = AExit TTypeError)
  /\ (exists sv, serve_request F_repaired (fun _ : nat => true) (fun _ : nat => true) {| rq_handler := "HANDLE_CTXEXIT"; rq_args := [WOp 0%nat] |} = Ok sv /\ sv_act sv = AExit (TClass 0%nat))
  /\ exit_ok F_repaired true (OSpecial "__exit__" 3 []) = true /\ exit_ok F_pinned true (OSpecial "__exit__" 3 []) = false
  /\ exit_ok F_pinned false (OSpecial "__exit__" 3 []) = true.
Proof. repeat split; eexists; split; reflexivity. Qed.
Example ex_class_queries : class_query_route true = CACallersClassOfThatName
  /\ class_query_by_name nat (fun n => if Nat.eqb n 0 then "builtins.list" else "m.C") (fun s => if String.eqb s "builtins.list" then Some 0%nat else None) 0%nat = Some 0%nat
  /\ instancecheck_route false true false true false false = ICLocalIsinstance.
Proof. repeat split. Qed.
Example ex_buffiter : buffiter nat 2 5 2 (seq 0 12) = Ok (seq 0 12, [], [2; 4; 5; 5; 5]%Z)
  /\ buffiter nat 3 1 1 (seq 0 4) = Ok (seq 0 4, [], [3; 1; 1]%Z) /\ buffiter nat 10 1000 2 [] = Ok ([], [], [10%Z])
  /\ buffiter nat 50 7 3 (seq 0 60) = Ok (seq 0 60, [], [50; 7; 7; 7]%Z).
Proof. vm_compute. repeat split. Qed.
