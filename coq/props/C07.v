(* C07 — A hostile peer cannot step outside what the service exposes.
   Only statements, [exact]s / short glue and Print Assumptions live here.

   Setting (model/Hostile.v): the peer sends ANY list of well-framed messages (any brine value each) together with ANY
   script of answers to the requests the server itself sends while handling them; between messages anybody else may
   change the service ([IEnv]).  What an operation on a service object does and returns is an arbitrary function over
   an abstract service state ([sem W], universally quantified).  The handler table / number table / ladders the
   interpreter runs are the ones regenerated from the source tree on every run (gen/Gen_handlers.v), equal to the
   hand-written ones of the model (proofs/HostileTie.v).  Every event of the connection's trace is checked against a
   ghost replay of everything that happened before it ([ev_ok], proofs/HostileP.v). *)
From V Require Import lib.Base lib.Sx model.Brine model.Attr model.Hostile proofs.AttrP proofs.HostileP proofs.HostileTie
  gen.Gen_handlers gen.Gen_attrpolicy.
From V Require model.Vinegar.
From Coq Require Import String.

(* the connection as the pinned tree + default configuration define it *)
Notation GEN_RUN S w l := (run S default_config Gen_handlers.handlers Gen_handlers.dispatch Gen_handlers.msg_ladder
                               Gen_handlers.unbox_ladder Gen_handlers.box_ladder (init w) l).

(* 0. The master invariant, for every service, every configuration and every handler table of the handler language that
      pickles only under the allow_pickle guard: the whole trace is well-formed. *)
Theorem c07_trace_wellformed : forall W (S : sem W) C HT DT ML UL BL, table_pk C HT ->
  forall w l, wf S C (tr (run S C HT DT ML UL BL (init w) l)).
Proof. intros. now apply wf_run. Qed.
Print Assumptions c07_trace_wellformed.

Theorem c07_trace_wellformed_pinned_tree : forall W (S : sem W) w l, wf S default_config (tr (GEN_RUN S w l)).
Proof. intros. apply wf_run. exact handlers_guarded. Qed.
Print Assumptions c07_trace_wellformed_pinned_tree.

(* 1. Every object reference a message carries is resolved through the table of THIS connection at that moment; the table
      holds only objects the server itself lent to this peer earlier on this connection (an EBox event), and at every
      moment it is exactly the replay of the lend / release / clear events.  A key that is not there (forged, already
      released, harvested on another connection) gives KeyError (EMiss). *)
Theorem c07_only_table_objects : forall W (S : sem W) w l t1 k o t2,
  tr (GEN_RUN S w l) = t1 ++ EResolve k o :: t2 ->
  (exists c, tbl_find k (g_tbl (ghost_of t2)) = Some (o, c)) /\ exists k', In (EBox k' o) t2.
Proof. intros W S w l. exact (resolve_only_lent S default_config _ _ _ _ _ handlers_guarded w l). Qed.
Print Assumptions c07_only_table_objects.

Theorem c07_unknown_reference_is_keyerror : forall W (S : sem W) w l t1 k t2,
  tr (GEN_RUN S w l) = t1 ++ EMiss k :: t2 -> tbl_find k (g_tbl (ghost_of t2)) = None.
Proof. intros W S w l. exact (miss_not_lent S default_config _ _ _ _ _ handlers_guarded w l). Qed.
Print Assumptions c07_unknown_reference_is_keyerror.

Theorem c07_table_is_replay_of_lend_events : forall W (S : sem W) w l,
  tbl (GEN_RUN S w l) = g_tbl (ghost_of (tr (GEN_RUN S w l))).
Proof. intros W S w l. exact (table_is_replay S default_config _ _ _ _ _ handlers_guarded w l). Qed.
Print Assumptions c07_table_is_replay_of_lend_events.

(* 1'. Concretely: a request whose first argument refers to a key that is not in the table is answered with KeyError under
       its own sequence number, for EVERY handler number, whatever follows; nothing is touched, table and service unchanged. *)
Theorem c07_forged_reference_refused : forall W (S : sem W) (s : hst W) seq h key rest answers,
  closed s = false -> tbl_find key (tbl s) = None ->
  let msg := PTuple [PInt 1; seq; PTuple [h; PTuple [PInt 2; PTuple (PTuple [PInt 3; key] :: rest)]]] in
  exists s', handle_msg S default_config Gen_handlers.handlers Gen_handlers.dispatch Gen_handlers.msg_ladder
               Gen_handlers.unbox_ladder Gen_handlers.box_ladder msg answers s = (s', OExc seq (XStd KeyError))
    /\ wst s' = wst s /\ tbl s' = tbl s /\ tr s' = EMiss key :: EMsg :: tr s /\ closed s' = false.
Proof. intros W S. exact (forged_reference_refused S). Qed.
Print Assumptions c07_forged_reference_refused.

(* 2. Whatever the implementation touches, probes, accesses by name, lends or pickles is an object the current request holds
      legitimately: it came from the root (GETROOT), out of the table, from type() of such an object, or as the result of a
      permitted operation earlier in the same request — for every handler number and every argument shape. *)
Theorem c07_touched_only_held : forall W (S : sem W) w l t1 e t2 o,
  tr (GEN_RUN S w l) = t1 ++ e :: t2 -> target e = Some o ->
  In o (g_auth (ghost_of t2)) /\ exists e', In e' t2 /\ gives e' o.
Proof. intros W S w l. exact (touched_only_held S default_config _ _ _ _ _ handlers_guarded w l). Qed.
Print Assumptions c07_touched_only_held.

(* 3. Every access by a peer-chosen name passed the C06 decision; under the default configuration that means: a read
      (never set / delete), of a name that starts with exposed_ or is in safe_attrs.  This holds for every handler: the
      handler language has no other way to reach an attribute by name (the CVE-2019-16328 shape has no translation). *)
Theorem c07_attr_effects_checked : forall W (S : sem W) w l t1 o p final ys t2,
  tr (GEN_RUN S w l) = t1 ++ EAttr o p final ys :: t2 -> p = PGet /\ allowed_default final.
Proof.
  intros W S w l t1 o p final ys t2 E.
  destruct (trace_event_ok S default_config _ _ _ _ _ handlers_guarded w l _ _ _ E) as (_ & pn & vw & D).
  exact (default_decision p pn vw final D).
Qed.
Print Assumptions c07_attr_effects_checked.

(* the hasattr probes _check_attr makes before deciding are on allowed names only *)
Theorem c07_probes_only_allowed_names : forall W (S : sem W) w l t1 o n t2,
  tr (GEN_RUN S w l) = t1 ++ EProbe o n :: t2 -> allowed_default n.
Proof.
  intros W S w l t1 o n t2 E.
  destruct (trace_event_ok S default_config _ _ _ _ _ handlers_guarded w l _ _ _ E) as (_ & p & pn & vw & H).
  exact (probe_names_default p pn vw n H).
Qed.
Print Assumptions c07_probes_only_allowed_names.

(* an object's own _rpyc_*attr hook is used only when its type defines one (then the object decides: C06) *)
Theorem c07_hook_only_when_defined : forall W (S : sem W) w l t1 o p n ys t2,
  tr (GEN_RUN S w l) = t1 ++ EHook o p n ys :: t2 ->
  exists pn vw, decide true (c_attr default_config) p pn vw = Ok (ViaHook n) /\ hook_for vw p = true.
Proof.
  intros W S w l t1 o p n ys t2 E.
  destruct (trace_event_ok S default_config _ _ _ _ _ handlers_guarded w l _ _ _ E) as (_ & pn & vw & D).
  exists pn, vw. split; [exact D|]. revert D. unfold decide, Attr.access_attr.
  destruct (nkind_of pn); try discriminate; destruct (hook_for vw p); try reflexivity;
    match goal with |- context [Attr.check_attr ?a ?b ?c ?d ?e] => destruct (Attr.check_attr a b c d e) as [[]| | |] end; cbn; discriminate.
Qed.
Print Assumptions c07_hook_only_when_defined.

(* 4. Nothing is pickled while allow_pickle is off (any configuration with the switch off; the default has it off). *)
Theorem c07_no_pickle : forall W (S : sem W) C HT DT ML UL BL, table_pk C HT -> c_pickle C = false ->
  forall w l o ys, ~ In (ETouch o OpPickle ys) (tr (run S C HT DT ML UL BL (init w) l)).
Proof.
  intros W S C HT DT ML UL BL Hpk Hc w l o ys Hin. apply in_split in Hin as (t1 & t2 & E).
  rewrite (pickle_needs_switch S C _ _ _ _ _ Hpk w l _ _ _ _ E) in Hc. discriminate.
Qed.
Print Assumptions c07_no_pickle.
Theorem c07_no_pickle_pinned_tree : forall W (S : sem W) w l o ys, ~ In (ETouch o OpPickle ys) (tr (GEN_RUN S w l)).
Proof. intros W S. exact (c07_no_pickle W S default_config _ _ _ _ _ handlers_guarded eq_refl). Qed.
Print Assumptions c07_no_pickle_pinned_tree.

(* 5. No exception record — solicited or not, however crafted — makes the process import a module or call a constructor;
      the only classes instantiated (with __new__) are builtin exception classes or generic stand-ins. *)
Theorem c07_no_import_no_ctor : forall W (S : sem W) w l v,
  In (EVin v) (tr (GEN_RUN S w l)) ->
  (forall m, v <> Vinegar.EImport m) /\ (forall c, v <> Vinegar.EInit c) /\
  (forall c, v = Vinegar.ENew (Vinegar.Real c) ->
             exists n ok, Vinegar.assoc n (Vinegar.builtins_ns (s_env S)) = Some (Vinegar.AExc c ok)).
Proof.
  intros W S w l v Hin. apply in_split in Hin as (t1 & t2 & E).
  destruct (vinegar_effects S default_config _ _ _ _ _ handlers_guarded w l _ _ _ E) as (A & B & D). repeat split.
  - intros m ->. destruct (A m eq_refl) as [X|X]; discriminate X.
  - exact B.
  - intros c Hc. exact (D c Hc eq_refl).
Qed.
Print Assumptions c07_no_import_no_ctor.

(* 6. Each message has exactly one outcome.  A request is answered under ITS OWN sequence number with a value or an exception,
      or this connection ends (a local KeyboardInterrupt/SystemExit the configuration propagates, or the peer's own close);
      anything that is not a request is never answered: dropped, or this connection ends; a dead connection reads nothing. *)
Theorem c07_always_answered_or_dropped : forall W (S : sem W) msg answers (s s' : hst W) o,
  handle_msg S default_config Gen_handlers.handlers Gen_handlers.dispatch Gen_handlers.msg_ladder Gen_handlers.unbox_ladder
             Gen_handlers.box_ladder msg answers s = (s', o) ->
  (closed s = true -> o = ODead /\ s' = s) /\
  (closed s = false -> forall seq args, kind_of Gen_handlers.msg_ladder msg = Some (DRequest, seq, args) ->
     (exists p, o = OReply seq p) \/ (exists x, o = OExc seq x /\ propagates default_config x = false) \/
     (exists x, o = OEnd x /\ propagates default_config x = true /\ closed s' = true) \/ (o = OClosed /\ closed s' = true) \/ o = OUnm) /\
  (closed s = false -> (forall seq args, kind_of Gen_handlers.msg_ladder msg <> Some (DRequest, seq, args)) ->
     o = OIgnored \/ (exists x, o = OEnd x /\ closed s' = true) \/ o = OUnm).
Proof.
  intros W S msg answers s s' o E. split; [|split].
  - intros Hc. exact (dead_outcome S _ _ _ _ _ _ _ _ _ _ _ Hc E).
  - intros Hc seq args Hk. exact (request_outcome S _ _ _ _ _ _ _ _ _ _ _ _ _ Hc Hk E).
  - intros Hc Hk. exact (other_outcome S _ _ _ _ _ _ _ _ _ _ _ Hc Hk E).
Qed.
Print Assumptions c07_always_answered_or_dropped.

(* 7. The service's state changes only together with a touching event (an operation on / a checked access to / a hook of a
      held object): a message that is refused before anything is touched — unknown reference, denied name, unknown handler
      number, wrong arity, malformed shape, unsolicited reply, crafted exception record — leaves it exactly as it was. *)
Theorem c07_refusals_leave_state_untouched : forall W (S : sem W) msg answers (s s' : hst W) o,
  handle_msg S default_config Gen_handlers.handlers Gen_handlers.dispatch Gen_handlers.msg_ladder Gen_handlers.unbox_ladder
             Gen_handlers.box_ladder msg answers s = (s', o) ->
  (nt (tr s) <= nt (tr s'))%nat /\ (nt (tr s') = nt (tr s) -> wst s' = wst s).
Proof. intros W S msg answers s s' o E. exact (q_handle_msg S _ _ _ _ _ _ _ _ _ _ _ E). Qed.
Print Assumptions c07_refusals_leave_state_untouched.

(* 8. Tie to the generated facts of the current source tree. *)
Theorem c07_tie :
  Gen_handlers.handlers = Hostile.handlers /\ Gen_handlers.dispatch = Hostile.dispatch /\
  Gen_handlers.msg_ladder = Hostile.msg_ladder /\ Gen_handlers.unbox_ladder = Hostile.unbox_ladder /\
  Gen_handlers.box_ladder = Hostile.box_ladder /\ Gen_handlers.getitem_plain = true /\ Gen_handlers.serve_all_closes = true /\
  Gen_attrpolicy.decode_guarded = c_guard default_config /\ table_pk default_config Gen_handlers.handlers.
Proof.
  destruct ladders_tie as (A & B & D). destruct table_lookup_tie as [G H]. destruct default_config_tie as (_ & _ & _ & K & _).
  split; [reflexivity|]. split; [reflexivity|]. split; [exact A|]. split; [exact B|]. split; [exact D|]. split; [exact G|].
  split; [exact H|]. split; [exact K|]. exact handlers_guarded.
Qed.
Print Assumptions c07_tie.

(* ------------------------------------------------------------------ non-vacuity: a concrete service and a hostile session *)
Definition ex_key (i : Z) : pyval := PTuple [PStr (txt "K"); PInt 1; PInt i].
Definition ex_obj (key : pyval) (ty : oid) (attrs : list (text * aval)) (call : aval) : odesc :=
  {| od_key := key; od_type := ty; od_class := false; od_attrs := attrs; od_hooks := (false, false, false); od_hookres := ANone;
     od_call := call; od_iter := None; od_repr := txt "<obj>"; od_str := txt "obj"; od_hash := AV (PInt 7); od_dir := [];
     od_bool := true; od_methods := PTuple [] |}.
Definition ex_world : world :=
  {| w_objs := [ex_obj (ex_key 0) 2%N [(txt "exposed_get", AO 1%N); (txt "secret", AO 1%N); (txt "_priv", AV (PInt 5))] ANone;
                ex_obj (ex_key 1) 2%N [] (AV (PInt 42));
                ex_obj (ex_key 2) 3%N [(txt "__eq__", AO 1%N)] ANone;
                ex_obj (ex_key 3) 3%N [] ANone];
     w_builtin := [txt "builtins.list"] |}.
Definition ex_sem : sem unit := world_sem ex_world [txt "ValueError"; txt "KeyboardInterrupt"].
Definition V (v : pyval) := PTuple [PInt 1; v].
Definition Lr (k : pyval) := PTuple [PInt 3; k].
Definition Tt (l : list pyval) := PTuple [PInt 2; PTuple l].
Definition req (seq h : Z) (items : list pyval) : @input unit := IMsg (PTuple [PInt 1; PInt seq; PTuple [PInt h; Tt items]]) [].
Definition S' (s : string) := PStr (txt s).
Definition ex_session : list (@input unit) :=
  [req 1 3 [];                                                        (* GETROOT *)
   req 2 4 [Lr (ex_key 0); V (S' "secret")];                          (* GETATTR root.secret: denied *)
   req 3 11 [Lr (ex_key 0); Lr (ex_key 0); V (S' "__class__")];       (* CMP with a denied operator name *)
   req 4 4 [Lr (ex_key 0); V (S' "get")];                             (* GETATTR root.get -> exposed_get: object 1 is lent *)
   req 5 7 [Lr (ex_key 1); V (PTuple []); V (PTuple [])];             (* CALL the lent object *)
   req 6 9 [Lr (ex_key 2)];                                           (* REPR of an object that was never lent *)
   req 7 14 [Lr (ex_key 0); V (PInt 2)];                              (* PICKLE *)
   req 8 6 [Lr (ex_key 0); V (S' "exposed_get"); V (PInt 1)];         (* SETATTR *)
   IMsg (PTuple [PInt 3; PInt 9; PTuple [PTuple [S' "os"; S' "system"]; PTuple []; PTuple []; S' ""]]) [];   (* crafted exception record *)
   req 10 21 []].                                                     (* no such handler *)
Definition ex_outs : list out :=
  (fix go (s : hst unit) (l : list (@input unit)) : list out :=
     match l with [] => [] | i :: r => let '(s', o) := step ex_sem default_config Hostile.handlers Hostile.dispatch Hostile.msg_ladder Hostile.unbox_ladder Hostile.box_ladder s i in o :: go s' r end)
    (init tt) ex_session.

Example c07_session_outcomes :
  ex_outs = [OReply (PInt 1) (PTuple [PInt 4; ex_key 0]);
             OExc (PInt 2) (XStd AttributeError);
             OExc (PInt 3) (XStd AttributeError);
             OReply (PInt 4) (PTuple [PInt 4; ex_key 1]);
             OReply (PInt 5) (PTuple [PInt 1; PInt 42]);
             OExc (PInt 6) (XStd KeyError);
             OExc (PInt 7) (XStd ValueError);
             OExc (PInt 8) (XStd AttributeError);
             OIgnored;
             OExc (PInt 10) (XStd KeyError)].
Proof. vm_compute. reflexivity. Qed.

Definition ex_final : hst unit := run ex_sem default_config Hostile.handlers Hostile.dispatch Hostile.msg_ladder Hostile.unbox_ladder Hostile.box_ladder (init tt) ex_session.
(* the hypotheses of the trace theorems are met by a trace that resolves, probes, accesses, touches and lends *)
Example c07_trace_is_not_trivial :
  In (EResolve (ex_key 0) 0%N) (tr ex_final) /\ In (EAttr 0%N PGet (txt "exposed_get") [1%N]) (tr ex_final) /\
  In (EProbe 0%N (txt "exposed_secret")) (tr ex_final) /\ In (EBox (ex_key 1) 1%N) (tr ex_final) /\
  In (ETouch 1%N OpCall []) (tr ex_final) /\ In (EMiss (ex_key 2)) (tr ex_final) /\
  In (EVin (Vinegar.ENew (Vinegar.Generic (S' "os") (S' "system")))) (tr ex_final) /\
  tbl ex_final = [(ex_key 0, 0%N, 0%Z); (ex_key 1, 1%N, 0%Z)] /\ List.length (tr ex_final) = 28%nat.
Proof. vm_compute. repeat split; try reflexivity; repeat (first [left; reflexivity | right]). Qed.
(* the guard hypothesis holds for the model's own table, and fails for a table that pickles unguarded *)
Example c07_guard_hypothesis_is_decidable_and_sharp :
  table_pkb false Hostile.handlers = true /\
  table_pkb false [("pickle"%string, {| h_min := 2; h_defaults := []; h_body := XOp OpPickle P0 P1 |})] = false.
Proof. split; vm_compute; reflexivity. Qed.
(* refusals touch nothing: the denied GETATTR of the session adds no touching event *)
Example c07_denied_request_is_quiet :
  let s1 := fst (step ex_sem default_config Hostile.handlers Hostile.dispatch Hostile.msg_ladder Hostile.unbox_ladder Hostile.box_ladder (init tt) (req 1 3 [])) in
  let s2 := fst (step ex_sem default_config Hostile.handlers Hostile.dispatch Hostile.msg_ladder Hostile.unbox_ladder Hostile.box_ladder s1 (req 2 4 [Lr (ex_key 0); V (S' "secret")])) in
  nt (tr s2) = nt (tr s1) /\ tbl s2 = tbl s1.
Proof. vm_compute. split; reflexivity. Qed.
