(* C07 — A hostile peer cannot step outside what the service exposes.
   Only statements, [exact]s / short glue and Print Assumptions live here.

   Setting (model/Hostile.v): the peer sends ANY list of well-framed messages (any brine value each) together with ANY
   script of answers to the requests the server itself sends while handling them; between messages anybody else may
   change the service ([IEnv]).  What an operation on a service object does and returns is an arbitrary function over
   an abstract service state ([sem W], universally quantified).  The handler table / number table / ladders the
   interpreter runs are the ones regenerated from the source tree on every run (gen/Gen_handlers.v), equal to the
   hand-written ones of the model (proofs/HostileTie.v).  Every event of the connection's trace is checked against a
   ghost replay of everything that happened before it ([ev_ok], proofs/HostileP.v). *)
(* SCOPE.  "Every sequence of messages": the theorems below hold for every list of inputs, but they DESCRIBE a connection only up to
   the first message whose outcome is OUnm (the model does not describe it; absorbing, c07_unmodelled_is_absorbing): a by-name access
   of a policy-allowed name on a plain value, a call with non-empty keyword pairs, a frozenset payload whose order matters, nesting
   deeper than 64, a float release count, a tuple callee with a non-iterable star argument.  One message is one atomic step: requests
   the peer sends while the server waits for the answer to its own nested request are outside every theorem (harness oracle only).
   Operations whose target is a peer proxy are one scripted exchange (flag approx). *)
From V Require Import lib.Base lib.Sx model.Brine model.Attr model.Hostile proofs.AttrP proofs.HostileP proofs.HostileTie
  gen.Gen_handlers gen.Gen_attrpolicy.
From V Require model.Vinegar.
From Coq Require Import String.

(* the connection as the pinned tree + default configuration define it *)
Notation GEN_RUN S w l := (run S tree_config Gen_handlers.handlers Gen_handlers.dispatch Gen_handlers.msg_ladder
                               Gen_handlers.unbox_ladder Gen_handlers.box_ladder (init w) l).

(* 0. The master invariant, for every service, every configuration and every handler table of the handler language that
      pickles only under the allow_pickle guard: the whole trace is well-formed. *)
Theorem c07_trace_wellformed : forall W (S : sem W) C HT DT ML UL BL, val_closed S -> table_pk C HT ->
  forall w l, wf S C (tr (run S C HT DT ML UL BL (init w) l)).
Proof. intros. now apply wf_run. Qed.
Print Assumptions c07_trace_wellformed.

Theorem c07_trace_wellformed_pinned_tree : forall W (S : sem W), val_closed S -> forall w l, wf S tree_config (tr (GEN_RUN S w l)).
Proof. intros. apply wf_run; [assumption|exact handlers_guarded]. Qed.
Print Assumptions c07_trace_wellformed_pinned_tree.

(* 1. Every object reference a message carries is resolved through the table of THIS connection at that moment; the table
      holds only objects the server itself lent to this peer earlier on this connection (an EBox event), and at every
      moment it is exactly the replay of the lend / release / clear events.  A key that is not there (forged, already
      released, harvested on another connection) gives KeyError (EMiss). *)
Theorem c07_only_table_objects : forall W (S : sem W), val_closed S -> forall w l t1 k o t2,
  tr (GEN_RUN S w l) = t1 ++ EResolve k o :: t2 ->
  (exists c, tbl_find k (g_tbl (ghost_of t2)) = Some (o, c)) /\ exists k', In (EBox k' o) t2.
Proof. intros W S Sv w l. exact (resolve_only_lent S tree_config _ _ _ _ _ Sv handlers_guarded w l). Qed.
Print Assumptions c07_only_table_objects.

Theorem c07_unknown_reference_is_keyerror : forall W (S : sem W), val_closed S -> forall w l t1 k t2,
  tr (GEN_RUN S w l) = t1 ++ EMiss k :: t2 -> tbl_find k (g_tbl (ghost_of t2)) = None.
Proof. intros W S Sv w l. exact (miss_not_lent S tree_config _ _ _ _ _ Sv handlers_guarded w l). Qed.
Print Assumptions c07_unknown_reference_is_keyerror.

Theorem c07_table_is_replay_of_lend_events : forall W (S : sem W), val_closed S -> forall w l,
  tbl (GEN_RUN S w l) = g_tbl (ghost_of (tr (GEN_RUN S w l))).
Proof. intros W S Sv w l. exact (table_is_replay S tree_config _ _ _ _ _ Sv handlers_guarded w l). Qed.
Print Assumptions c07_table_is_replay_of_lend_events.

(* 1'. Concretely: a request whose first argument refers to a key that is not in the table is answered with KeyError under
       its own sequence number, for EVERY handler number, whatever follows; nothing is touched, table and service unchanged. *)
Theorem c07_forged_reference_refused : forall W (S : sem W) (s : hst W) seq h key rest answers,
  lost s = false -> closed s = false -> tbl_find key (tbl s) = None ->
  let msg := PTuple [PInt 1; seq; PTuple [h; PTuple [PInt 2; PTuple (PTuple [PInt 3; key] :: rest)]]] in
  exists s', handle_msg S tree_config Gen_handlers.handlers Gen_handlers.dispatch Gen_handlers.msg_ladder
               Gen_handlers.unbox_ladder Gen_handlers.box_ladder msg answers s = (s', OExc seq (XStd KeyError))
    /\ wst s' = wst s /\ tbl s' = tbl s /\ tr s' = EMiss key :: EMsg :: tr s /\ closed s' = false.
Proof. intros W S. exact (forged_reference_refused S tree_config _ _). Qed.
Print Assumptions c07_forged_reference_refused.

(* 2. Whatever the implementation touches, probes, accesses by name, lends or pickles is an object the current request holds
      legitimately: it came from the root (GETROOT), out of the table, from type() of such an object, or as the result of a
      permitted operation earlier in the same request — for every handler number and every argument shape. *)
Theorem c07_touched_only_held : forall W (S : sem W), val_closed S -> forall w l t1 e t2 o,
  tr (GEN_RUN S w l) = t1 ++ e :: t2 -> target e = Some o ->
  In o (g_auth (ghost_of t2)) /\ exists e', In e' t2 /\ gives e' o.
Proof. intros W S Sv w l. exact (touched_only_held S tree_config _ _ _ _ _ Sv handlers_guarded w l). Qed.
Print Assumptions c07_touched_only_held.

(* 3. Every access by a peer-chosen name passed the C06 decision; under the default configuration that means: a read
      (never set / delete), of a name that starts with exposed_ or is in safe_attrs.  This holds for every handler: the
      handler language has no other way to reach an attribute by name (the CVE-2019-16328 shape has no translation). *)
Theorem c07_attr_effects_checked : forall W (S : sem W), val_closed S -> forall w l t1 o p final ys t2,
  tr (GEN_RUN S w l) = t1 ++ EAttr o p final ys :: t2 -> p = PGet /\ allowed_default final.
Proof.
  intros W S Sv w l t1 o p final ys t2 E.
  destruct (trace_event_ok S tree_config _ _ _ _ _ Sv handlers_guarded w l _ _ _ E) as (_ & pn & vw & D).
  exact (default_decision p pn vw final D).
Qed.
Print Assumptions c07_attr_effects_checked.

(* the hasattr probes _check_attr makes before deciding are on allowed names only *)
Theorem c07_probes_only_allowed_names : forall W (S : sem W), val_closed S -> forall w l t1 o n t2,
  tr (GEN_RUN S w l) = t1 ++ EProbe o n :: t2 -> allowed_default n.
Proof.
  intros W S Sv w l t1 o n t2 E.
  destruct (trace_event_ok S tree_config _ _ _ _ _ Sv handlers_guarded w l _ _ _ E) as (_ & p & pn & vw & H).
  exact (probe_names_default p pn vw n H).
Qed.
Print Assumptions c07_probes_only_allowed_names.

(* an object's own _rpyc_*attr hook is used only when its type defines one (then the object decides: C06) *)
Theorem c07_hook_only_when_defined : forall W (S : sem W), val_closed S -> forall w l t1 o p n ys t2,
  tr (GEN_RUN S w l) = t1 ++ EHook o p n ys :: t2 ->
  exists pn vw, decide true (c_attr default_config) p pn vw = Ok (ViaHook n) /\ hook_for vw p = true.
Proof.
  intros W S Sv w l t1 o p n ys t2 E.
  destruct (trace_event_ok S tree_config _ _ _ _ _ Sv handlers_guarded w l _ _ _ E) as (_ & pn & vw & D).
  exists pn, vw. split; [exact D|]. revert D. unfold decide, Attr.access_attr.
  destruct (nkind_of pn); try discriminate; destruct (hook_for vw p); try reflexivity;
    match goal with |- context [Attr.check_attr ?a ?b ?c ?d ?e] => destruct (Attr.check_attr a b c d e) as [[]| | |] end; cbn; discriminate.
Qed.
Print Assumptions c07_hook_only_when_defined.

(* 4. Nothing is pickled while allow_pickle is off (any configuration with the switch off; the default has it off). *)
Theorem c07_no_pickle : forall W (S : sem W) C HT DT ML UL BL, val_closed S -> table_pk C HT -> c_pickle C = false ->
  forall w l o ys, ~ In (ETouch o OpPickle ys) (tr (run S C HT DT ML UL BL (init w) l)).
Proof.
  intros W S C HT DT ML UL BL Sv Hpk Hc w l o ys Hin. apply in_split in Hin as (t1 & t2 & E).
  rewrite (pickle_needs_switch S C _ _ _ _ _ Sv Hpk w l _ _ _ _ E) in Hc. discriminate.
Qed.
Print Assumptions c07_no_pickle.
Theorem c07_no_pickle_pinned_tree : forall W (S : sem W), val_closed S -> forall w l o ys, ~ In (ETouch o OpPickle ys) (tr (GEN_RUN S w l)).
Proof. intros W S Sv. exact (c07_no_pickle W S tree_config _ _ _ _ _ Sv handlers_guarded eq_refl). Qed.
Print Assumptions c07_no_pickle_pinned_tree.

(* 5. No exception record — solicited or not, however crafted — makes the process import a module or call a constructor;
      the only classes instantiated (with __new__) are builtin exception classes or generic stand-ins. *)
Theorem c07_no_import_no_ctor : forall W (S : sem W), val_closed S -> forall w l v,
  In (EVin v) (tr (GEN_RUN S w l)) ->
  (forall m, v <> Vinegar.EImport m) /\ (forall c, v <> Vinegar.EInit c) /\
  (forall c, v = Vinegar.ENew (Vinegar.Real c) ->
             exists n ok, Vinegar.assoc n (Vinegar.builtins_ns (s_env S)) = Some (Vinegar.AExc c ok)).
Proof.
  intros W S Sv w l v Hin. apply in_split in Hin as (t1 & t2 & E).
  destruct (vinegar_effects S tree_config _ _ _ _ _ Sv handlers_guarded w l _ _ _ E) as (A & B & D). repeat split.
  - intros m ->. destruct (A m eq_refl) as [X|X]; discriminate X.
  - exact B.
  - intros c Hc. exact (D c Hc eq_refl).
Qed.
Print Assumptions c07_no_import_no_ctor.

(* 6. Each message has exactly one outcome.  A request is answered under ITS OWN sequence number with a value or an exception,
      or this connection ends (a local KeyboardInterrupt/SystemExit the configuration propagates, or the peer's own close);
      anything that is not a request is never answered: dropped, or this connection ends; a dead connection reads nothing.
      [closed s' = true] after OEnd is what Connection.serve_all does with an exception that leaves serve() (typed fact
      serve_all_closes: the loop sits in try/finally close()); a caller that drives serve() itself must close on its own.
      [OUnm]: the model does not describe this message (an operation on a plain value's own attribute, keyword arguments,
      a frozenset payload whose iteration order matters, nesting deeper than 64, ...); it then says nothing about the rest
      of the connection (c07_unmodelled_is_absorbing): all statements here are about the modelled prefix ([lost s = false]). *)
Theorem c07_always_answered_or_dropped : forall W (S : sem W) msg answers (s s' : hst W) o,
  lost s = false ->
  handle_msg S tree_config Gen_handlers.handlers Gen_handlers.dispatch Gen_handlers.msg_ladder Gen_handlers.unbox_ladder
             Gen_handlers.box_ladder msg answers s = (s', o) ->
  (closed s = true -> o = ODead /\ s' = s) /\
  (closed s = false -> forall seq args, kind_of Gen_handlers.msg_ladder msg = Some (DRequest, seq, args) ->
     (exists p, o = OReply seq p) \/ (exists x, o = OExc seq x /\ propagates tree_config x = false) \/
     (exists x, o = OEnd x /\ propagates tree_config x = true /\ closed s' = true) \/ (o = OClosed /\ closed s' = true) \/ o = OUnm) /\
  (closed s = false -> (forall seq args, kind_of Gen_handlers.msg_ladder msg <> Some (DRequest, seq, args)) ->
     o = OIgnored \/ (exists x, o = OEnd x /\ closed s' = true) \/ o = OUnm).
Proof.
  intros W S msg answers s s' o Hl E. split; [|split].
  - intros Hc. exact (dead_outcome S _ _ _ _ _ _ _ _ _ _ _ Hl Hc E).
  - intros Hc seq args Hk. exact (request_outcome S _ _ _ _ _ _ _ _ _ _ _ _ _ Hl Hc Hk E).
  - intros Hc Hk. exact (other_outcome S _ _ _ _ _ _ _ _ _ _ _ Hl Hc Hk E).
Qed.
Print Assumptions c07_always_answered_or_dropped.

(* 6'. On the pinned tree responses go through _dispatch_response: an unsolicited reply / exception record that cannot be rebuilt is
       dropped like any other unsolicited response; the connection ends only for EOFError or for something that is not an Exception. *)
Theorem c07_undecodable_response : forall W (S : sem W) msg answers (s s' : hst W) o d seq args,
  lost s = false -> closed s = false -> kind_of Gen_handlers.msg_ladder msg = Some (d, seq, args) -> d = DReplyG \/ d = DExceptionG ->
  handle_msg S tree_config Gen_handlers.handlers Gen_handlers.dispatch Gen_handlers.msg_ladder Gen_handlers.unbox_ladder
             Gen_handlers.box_ladder msg answers s = (s', o) ->
  o = OIgnored \/ (exists x, o = OEnd x /\ escapes_response x = true /\ closed s' = true) \/ o = OUnm.
Proof. intros W S. exact (guarded_response_outcome S tree_config _ _ _ _ _). Qed.
Print Assumptions c07_undecodable_response.

(* 6''. Once the model met something it does not describe, it says nothing more: every later outcome is OUnm, nothing changes. *)
Theorem c07_unmodelled_is_absorbing : forall W (S : sem W) msg answers (s s' : hst W),
  (lost s = true -> handle_msg S tree_config Gen_handlers.handlers Gen_handlers.dispatch Gen_handlers.msg_ladder Gen_handlers.unbox_ladder
                               Gen_handlers.box_ladder msg answers s = (s, OUnm)) /\
  (handle_msg S tree_config Gen_handlers.handlers Gen_handlers.dispatch Gen_handlers.msg_ladder Gen_handlers.unbox_ladder
              Gen_handlers.box_ladder msg answers s = (s', OUnm) -> lost s' = true).
Proof. intros W S msg answers s s'. split; [apply lost_is_absorbing|apply unmodelled_sets_lost]. Qed.
Print Assumptions c07_unmodelled_is_absorbing.

(* 7. [partial: true of the model by construction, see the assumption "hasattr probes ... are reads" in the harness META]
      The service's state changes only together with an event that runs service code: an operation on / a checked access to /
      a hook of a held object, a hasattr probe of _check_attr, repr()/dir() of an exception payload, on_disconnect.  A message
      refused BEFORE any of these -- unknown reference, unknown handler number, wrong arity, malformed shape, a name that is
      not text, unsolicited reply, crafted exception record -- leaves it exactly as it was.  (A denied name on an object is
      refused after the probe hasattr(obj, "exposed_" + name): that probe is service code when the object defines __getattr__.) *)
Theorem c07_refusals_leave_state_untouched_partial : forall W (S : sem W) msg answers (s s' : hst W) o,
  handle_msg S tree_config Gen_handlers.handlers Gen_handlers.dispatch Gen_handlers.msg_ladder Gen_handlers.unbox_ladder
             Gen_handlers.box_ladder msg answers s = (s', o) ->
  (nt (tr s) <= nt (tr s'))%nat /\ (nt (tr s') = nt (tr s) -> wst s' = wst s).
Proof. intros W S msg answers s s' o E. exact (q_handle_msg S _ _ _ _ _ _ _ _ _ _ _ E). Qed.
Print Assumptions c07_refusals_leave_state_untouched_partial.

(* 7'. netref.class_factory (a proxy for a peer-declared type name) never makes the process import a module: on the pinned tree it
       reads the peer-named class out of the module's own __dict__ (generated fact class_lookup_mode = LkDict), so a module-level
       __getattr__ hook (PEP 562: concurrent.futures, ...) is never run for a peer-chosen name. *)
Theorem c07_class_lookup_never_imports : forall W (S : sem W), val_closed S -> forall w l m, ~ In (ECls m) (tr (GEN_RUN S w l)).
Proof.
  intros W S Sv w l m Hin. apply in_split in Hin as (t1 & t2 & E).
  pose proof (class_hook_needs_getattr S tree_config _ _ _ _ _ Sv handlers_guarded w l _ _ _ E) as H. discriminate H.
Qed.
Print Assumptions c07_class_lookup_never_imports.

(* 7''. netref.class_factory reads no attribute of the object a peer-declared dotted name is bound to in an imported module (an object
        that was never lent) -- provided it accepts that object by a test on type(found) alone (generated fact class_reads_object = false,
        the repaired form).  On a tree where it asks the object itself (hasattr(found, '__class__'), found.__class__) the hypothesis
        fails: c07_class_lookup_reads_unlent_global_refuted shows a never-lent object being read by one PING. *)
Theorem c07_class_lookup_reads_no_object : Gen_handlers.class_reads_object = false ->
  forall W (S : sem W), val_closed S -> forall w l o, ~ In (EGlobalRead o) (tr (GEN_RUN S w l)).
Proof.
  intros Hf W S Sv w l o Hin. apply in_split in Hin as (t1 & t2 & E).
  pose proof (class_global_read_needs_form S tree_config _ _ _ _ _ Sv handlers_guarded w l _ _ _ E) as H.
  unfold tree_config in H. cbn in H. rewrite Hf in H. discriminate H.
Qed.
Print Assumptions c07_class_lookup_reads_no_object.

(* 8. Tie to the generated facts of the current source tree. *)
Theorem c07_tie :
  Gen_handlers.handlers = Hostile.handlers_of Gen_handlers.cmp_guard Gen_handlers.ctx_catches_all /\ Gen_handlers.dispatch = Hostile.dispatch /\
  Gen_handlers.msg_ladder = Hostile.msg_ladder /\ Gen_handlers.unbox_ladder = Hostile.unbox_ladder /\
  Gen_handlers.box_ladder = Hostile.box_ladder /\ Gen_handlers.getitem_plain = true /\ Gen_handlers.serve_all_closes = true /\
  Gen_attrpolicy.decode_guarded = c_guard default_config /\ Gen_handlers.class_lookup_mode = c_cls_mode default_config /\
  table_pk default_config Gen_handlers.handlers.
Proof.
  destruct ladders_tie as (A & B & D). destruct table_lookup_tie as [G H]. destruct default_config_tie as (_ & _ & _ & K & _).
  split; [reflexivity|]. split; [reflexivity|]. split; [exact A|]. split; [exact B|]. split; [exact D|]. split; [exact G|].
  split; [exact H|]. split; [exact K|]. split; [exact class_lookup_tie|]. exact handlers_guarded.
Qed.
Print Assumptions c07_tie.

(* ------------------------------------------------------------------ non-vacuity: a concrete service and a hostile session *)
Definition ex_key (i : Z) : pyval := PTuple [PStr (txt "K"); PInt 1; PInt i].
Definition ex_obj (key : pyval) (ty : oid) (attrs : list (text * aval)) (call : aval) : odesc :=
  {| od_key := key; od_type := ty; od_class := false; od_attrs := attrs; od_hooks := (false, false, false); od_hookres := ANone;
     od_call := call; od_iter := None; od_repr := txt "<obj>"; od_str := txt "obj"; od_hash := AV (PInt 7); od_dir := [];
     od_bool := true; od_methods := PTuple []; od_callable := true |}.
Definition ex_world : world :=
  {| w_objs := [ex_obj (ex_key 0) 2%N [(txt "exposed_get", AO 1%N); (txt "secret", AO 1%N); (txt "_priv", AV (PInt 5))] ANone;
                ex_obj (ex_key 1) 2%N [] (AV (PInt 42));
                ex_obj (ex_key 2) 3%N [(txt "__eq__", AO 1%N)] ANone;
                ex_obj (ex_key 3) 3%N [] ANone];
     w_builtin := [txt "builtins.list"] |}.
Definition ex_mods : list (Vinegar.text * Vinegar.ns) :=
  [(txt "lazymod", [(txt "Lazy", Vinegar.ALazy [txt "lazymod.impl"] None); (txt "Plain", Vinegar.AOther)])].
Definition ex_sem : sem unit := world_sem ex_world [txt "ValueError"; txt "KeyboardInterrupt"] ex_mods [(txt "settings.vault", 2%N)].
Definition V (v : pyval) := PTuple [PInt 1; v].
Definition Lr (k : pyval) := PTuple [PInt 3; k].
Definition Tt (l : list pyval) := PTuple [PInt 2; PTuple l].
Definition req (seq h : Z) (items : list pyval) : @input unit := IMsg (PTuple [PInt 1; PInt seq; PTuple [PInt h; Tt items]]) [].
Definition S' (s : string) := PStr (txt s).
Definition ex_session : list (@input unit) :=
  [req 1 3 [];                                                        (* GETROOT *)
   req 2 4 [Lr (ex_key 0); V (S' "secret")];                          (* GETATTR root.secret: denied *)
   req 3 11 [Lr (ex_key 0); Lr (ex_key 0); V (S' "__class__")];       (* CMP with a denied operator name *)
   req 4 4 [Lr (ex_key 0); V (S' "get")];                             (* GETATTR root.get -> exposed_get: object 1 is lent *)
   req 5 7 [Lr (ex_key 1); V (PTuple []); V (PTuple [])];             (* CALL the lent object *)
   req 6 9 [Lr (ex_key 2)];                                           (* REPR of an object that was never lent *)
   req 7 14 [Lr (ex_key 0); V (PInt 2)];                              (* PICKLE *)
   req 8 6 [Lr (ex_key 0); V (S' "exposed_get"); V (PInt 1)];         (* SETATTR *)
   IMsg (PTuple [PInt 3; PInt 9; PTuple [PTuple [S' "os"; S' "system"]; PTuple []; PTuple []; S' ""]]) [];   (* crafted exception record *)
   req 10 21 []].                                                     (* no such handler *)
Definition ex_outs : list out :=
  (fix go (s : hst unit) (l : list (@input unit)) : list out :=
     match l with [] => [] | i :: r => let '(s', o) := step ex_sem default_config Hostile.handlers Hostile.dispatch Hostile.msg_ladder Hostile.unbox_ladder Hostile.box_ladder s i in o :: go s' r end)
    (init tt) ex_session.

Example c07_session_outcomes :
  ex_outs = [OReply (PInt 1) (PTuple [PInt 4; ex_key 0]);
             OExc (PInt 2) (XStd AttributeError);
             OExc (PInt 3) (XStd AttributeError);
             OReply (PInt 4) (PTuple [PInt 4; ex_key 1]);
             OReply (PInt 5) (PTuple [PInt 1; PInt 42]);
             OExc (PInt 6) (XStd KeyError);
             OExc (PInt 7) (XStd ValueError);
             OExc (PInt 8) (XStd AttributeError);
             OIgnored;
             OExc (PInt 10) (XStd KeyError)].
Proof. vm_compute. reflexivity. Qed.

Definition ex_final : hst unit := run ex_sem default_config Hostile.handlers Hostile.dispatch Hostile.msg_ladder Hostile.unbox_ladder Hostile.box_ladder (init tt) ex_session.
(* the hypotheses of the trace theorems are met by a trace that resolves, probes, accesses, touches and lends *)
Example c07_trace_is_not_trivial :
  In (EResolve (ex_key 0) 0%N) (tr ex_final) /\ In (EAttr 0%N PGet (txt "exposed_get") [1%N]) (tr ex_final) /\
  In (EProbe 0%N (txt "exposed_secret")) (tr ex_final) /\ In (EBox (ex_key 1) 1%N) (tr ex_final) /\
  In (ETouch 1%N OpCall []) (tr ex_final) /\ In (EMiss (ex_key 2)) (tr ex_final) /\
  In (EVin (Vinegar.ENew (Vinegar.Generic (S' "os") (S' "system")))) (tr ex_final) /\
  tbl ex_final = [(ex_key 0, 0%N, 0%Z); (ex_key 1, 1%N, 0%Z)] /\ List.length (tr ex_final) = 28%nat.
Proof. vm_compute. repeat split; try reflexivity; repeat (first [left; reflexivity | right]). Qed.
(* the guard hypothesis holds for the model's own table, and fails for a table that pickles unguarded *)
Example c07_guard_hypothesis_is_decidable_and_sharp :
  table_pkb false Hostile.handlers = true /\
  table_pkb false [("pickle"%string, {| h_min := 2; h_defaults := []; h_body := XOp OpPickle P0 P1 |})] = false.
Proof. split; vm_compute; reflexivity. Qed.
(* refusals before any probe run no service code: the forged reference of the session adds no touching event *)
Example c07_refused_request_is_quiet :
  let s1 := fst (step ex_sem default_config Hostile.handlers Hostile.dispatch Hostile.msg_ladder Hostile.unbox_ladder Hostile.box_ladder (init tt) (req 1 3 [])) in
  let s2 := fst (step ex_sem default_config Hostile.handlers Hostile.dispatch Hostile.msg_ladder Hostile.unbox_ladder Hostile.box_ladder s1 (req 6 9 [Lr (ex_key 2)])) in
  nt (tr s2) = nt (tr s1) /\ tbl s2 = tbl s1.
Proof. vm_compute. split; reflexivity. Qed.
(* the canary world meets the hypothesis on plain-value operations *)
Example c07_val_closed_is_satisfiable : val_closed ex_sem.
Proof. apply world_sem_val_closed. Qed.

(* 7'-refuted: with the form class_factory had before the repair -- getattr(module, name, None) -- one PING carrying a proxy whose
   declared type name resolves through a module-level __getattr__ makes the process import (finding: C07 class_factory import) *)
Definition getattr_config : config := config_with Vinegar.LkGetattr.
Definition lazy_ping : @input unit :=
  IMsg (PTuple [PInt 1; PInt 1; PTuple [PInt 1; Tt [PTuple [PInt 4; PTuple [S' "lazymod.Lazy"; PInt 1; PInt 2]]]]]) [PReply (V (PTuple []))].
Example c07_class_lookup_refuted_when_getattr :
  In (ECls (txt "lazymod.impl")) (tr (fst (step ex_sem getattr_config Hostile.handlers Hostile.dispatch Hostile.msg_ladder Hostile.unbox_ladder Hostile.box_ladder (init tt) lazy_ping)))
  /\ ~ In (ECls (txt "lazymod.impl")) (tr (fst (step ex_sem default_config Hostile.handlers Hostile.dispatch Hostile.msg_ladder Hostile.unbox_ladder Hostile.box_ladder (init tt) lazy_ping))).
Proof. split; vm_compute; [tauto|intuition discriminate]. Qed.

(* 7''-refuted: in the form that asks the found object itself, one PING carrying a proxy label whose declared type name is the dotted name
   of a module global makes class_factory read attributes of that object: object 2 was never lent, resolved or returned *)
Definition global_ping : @input unit :=
  IMsg (PTuple [PInt 1; PInt 1; PTuple [PInt 1; Tt [PTuple [PInt 4; PTuple [S' "settings.vault"; PInt 1; PInt 2]]]]]) [PReply (V (PTuple []))].
Definition run_global (reads : bool) : hst unit :=
  fst (step ex_sem (with_cls_reads default_config reads) Hostile.handlers Hostile.dispatch Hostile.msg_ladder Hostile.unbox_ladder Hostile.box_ladder (init tt) global_ping).
Example c07_class_lookup_reads_unlent_global_refuted :
  In (EGlobalRead 2%N) (tr (run_global true)) /\ (forall k, ~ In (EBox k 2%N) (tr (run_global true))) /\ tbl (run_global true) = []
  /\ ~ In (EGlobalRead 2%N) (tr (run_global false)).
Proof. vm_compute. repeat split; try tauto; intros; intuition discriminate. Qed.

(* 2-witness (known finding "exception payload repr"): reporting an exception applies repr() to the objects the exception carries.
   c07_touched_only_held covers it (the object was handed out by service code, in the exception it raised), but that object
   need not ever have been lent or returned: here object 3 is carried by the exception the call of object 1 raises. *)
Definition ex_world2 : world :=
  {| w_objs := [ex_obj (ex_key 0) 2%N [(txt "exposed_get", AO 1%N)] ANone; ex_obj (ex_key 1) 2%N [] (AX (XCarry [3%N]));
                ex_obj (ex_key 2) 3%N [] ANone; ex_obj (ex_key 3) 3%N [] ANone];
     w_builtin := [] |}.
Definition ex_final2 : hst unit :=
  run (world_sem ex_world2 [] [] []) default_config Hostile.handlers Hostile.dispatch Hostile.msg_ladder Hostile.unbox_ladder Hostile.box_ladder (init tt)
      [req 1 3 []; req 2 8 [Lr (ex_key 0); V (S' "get"); V (PTuple []); V (PTuple [])]].
Example c07_exception_payload_repr_witness :
  In (EPayload 3%N OpRepr) (tr ex_final2) /\ (forall k, ~ In (EBox k 3%N) (tr ex_final2)) /\ tbl ex_final2 = [(ex_key 0, 0%N, 0%Z)].
Proof. vm_compute. repeat split; try reflexivity; [tauto|]. intros k H. intuition discriminate. Qed.

(* 9. The comparison route after its repair (generated fact cmp_guard = Some names): a CMP request -- handler number 11 as any
      numeric value, ANY arguments -- performs by-name accesses of the comparison names only; no other attribute of type(obj)
      can be reached on this route however the policy classifies it.  On a tree without the guard (cmp_guard = None) the
      hypothesis fails and c07_cmp_route_refuted_when_unguarded shows the route reaching __bool__. *)
Theorem c07_cmp_route_serves_only_comparisons : Gen_handlers.cmp_guard = Some Hostile.CMP_NAMES ->
  forall W (S : sem W) seq h pkg (s s' : hst W) o, num_of h = Some 11%Z ->
  dispatch_request S default_config Gen_handlers.handlers Gen_handlers.dispatch Gen_handlers.unbox_ladder Gen_handlers.box_ladder
                   seq (PTuple [h; pkg]) s = (s', o) ->
  arel Hostile.CMP_NAMES s s'.
Proof.
  intros Hg W S seq h pkg s s' o Hn E. eapply guarded_request_listed; [|exact E].
  intros h' pkg' d U Hf. cbn in U. injection U as <- <-. unfold find_handler in Hf. rewrite Hn in Hf.
  rewrite dispatch_tie in Hf. cbn [assoc_z Hostile.dispatch Z.eqb Pos.eqb] in Hf. rewrite handlers_tie, Hg in Hf.
  destruct Gen_handlers.ctx_catches_all; cbn in Hf; injection Hf as <-; split; vm_compute; repeat constructor.
Qed.
Print Assumptions c07_cmp_route_serves_only_comparisons.

Definition ex_world3 : world :=
  {| w_objs := [ex_obj (ex_key 0) 1%N [] ANone; ex_obj (ex_key 1) 2%N [(txt "__bool__", AO 0%N); (txt "__eq__", AO 0%N)] ANone; ex_obj (ex_key 2) 2%N [] ANone];
     w_builtin := [] |}.
Definition cmp_session (name : string) : list (@input unit) := [req 1 3 []; req 2 11 [Lr (ex_key 0); Lr (ex_key 0); V (S' name)]].
Definition run3 (H : list (string * hdef)) (name : string) : hst unit :=
  run (world_sem ex_world3 [] [] []) default_config H Hostile.dispatch Hostile.msg_ladder Hostile.unbox_ladder Hostile.box_ladder (init tt) (cmp_session name).
Example c07_cmp_route_refuted_when_unguarded :
  In (EAttr 1%N PGet (txt "__bool__") [0%N]) (tr (run3 (handlers_of None false) "__bool__")) /\
  (forall ys, ~ In (EAttr 1%N PGet (txt "__bool__") ys) (tr (run3 (handlers_of (Some CMP_NAMES) false) "__bool__"))) /\
  In (EAttr 1%N PGet (txt "__eq__") [0%N]) (tr (run3 (handlers_of (Some CMP_NAMES) false) "__eq__")).
Proof. vm_compute. split; [tauto|split; [intros ys H; intuition discriminate|tauto]]. Qed.
