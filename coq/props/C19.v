(* C19 — Bytes on the wire are those of the published 5.x protocol. *)
From V Require Import lib.Base lib.Decimal model.Ladder model.Brine model.Channel model.Published proofs.BrineP proofs.PublishedP
  proofs.AdmitsP proofs.ChannelP proofs.WireP model.PubCodec proofs.PubCodecP gen.Gen_brine gen.Gen_consts gen.Gen_channel gen.Gen_protocol.
Open Scope N_scope.

(* 1. what the code says now = what the published format says: tags, immediates, ladders, struct formats,
      frame layout/threshold/comparison, message kinds, labels, handler numbers and the handler table, message tuple layout *)
Theorem c19_tables :
  (Gen_brine.all_tags = pub_tags /\ Gen_brine.imm_lo = pub_imm_lo /\ Gen_brine.imm_hi = pub_imm_hi /\ Gen_brine.imm_off = pub_imm_off
   /\ Gen_brine.bytes_ladder = pub_str_ladder /\ Gen_brine.tuple_ladder = pub_tup_ladder /\ Gen_brine.int_ladder = pub_int_ladder
   /\ Gen_brine.struct_formats = pub_structs)
  /\ (Gen_channel.COMPRESSION_THRESHOLD = pub_threshold /\ Gen_channel.COMPRESSION_LEVEL = pub_level
      /\ Gen_channel.FRAME_HEADER_format = pub_header_format /\ Gen_channel.FRAME_HEADER_size = pub_header_size
      /\ Gen_channel.FLUSHER = pub_flusher /\ Gen_channel.compress_when_len = pub_compress_when)
  /\ (forall k v, In (k, v) pub_consts -> In (k, v) Gen_consts.all_consts)
  /\ Gen_protocol.handler_table = pub_handlers
  /\ (Gen_protocol.send_packs_msg_seq_args = true /\ Gen_protocol.dispatch_unpacks_msg_seq_args = true
      /\ Gen_protocol.request_args_are_handler_boxed = true /\ Gen_protocol.request_unpacks_handler_args = true).
Proof. split; [exact tables_eq|split; [exact frame_params_eq|split; [exact consts_eq|split; [exact handlers_eq|exact message_layout]]]]. Qed.
Print Assumptions c19_tables.

(* 2. the encoder the C04 theorems are about uses exactly the published ladders *)
Theorem c19_encoder_is_published :
  Brine.str_ladder = pub_str_ladder /\ Brine.tup_ladder = pub_tup_ladder /\ Brine.int_ladder = pub_int_ladder.
Proof. exact model_ladders_published. Qed.
Print Assumptions c19_encoder_is_published.
(* 2b. and, value by value: for EVERY value the encoder emits exactly what the published encoding - written out directly in
       model/PubCodec.v from the format description: explicit tag bytes, 0/1-4/one-byte/four-byte length classes, 0x50+i
       immediates, ASCII decimal integers, UTF-8 text, "!d"/"!dd" floats - prescribes (same bytes, same refusals) *)
Theorem c19_emits_the_published_encoding : forall P v, dump P v = pub_dump (sp P) (maxdigits P) v.
Proof. exact dump_is_published. Qed.
Print Assumptions c19_emits_the_published_encoding.
(* 2c. ... with the published TEXT codec, UTF-8 proper (strict), on every value whose text contains no lone surrogate - whatever codec
       mode the tree is in. Lone surrogates are exactly where a surrogatepass tree (the F1 repair) leaves the published format: the
       witness is a one-character string it emits as 08 0c ed a0 80 and the strict codec refuses (known finding F67) *)
Theorem c19_emits_the_strict_published_encoding : forall P v, nosurr v = true -> dump P v = pub_dump false (maxdigits P) v.
Proof. exact dump_is_strictly_published. Qed.
Theorem c19_surrogate_extension_refuted : exists P v, sp P = true /\ (exists bs, dump P v = Ok bs) /\ pub_dump false (maxdigits P) v = Raise UnicodeError.
Proof. exists {| sp := true; maxdigits := 4300 |}, (PStr [0xD800%N]). destruct surrogate_witness as [A B]. split; [reflexivity|]. split; [eexists; exact A|exact B]. Qed.
Print Assumptions c19_emits_the_strict_published_encoding.
Print Assumptions c19_surrogate_extension_refuted.
(* 2d. frames: what Channel.send puts on the wire for a payload is the published frame - 4-byte big-endian body length, flag byte 1
       exactly when the sender compresses and the payload is strictly longer than 3000 bytes, the body, a newline - for any zlib *)
Theorem c19_frame_is_published : forall zlib P cmp d, threshold P = 3000 -> flusher P = [b_of 10] -> frame zlib P cmp d = pub_frame zlib cmp d.
Proof. exact frame_is_published. Qed.
Print Assumptions c19_frame_is_published.

(* 3. shortest form: for every length below 2^32 each ladder emits a header no longer than any header the format admits
      for that length, and integers use the one-byte immediate whenever the format has one *)
Theorem c19_shortest :
  shortest_for pub_str_ladder /\ shortest_for pub_tup_ladder /\ shortest_for pub_int_ladder
  /\ (forall P z, is_imm z = true -> exists b, dump_int P z = Ok [b]).
Proof. split; [exact shortest_str|split; [exact shortest_tup|split; [exact shortest_int|exact imm_used]]]. Qed.
Print Assumptions c19_shortest.

(* 4. whatever admissible form an independent encoder picks (one-byte or four-byte counts where the canonical
      encoder would use a shorter one), the decoder accepts it with the same meaning *)
Theorem c19_accepts_alternative_forms :
  (forall P rec (b rest : list byte), nlen b < 256 -> load_body P rec (x0e :: b_of (nlen b) :: b ++ rest) = Ok (PBytes b, rest))
  /\ (forall P rec (b rest : list byte), nlen b < 4294967296 -> load_body P rec (x0f :: be4 (nlen b) ++ b ++ rest) = Ok (PBytes b, rest))
  /\ (forall P rec z t (rest : list byte), render (maxdigits P) z = Ok t -> nlen t < 4294967296 ->
        load_body P rec (x17 :: be4 (nlen t) ++ t ++ rest) = Ok (PInt z, rest))
  /\ (forall P f l, nlen l < 256 -> nlen l <> 0 -> Forall (rt_at P f) l ->
        exists body, dump_items P l = Ok body /\ forall rest, load_f P (S f) (x14 :: b_of (nlen l) :: body ++ rest) = Ok (PTuple l, rest))
  /\ (forall P f l, nlen l < 4294967296 -> Forall (rt_at P f) l ->
        exists body, dump_items P l = Ok body /\ forall rest, load_f P (S f) (x15 :: be4 (nlen l) ++ body ++ rest) = Ok (PTuple l, rest)).
Proof. split; [exact accept_str_L1|split; [exact accept_str_L4|split; [exact accept_int_L4|split; [exact accept_tup_L1|exact accept_tup_L4]]]]. Qed.
Print Assumptions c19_accepts_alternative_forms.

(* 4b. the same at EVERY nesting level. [admits P v bs]: bs is any encoding of v the format admits - the shortest-form one, or
      any count in its one-byte or four-byte form, any integer as decimal text under either count form, a text value over any
      admitted encoding of its UTF-8 bytes, tuples / frozensets / slices under any admissible header over items that are again
      in any admitted form. Every one of them is read back as v by brine.load (the fuel it starts with always suffices), and
      in mid-stream leaves what follows untouched. *)
Theorem c19_accepts_any_admitted_encoding : forall P v bs, admits P v bs ->
  load P bs = Ok v /\ forall rest, load_f P (S (depth v)) (bs ++ rest) = Ok (v, rest).
Proof. intros P v bs H. split; [exact (admits_load P v bs H)|exact (admits_accepted P v bs H)]. Qed.
Print Assumptions c19_accepts_any_admitted_encoding.

(* 5. frames: whatever conforming frame an independent sender emits - flag byte zero with the payload as body, or any non-zero
      flag byte with a body the receiver's zlib inflates to the payload, at ANY size (the threshold binds only what rpyc emits) -
      a stream of them read through any benign fragmentation is delivered payload by payload *)
Section C19_frames.
Variable decompress : list byte -> result (list byte).
Variable P : cparams.
Hypothesis Hhdr : hdr_size P = 5.
Hypothesis Hchunk : hdr_size P + nlen (flusher P) <= chunk P.
Theorem c19_accepts_any_conforming_frames : forall tol fs payloads evs fuel,
  Forall2 (fun f p => conforming decompress (fst f) (snd f) p) fs payloads -> benign_r tol evs -> (length fs < fuel)%nat ->
  recv_all decompress P fuel tol evs (wire_of P fs) [] = (payloads, false).
Proof. intros tol fs payloads evs fuel HF Hb Hf. exact (recv_all_conforming decompress P Hhdr Hchunk tol fs payloads evs [] fuel HF Hb Hf). Qed.

(* 6. the layers composed: values, encoded by the published table, framed, fragmented arbitrarily, arrive as the same values *)
Variable compress : list byte -> list byte.
Hypothesis zlib_roundtrip : forall x, decompress (compress x) = Ok x.
Theorem c19_values_cross_the_wire : forall BP tol cmp vs, Forall (transferable BP) vs ->
  exists pkts, dump_all BP vs = Ok pkts /\
    forall fs wevs revs fuel, frames compress P cmp pkts = Ok fs -> benign_w wevs -> benign_r tol revs -> (length vs < fuel)%nat ->
      exists wire got, send_all compress P cmp wevs pkts [] = Ok (true, wire)
                       /\ recv_all decompress P fuel tol revs wire [] = (got, false) /\ load_all BP got = Ok vs.
Proof. intros BP tol cmp vs. exact (values_end_to_end decompress P Hhdr Hchunk compress zlib_roundtrip BP tol cmp vs). Qed.
End C19_frames.
Print Assumptions c19_accepts_any_conforming_frames.
Print Assumptions c19_values_cross_the_wire.
(* non-vacuity: a 5-byte string in its three admissible forms decodes to the same value; headers 2, 2(same) and 5 bytes *)
Example c19_forms_sample :
  let P := {| sp := true; maxdigits := 4300 |} in
  let b := [x61; x62; x63; x64; x65] in
  load P (x0e :: x05 :: b) = Ok (PBytes b) /\ load P (x0f :: x00 :: x00 :: x00 :: x05 :: b) = Ok (PBytes b)
  /\ dump P (PBytes b) = Ok (x0e :: x05 :: b).
Proof. vm_compute. repeat split. Qed.

(* non-vacuity for 4b: ((7, "A"),) with the outer tuple under a four-byte count, the inner one under a one-byte count, 7 as
   decimal text under a four-byte count and the text over a four-byte-count byte string: admitted, 20 bytes against the 6 of the
   shortest form, and decoded to the same value *)
Example c19_nested_forms_sample :
  let P := {| sp := true; maxdigits := 4300 |} in
  let v := PTuple [PTuple [PInt 7; PStr [65]]] in
  let bs := (x15 :: be4 1) ++ concat [(x14 :: [b_of 2]) ++ concat [x17 :: be4 1 ++ [x37]; x08 :: (x0f :: be4 1 ++ [x41])]] in
  admits P v bs /\ load P bs = Ok v /\ length bs = 20%nat /\ (exists c, dump P v = Ok c /\ length c = 6%nat).
Proof.
  cbv zeta. split; [|split; [vm_compute; reflexivity|split; [vm_compute; reflexivity|eexists; split; vm_compute; reflexivity]]].
  apply (A_tuple _ [PTuple [PInt 7; PStr [65]]] [_]); [apply TH_L4; vm_compute; reflexivity|].
  constructor; [|constructor].
  apply (A_tuple _ [PInt 7; PStr [65]] [_; _]); [apply TH_L1; vm_compute; reflexivity|].
  constructor; [|constructor; [|constructor]].
  - apply (A_int_L4 _ 7%Z [x37]); [vm_compute; reflexivity|vm_compute; reflexivity].
  - apply (A_str _ [65] [x41]); [vm_compute; reflexivity|]. apply (A_bytes_L4 _ [x41]). vm_compute; reflexivity.
Qed.

(* non-vacuity for 5: a plain frame and a "compressed" 3-byte frame (far below the threshold, flag byte 7) through a toy inflater,
   read one byte at a time with a timeout in between, are both delivered *)
Example c19_frames_sample :
  let P := {| threshold := 3000; chunk := 16000; hdr_size := 5; flusher := [x0a] |} in
  let inflate := fun b : list byte => Ok (b ++ b) in
  let fs := [(x00, [x61; x62]); (x07, [x63; x64; x65])] in
  Forall2 (fun f p => conforming inflate (fst f) (snd f) p) fs [[x61; x62]; [x63; x64; x65; x63; x64; x65]]
  /\ recv_all inflate P 5 true (repeat (RData 1) 8 ++ [RTimeout] ++ repeat (RData 1) 9) (wire_of P fs) []
     = ([[x61; x62]; [x63; x64; x65; x63; x64; x65]], false).
Proof. split; [repeat constructor|vm_compute; reflexivity]. Qed.
