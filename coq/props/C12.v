(* C12 — Concurrent senders never interleave, lose or strand a message.
   All statements hold in every state reachable from any initial assignment of message counts to any number of
   threads under any scheduler (one step = one source line of _send that touches shared state).  A re-entrant send
   is a send by a fresh thread id running while its parent is parked at the write (see model/SendQ.v). *)
From V Require Import lib.Base model.SendQ proofs.SendQP proofs.SendQTerm proofs.SendQTie gen.Gen_sendq.

Section C12.
Variable totals : nat -> nat.
Variable s : st.
Hypothesis R : reach (init totals) s.

(* 1. writes never overlap: a thread is between acquire and release iff it is the lock holder, so there is at most one *)
Theorem c12_mutex : forall i j, in_cs (tpc (thrs s i)) = true -> in_cs (tpc (thrs s j)) = true -> i = j.
Proof.
  intros i j Hi Hj. pose proof (inv_reach _ _ (inv_init totals) R) as I.
  apply (I_mutex s I) in Hi. apply (I_mutex s I) in Hj. congruence.
Qed.

(* 2+3. nothing lost, nothing duplicated, per-thread order kept — at every moment: for each thread, the messages it has
        issued so far are, in issue order, exactly those on the wire, then the one being written, then those queued *)
Theorem c12_exactly_once_in_order : forall i, proj i (wire s ++ held s ++ queue s) = seq 0 (next (thrs s i)).
Proof. apply always_exactly_once. exact (inv_reach _ _ (inv_init totals) R). Qed.

(* 4. no stranding: when every sender has returned the queue is empty, the lock is free, and every thread's messages
      are on the wire exactly once, in order *)
Theorem c12_quiescent : all_returned s ->
  queue s = [] /\ lock s = None /\ forall i, proj i (wire s) = seq 0 (totals i).
Proof.
  intros D. pose proof (inv_reach _ _ (inv_init totals) R) as I.
  destruct (quiescent_empty s I D) as [Q L]. repeat split; auto. intros i.
  rewrite (quiescent_wire s I D i).
  now rewrite (total_const totals s R).
Qed.

(* 5. no sender can block or get stuck: there is no blocking acquire and no failing pop *)
Theorem c12_no_blocking : forall i, tpc (thrs s i) <> Done -> exists s', step i s = Some s'.
Proof. intros i. apply no_blocking. exact (inv_reach _ _ (inv_init totals) R). Qed.

(* hand-off invariant behind 4: a non-empty queue always has a thread that will test it again *)
Theorem c12_will_retest : queue s <> [] ->
  exists i, let p := tpc (thrs s i) in p = P0 \/ p = P1 \/ in_cs p = true \/ (p = P2 /\ lock s = None).
Proof. apply I_retest. exact (inv_reach _ _ (inv_init totals) R). Qed.
End C12.
Print Assumptions c12_mutex.
Print Assumptions c12_exactly_once_in_order.
Print Assumptions c12_quiescent.
Print Assumptions c12_no_blocking.
Print Assumptions c12_will_retest.

(* 6. termination under ANY scheduler, fair or unfair: with n sending threads, a potential (weighted count of messages not yet
      popped and not yet appended, plus a per-thread rank that depends on whether the queue is empty) strictly decreases on
      every step of every thread; so every execution from the initial state has at most Phi(initial) steps — no livelock *)
Theorem c12_terminates : forall n totals k s',
  (forall i, n <= i -> totals i = 0) -> run_of (init totals) k s' -> k <= Phi n (init totals).
Proof.
  intros n totals k s' Hz Hr.
  assert (Hb : idle_beyond n (init totals)).
  { intros i Hi. cbn. rewrite (Hz i Hi). reflexivity. }
  pose proof (bounded_executions n k _ _ (inv_init totals) Hb Hr). lia.
Qed.
Print Assumptions c12_terminates.

(* tie: the source's _send is the program these theorems are about; the lock is a plain threading.Lock and the queue a fresh list,
   each assigned exactly once, unconditionally, in __init__; no other method of Connection and no other module touches the queue,
   the lock or the channel's send; anywhere in the package a connection's `_channel` is only tested, closed, polled or read -
   never sent to, aliased or handed on (every outgoing frame goes through _send) *)
Theorem c12_program_is_current : Gen_sendq.send_prog = SendQ.prog /\ Gen_sendq.sendlock_is_plain_lock = true
  /\ Gen_sendq.send_queue_is_fresh_list = true /\ Gen_sendq.send_state_private_to_send = true /\ Gen_sendq.send_state_untouched_elsewhere = true
  /\ Gen_sendq.channel_written_only_by_send = true.
Proof. split; [exact tie_prog|exact tie_lock]. Qed.
Print Assumptions c12_program_is_current.

(* non-vacuity: two threads, a schedule in which thread 1's acquire fails while thread 0 holds the lock and
   thread 0 then sends both messages; the final state is reachable and quiescent *)
Fixpoint run (s : st) (sched : list nat) : option st :=
  match sched with [] => Some s | i :: r => match step i s with Some s' => run s' r | None => None end end.
Example c12_handoff_schedule :
  match run (init (fun i => if Nat.ltb i 2 then 1 else 0)) [0; 0; 0; 1; 1; 1; 0; 0; 0; 0; 0; 0; 0; 0; 0; 0; 0] with
  | Some s => wire s = [(0, 0); (1, 0)] /\ queue s = [] /\ lock s = None /\ tpc (thrs s 0) = Done /\ tpc (thrs s 1) = Done
  | None => False
  end.
Proof. vm_compute. repeat split. Qed.

(* 7. SCOPE of 1-6: in the transition system a write (P5) always completes. A write that fails WITHOUT ending the stream (channel.send
      raises for a frame of 4 GiB or more, or when compression runs out of memory) takes the holder out of _send through the
      `finally` - lock released, no re-test of the queue. The refutation: thread 1 appends its message and returns because the lock is
      taken; thread 0's write fails; every sender has returned, the lock is free, and thread 1's message is still queued
      (known finding F52; found by the harness's failed-write plans). *)
Definition fail_write (i : nat) (s : st) : option st :=
  match tpc (thrs s i), cur (thrs s i) with
  | P5, Some _ => Some {| thrs := upd (thrs s) i {| tpc := Done; next := next (thrs s i); total := total (thrs s i); cur := None |};
                          queue := queue s; lock := None; wire := wire s |}
  | _, _ => None
  end.
Fixpoint run_steps (s : st) (l : list nat) : option st :=
  match l with [] => Some s | i :: r => match step i s with Some s' => run_steps s' r | None => None end end.
Theorem c12_quiescent_refuted_when_a_write_fails :
  exists s1 s2, run_steps (init (fun i => if Nat.ltb i 2 then 1 else 0)) [0; 0; 0; 0; 0; 1; 1; 1] = Some s1
    /\ fail_write 0 s1 = Some s2
    /\ (forall i, tpc (thrs s2 i) = Done) /\ lock s2 = None /\ queue s2 = [(1, 0)] /\ wire s2 = [].
Proof.
  eexists. eexists. split; [vm_compute; reflexivity|]. split; [vm_compute; reflexivity|].
  repeat split. intros [|[|i]]; reflexivity.
Qed.
Print Assumptions c12_quiescent_refuted_when_a_write_fails.
