(* C20 — Uploading and downloading files reproduces them byte for byte.
   Only statements, [exact]s (1-3 lines of glue) and Print Assumptions live here.
   The theorems about trees are stated for the skeletons regenerated from rpyc/utils/classic.py (Gen_classic):
   they re-check against what the code says now. *)
From V Require Import lib.Base model.Files proofs.FilesP gen.Gen_classic gen.Gen_consts.
Open Scope N_scope.

Definition the_guard : fguard := dk_guard (sk_dir Gen_classic.upload_skel).     (* the filter guard the code has now *)

(* 0. tie: the six functions have the shape the model was written for (with whatever filter guard they have now);
      the default chunk size is in the domain *)
Theorem c20_tie :
  Gen_classic.upload_skel = std_skel the_guard Local Remote /\ Gen_classic.download_skel = std_skel the_guard Remote Local /\
  Gen_classic.download_skel = swap_skel Gen_classic.upload_skel /\
  fk_body (sk_file Gen_classic.upload_skel) = [SRead; SBreakIfEmpty; SWrite] /\
  Gen_classic.default_chunk_is_STREAM_CHUNK = true /\ (1 <= Gen_consts.STREAM_CHUNK)%Z /\
  Gen_classic.upload_package_is_plain_upload = true.
Proof. repeat split. discriminate. Qed.
Print Assumptions c20_tie.

(* 1. one file: the chunk loop reproduces the bytes for every content and every chunk size >= 1 *)
Theorem c20_file : forall data chunk, 1 <= chunk ->
  copy_file_with (fk_body (sk_file Gen_classic.upload_skel)) chunk data = Ok data /\
  copy_file_with (fk_body (sk_file Gen_classic.download_skel)) chunk data = Ok data.
Proof. intros data chunk H. split; exact (copy_file_id chunk data H). Qed.
Print Assumptions c20_file.

(* 1'. ... with ceil(len/chunk) non-empty writes, all but the last of exactly chunk bytes, and one final empty read *)
Theorem c20_file_writes : forall data chunk, 1 <= chunk ->
  exists ws, copy_file_trace (fk_body (sk_file Gen_classic.upload_skel)) chunk data = Ok (ws, map nlen ws ++ [0]) /\
    concat ws = data /\ nlen ws = (nlen data + chunk - 1) / chunk /\
    Forall (fun w => w <> [] /\ nlen w <= chunk) ws /\ Forall (fun w => nlen w = chunk) (removelast ws).
Proof.
  intros data chunk H. destruct (copy_file_trace_good chunk data H) as (ws & E & [G1 G2 G3 G4]).
  exists ws. repeat split; assumption.
Qed.
Print Assumptions c20_file_writes.

(* 2. a tree uploaded to a path where nothing exists arrives as exactly what the loop guard leaves of it (same names,
      same bytes, empty directories kept, order of listing kept), and the local side is unchanged *)
Theorem c20_tree : forall t flt chunk ign, 1 <= chunk -> wf_tree t = true -> t <> Special ->
  transfer Gen_classic.upload_skel flt chunk ign {| at_local := Some t; at_remote := None |}
  = Ok {| at_local := Some t; at_remote := Some (prune (guard the_guard flt) t) |}.
Proof. intros t flt chunk ign. exact (upload_fresh the_guard flt chunk ign t). Qed.
Print Assumptions c20_tree.

Theorem c20_tree_download : forall t flt chunk ign, 1 <= chunk -> wf_tree t = true -> t <> Special ->
  transfer Gen_classic.download_skel flt chunk ign {| at_local := None; at_remote := Some t |}
  = Ok {| at_local := Some (prune (guard the_guard flt) t); at_remote := Some t |}.
Proof. intros t flt chunk ign. exact (download_fresh the_guard flt chunk ign t). Qed.
Print Assumptions c20_tree_download.

(* 2'. the guard is the caller's filter -- [wanted]: None accepts everything, an object accepts what its predicate accepts --
       whenever the code tests `filter is None`, and in any case for every filter object that is true in a boolean context *)
Theorem c20_tree_filtered_as_asked : forall t flt chunk ign, 1 <= chunk -> wf_tree t = true -> t <> Special ->
  the_guard = GIsNone \/ truthy_or_none flt = true ->
  transfer Gen_classic.upload_skel flt chunk ign {| at_local := Some t; at_remote := None |}
    = Ok {| at_local := Some t; at_remote := Some (prune (wanted flt) t) |} /\
  transfer Gen_classic.download_skel flt chunk ign {| at_local := None; at_remote := Some t |}
    = Ok {| at_local := Some (prune (wanted flt) t); at_remote := Some t |}.
Proof.
  intros t flt chunk ign H1 H2 H3 H4. split.
  - exact (upload_fresh_wanted the_guard flt chunk ign t H1 H2 H3 H4).
  - exact (download_fresh_wanted the_guard flt chunk ign t H1 H2 H3 H4).
Qed.
Print Assumptions c20_tree_filtered_as_asked.

(* 2''. on a tree that tests the truth value of the filter (`not filter or filter(fn)`) the clause "a name filter excludes
        exactly the entries it rejects" fails for filter objects that are false in a boolean context: a predicate that
        rejects every name lets every file through, in both directions *)
Theorem c20_filter_refuted_when_truthiness_guard : the_guard = GTruthy ->
  forall chunk ign k data, 1 <= chunk ->
  wanted (Some falsy_reject_all) k = false /\
  transfer Gen_classic.upload_skel (Some falsy_reject_all) chunk ign {| at_local := Some (Dir [(k, File data)]); at_remote := None |}
    = Ok {| at_local := Some (Dir [(k, File data)]); at_remote := Some (Dir [(k, File data)]) |} /\
  transfer Gen_classic.download_skel (Some falsy_reject_all) chunk ign {| at_local := None; at_remote := Some (Dir [(k, File data)]) |}
    = Ok {| at_local := Some (Dir [(k, File data)]); at_remote := Some (Dir [(k, File data)]) |}.
Proof.
  intros G chunk ign k data H.
  pose proof (truthiness_guard_ignores_falsy_filter chunk ign k data H) as T.
  destruct c20_tie as (-> & -> & _). rewrite G. exact T.
Qed.
Print Assumptions c20_filter_refuted_when_truthiness_guard.

(* 3. [prune] removes exactly the entries the predicate rejects (with their subtrees) and the entries that are neither
      file nor directory: a non-root path leads to something in the pruned tree iff it leads to a file or directory
      in the original and the predicate accepts every name on it -- and what is there is the pruned original *)
Theorem c20_filter_exact : forall f p t n, wf_tree t = true -> p <> [] ->
  (lookup p (prune f t) = Some n <->
   exists n0, lookup p t = Some n0 /\ n0 <> Special /\ forallb f p = true /\ n = prune f n0).
Proof. exact lookup_prune. Qed.
Print Assumptions c20_filter_exact.

(* 4. into a destination that already has content: whenever the call returns, the source side is unchanged,
      every kept source file is there with its bytes, every kept source directory is a directory, and every path the
      (pruned) source does not have is exactly as it was *)
Theorem c20_tree_into_existing : forall flt chunk ign t dst w', 1 <= chunk -> wf_tree t = true ->
  transfer Gen_classic.upload_skel flt chunk ign {| at_local := Some t; at_remote := dst |} = Ok w' ->
  at_local w' = Some t /\
  forall p, match lookup p (prune (guard the_guard flt) t) with
            | Some (File d) => lookup_o p (at_remote w') = Some (File d)
            | Some (Dir _) => dir_at p (at_remote w') = true
            | _ => lookup_o p (at_remote w') = lookup_o p dst
            end.
Proof. intros flt chunk ign t dst w'. exact (upload_existing the_guard flt chunk ign t dst w'). Qed.
Print Assumptions c20_tree_into_existing.

Theorem c20_tree_into_existing_download : forall flt chunk ign t dst w', 1 <= chunk -> wf_tree t = true ->
  transfer Gen_classic.download_skel flt chunk ign {| at_local := dst; at_remote := Some t |} = Ok w' ->
  at_remote w' = Some t /\
  forall p, match lookup p (prune (guard the_guard flt) t) with
            | Some (File d) => lookup_o p (at_local w') = Some (File d)
            | Some (Dir _) => dir_at p (at_local w') = true
            | _ => lookup_o p (at_local w') = lookup_o p dst
            end.
Proof. intros flt chunk ign t dst w'. exact (download_existing the_guard flt chunk ign t dst w'). Qed.
Print Assumptions c20_tree_into_existing_download.

(* 4'. ... and it does return when no accepted file meets a directory and no accepted directory meets a non-directory *)
Theorem c20_tree_into_existing_succeeds : forall flt chunk ign t dst, 1 <= chunk -> wf_tree t = true -> t <> Special ->
  compat (guard the_guard flt) t dst = true ->
  exists w', transfer Gen_classic.upload_skel flt chunk ign {| at_local := Some t; at_remote := dst |} = Ok w'.
Proof. intros flt chunk ign t dst. exact (upload_existing_succeeds the_guard flt chunk ign t dst). Qed.
Print Assumptions c20_tree_into_existing_succeeds.

(* 5. upload and download are one function up to which side is remote *)
Theorem c20_symmetry : forall flt chunk ign w,
  transfer Gen_classic.download_skel flt chunk ign (swap w) = rmap swap (transfer Gen_classic.upload_skel flt chunk ign w).
Proof. intros. exact (transfer_swap Gen_classic.upload_skel flt chunk ign w). Qed.
Print Assumptions c20_symmetry.

(* 6. nothing, or something that is neither file nor directory, at the top: ValueError, or nothing happens when ignored *)
Theorem c20_invalid_top : forall flt chunk dst src, src = None \/ src = Some Special ->
  transfer Gen_classic.upload_skel flt chunk false {| at_local := src; at_remote := dst |} = Raise ValueError /\
  transfer Gen_classic.upload_skel flt chunk true {| at_local := src; at_remote := dst |} = Ok {| at_local := src; at_remote := dst |}.
Proof. exact (upload_invalid the_guard). Qed.
Print Assumptions c20_invalid_top.

(* 7. the default chunk size (chunk_size omitted: rpyc.core.consts.STREAM_CHUNK, regenerated) is in the domain of 1-4 *)
Definition default_chunk : N := Z.to_N Gen_consts.STREAM_CHUNK.
Theorem c20_default_chunk : forall t flt ign data, wf_tree t = true -> t <> Special ->
  copy_file_with (fk_body (sk_file Gen_classic.upload_skel)) default_chunk data = Ok data /\
  transfer Gen_classic.upload_skel flt default_chunk ign {| at_local := Some t; at_remote := None |}
    = Ok {| at_local := Some t; at_remote := Some (prune (guard the_guard flt) t) |} /\
  transfer Gen_classic.download_skel flt default_chunk ign {| at_local := None; at_remote := Some t |}
    = Ok {| at_local := Some (prune (guard the_guard flt) t); at_remote := Some t |}.
Proof.
  assert (H : 1 <= default_chunk) by (vm_compute; discriminate).
  intros t flt ign data HW HS. split; [exact (copy_file_id _ data H)|]. split.
  - exact (upload_fresh the_guard flt default_chunk ign t H HW HS).
  - exact (download_fresh the_guard flt default_chunk ign t H HW HS).
Qed.
Print Assumptions c20_default_chunk.

(* 8. upload_package(conn, module, remotepath, chunk_size) with an explicit remotepath where nothing exists: the module's
      directory (files and directories only) arrives whole -- it is upload without a filter.  The remotepath=None branch
      (the peer's site-packages via distutils) is outside: only its text is snapshotted. *)
Theorem c20_upload_package : forall t chunk, 1 <= chunk -> wf_tree t = true -> no_special t = true ->
  Gen_classic.upload_package_is_plain_upload = true /\
  transfer Gen_classic.upload_skel None chunk false {| at_local := Some t; at_remote := None |}
  = Ok {| at_local := Some t; at_remote := Some t |}.
Proof. intros t chunk H1 H2 H3. split; [reflexivity|]. exact (upload_package_fresh the_guard chunk t H1 H2 H3). Qed.
Print Assumptions c20_upload_package.

(* ---- non-vacuity ---- *)
Import Coq.Strings.String.
Definition nm (s : string) : name := Sx.bs s.
Arguments nm s%string.
Definition payload : list byte := [x00; xff; x0a; x0d; x41; x42; x43].       (* 7 bytes: 2 full chunks of 3 + 1 *)
Definition sample : node :=
  Dir [(nm "a", Dir [(nm "empty", File []); (nm "one", File [x7f]); (nm "b", Dir [(nm "exact", File (payload ++ [x44; x45]))]);
                     (nm "fifo", Special); (nm "skip.pyc", File payload)]);
       (nm "emptydir", Dir []);
       (nm "skip.pyc", Dir [(nm "inner", File payload)]);
       (nm "f", File payload)].
Definition no_pyc_pred : name -> bool := fun k => negb (has_suffix (nm ".pyc") k).
Definition no_pyc : option filter_obj := Some {| fo_truthy := true; fo_pred := no_pyc_pred |}.
Definition sample_pruned : node :=
  Dir [(nm "a", Dir [(nm "empty", File []); (nm "one", File [x7f]); (nm "b", Dir [(nm "exact", File (payload ++ [x44; x45]))])]);
       (nm "emptydir", Dir []);
       (nm "f", File payload)].
Definition existing : node :=
  Dir [(nm "keep", File [x01]); (nm "f", File [x02; x03]); (nm "a", Dir [(nm "old", Dir [])]); (nm "skip.pyc", File [x09])].

Example c20_sample_meets_hypotheses :
  wf_tree sample = true /\ sample <> Special /\ truthy_or_none no_pyc = true /\ prune (wanted no_pyc) sample = sample_pruned /\
  transfer Gen_classic.upload_skel no_pyc 3 false {| at_local := Some sample; at_remote := None |}
    = Ok {| at_local := Some sample; at_remote := Some sample_pruned |} /\
  transfer Gen_classic.download_skel no_pyc 1 false {| at_local := None; at_remote := Some sample |}
    = Ok {| at_local := Some sample_pruned; at_remote := Some sample |}.
Proof. repeat split; try discriminate; vm_compute; reflexivity. Qed.

Example c20_sample_writes :
  copy_file_trace std_body 3 payload = Ok ([[x00; xff; x0a]; [x0d; x41; x42]; [x43]], [3; 3; 1; 0]) /\
  copy_file_trace std_body 7 payload = Ok ([payload], [7; 0]) /\
  copy_file_trace std_body 64000 [] = Ok ([], [0]).
Proof. vm_compute. repeat split. Qed.

Example c20_sample_into_existing :
  compat (guard the_guard no_pyc) sample (Some existing) = true /\
  transfer Gen_classic.upload_skel no_pyc 2 false {| at_local := Some sample; at_remote := Some existing |}
  = Ok {| at_local := Some sample;
          at_remote := Some (Dir [(nm "keep", File [x01]); (nm "f", File payload);
                                  (nm "a", Dir [(nm "old", Dir []); (nm "empty", File []); (nm "one", File [x7f]);
                                                (nm "b", Dir [(nm "exact", File (payload ++ [x44; x45]))])]);
                                  (nm "skip.pyc", File [x09]); (nm "emptydir", Dir [])]) |}.
Proof. vm_compute. split; reflexivity. Qed.

Definition package : node :=
  Dir [(nm "__init__.py", File payload); (nm "mod.py", File []); (nm "sub", Dir [(nm "__init__.py", File [x23])]); (nm "data", Dir [])].
Example c20_sample_package_and_default_chunk :
  wf_tree package = true /\ no_special package = true /\ (1 <=? default_chunk) = true /\
  transfer Gen_classic.upload_skel None default_chunk false {| at_local := Some package; at_remote := None |}
  = Ok {| at_local := Some package; at_remote := Some package |}.
Proof. vm_compute. repeat split. Qed.

(* the hypotheses are needed and the shape matters: chunk 0 copies nothing; the "stop at a short read" variant of the
   loop loses the last partial chunk *)
Example c20_chunk_zero_loses_data : copy_file 0 payload = Ok [].
Proof. vm_compute. reflexivity. Qed.
Example c20_break_if_short_loses_tail :
  copy_file_with [SRead; SBreakIfShort; SWrite] 3 payload = Ok [x00; xff; x0a; x0d; x41; x42].
Proof. vm_compute. reflexivity. Qed.
Example c20_file_on_directory_fails :
  transfer Gen_classic.upload_skel None 3 false
    {| at_local := Some (Dir [(nm "x", File payload)]); at_remote := Some (Dir [(nm "x", Dir [])]) |} = Raise OtherError.
Proof. vm_compute. reflexivity. Qed.
