(* C11 — Every way a connection can end leaves both sides clean, once, and nobody hanging.
   One side is a state machine over its entry points (close(), the peer's close request, EOF/failure while reading in serve,
   EOF/failure while writing from inside a dispatch, under wait or under serve_all); the theorems quantify over every history
   of entry points and every outcome of the transport calls they make.  (The byte offset of a read fault is immaterial to
   this logic: header and body reads fail on the same path; offsets are enumerated on the real code by the harness.) *)
From V Require Import lib.Base model.Lifecycle proofs.LifecycleP proofs.LifecycleTie gen.Gen_lifecycle.

(* 1. the disconnect hook never runs twice, in any history, whatever fails *)
Theorem c11_hook_at_most_once : forall P hr es, core_ok P = true -> hooks (runs P hr es fresh) <= 1.
Proof. exact hooks_at_most_once. Qed.
Print Assumptions c11_hook_at_most_once.

(* 2. whenever a side reports closed - observed BETWEEN entry points, i.e. when close()/serve()/the dispatch has returned control: inside
      close() itself the flag is set first and the hook runs last, a state [do_close] passes through and another thread could see - its
      hook has run exactly once, the objects it held are released, its channel is closed *)
Theorem c11_closed_means_clean : forall P hr es, core_ok P = true -> closed (runs P hr es fresh) = true -> ended_clean (runs P hr es fresh).
Proof. exact closed_means_clean. Qed.
Print Assumptions c11_closed_means_clean.

(* 3. after any history, a side that closes, is told to close, or meets the failure while serving IS closed and clean when
      control returns — for every outcome of the write close() makes (fine, EOFError, any other failure) *)
Theorem c11_ends_clean : forall P hr es e, core_ok P = true -> must_end P e = true -> ended_clean (fst (step P hr e (runs P hr es fresh))).
Proof. exact ends_clean. Qed.
Print Assumptions c11_ends_clean.

(* 4. closing again is a no-op *)
Theorem c11_close_idempotent : forall P hr w s, Lifecycle.close_checks_closed_first P = true -> closed s = true -> do_close P hr w s = (s, RNone).
Proof. exact close_idempotent. Qed.
Print Assumptions c11_close_idempotent.

(* 5. F6: on a tree whose serve() does not close when EOFError escapes _dispatch, a side that meets the failure while it serves a
      callback during AsyncResult.wait stays open and its hook never runs; [must_end] then excludes that entry point from 3 *)
Theorem c11_fault_in_dispatch_refuted : forall P hr, Lifecycle.serve_dispatch_eof_closes P = false ->
  let s := fst (step P hr (EDispatchEof InWait) fresh) in closed s = false /\ hooks s = 0.
Proof. exact dispatch_eof_refuted. Qed.
Print Assumptions c11_fault_in_dispatch_refuted.

(* 5b. the service's disconnect hook may raise ([hr] above is "the hook raises"; theorems 1-4 hold either way once the clearing sits in
       a finally). On a tree where it does not, close() with a raising hook leaves the side reporting closed with everything it held for
       the peer still in place, for ever (closing again is the identity) *)
Theorem c11_raising_hook_refuted : forall P w, Lifecycle.cleanup_clears_in_finally P = false -> Lifecycle.close_checks_closed_first P = true ->
  Lifecycle.close_sets_closed_before_io P = true -> Lifecycle.close_cleanup_in_finally P = true ->
  let s := fst (do_close P true w fresh) in
  closed s = true /\ has_root s = true /\ forall w', do_close P true w' s = (s, RNone).
Proof. exact raising_hook_refuted. Qed.
Print Assumptions c11_raising_hook_refuted.

(* 5d. close() is not atomic ("both at once"): it sets the flag, runs the before_closed hook / fetches the root - requests during which
       the side serves - and only then writes its own close request and cleans up; [ECloseServing] is a close() during whose serving the
       PEER's close request is dispatched. Theorems 1-3 cover it (it is an entry point of every history: clean afterwards, hook at most
       once). What the handler's form decides is what close() raises: with the guarded handler (_cleanup(_anyway=False)) nothing of its
       own; with the raw cleanup as handler the cleanup at the end of the same close() finds the handler table already deleted -
       AttributeError out of close() on a side where nothing else went wrong. [c11_live_close_serving] says which holds on this tree. *)
Theorem c11_close_while_serving_quiet : forall P w s, core_ok P = true -> Lifecycle.handle_close_guarded P = true -> Inv s -> closed s = false -> w <> WErr ->
  step P false (ECloseServing w) s = ({| closed := true; hooks := 1; has_root := false; chan_open := false |}, RNone).
Proof. exact close_while_serving_quiet. Qed.
Theorem c11_close_while_serving_refuted : forall P w, core_ok P = true -> Lifecycle.handle_close_guarded P = false ->
  step P false (ECloseServing w) fresh = ({| closed := true; hooks := 1; has_root := false; chan_open := false |}, RAttr).
Proof. exact close_while_serving_refuted. Qed.
Theorem c11_live_close_serving :
  (Lifecycle.handle_close_guarded Pgen = true /\ forall w, w <> WErr -> snd (step Pgen false (ECloseServing w) fresh) = RNone)
  \/ (Lifecycle.handle_close_guarded Pgen = false /\ forall w, snd (step Pgen false (ECloseServing w) fresh) = RAttr).
Proof.
  destruct (Lifecycle.handle_close_guarded Pgen) eqn:E.
  - left. split; [reflexivity|]. intros w Hw. rewrite (close_while_serving_quiet Pgen w fresh tie_core E inv_fresh eq_refl Hw). reflexivity.
  - right. split; [reflexivity|]. intros w. rewrite (close_while_serving_refuted Pgen w tie_core E). reflexivity.
Qed.
Print Assumptions c11_close_while_serving_quiet.
Print Assumptions c11_close_while_serving_refuted.
Print Assumptions c11_live_close_serving.

(* 5c. the property's second sentence, over the requests of a side (issued at any time, answered or not, the side ending in any way):
       once the side has ended nobody keeps waiting - every request has its value (exactly when the peer's reply was dispatched:
       no phantom values) or fails with EOFError; a request issued after the end fails with EOFError and registers nothing.
       What the model takes from the code are three GENERATED facts [rc : rfacts] (c11_request_facts: all three hold on this tree):
       every use of a closed stream's descriptor raises EOFError (so serve()/wait() on an ended side fail at once), _cleanup clears
       the callback table, _async_request on a closed channel raises EOFError; each theorem names the fact it needs and has a
       refutation for a tree without it. Threads blocked inside poll/wait when the end comes are the scheduler scenarios of the harness, not this model. *)
Theorem c11_ended_nobody_waits : forall P hr rc es e id, core_ok P = true -> Lifecycle.closed_stream_raises_eof rc = true -> must_end P e = true ->
  wait_outcome rc (rstep P hr rc (RBase e) (rruns P hr rc es rfresh)) id <> WKeepsWaiting.
Proof. exact ends_and_nobody_waits. Qed.
(* ... which rests on a fact of stream.py (generated: every use of a closed stream's descriptor raises EOFError): without it a request
   pending when the side ended waits for ever *)
Theorem c11_ended_waits_refuted : forall rc s id, Lifecycle.closed_stream_raises_eof rc = false -> ~ In id (got s) -> ~ In id (failed s) ->
  wait_outcome rc s id = WKeepsWaiting.
Proof. exact ended_waits_refuted. Qed.
(* nothing stays registered on a side that has ended - a fact of _cleanup (generated: the clears include the callback table) *)
Theorem c11_ended_nothing_registered : forall P hr rc es e, core_ok P = true -> Lifecycle.cleanup_clears_callbacks rc = true -> must_end P e = true ->
  pend (rstep P hr rc (RBase e) (rruns P hr rc es rfresh)) = [].
Proof. exact ended_nothing_registered. Qed.
Theorem c11_ended_registered_refuted : forall P hr rc es e, Lifecycle.cleanup_clears_callbacks rc = false ->
  pend (rstep P hr rc (RBase e) (rruns P hr rc es rfresh)) = pend (rruns P hr rc es rfresh).
Proof. exact ended_registered_refuted. Qed.
Theorem c11_no_phantom_value : forall P hr rc es id, wait_outcome rc (rruns P hr rc es rfresh) id = WValue -> In (RReply id) es.
Proof. intros P hr rc es id H. destruct (value_only_if_replied P hr rc es rfresh id H) as [[]|H']; exact H'. Qed.
Theorem c11_issue_after_end : forall P hr rc s id w, chan_open (base s) = false ->
  pend (rstep P hr rc (RIssue id w) s) = pend s /\ (~ In id (got s) -> wait_outcome rc (rstep P hr rc (RIssue id w) s) id = WEofError).
Proof. exact issue_after_end. Qed.
(* the three facts as the current tree has them *)
Theorem c11_request_facts : Fgen = std_rfacts.
Proof. exact tie_rfacts. Qed.
Print Assumptions c11_ended_waits_refuted.
Print Assumptions c11_ended_nothing_registered.
Print Assumptions c11_ended_registered_refuted.
Print Assumptions c11_request_facts.
Print Assumptions c11_ended_nobody_waits.
Print Assumptions c11_no_phantom_value.
Print Assumptions c11_issue_after_end.

(* 6. tie: the source's close/_cleanup/serve/serve_all have the guarded shapes; [c11_live] says which of 3 / 5 is live for the
      dispatch-write entry point on the current tree *)
Theorem c11_tie : core_ok Pgen = true /\ Gen_lifecycle.handle_close_is_cleanup = true /\ Gen_lifecycle.serve_read_eof_closes = true
  /\ Gen_lifecycle.serve_all_finally_closes = true.
Proof. pose proof tie_entry_points. split; [exact tie_core|tauto]. Qed.
Print Assumptions c11_tie.
Theorem c11_live : (forall c, must_end Pgen (EDispatchEof c) = true) \/ Lifecycle.serve_dispatch_eof_closes Pgen = false.
Proof. vm_compute. first [left; intros []; reflexivity | right; reflexivity]. Qed.
Print Assumptions c11_live.

(* non-vacuity: both sides' typical endings *)
Example c11_histories :
  ended_clean (runs std_params false [EClose WErr; EClose WOk; EHandleClose] fresh)
  /\ ended_clean (runs std_params true [EServeReadEof InWait; EClose WOk; EDispatchEof InServeAll] fresh)
  /\ hooks (runs std_params true [EDispatchEof InWait; EHandleClose; EServeReadEof InServeAll; EClose WEof] fresh) = 1
  /\ ended_clean (runs std_params false [ECloseServing WEof; EClose WOk] fresh).
Proof. vm_compute. repeat split. Qed.
(* requests 1 and 2 issued, 1 answered, the peer closes, request 3 issued afterwards: 1 has its value, 2 and 3 fail with EOFError *)
Example c11_requests_sample :
  let F := std_rfacts in
  let s := rruns std_params false F [RIssue 1 WOk; RIssue 2 WOk; RReply 1; RBase EHandleClose; RIssue 3 WOk] rfresh in
  wait_outcome F s 1 = WValue /\ wait_outcome F s 2 = WEofError /\ wait_outcome F s 3 = WEofError /\ pend s = []
  /\ wait_outcome F (rruns std_params false F [RIssue 1 WOk] rfresh) 1 = WKeepsWaiting.
Proof. vm_compute. repeat split. Qed.
