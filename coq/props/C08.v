(* C08 — Every request gets exactly one response, delivered to its own requester. *)
(* SCOPE. The model serves one request at a time and a response frame, once encoded, reaches the wire or ends the stream. With several
   threads sharing the connection the thread holding the send lock also writes frames queued by the others (C12); a write that fails
   WITHOUT ending the stream (a frame of 4 GiB or more, MemoryError in zlib: known finding F52 under C12) then raises in the holder's
   own _send although the holder's frame went out: a request already answered gets a second, exception response and the request whose
   frame failed gets none. That history is outside these theorems; it is recorded under F52. *)
From V Require Import lib.Base model.Proto proofs.ProtoP proofs.ProtoTie gen.Gen_dispatch.

(* 1. with every step of serving a request inside the guarded region (and the encoding of the answer guarded too), for any
      stream of requests with distinct numbers and ANY outcomes — malformed request, undecodable arguments, unknown handler,
      handler failure, unencodable result, unencodable exception — each request gets exactly one response frame bearing its
      own number, its handler runs at most once, and nothing escapes the serving loop. The ONE exclusion ([answerable]): a handler
      raising SystemExit / KeyboardInterrupt on a connection whose configuration marks that class for local propagation, on a tree
      that re-raises those (theorem 2b: that request is NOT answered; finding F26 for the default configuration) *)
Theorem c08_exactly_one_response : forall P reqs, fully_guarded P = true -> NoDup (map fst reqs) ->
  Forall (fun qo => answerable P (snd qo) = true) reqs ->
  forall q o, In (q, o) reqs -> responses_for q (serve_all P reqs) = 1%nat
  /\ Forall (fun r => crashed r = false /\ invoked r <= 1) (serve_all P reqs).
Proof. exact stream_exactly_one. Qed.
Print Assumptions c08_exactly_one_response.

(* 2. on a tree whose reply (or exception record) is encoded outside any guard the clause fails: the request gets no
      response at all and an exception escapes _dispatch_request (finding F2) *)
Theorem c08_unencodable_result_refuted : forall P seq, Proto.reply_encode_guarded P = false ->
  sent (serve_request P seq (OValue false)) = [] /\ crashed (serve_request P seq (OValue false)) = true.
Proof. exact unencodable_result_refuted. Qed.
Theorem c08_unencodable_exception_refuted : forall P seq, Proto.handler_in_try P = true -> Proto.exc_encode_guarded P = false ->
  sent (serve_request P seq (ORaise false)) = [] /\ crashed (serve_request P seq (ORaise false)) = true.
Proof. exact unencodable_exception_refuted. Qed.
Print Assumptions c08_unencodable_result_refuted.
Print Assumptions c08_unencodable_exception_refuted.

(* 2b. "requests whose handler fails ... the requester gets an exception and the connection remains usable" is FALSE for an exception class
       the configuration marks for local propagation: the handler ran, no frame is sent, the exception leaves the serving loop
       (which ends the connection). [c08_live_marked]: the current tree re-raises marked classes, and its DEFAULT configuration marks
       KeyboardInterrupt (not SystemExit) - known finding F26 *)
Theorem c08_marked_exception_refuted : forall P seq, Proto.handler_in_try P = true -> Proto.reraises_marked P = true ->
  let r := serve_request P seq ORaiseMarked in sent r = [] /\ crashed r = true /\ invoked r = 1%nat.
Proof. exact marked_exception_unanswered. Qed.
Print Assumptions c08_marked_exception_refuted.
Theorem c08_live_marked : Proto.reraises_marked Pgen = Gen_dispatch.reraises_marked
  /\ (Gen_dispatch.reraises_marked = true -> Gen_dispatch.default_marks_KeyboardInterrupt = true /\ Gen_dispatch.default_marks_SystemExit = false).
Proof. split; [reflexivity|]. vm_compute. intros _. split; reflexivity. Qed.
Print Assumptions c08_live_marked.

(* 3. routing at the requester, over any history of requests and responses: registered numbers are pairwise distinct and below
      the counter; a response invokes exactly the callback registered under its number and removes it, an unknown number
      invokes nothing; an answered number stays unknown; a failed send leaves no dangling registration *)
Theorem c08_registered_numbers_distinct : forall evs, InvR (fold_left req_step evs init_req).
Proof. exact invR_run. Qed.
Theorem c08_routing : forall s q is_exc,
  (forall cb, find_key q (callbacks s) = Some cb ->
     log (req_step s (EResponse q is_exc)) = log s ++ [(cb, is_exc)] /\ ~ In q (keys (req_step s (EResponse q is_exc)))
     /\ forall x, x <> q -> find_key x (callbacks (req_step s (EResponse q is_exc))) = find_key x (callbacks s))
  /\ (find_key q (callbacks s) = None -> req_step s (EResponse q is_exc) = s).
Proof. exact response_routing. Qed.
Theorem c08_answered_stays_unknown : forall s q is_exc e, InvR s -> find_key q (callbacks s) <> None ->
  find_key q (callbacks (req_step (req_step s (EResponse q is_exc)) e)) = None.
Proof. exact answered_stays_unknown. Qed.
Theorem c08_answered_stays_unknown_forever : forall s q is_exc evs, InvR s -> find_key q (callbacks s) <> None ->
  find_key q (callbacks (fold_left req_step evs (req_step s (EResponse q is_exc)))) = None.
Proof. exact answered_stays_unknown_forever. Qed.
Print Assumptions c08_answered_stays_unknown_forever.
Theorem c08_send_failure_unregisters : forall s cb, callbacks (req_step s (ERequest cb false)) = callbacks s.
Proof. exact send_failure_unregisters. Qed.
(* a response whose payload cannot be rebuilt at the requester (e.g. an exception class that cannot be re-created there): on a tree that
   guards the decoding it is routed exactly like an exception response to the same request; on a tree that does not, nothing changes at
   the requester - the request is never completed and its callback stays registered (refutation of "every response is delivered") *)
Theorem c08_undecodable_response : forall s q, req_step s (EUndecodable q true) = req_step s (EResponse q true).
Proof. intros s q. exact (proj1 (undecodable_response s q)). Qed.
Theorem c08_undecodable_response_refuted_when_unguarded : forall s q cb, find_key q (callbacks s) = Some cb ->
  find_key q (callbacks (req_step s (EUndecodable q false))) = Some cb /\ log (req_step s (EUndecodable q false)) = log s.
Proof. intros s q cb H. rewrite (proj2 (undecodable_response s q)). auto. Qed.
Print Assumptions c08_undecodable_response.
Print Assumptions c08_undecodable_response_refuted_when_unguarded.
Print Assumptions c08_registered_numbers_distinct.
Print Assumptions c08_routing.
Print Assumptions c08_answered_stays_unknown.
Print Assumptions c08_send_failure_unregisters.

(* 4. tie: what the source says now.  [c08_live_guarded] is the obligation that makes theorem 1 apply to the current tree;
      while the tree encodes replies outside the guard it does not hold and theorem 2 is the live one. *)
Theorem c08_tie : Gen_dispatch.unpack_in_try = true /\ Gen_dispatch.unbox_in_try = true /\ Gen_dispatch.handler_in_try = true
  /\ Gen_dispatch.dispatch_routing_is_standard = true /\ Gen_dispatch.callback_popped_then_called = true
  /\ Gen_dispatch.async_request_registers_then_sends_and_pops_on_failure = true /\ Gen_dispatch.response_decode_guarded = true.
Proof. pose proof tie_guarded_region. pose proof tie_requester. repeat split; tauto. Qed.
Print Assumptions c08_tie.
Theorem c08_live : (fully_guarded Pgen = true) \/ (Proto.reply_encode_guarded Pgen = false) \/ (Proto.exc_encode_guarded Pgen = false).
Proof. vm_compute. tauto. Qed.
Print Assumptions c08_live.

(* non-vacuity *)
Example c08_stream_sample :
  responses_for 5 (serve_all std_params [(4, OBadArgs); (5, OValue false); (6, ORaise false); (7, OValue true); (8, ONoHandler)]%Z) = 1%nat
  /\ map sent (serve_all std_params [(5, OValue false); (7, OValue true)]%Z) = [[FExc 5]; [FReply 7]]%Z
  /\ Forall (fun qo => answerable std_params (snd qo) = true) [(4, OBadArgs); (5, OValue false); (6, ORaise false); (7, OValue true); (8, ONoHandler)]%Z
  /\ answerable std_params ORaiseMarked = false.
Proof. vm_compute. repeat split; repeat constructor. Qed.
