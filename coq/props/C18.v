(* C18 — The registry reflects exactly the live registrations and cannot be knocked over.
   Only statements, [exact]s / short glue and Print Assumptions live here.

   Reading guide.  [state_after keq F pruning rh] is the services table after the history [rh]
   (newest event first; an event is (clock, sender's host, request)).  [live keq rh N b] is the
   specification: the time of the newest register request naming service N and an address == b that
   no later unregister request for that address follows (model/Registry.v, proofs/RegistryP.v).
   [keq] is Python's == on port values, [upper]/[lower] are str.upper/str.lower, [fso] the iteration
   order of a frozenset: the theorems hold for every choice of them ([keq] an equivalence).
   [F] carries the three facts tools/pygen reads off rpyc/utils/registry.py. *)
From V Require Import lib.Base model.Brine model.Registry proofs.RegistryP gen.Gen_registry.
From Coq Require Import String Sorting.Sorted.
Open Scope string_scope.
Open Scope Z_scope.

(* 1. after ANY history with a clock that does not go backwards, a query for N (already upper-cased, see 1')
      is answered with exactly the addresses whose newest registration under N has not been followed by an
      unregister and is not older than the pruning interval; one per address; oldest refresh first *)
Theorem c18_query_exact : forall keq F pruning, keq_equiv keq ->
  forall rh now host N, mono rh -> clock_le rh now ->
  exists s' m srv,
    exec keq F pruning now host (RQuery N) (state_after keq F pruning rh) = Next s' m (Some (PTuple (map addr_val srv)))
    /\ (forall b, (exists a', In a' srv /\ aeq keq a' b = true) <-> exists t, live keq rh N b = Some t /\ now - pruning <= t)
    /\ (forall b, (List.length (filter (fun a => aeq keq a b) srv) <= 1)%nat)
    /\ exists l, srv = map fst l /\ StronglySorted Z.le (map snd l)
                 /\ Forall (fun x => live keq rh N (fst x) = Some (snd x)) l.
Proof.
  intros keq F pruning (R & S & T) rh now host N M C.
  eexists _, _, _. split; [apply exec_query|]. exact (query_exact keq F pruning R S T rh now N M C).
Qed.
Print Assumptions c18_query_exact.

(* 1'. case-insensitivity: service names reach the table only through upper(), on both sides *)
Theorem c18_case_insensitive : forall upper lower fso F c,
  (find_cmd (lower c) = Some CQuery -> forall n1 n2, upper n1 = upper n2 ->
     classify upper lower fso F (PTuple [PStr RPYC; PStr c; PTuple [PStr n1]])
     = classify upper lower fso F (PTuple [PStr RPYC; PStr c; PTuple [PStr n2]])
     /\ classify upper lower fso F (PTuple [PStr RPYC; PStr c; PTuple [PStr n1]]) = RQuery (upper n1))
  /\ (find_cmd (lower c) = Some CRegister -> forall ns p,
     classify upper lower fso F (PTuple [PStr RPYC; PStr c; PTuple [PTuple (map PStr ns); p]]) = RRegister (map upper ns) p)
  /\ (find_cmd (lower c) = Some CUnregister -> forall p,
     classify upper lower fso F (PTuple [PStr RPYC; PStr c; PTuple [p]]) = RUnregister p).
Proof.
  intros upper lower fso F c. split; [|split].
  - intros E n1 n2 H. rewrite !(classify_query_upper upper lower fso F c _ E). now rewrite H.
  - intros E ns p. now apply classify_register_upper.
  - intros E p. now apply classify_unregister.
Qed.
Print Assumptions c18_case_insensitive.

(* 2. the notifications of every step are exactly the membership changes of the table, each once
      (on a tree where _remove_service notifies only when it removed something) *)
Theorem c18_notifications_exact : forall keq F pruning, keq_equiv keq -> notify_only_present F = true ->
  forall rh now h r N b,
  let s := state_after keq F pruning rh in
  match exec keq F pruning now h r s with
  | Next s' m _ =>
      count keq true N b m = ind (negb (member keq N b s) && member keq N b s')
      /\ count keq false N b m = ind (member keq N b s && negb (member keq N b s'))
  | Dead _ => True
  end.
Proof.
  intros keq F pruning (R & S & T) HF rh now h r N b. cbn zeta.
  apply (notes_exact keq F pruning S T); auto. now apply wf_state_after.
Qed.
Print Assumptions c18_notifications_exact.

(* 2'. false on a tree where it notifies unconditionally (F4c): register FOO :1234; register BAR :999;
       unregister :999 logs "removed FOO :999" although FOO's membership did not change *)
Theorem c18_notifications_exact_refuted : forall F pruning, notify_only_present F = false ->
  let s := state_after pyval_eqb F pruning witness_history in
  exists s' m rep, exec pyval_eqb F pruning 1002 h1 (RUnregister (PInt 999)) s = Next s' m rep
    /\ member pyval_eqb (T "FOO") (h1, PInt 999) s = false
    /\ member pyval_eqb (T "FOO") (h1, PInt 999) s' = false
    /\ count pyval_eqb false (T "FOO") (h1, PInt 999) m = 1%nat.
Proof. exact spurious_removed. Qed.
Print Assumptions c18_notifications_exact_refuted.

(* 3. no value in place of (magic, command, args) and no byte string ends the loop
      (on a tree where a non-text command cannot raise outside the guarded regions) *)
Theorem c18_loop_survives : forall upper lower fso keq F pruning, lookup_guarded F = true ->
  (forall now h s v, exists s' m rep, work_val upper lower fso keq F pruning now h s v = Next s' m rep)
  /\ (forall P now h s dg e, work_step upper lower fso keq F pruning P now h s dg <> Some (Dead e)).
Proof.
  intros upper lower fso keq F pruning G. split.
  - intros now h s v. now apply loop_survives.
  - intros P now h s dg e. now apply loop_survives_bytes.
Qed.
Print Assumptions c18_loop_survives.

(* 3'. false on a tree where cmd.lower() is evaluated outside every guard (F4a):
       the nine bytes brine.dump(("RPYC", 5, ())) end the loop *)
Theorem c18_loop_survives_refuted : forall F pruning P now h s, lookup_guarded F = false ->
  work_step ascii_upper ascii_lower fso_id pyval_eqb F pruning P now h s witness_numeric_command = Some (Dead AttributeError)
  /\ forall upper lower fso keq,
     work_val upper lower fso keq F pruning now h s (PTuple [PStr RPYC; PInt 5; PTuple []]) = Dead AttributeError.
Proof.
  intros F pruning P now h s G. split; [now apply loop_dies_bytes|].
  intros upper lower fso keq. now apply loop_dies_unguarded.
Qed.
Print Assumptions c18_loop_survives_refuted.

(* 3''. a request changes only the registrations it names: its sender's host with the port and the
        names it carries; a query only drops entries of its own name that are older than the interval *)
Theorem c18_no_collateral : forall keq F pruning, keq_equiv keq ->
  forall rh now h r N b,
  let s := state_after keq F pruning rh in
  lookup keq N b (next_state (exec keq F pruning now h r s) s) = lookup keq N b s
  \/ names_it keq h r N b
  \/ (exists t, r = RQuery N /\ lookup keq N b s = Some t /\ t < now - pruning).
Proof.
  intros keq F pruning (R & S & T) rh now h r N b. cbn zeta.
  apply (no_collateral keq F pruning R S T). now apply wf_state_after.
Qed.
Print Assumptions c18_no_collateral.

(* 3'''. the malformed shapes the property lists are dropped: table and log untouched, no reply *)
Theorem c18_malformed_dropped : forall upper lower fso keq F pruning now h s,
  let drop v := work_val upper lower fso keq F pruning now h s v = Next s [] None in
  (forall P dg e, load P dg = Raise e ->
     work_step upper lower fso keq F pruning P now h s dg = Some (Next s [] None))       (* undecodable bytes *)
  /\ (forall v, py_iter fso v = None -> drop v)                                              (* not a sequence *)
  /\ (forall v l, py_iter fso v = Some l -> List.length l <> 3%nat -> drop v)                (* not a triple *)
  /\ (forall m c a, is_text RPYC m = false -> drop (PTuple [m; c; a]))                        (* wrong magic *)
  /\ (forall c a, find_cmd (lower c) = None -> drop (PTuple [PStr RPYC; PStr c; a]))          (* unknown command *)
  /\ (lookup_guarded F = true -> forall c a, (forall t, c <> PStr t) -> drop (PTuple [PStr RPYC; c; a]))   (* non-text command *)
  /\ (forall c a, py_iter fso a = None -> drop (PTuple [PStr RPYC; PStr c; a]))               (* args not a sequence *)
  /\ (forall c k a al, find_cmd (lower c) = Some k -> py_iter fso a = Some al ->
        List.length al <> (match k with CRegister => 2 | _ => 1 end)%nat -> drop (PTuple [PStr RPYC; PStr c; a])).  (* wrong argument count *)
Proof.
  intros upper lower fso keq F pruning now h s drop. unfold drop.
  repeat split; intros.
  - now eapply undecodable_dropped; eauto.
  - apply malformed_dropped. now apply classify_not_iterable.
  - apply malformed_dropped. now eapply classify_wrong_length; eauto.
  - apply malformed_dropped. now apply classify_wrong_magic.
  - apply malformed_dropped. now apply classify_unknown_command.
  - apply malformed_dropped. now apply classify_nontext_command.
  - apply malformed_dropped. now apply classify_args_not_iterable.
  - apply malformed_dropped. now eapply classify_wrong_arg_count; eauto.
Qed.
Print Assumptions c18_malformed_dropped.

(* 4. (partial: blocking is OS behaviour, the model carries the generated flag) with a timeout on the
      accepted socket silent clients are invisible to the others and nobody is starved *)
Theorem c18_tcp_silent_client_partial : forall upper lower fso keq F pruning, tcp_timeout F = true ->
  (forall cs s, results_of_sends cs (tcp_run upper lower fso keq F pruning s cs)
                = tcp_run upper lower fso keq F pruning s (sends_of cs))
  /\ (lookup_guarded F = true -> forall cs s, ~ In TStarved (tcp_run upper lower fso keq F pruning s cs)).
Proof.
  intros upper lower fso keq F pruning HT. split.
  - intros cs s. now apply tcp_silent_invisible.
  - intros G cs s. now apply tcp_nobody_starves.
Qed.
Print Assumptions c18_tcp_silent_client_partial.

(* 4'. false on a tree where recv on the accepted socket blocks (F4b) *)
Theorem c18_tcp_silent_client_refuted : forall upper lower fso keq F pruning, tcp_timeout F = false ->
  forall now h now' h' v s,
  tcp_run upper lower fso keq F pruning s [(now, h, Silent); (now', h', Sends v)] = [TStarved; TStarved].
Proof. intros. now apply tcp_silent_starves. Qed.
Print Assumptions c18_tcp_silent_client_refuted.

(* 5. tie to the current source tree: the skeletons of _work, _remove_service and TCP _recv are among
      the shapes the model covers, and the three facts are the ones those skeletons imply *)
Theorem c18_tie :
  Gen_registry.commands = ["query"; "register"; "unregister"]%string
  /\ skel_known Gen_registry.work_skeleton = true
  /\ lookup_guarded Fgen = skel_guarded Gen_registry.work_skeleton
  /\ rskel_known Gen_registry.remove_skeleton = true
  /\ notify_only_present Fgen = rskel_only_present Gen_registry.remove_skeleton
  /\ tskel_known Gen_registry.tcp_recv_skeleton = true
  /\ tcp_timeout Fgen = tskel_timeout Gen_registry.tcp_recv_skeleton
  /\ Gen_registry.default_pruning = 240
  /\ keq_equiv pyval_eqb.
Proof.
  pose proof tie_commands. pose proof tie_work_skeleton as [? ?]. pose proof tie_remove_skeleton as [? ?].
  pose proof tie_tcp_recv_skeleton as [? ?]. pose proof tie_constants as (? & _).
  repeat split; auto; apply pyval_eqb_equiv.
Qed.
Print Assumptions c18_tie.

(* ---- non-vacuity ---- *)
(* a history from three hosts with aliases, a refresh, an unregister, a malformed request and a query
   that prunes; pruning interval 5 *)
Definition Fok : facts := {| lookup_guarded := true; notify_only_present := true; tcp_timeout := true |}.
Definition ha : text := T "a".  Definition hb : text := T "b".  Definition hc : text := T "c".
Definition sample_history : list event :=    (* newest first *)
  [(1021, hb, RRegister [T "FOO"] (PInt 1));
   (1020, hc, RQuery (T "FOO"));
   (1006, hc, RNone);
   (1005, hb, RUnregister (PInt 7));
   (1003, ha, RRegister [T "FOO"; T "BAR"] (PInt 1));
   (1000, hb, RRegister [T "FOO"] (PInt 1));
   (1000, hb, RRegister [T "BAZ"] (PInt 7));
   (1000, ha, RRegister [T "FOO"] (PInt 1))].
Example c18_sample_history_meets_hypotheses :
  mono sample_history /\ clock_le sample_history 1024
  /\ exec pyval_eqb Fok 5 1024 hc (RQuery (T "FOO")) (state_after pyval_eqb Fok 5 sample_history)
     = Next [(T "BAR", [((ha, PInt 1), 1003)]); (T "FOO", [((hb, PInt 1), 1021)])] []
            (Some (PTuple [PTuple [PStr hb; PInt 1]]))
  /\ live pyval_eqb sample_history (T "FOO") (hb, PInt 1) = Some 1021
  /\ live pyval_eqb sample_history (T "FOO") (ha, PInt 1) = Some 1003     (* registered, but older than the interval *)
  /\ live pyval_eqb sample_history (T "BAZ") (hb, PInt 7) = None.          (* unregistered *)
Proof. vm_compute. repeat split; discriminate. Qed.

(* the query at 1020 pruned two entries and notified each once *)
Example c18_sample_notifications :
  match exec pyval_eqb Fok 5 1020 hc (RQuery (T "FOO")) (state_after pyval_eqb Fok 5 (skipn 2 sample_history)) with
  | Next s' m rep => m = [Removed (T "FOO") (hb, PInt 1); Removed (T "FOO") (ha, PInt 1)] /\ rep = Some (PTuple [])
  | Dead _ => False
  end.
Proof. vm_compute. split; reflexivity. Qed.

(* datagrams as the real clients send them decode to the requests the theorems speak about *)
Definition P0 : bparams := {| sp := true; maxdigits := 4300 |}.
Example c18_sample_datagrams :
  (match dump P0 (PTuple [PStr RPYC; PStr (T "QUERY"); PTuple [PStr (T "Foo")]]) with
   | Ok bs => option_map (classify ascii_upper ascii_lower fso_id Fok) (decode P0 bs) | _ => None end
   = Some (RQuery (T "FOO")))
  /\ (match dump P0 (PTuple [PStr RPYC; PStr (T "REGISTER"); PTuple [PTuple [PStr (T "foo"); PStr (T "Bar")]; PInt 18812]]) with
      | Ok bs => option_map (classify ascii_upper ascii_lower fso_id Fok) (decode P0 bs) | _ => None end
      = Some (RRegister [T "FOO"; T "BAR"] (PInt 18812)))
  /\ option_map (classify ascii_upper ascii_lower fso_id Fok) (decode P0 witness_numeric_command) = Some RNone
  /\ decode P0 [xff; x00] = Some PNone.
Proof. vm_compute. repeat split. Qed.

(* TCP: a silent client between a register and a query *)
Example c18_sample_tcp :
  let q := PTuple [PStr RPYC; PStr (T "QUERY"); PTuple [PStr (T "foo")]] in
  let r := PTuple [PStr RPYC; PStr (T "REGISTER"); PTuple [PTuple [PStr (T "foo")]; PInt 1234]] in
  tcp_run ascii_upper ascii_lower fso_id pyval_eqb Fok 240 [] [(1, ha, Sends r); (2, hb, Silent); (3, hc, Sends q)]
  = [TReached (Some OKv); TReached None; TReached (Some (PTuple [PTuple [PStr ha; PInt 1234]]))].
Proof. vm_compute. reflexivity. Qed.
