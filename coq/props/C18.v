(* C18 — The registry reflects exactly the live registrations and cannot be knocked over.
   Only statements, [exact]s / short glue and Print Assumptions live here.

   Reading guide.  [state_after keq F pruning rh] is the services table after the history [rh]
   (newest event first; an event is (clock, sender's host, request)).  [live keq rh N b] is the
   specification: the time of the newest register request naming service N and an address == b that
   no later unregister request for that address follows (model/Registry.v, proofs/RegistryP.v).
   [keq] is Python's == on port values, [upper]/[lower] are str.upper/str.lower, [fso] the iteration
   order of a frozenset: the theorems hold for every choice of them ([keq] an equivalence).
   [enc v] says that brine.dump(v) succeeds where _work calls it (the decoder accepts deeper nesting
   than the encoder can emit before the interpreter's recursion limit): again any function.
   [F] carries the seven facts tools/pygen reads off rpyc/utils/registry.py.
   SCOPE.  (E1) [keq_equiv keq] includes reflexivity: ports that are not == to themselves (NaN, also nested in
   a tuple) are EXCLUDED from 1, 2, 2b and 3c; what happens with them is 1f, and 1e says when the code keeps
   them out.  (E2) "delivered" in 1a means: encoded and handed to _send.  Whether the encoding fits the
   MAX_DGRAM_SIZE bytes a stock client reads, or a UDP datagram at all, is NOT implied: 1d states the size
   bound as a hypothesis and refutes it for an honest history (known finding).
   What is only partly covered carries [_partial] in its name; every [_refuted] theorem is the witness
   of a defect, for trees on which the corresponding fact is false (or, for the two marked "known",
   for every tree). *)
From V Require Import lib.Base model.Brine model.Registry proofs.RegistryP gen.Gen_registry.
From Coq Require Import String Sorting.Sorted.
Open Scope string_scope.
Open Scope Z_scope.

(* 1. after ANY history with a clock that does not go backwards, a query for N (already upper-cased, see 1c)
      is computed as exactly the addresses whose newest registration under N has not been followed by an
      unregister and is not older than the pruning interval; one per address; oldest refresh first *)
Theorem c18_query_exact : forall keq F pruning, keq_equiv keq ->
  forall rh now host N, mono rh -> clock_le rh now ->
  exists s' m srv,
    exec keq F pruning now host (RQuery N) (state_after keq F pruning rh) = Next s' m (Some (PTuple (map addr_val srv)))
    /\ (forall b, (exists a', In a' srv /\ aeq keq a' b = true) <-> exists t, live keq rh N b = Some t /\ now - pruning <= t)
    /\ (forall b, (List.length (filter (fun a => aeq keq a b) srv) <= 1)%nat)
    /\ exists l, srv = map fst l /\ StronglySorted Z.le (map snd l)
                 /\ Forall (fun x => live keq rh N (fst x) = Some (snd x)) l.
Proof.
  intros keq F pruning (R & S & T) rh now host N M C.
  eexists _, _, _. split; [apply exec_query|]. exact (query_exact keq F pruning R S T rh now N M C).
Qed.
Print Assumptions c18_query_exact.

(* 1a. that answer is also delivered: the reply can be encoded, provided every register request of the history
       named an address that can be sent back -- which a tree that validates at registration guarantees for
       every request that reaches the table *)
Theorem c18_query_delivered : forall upper lower fso keq enc F pruning,
  enc_tuple_ok enc ->
  (forall rh now h N, regs_ok (answerable enc) rh ->
     deliver enc F (exec keq F pruning now h (RQuery N) (state_after keq F pruning rh))
     = exec keq F pruning now h (RQuery N) (state_after keq F pruning rh))
  /\ (register_validates F = true -> forall h v ns p,
        classify upper lower fso keq enc F h v = RRegister ns p -> answerable enc (h, p)).
Proof.
  intros upper lower fso keq enc F pruning ET. split.
  - intros rh now h N RO. now apply query_delivered.
  - intros V h v ns p E. apply (accepted_answerable keq enc F h p V).
    now apply (classify_register_accepted upper lower fso keq enc F h v ns p).
Qed.
Print Assumptions c18_query_delivered.

(* 1b. false on a tree that does not validate (review r5 no. 1): a register whose port is nested close to the
       decoder's limit is acknowledged, and the next query for that name is never answered (reply guarded;
       see 3b for the tree where it is not) *)
Theorem c18_query_delivered_refuted : forall F, reply_guarded F = true -> register_validates F = false ->
  enc_tuple_ok (shallow 5)
  /\ exists s1 m1,
     work_val ascii_upper ascii_lower fso_id pyval_eqb (shallow 5) F 240 1000 h1 [] register_deep = Next s1 m1 (Some OKv)
  /\ work_val ascii_upper ascii_lower fso_id pyval_eqb (shallow 5) F 240 1000 h1 s1 query_deep = Next s1 [] None.
Proof. intros F G V. split; [exact (shallow_tuple_ok 3)|now apply reply_lost_witness]. Qed.
Print Assumptions c18_query_delivered_refuted.

(* 1d. (partial: reply size.)  A stock client reads MAX_DGRAM_SIZE bytes once: it holds the whole answer when the
       encoding is at most that long -- a hypothesis no theorem discharges -- and ninety genuine servers of one
       name (or a few bulky ports) already break it: the exact answer is longer, the client sees a proper prefix
       (review r12 no. 3, known finding; beyond 65507 bytes UDP cannot carry the answer at all) *)
Theorem c18_reply_size_partial : forall bs, Z.of_nat (List.length bs) <= Gen_registry.max_dgram_size ->
  client_read Gen_registry.max_dgram_size bs = bs.
Proof. intros bs H. now apply whole_reply_read. Qed.
Print Assumptions c18_reply_size_partial.
Theorem c18_reply_size_refuted : forall F,
  mono many_history /\ clock_le many_history 1000
  /\ match exec pyval_eqb F 240 1000 h1 (RQuery (T "FOO")) (state_after pyval_eqb F 240 many_history) with
     | Next _ _ (Some rep) =>
         match dump {| sp := true; maxdigits := 4300 |} rep with
         | Ok bs => 1500 < Z.of_nat (List.length bs) /\ client_read 1500 bs <> bs
         | _ => False
         end
     | _ => False
     end.
Proof. exact big_reply_witness. Qed.
Print Assumptions c18_reply_size_refuted.

(* 1e. on a tree whose cmd_register compares the address with a copy of itself, every port that reaches the table
       is == to itself, i.e. exclusion (E1) is enforced at the door *)
Theorem c18_registered_ports_self_equal : forall upper lower fso keq enc F, register_self_equal F = true ->
  forall h v ns p, classify upper lower fso keq enc F h v = RRegister ns p -> keq p p = true.
Proof.
  intros upper lower fso keq enc F V h v ns p E. apply (accepted_self_equal keq enc F h p V).
  now apply (classify_register_accepted upper lower fso keq enc F h v ns p).
Qed.
Print Assumptions c18_registered_ports_self_equal.

(* 1f. outside (E1) the statements fail on a tree without that test (review r12 no. 9): with an equality under which a
       port is not equal to itself, two identical registers make two entries, an unregister removes neither, and
       the answer lists the address twice *)
Theorem c18_self_unequal_port_refuted : forall F,
  snd (cmd_query keq_never F 240 1003 (T "FOO") (state_after keq_never F 240 nan_history))
  = [(h1, PFloat nanbits); (h1, PFloat nanbits)].
Proof. exact self_unequal_witness. Qed.
Print Assumptions c18_self_unequal_port_refuted.

(* 1c. case-insensitivity: service names reach the table only through upper(), on both sides *)
Theorem c18_case_insensitive : forall upper lower fso keq enc F h c,
  (find_cmd (lower c) = Some CQuery -> forall n1 n2, upper n1 = upper n2 ->
     classify upper lower fso keq enc F h (PTuple [PStr RPYC; PStr c; PTuple [PStr n1]])
     = classify upper lower fso keq enc F h (PTuple [PStr RPYC; PStr c; PTuple [PStr n2]])
     /\ classify upper lower fso keq enc F h (PTuple [PStr RPYC; PStr c; PTuple [PStr n1]]) = RQuery (upper n1))
  /\ (find_cmd (lower c) = Some CRegister -> forall ns p, accepted keq enc F h p = true ->
     classify upper lower fso keq enc F h (PTuple [PStr RPYC; PStr c; PTuple [PTuple (map PStr ns); p]]) = RRegister (map upper ns) p)
  /\ (find_cmd (lower c) = Some CUnregister -> forall p,
     classify upper lower fso keq enc F h (PTuple [PStr RPYC; PStr c; PTuple [p]]) = RUnregister p).
Proof.
  intros upper lower fso keq enc F h c. split; [|split].
  - intros E n1 n2 H. rewrite !(classify_query_upper upper lower fso keq enc F h c _ E). now rewrite H.
  - intros E ns p A. now apply classify_register_upper.
  - intros E p. now apply classify_unregister.
Qed.
Print Assumptions c18_case_insensitive.

(* 2. TABLE membership: the notifications of every step are exactly the changes of the keys of the table,
      each once (on a tree where _remove_service notifies only when it removed something).  The table lags
      behind the property's freshness-based membership: see 2b and 2c. *)
Theorem c18_notifications_exact : forall keq F pruning, keq_equiv keq -> notify_only_present F = true ->
  forall rh now h r N b,
  let s := state_after keq F pruning rh in
  match exec keq F pruning now h r s with
  | Next s' m _ =>
      count keq true N b m = ind (negb (member keq N b s) && member keq N b s')
      /\ count keq false N b m = ind (member keq N b s && negb (member keq N b s'))
  | Dead _ => True
  end.
Proof.
  intros keq F pruning (R & S & T) HF rh now h r N b. cbn zeta.
  apply (notes_exact keq F pruning S T); auto. now apply wf_state_after.
Qed.
Print Assumptions c18_notifications_exact.

(* 2a. false on a tree where it notifies unconditionally (F4c): register FOO :1234; register BAR :999;
       unregister :999 logs "removed FOO :999" although FOO's membership did not change *)
Theorem c18_notifications_exact_refuted : forall F pruning, notify_only_present F = false ->
  let s := state_after pyval_eqb F pruning witness_history in
  exists s' m rep, exec pyval_eqb F pruning 1002 h1 (RUnregister (PInt 999)) s = Next s' m rep
    /\ member pyval_eqb (T "FOO") (h1, PInt 999) s = false
    /\ member pyval_eqb (T "FOO") (h1, PInt 999) s' = false
    /\ count pyval_eqb false (T "FOO") (h1, PInt 999) m = 1%nat.
Proof. exact spurious_removed. Qed.
Print Assumptions c18_notifications_exact_refuted.

(* 2b. (partial: the property's membership is "registered, not unregistered, refreshed within the interval";
       the code notices an expiry only at the next query for that name.)  Over the whole log,
       #added - #removed of (N, b) is 1 exactly when b is in the table under N; an entry that is registered and
       fresh at the clock is in the table; one that is not registered (never, or unregistered since) is not;
       and right after a query for N the table under N IS the fresh registered set.  What is not
       guaranteed is stated in 2c. *)
Theorem c18_notifications_fresh_partial : forall keq F pruning, keq_equiv keq -> notify_only_present F = true ->
  forall rh N b, mono rh ->
  let s := state_after keq F pruning rh in
  count keq true N b (log_after keq F pruning rh)
    = (count keq false N b (log_after keq F pruning rh) + ind (member keq N b s))%nat
  /\ (forall t, live keq rh N b = Some t -> ~ stale_at pruning rh t -> member keq N b s = true)
  /\ (live keq rh N b = None -> member keq N b s = false)
  /\ (forall now h, clock_le rh now ->
        (member keq N b (state_after keq F pruning ((now, h, RQuery N) :: rh)) = true
         <-> exists t, live keq rh N b = Some t /\ now - pruning <= t)).
Proof.
  intros keq F pruning (R & S & T) HF rh N b M. cbn zeta.
  destruct (member_vs_live keq F pruning R S T rh N b M) as (A & B & _).
  split; [now apply log_balance|]. split; [exact A|]. split; [exact B|].
  intros now h C. exact (member_after_query keq F pruning R S T rh now h N b M C).
Qed.
Print Assumptions c18_notifications_fresh_partial.

(* 2c. the strict reading fails on every tree (review r5 no. 5, known finding): with interval 5, a registration
       of time 1000 is no longer fresh at 1010 but still counted present (no "removed" was fired), and when
       it registers again at 1011 -- back in the fresh set -- no "added" is fired *)
Theorem c18_notifications_fresh_refuted : forall F,
  mono lazy_history
  /\ live pyval_eqb lazy_history (T "FOO") (h1, PInt 1) = Some 1000 /\ stale_at 5 lazy_history 1000
  /\ member pyval_eqb (T "FOO") (h1, PInt 1) (state_after pyval_eqb F 5 lazy_history) = true
  /\ notes_of (exec pyval_eqb F 5 1011 h1 (RRegister [T "FOO"] (PInt 1)) (state_after pyval_eqb F 5 lazy_history)) = [].
Proof. exact lazy_expiry_witness. Qed.
Print Assumptions c18_notifications_fresh_refuted.

(* 3. no value in place of (magic, command, args) and no byte string ends the loop -- on a tree where neither
      a non-text command nor a reply that cannot be encoded can raise outside the guarded regions *)
Theorem c18_loop_survives : forall upper lower fso keq enc F pruning, lookup_guarded F = true -> reply_guarded F = true ->
  (forall now h s v, exists s' m rep, work_val upper lower fso keq enc F pruning now h s v = Next s' m rep)
  /\ (forall P now h s dg e, work_step upper lower fso keq enc F pruning P now h s dg <> Some (Dead e)).
Proof.
  intros upper lower fso keq enc F pruning G RG. split.
  - intros now h s v. now apply loop_survives.
  - intros P now h s dg e. now apply loop_survives_bytes.
Qed.
Print Assumptions c18_loop_survives.

(* 3a. false on a tree where cmd.lower() is evaluated outside every guard (F4a):
       the nine bytes brine.dump(("RPYC", 5, ())) end the loop *)
Theorem c18_loop_survives_refuted : forall F pruning P now h s, lookup_guarded F = false ->
  work_step ascii_upper ascii_lower fso_id pyval_eqb enc_all F pruning P now h s witness_numeric_command = Some (Dead AttributeError)
  /\ forall upper lower fso keq enc,
     work_val upper lower fso keq enc F pruning now h s (PTuple [PStr RPYC; PInt 5; PTuple []]) = Dead AttributeError.
Proof.
  intros F pruning P now h s G. split; [now apply loop_dies_bytes|].
  intros upper lower fso keq enc. now apply loop_dies_unguarded.
Qed.
Print Assumptions c18_loop_survives_refuted.

(* 3b. false on a tree where brine.dump(reply) sits in the else branch of the guard (review r5 no. 1): whenever a
       command has run and its reply cannot be encoded the loop ends, with the command's effects applied; witness:
       a register with a deeply nested port is acknowledged, the next query for that name ends the loop *)
Theorem c18_loop_survives_refuted_reply : forall F, reply_guarded F = false ->
  (forall upper lower fso keq enc pruning now h s v s' m rep,
     exec keq F pruning now h (classify upper lower fso keq enc F h v) s = Next s' m (Some rep) -> enc rep = false ->
     work_val upper lower fso keq enc F pruning now h s v = Dead OtherError)
  /\ (register_validates F = false -> exists s1 m1,
        work_val ascii_upper ascii_lower fso_id pyval_eqb (shallow 5) F 240 1000 h1 [] register_deep = Next s1 m1 (Some OKv)
        /\ work_val ascii_upper ascii_lower fso_id pyval_eqb (shallow 5) F 240 1000 h1 s1 query_deep = Dead OtherError).
Proof.
  intros F G. split.
  - intros. now eapply reply_dies_unguarded; eauto.
  - intros V. now apply reply_dies_witness.
Qed.
Print Assumptions c18_loop_survives_refuted_reply.

(* 3c. a request changes only the registrations it names: its sender's host with the port and the
       names it carries; a query only drops entries of its own name that are older than the interval *)
Theorem c18_no_collateral : forall keq F pruning, keq_equiv keq ->
  forall rh now h r N b,
  let s := state_after keq F pruning rh in
  lookup keq N b (next_state (exec keq F pruning now h r s) s) = lookup keq N b s
  \/ names_it keq h r N b
  \/ (exists t, r = RQuery N /\ lookup keq N b s = Some t /\ t < now - pruning).
Proof.
  intros keq F pruning (R & S & T) rh now h r N b. cbn zeta.
  apply (no_collateral keq F pruning R S T). now apply wf_state_after.
Qed.
Print Assumptions c18_no_collateral.

(* 3d. the malformed shapes the property lists are dropped: table and log untouched, no reply *)
Theorem c18_malformed_dropped : forall upper lower fso keq enc F pruning now h s,
  let drop v := work_val upper lower fso keq enc F pruning now h s v = Next s [] None in
  (forall P dg e, load P dg = Raise e ->
     work_step upper lower fso keq enc F pruning P now h s dg = Some (Next s [] None))   (* undecodable bytes *)
  /\ (forall v, py_iter fso v = None -> drop v)                                              (* not a sequence *)
  /\ (forall v l, py_iter fso v = Some l -> List.length l <> 3%nat -> drop v)                (* not a triple *)
  /\ (forall m c a, is_text RPYC m = false -> drop (PTuple [m; c; a]))                        (* wrong magic *)
  /\ (forall c a, find_cmd (lower c) = None -> drop (PTuple [PStr RPYC; PStr c; a]))          (* unknown command *)
  /\ (lookup_guarded F = true -> forall c a, (forall t, c <> PStr t) -> drop (PTuple [PStr RPYC; c; a]))   (* non-text command *)
  /\ (forall c a, py_iter fso a = None -> drop (PTuple [PStr RPYC; PStr c; a]))               (* args not a sequence *)
  /\ (forall c k a al, find_cmd (lower c) = Some k -> py_iter fso a = Some al ->
        List.length al <> (match k with CRegister => 2 | _ => 1 end)%nat -> drop (PTuple [PStr RPYC; PStr c; a]))  (* wrong argument count *)
  /\ (forall c ns p, find_cmd (lower c) = Some CRegister -> accepted keq enc F h p = false ->
        drop (PTuple [PStr RPYC; PStr c; PTuple [PTuple (map PStr ns); p]])).                   (* address that could not be sent back *)
Proof.
  intros upper lower fso keq enc F pruning now h s drop. unfold drop.
  repeat split; intros.
  - now eapply undecodable_dropped; eauto.
  - apply malformed_dropped. now apply classify_not_iterable.
  - apply malformed_dropped. now eapply classify_wrong_length; eauto.
  - apply malformed_dropped. now apply classify_wrong_magic.
  - apply malformed_dropped. now apply classify_unknown_command.
  - apply malformed_dropped. now apply classify_nontext_command.
  - apply malformed_dropped. now apply classify_args_not_iterable.
  - apply malformed_dropped. now eapply classify_wrong_arg_count; eauto.
  - apply malformed_dropped. now apply classify_register_refused.
Qed.
Print Assumptions c18_malformed_dropped.

(* 4. (partial: blocking and descriptor exhaustion are OS behaviour; the model carries the generated flags, a
      count of accepted sockets that were never answered and the number [fdmax] the process can hold.)
      With a timeout on the accepted socket silent clients are invisible to the others; if moreover unanswered
      sockets are closed and the loop cannot die, nobody is ever starved *)
Theorem c18_tcp_silent_client_partial : forall upper lower fso keq enc F pruning fdmax, tcp_timeout F = true ->
  (forall cs p s, results_of_sends cs (tcp_run upper lower fso keq enc F pruning fdmax p s cs)
                  = tcp_run upper lower fso keq enc F pruning fdmax p s (sends_of cs))
  /\ (lookup_guarded F = true -> reply_guarded F = true -> tcp_closes_unanswered F = true -> (1 <= fdmax)%nat ->
      forall cs p s, ~ In TStarved (tcp_run upper lower fso keq enc F pruning fdmax p s cs)).
Proof.
  intros upper lower fso keq enc F pruning fdmax HT. split.
  - intros cs p s. now apply tcp_silent_invisible.
  - intros G RG CL FD cs p s. now apply tcp_nobody_starves.
Qed.
Print Assumptions c18_tcp_silent_client_partial.

(* 4a. false on a tree where recv on the accepted socket blocks (F4b) *)
Theorem c18_tcp_silent_client_refuted : forall upper lower fso keq enc F pruning fdmax, tcp_timeout F = false ->
  forall now h now' h' v s,
  tcp_run upper lower fso keq enc F pruning fdmax O s [(now, h, Silent); (now', h', Sends v)] = [TStarved; TStarved].
Proof. intros. now apply tcp_silent_starves. Qed.
Print Assumptions c18_tcp_silent_client_refuted.

(* 4b. false on a tree where sockets of unanswered requests stay open (review r5 no. 3): after [fdmax] requests
       that get no reply -- here: an unknown command -- every later client is starved, whatever it sends *)
Theorem c18_tcp_leak_refuted : forall upper lower fso keq enc F pruning fdmax, tcp_closes_unanswered F = false ->
  forall now h c a, find_cmd (lower c) = None -> forall cl s,
  tcp_run upper lower fso keq enc F pruning fdmax O s
    (repeat (now, h, Sends (PTuple [PStr RPYC; PStr c; a])) fdmax ++ [cl])%list
  = (repeat (TReached None) fdmax ++ [TStarved])%list.
Proof.
  intros upper lower fso keq enc F pruning fdmax CL now h c a E cl s.
  apply tcp_leak_starves; auto.
  intros s0. apply malformed_dropped. now apply classify_unknown_command.
Qed.
Print Assumptions c18_tcp_leak_refuted.

(* 4c. (partial: all clients connect at time 0.)  A client is reached after one server timeout per silent client
       ahead of it; so with the stock constants -- server 3 s, client 2 s (review r5 no. 4, known finding) -- a
       single silent client makes a stock client give up before the registry turns to it *)
Theorem c18_tcp_latency_partial : forall T cs i,
  reached_at_ms T cs i = T * Z.of_nat (silent_before cs i).
Proof. exact reached_at_silent. Qed.
Print Assumptions c18_tcp_latency_partial.
Theorem c18_tcp_stock_client_refuted : Gen_registry.tcp_client_timeout_ms <= Gen_registry.tcp_timeout_ms ->
  forall v, Gen_registry.tcp_client_timeout_ms <= reached_at_ms Gen_registry.tcp_timeout_ms [Silent; Sends v] 1.
Proof. intros H v. cbn [reached_at_ms]. lia. Qed.
Print Assumptions c18_tcp_stock_client_refuted.

(* 5. tie to the current source tree: the skeletons of _work, _remove_service, cmd_register and TCP _recv are
      among the shapes the model covers, and the seven facts are the ones those skeletons imply *)
Theorem c18_tie :
  Gen_registry.commands = ["query"; "register"; "unregister"]%string
  /\ skel_known Gen_registry.work_skeleton = true
  /\ lookup_guarded Fgen = skel_guarded Gen_registry.work_skeleton
  /\ reply_guarded Fgen = skel_reply_guarded Gen_registry.work_skeleton
  /\ rskel_known Gen_registry.remove_skeleton = true
  /\ notify_only_present Fgen = rskel_only_present Gen_registry.remove_skeleton
  /\ gskel_known Gen_registry.register_skeleton = true
  /\ register_validates Fgen = gskel_validates Gen_registry.register_skeleton
  /\ register_self_equal Fgen = gskel_self_equal Gen_registry.register_skeleton
  /\ Gen_registry.max_dgram_size = 1500
  /\ tskel_known Gen_registry.tcp_recv_skeleton = true
  /\ tcp_timeout Fgen = tskel_timeout Gen_registry.tcp_recv_skeleton
  /\ tcp_closes_unanswered Fgen = tskel_sweeps Gen_registry.tcp_recv_skeleton
  /\ Gen_registry.default_pruning = 240
  /\ 0 < Gen_registry.tcp_timeout_ms /\ 0 < Gen_registry.tcp_client_timeout_ms
  /\ keq_equiv pyval_eqb.
Proof.
  pose proof tie_commands. pose proof tie_work_skeleton as (? & ? & ?). pose proof tie_remove_skeleton as [? ?].
  pose proof tie_register_skeleton as (? & ? & ?).
  pose proof tie_tcp_recv_skeleton as (? & ? & ?). pose proof tie_constants as (? & ? & _ & ? & ?).
  repeat split; auto; apply pyval_eqb_equiv.
Qed.
Print Assumptions c18_tie.

(* ---- non-vacuity ---- *)
(* a history from three hosts with aliases, a refresh, an unregister, a malformed request and a query
   that prunes; pruning interval 5 *)
Definition Fok : facts := {| lookup_guarded := true; notify_only_present := true; tcp_timeout := true;
                            reply_guarded := true; register_validates := true; tcp_closes_unanswered := true;
                            register_self_equal := true |}.
Definition ha : text := T "a".  Definition hb : text := T "b".  Definition hc : text := T "c".
Definition sample_history : list event :=    (* newest first *)
  [(1021, hb, RRegister [T "FOO"] (PInt 1));
   (1020, hc, RQuery (T "FOO"));
   (1006, hc, RNone);
   (1005, hb, RUnregister (PInt 7));
   (1003, ha, RRegister [T "FOO"; T "BAR"] (PInt 1));
   (1000, hb, RRegister [T "FOO"] (PInt 1));
   (1000, hb, RRegister [T "BAZ"] (PInt 7));
   (1000, ha, RRegister [T "FOO"] (PInt 1))].
Example c18_sample_history_meets_hypotheses :
  mono sample_history /\ clock_le sample_history 1024
  /\ exec pyval_eqb Fok 5 1024 hc (RQuery (T "FOO")) (state_after pyval_eqb Fok 5 sample_history)
     = Next [(T "BAR", [((ha, PInt 1), 1003)]); (T "FOO", [((hb, PInt 1), 1021)])] []
            (Some (PTuple [PTuple [PStr hb; PInt 1]]))
  /\ live pyval_eqb sample_history (T "FOO") (hb, PInt 1) = Some 1021
  /\ live pyval_eqb sample_history (T "FOO") (ha, PInt 1) = Some 1003     (* registered, but older than the interval *)
  /\ live pyval_eqb sample_history (T "BAZ") (hb, PInt 7) = None.          (* unregistered *)
Proof. vm_compute. repeat split; discriminate. Qed.

(* the query at 1020 pruned two entries and notified each once *)
Example c18_sample_notifications :
  match exec pyval_eqb Fok 5 1020 hc (RQuery (T "FOO")) (state_after pyval_eqb Fok 5 (skipn 2 sample_history)) with
  | Next s' m rep => m = [Removed (T "FOO") (hb, PInt 1); Removed (T "FOO") (ha, PInt 1)] /\ rep = Some (PTuple [])
  | Dead _ => False
  end.
Proof. vm_compute. split; reflexivity. Qed.

(* datagrams as the real clients send them decode to the requests the theorems speak about *)
Definition P0 : bparams := {| sp := true; maxdigits := 4300 |}.
Example c18_sample_datagrams :
  (match dump P0 (PTuple [PStr RPYC; PStr (T "QUERY"); PTuple [PStr (T "Foo")]]) with
   | Ok bs => option_map (classify ascii_upper ascii_lower fso_id pyval_eqb enc_all Fok ha) (decode P0 bs) | _ => None end
   = Some (RQuery (T "FOO")))
  /\ (match dump P0 (PTuple [PStr RPYC; PStr (T "REGISTER"); PTuple [PTuple [PStr (T "foo"); PStr (T "Bar")]; PInt 18812]]) with
      | Ok bs => option_map (classify ascii_upper ascii_lower fso_id pyval_eqb enc_all Fok ha) (decode P0 bs) | _ => None end
      = Some (RRegister [T "FOO"; T "BAR"] (PInt 18812)))
  /\ option_map (classify ascii_upper ascii_lower fso_id pyval_eqb enc_all Fok ha) (decode P0 witness_numeric_command) = Some RNone
  /\ decode P0 [xff; x00] = Some PNone.
Proof. vm_compute. repeat split. Qed.

(* TCP: a silent client between a register and a query *)
Example c18_sample_tcp :
  let q := PTuple [PStr RPYC; PStr (T "QUERY"); PTuple [PStr (T "foo")]] in
  let r := PTuple [PStr RPYC; PStr (T "REGISTER"); PTuple [PTuple [PStr (T "foo")]; PInt 1234]] in
  tcp_run ascii_upper ascii_lower fso_id pyval_eqb enc_all Fok 240 8 0 [] [(1, ha, Sends r); (2, hb, Silent); (3, hc, Sends q)]
  = [TReached (Some OKv); TReached None; TReached (Some (PTuple [PTuple [PStr ha; PInt 1234]]))].
Proof. vm_compute. reflexivity. Qed.

(* the hypotheses of 1a and 2b are met by the sample history with a depth-limited encoder; the deep registration
   is refused on a validating tree; the log balance of the sample history *)
Example c18_sample_delivery :
  enc_tuple_ok (shallow 5) /\ regs_ok (answerable (shallow 5)) sample_history
  /\ work_val ascii_upper ascii_lower fso_id pyval_eqb (shallow 5) Fok 240 1000 h1 [] register_deep = Next [] [] None
  /\ count pyval_eqb true (T "FOO") (hb, PInt 1) (log_after pyval_eqb Fok 5 sample_history) = 2%nat
  /\ count pyval_eqb false (T "FOO") (hb, PInt 1) (log_after pyval_eqb Fok 5 sample_history) = 1%nat
  /\ member pyval_eqb (T "FOO") (hb, PInt 1) (state_after pyval_eqb Fok 5 sample_history) = true.
Proof.
  split; [exact (shallow_tuple_ok 3)|]. split; [repeat constructor|]. vm_compute. repeat split.
Qed.

(* an unanswered request per descriptor, then a query: starved without the sweep, answered with it *)
Example c18_sample_tcp_leak :
  let bad := PTuple [PStr RPYC; PStr (T "nosuch"); PTuple []] in
  let q := PTuple [PStr RPYC; PStr (T "QUERY"); PTuple [PStr (T "foo")]] in
  let Fleak := {| lookup_guarded := true; notify_only_present := true; tcp_timeout := true;
                  reply_guarded := true; register_validates := true; tcp_closes_unanswered := false;
                  register_self_equal := true |} in
  tcp_run ascii_upper ascii_lower fso_id pyval_eqb enc_all Fleak 240 2 0 [] [(1, ha, Sends bad); (2, ha, Sends bad); (3, hc, Sends q)]
    = [TReached None; TReached None; TStarved]
  /\ tcp_run ascii_upper ascii_lower fso_id pyval_eqb enc_all Fok 240 2 0 [] [(1, ha, Sends bad); (2, ha, Sends bad); (3, hc, Sends q)]
    = [TReached None; TReached None; TReached (Some (PTuple []))].
Proof. vm_compute. split; reflexivity. Qed.
