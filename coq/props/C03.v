(* C03 — Immutable values travel by copy, everything else by reference; identity survives.
   Only statements, short glue and Print Assumptions live here; the proofs are in proofs/BoxP.v.

   Reading guide.  [transfer P bl ul idp from v w] is one object v going from party [from] (true = A) to the
   other party of world w: Connection._box with the decision ladder bl, brine.dump, the wire, brine.load,
   Connection._unbox with the ladder ul.  The ladders used below are the ones REGENERATED FROM THE SOURCE
   (gen/Gen_box.v); proofs/BoxTie.v shows by computation that they are the ladders of the proofs.
   [idp] is get_id_pack (CPython's id() is outside the model: any function whose id packs are encodable).
   [POther k] is any object whose exact type is not in brine's registry: lists, dicts, functions, classes,
   modules and every instance of a subclass of int / str / tuple / frozenset / ... (enum members, named tuples).
   [inv] is an invariant of every world reachable by well-behaved parties (theorem c03_histories).

   WHAT IS EXCLUDED, and where it is stated.
   (E1) One get_id_pack throughout: every theorem below speaks of histories in which the id packs of the objects that
        are LENT do not change (c03_id_pack_may_change_when_not_lent: packs of objects that are not lent may change
        freely).  The real get_id_pack reads the name and the class id from the object's CURRENT class, so reassigning
        o.__class__ or renaming the class of a lent object changes its pack; on the current tree the clauses "same
        proxy while alive" and "handed back = original" then FAIL: c03_one_proxy_refuted_when_id_pack_changes and
        c03_echo_refuted_after_id_pack_change exhibit the history (known finding; the harness produces it).
   (E2) Two parties, one connection.  Netrefs of another connection (three address spaces) are ordinary objects to
        the model, keyed by whatever pack they carry; that two live objects of DIFFERENT address spaces never share a
        pack is not provable (forked processes share layouts) and is a hypothesis wherever identity is claimed
        (premise "no other live object has v's id pack" of c03_echo_identity_hops).  The harness runs a real
        three-party chain with the oracle only.
   (E4) One arrival at a time.  [transfer] is atomic; the real _unbox is not when the class of the object is unknown to
        the receiver: _netref_factory waits for HANDLE_INSPECT and serves other messages meanwhile.  All theorems about
        [transfer] / [run] speak of histories in which no arrival is dispatched while another one waits for the class.
        The nested case is modelled separately ([nested_arrival]): c03_one_proxy_nested_when_rechecked is the clause
        "one proxy per object" under the generated fact factory_rechecks_cache_after_inspect, and
        c03_one_proxy_nested_refuted is the witness that without it (the tree before the proposed repair) the same
        object gets TWO live proxies.  The harness produces the history (two requests in flight carrying one object).
   (E5) Objects carried by an exception (raise ValueError([1, 2])) do not travel through _box at all: the exception
        record is C09's subject (arguments that are not plain values arrive as their repr text).  "Every other object
        reaches the peer as a reference" is claimed for request arguments and results only.
   (E3) pickle: obtain / deliver are proved only as plumbing (c03_obtain_deliver_plumbing_partial,
        c03_deliver_then_operate_partial); "equal" is pickle's own contract and is checked by the harness oracle. *)
From Coq Require Import String.
From V Require Import lib.Base lib.Utf8 model.Ladder model.Brine proofs.BrineP proofs.BrineTie
  model.Box proofs.BoxP proofs.BoxTie gen.Gen_box gen.Gen_consts gen.Gen_brine.
Open Scope Z_scope.

Definition idp_enc (P : bparams) (idp : pyval -> idpack) : Prop :=
  (forall u, wf P (pv_of_idpack (idp u)) = true) /\ (forall u, text_ok P (pv_of_idpack (idp u)) = true).
(* the code's transfer: ladders as found in the source tree *)
Definition code_transfer P idp := transfer P Gen_box.box_ladder Gen_box.unbox_ladder idp.
Lemma code_transfer_std P idp : code_transfer P idp = transfer P std_bladder std_uladder idp.
Proof. unfold code_transfer. now rewrite tie_box_ladder, tie_unbox_ladder. Qed.

(* 0. whatever _box is given, the package it puts on the wire is an immutable plain value (so C04 applies) *)
Theorem c03_package_is_plain : forall idp mk v,
  exists pkg regs, box Gen_box.box_ladder idp mk v = Ok (pkg, regs) /\ dumpable pkg = true.
Proof.
  intros. rewrite tie_box_ladder. exists (pkg_of idp mk v), (regs_of mk v). split; [apply box_spec|apply pkg_dumpable].
Qed.
Print Assumptions c03_package_is_plain.

(* 1. immutable plain values (any shape, any nesting) arrive as the same value: same constructor = same exact
      type, equal content; neither party's tables change *)
Theorem c03_values : forall P idp from v w,
  dumpable v = true -> wf P v = true -> text_ok P v = true ->
  code_transfer P idp from v w = Ok (v, w).
Proof. intros. rewrite code_transfer_std. now apply values_by_copy. Qed.
Print Assumptions c03_values.

(* 2. every other object that is not an exact tuple (dumpable v = false covers every POther, i.e. every instance
      of a subclass, and every frozenset / slice with such an object inside) arrives as THE proxy for its id pack
      ([accept]: the live cached proxy, else a fresh one), and the sender keeps the object in its table *)
Theorem c03_refs : forall P idp, idp_enc P idp -> forall from v w,
  inv P idp w -> byref (made (get w from)) v -> wf P v = true -> text_ok P v = true ->
  code_transfer P idp from v w =
    Ok (fst (accept (idp v) (get w (negb from))),
        put2 from (set_ltab (get w from) (coll_add (idp v) v (ltab (get w from))))
                  (snd (accept (idp v) (get w (negb from))))).
Proof. intros P idp [A B] **. rewrite code_transfer_std. now apply refs_by_reference. Qed.
Print Assumptions c03_refs.

(* ENCODING FACTS (no content about the code by themselves): in the model's universe an instance of a subclass of a plain
   type is a [POther] and therefore falls under c03_refs.  That the CODE treats such instances so is the generated fact
   Gen_box.dumpable_tests_exact_types (c03_tie) together with the harness, which maps real objects to [POther] by exact
   type and observes them arriving as references. *)
Theorem c03_encoding_subclass_instances_are_byref : forall mk k, N.even k = true -> byref mk (POther k).
Proof.
  intros mk k E. repeat split. unfold own_proxy, proxy_serial. rewrite <- N.negb_even, E. reflexivity.
Qed.
Print Assumptions c03_encoding_subclass_instances_are_byref.

(* ... likewise every frozenset / slice that is not built only from plain values (it holds an object somewhere) *)
Theorem c03_encoding_containers_holding_objects_are_byref : forall mk v,
  dumpable v = false -> (forall l, v <> PTuple l) -> (forall k, v <> POther k) -> byref mk v.
Proof.
  intros mk v D T O. destruct v; try discriminate; try (repeat split; assumption || reflexivity).
  - exfalso. now apply (T l).
  - exfalso. now apply (O k).
Qed.
Print Assumptions c03_encoding_containers_holding_objects_are_byref.

(* 2'. exact tuples, mixing values and references at any nesting: sending the tuple is sending its items one
       after the other and tupling what arrives *)
Theorem c03_tuple_mixed : forall P idp, idp_enc P idp -> forall from l w,
  inv P idp w -> wf P (PTuple l) = true -> text_ok P (PTuple l) = true -> held (get w from) (PTuple l) = true ->
  code_transfer P idp from (PTuple l) w = do (vs, w') <- transfer_items P idp from l w; Ok (PTuple vs, w').
Proof. intros P idp [A B] **. rewrite code_transfer_std. now apply tuple_elementwise. Qed.
Print Assumptions c03_tuple_mixed.

(* 2''. the general statement for every value and nesting: the receiver ends with the pure specification [recv] *)
Theorem c03_transfer_spec : forall P idp, idp_enc P idp -> forall from v w,
  inv P idp w -> wf P v = true -> text_ok P v = true -> held (get w from) v = true ->
  code_transfer P idp from v w =
    Ok (fst (recv idp (made (get w from)) v (get w (negb from))),
        put2 from (set_ltab (get w from) (register idp (regs_of (made (get w from)) v) (ltab (get w from))))
                  (snd (recv idp (made (get w from)) v (get w (negb from))))).
Proof.
  intros P idp [A B] from v w I W X Hh. rewrite code_transfer_std. apply transfer_spec; auto.
  - now apply (inv_keys P idp).
  - destruct (inv_get P idp w from I) as [Is _]. now apply (held_echo_ok P idp _ _ Is).
Qed.
Print Assumptions c03_transfer_spec.

(* 3. an operation applied through a proxy is applied to the owner's object: the owner's _unbox of the request
      yields the very object stored under the proxy's key *)
Theorem c03_mutation_is_owner_mutation : forall P idp, idp_enc P idp -> forall a n k rc obj c d w,
  inv P idp w -> lookup k (cache (get w a)) = Some (n, rc) -> lookup k (ltab (get w (negb a))) = Some (obj, c) ->
  wf P (PInt d) = true ->
  mutate P Gen_box.box_ladder Gen_box.unbox_ladder idp a n d w =
    Ok (put2 a (get w a) (set_mlog (get w (negb a)) (mlog (get w (negb a)) ++ [(obj, d)]))).
Proof. intros P idp [A B] **. rewrite tie_box_ladder, tie_unbox_ladder. now apply mutation_at_owner with (k := k) (rc := rc) (c := c). Qed.
Print Assumptions c03_mutation_is_owner_mutation.

(* 4. a reference handed back to its owner is the original object itself (not a proxy), and nothing changes *)
Theorem c03_echo_identity : forall P idp, idp_enc P idp -> forall a n k rc obj c w,
  inv P idp w -> lookup k (cache (get w a)) = Some (n, rc) -> lookup k (ltab (get w (negb a))) = Some (obj, c) ->
  code_transfer P idp a (POther (proxy_name n)) w = Ok (obj, w).
Proof. intros P idp [A B] **. rewrite code_transfer_std. now apply echo_identity with (k := k) (rc := rc) (c := c). Qed.
Print Assumptions c03_echo_identity.

(* 4'. ... for any number of hops back and forth: send v, and from then on every even hop yields v itself and
       every odd hop the same proxy p.  The premise on the table is "no other live object has v's id pack". *)
Theorem c03_echo_identity_hops : forall P idp, idp_enc P idp -> forall from v w,
  inv P idp w -> byref (made (get w from)) v -> wf P v = true -> text_ok P v = true ->
  (forall o c, lookup (idp v) (ltab (get w from)) = Some (o, c) -> o = v) ->
  exists p, forall n,
    (exists w', hops P idp (2 * n + 1) from v w = Ok (POther (proxy_name p), w')) /\
    (exists w', hops P idp (2 * n + 2) from v w = Ok (v, w')).
Proof.
  intros P idp [A B] from v w I Br W X NC.
  destruct (first_send_links P idp A B from v w I Br W X NC) as (p & w1 & E & L). exists p. intros n. split.
  - replace (2 * n + 1)%nat with (S (2 * n)) by lia. cbn [hops]. rewrite E. cbn [bind].
    destruct n as [|n]; [eexists; reflexivity|].
    pose proof (linked_back P idp A B _ _ _ _ L) as E2.
    destruct (echo_hops P idp A B from p v W X n w1 L) as (w' & _ & _ & (w'' & H3)).
    replace (2 * S n)%nat with (S (2 * n + 1)) by lia. cbn [hops]. rewrite E2. cbn [bind]. rewrite negb_involutive. eauto.
  - replace (2 * n + 2)%nat with (S (S (2 * n))) by lia. cbn [hops]. rewrite E. cbn [bind].
    rewrite (linked_back P idp A B _ _ _ _ L). cbn [bind]. rewrite negb_involutive.
    destruct (echo_hops P idp A B from p v W X n w1 L) as (w' & H1 & _). eauto.
Qed.
Print Assumptions c03_echo_identity_hops.

(* 5. while a proxy for an object is alive, receiving the object again yields that same proxy and bumps its
      count; no new proxy is made *)
Theorem c03_one_proxy : forall P idp, idp_enc P idp -> forall from v w n rc,
  inv P idp w -> byref (made (get w from)) v -> wf P v = true -> text_ok P v = true ->
  lookup (idp v) (cache (get w (negb from))) = Some (n, rc) ->
  exists w', code_transfer P idp from v w = Ok (POther (proxy_name n), w') /\
    lookup (idp v) (cache (get w' (negb from))) = Some (n, rc + 1) /\
    made (get w' (negb from)) = made (get w (negb from)).
Proof. intros P idp [A B] **. rewrite code_transfer_std. now apply one_proxy_alive. Qed.
Print Assumptions c03_one_proxy.

(* 5'. when there is no live proxy, a fresh one is made: its name differs from every proxy made before *)
Theorem c03_one_proxy_fresh : forall P idp, idp_enc P idp -> forall from v w,
  inv P idp w -> byref (made (get w from)) v -> wf P v = true -> text_ok P v = true ->
  lookup (idp v) (cache (get w (negb from))) = None ->
  let n := nlen (made (get w (negb from))) in
  exists w', code_transfer P idp from v w = Ok (POther (proxy_name n), w') /\
    lookup (idp v) (cache (get w' (negb from))) = Some (n, 1) /\
    (forall m, nth_error (made (get w (negb from))) (N.to_nat m) <> None -> POther (proxy_name m) <> POther (proxy_name n)).
Proof. intros P idp [A B] **. rewrite code_transfer_std. now apply one_proxy_fresh. Qed.
Print Assumptions c03_one_proxy_fresh.

(* 5''. dropping the proxy empties the weak cache entry (so 5' applies to the next arrival) and tells the owner *)
Theorem c03_dropped_then_fresh : forall P idp, idp_enc P idp -> forall a n k rc obj c w,
  inv P idp w -> lookup k (cache (get w a)) = Some (n, rc) -> lookup k (ltab (get w (negb a))) = Some (obj, c) ->
  wf P (PInt rc) = true ->
  exists w', drop P Gen_box.box_ladder Gen_box.unbox_ladder idp a n w = Ok w' /\ inv P idp w' /\
    lookup k (cache (get w' a)) = None /\ made (get w' a) = made (get w a).
Proof.
  intros P idp [A B] a n k rc obj c w I C L W. rewrite tie_box_ladder, tie_unbox_ladder.
  destruct (drop_inv P idp A B a n w I) as (w' & E & I').
  { intros k' rc' H. destruct (inv_get P idp w a I) as [[[Cs _] _] _].
    destruct (Cs _ _ _ H) as [H1 _]. destruct (Cs _ _ _ C) as [H2 _]. rewrite H1 in H2. injection H2 as ->.
    rewrite C in H. now injection H as <-. }
  exists w'. split; [exact E|]. split; [exact I'|]. now apply (dropped_proxy_forgotten P idp A B a n k rc obj c w w').
Qed.
Print Assumptions c03_dropped_then_fresh.

(* 6. explicit copy transfer.  PARTIAL, plumbing only: pickle is two uninterpreted functions and NOTHING is assumed
      about them, so "equal" is not claimed here (it is pickle's contract; the harness oracle checks it on real objects).
      What is proved: obtain unpickles, AT THE CALLER, exactly the bytes pickled from the owner's original object (the
      very object stored under the proxy's key) and no table of either party changes, so the result is an object of the
      caller's own and later operations on it are not requests at all; deliver yields the proxy of the object the OTHER
      party unpickled from the bytes of v, registered in that party's table.
      Full statement (not proved): obtain(p) == target(p) and deliver(c, v) refers to an object == v, both independent
      of the original. *)
Section Pickle.
Variable pk_dumps : pyval -> list byte.
Variable pk_loads : list byte -> pyval.

Theorem c03_obtain_deliver_plumbing_partial : forall P idp, idp_enc P idp ->
  (forall a n k rc obj c proto w,
     inv P idp w -> lookup k (cache (get w a)) = Some (n, rc) -> lookup k (ltab (get w (negb a))) = Some (obj, c) ->
     wf P (PInt proto) = true -> wf P (PBytes (pk_dumps obj)) = true ->
     obtain P Gen_box.box_ladder Gen_box.unbox_ladder idp pk_dumps pk_loads a n proto w = Ok (pk_loads (pk_dumps obj), w)) /\
  (forall a v w,
     inv P idp w -> wf P (PBytes (pk_dumps v)) = true ->
     let cp := pk_loads (pk_dumps v) in
     byref (made (get w (negb a))) cp -> wf P cp = true -> text_ok P cp = true ->
     exists w', deliver P Gen_box.box_ladder Gen_box.unbox_ladder idp pk_dumps pk_loads a v w =
                  Ok (fst (accept (idp cp) (get w a)), w') /\
                lookup (idp cp) (ltab (get w' (negb a))) =
                  Some (match lookup (idp cp) (ltab (get w (negb a))) with Some (o, c) => (o, c + 1) | None => (cp, 0) end)).
Proof.
  intros P idp [A B]. rewrite tie_box_ladder, tie_unbox_ladder. split.
  - intros a n k rc obj c proto w I C L W Wb. now apply obtain_spec with (k := k) (rc := rc) (c := c).
  - intros a v w I Wb cp Br W X. eexists. split; [now apply deliver_spec|].
    rewrite get_put2_same. cbn [ltab set_ltab]. apply lookup_coll_add_same.
Qed.

(* independence of the delivered copy, as far as the model can say it: an operation applied through the proxy that
   deliver returned is applied to the object the other party unpickled (cp), at that party; nothing is applied at the
   deliverer, where the original v lives *)
Theorem c03_deliver_then_operate_partial : forall P idp, idp_enc P idp -> forall a v d w,
  inv P idp w -> wf P (PBytes (pk_dumps v)) = true ->
  let cp := pk_loads (pk_dumps v) in
  byref (made (get w (negb a))) cp -> wf P cp = true -> text_ok P cp = true -> wf P (PInt d) = true ->
  (forall o c, lookup (idp cp) (ltab (get w (negb a))) = Some (o, c) -> o = cp) ->
  exists n w1 w2,
    deliver P Gen_box.box_ladder Gen_box.unbox_ladder idp pk_dumps pk_loads a v w = Ok (POther (proxy_name n), w1) /\
    mutate P Gen_box.box_ladder Gen_box.unbox_ladder idp a n d w1 = Ok w2 /\
    mlog (get w2 (negb a)) = mlog (get w (negb a)) ++ [(cp, d)] /\
    mlog (get w2 a) = mlog (get w a).
Proof. intros P idp [A B] **. rewrite tie_box_ladder, tie_unbox_ladder. now apply deliver_then_mutate. Qed.
End Pickle.
Print Assumptions c03_obtain_deliver_plumbing_partial.
Print Assumptions c03_deliver_then_operate_partial.

(* 5c. (E1) get_id_pack may answer differently from one step to the next, as long as the packs of the objects that
       are lent at that moment stay what they were: the invariant, hence every theorem above, carries over *)
Theorem c03_id_pack_may_change_when_not_lent : forall P idp idp' w,
  (forall a k o c, lookup k (ltab (get w a)) = Some (o, c) -> idp' o = idp o) ->
  inv P idp w -> inv P idp' w.
Proof. exact inv_change_idp. Qed.
Print Assumptions c03_id_pack_may_change_when_not_lent.

(* ... and when the pack of a LENT object changes (its class is reassigned or renamed), the code as it is breaks the
   clause "received again while a proxy for it is alive = that same proxy": the object arrives as a SECOND proxy while
   the first is alive, and the owner's table holds it under two keys.  [idp_a]/[idp_b]: get_id_pack before/after. *)
Definition idp_a (v : pyval) : idpack := match v with POther k => ([111%N], 1, Z.of_N (k mod 64) + 8) | _ => ([99%N], 1, 7) end.
Definition idp_b (v : pyval) : idpack := match v with POther 4 => ([111%N; 114%N], 2, 12) | _ => idp_a v end.
Lemma idp_a_enc : idp_enc (Pgen 4300) idp_a.
Proof.
  split; intros u; destruct u; try reflexivity.
  cbn [idp_a pv_of_idpack wf forallb]. replace (is_imm (Z.of_N (k mod 64) + 8)) with true; [reflexivity|].
  symmetry. unfold is_imm, IMM_LO, IMM_HI. pose proof (N.mod_upper_bound k 64). apply andb_true_iff. split; [apply Z.leb_le|apply Z.ltb_lt]; lia.
Qed.
Lemma idp_b_same u : u <> POther 4 -> idp_b u = idp_a u.
Proof.
  intros Hu. destruct u as [| | | | | | | | | | | |k]; try reflexivity.
  destruct k as [|[[[]|[]|]|[[]|[]|]|]]; try reflexivity. now elim Hu.
Qed.
Lemma pyval_eq_4 (u : pyval) : {u = POther 4} + {u <> POther 4}.
Proof. destruct u; try (right; discriminate). destruct (N.eq_dec k 4) as [->|N]; [now left|right; congruence]. Qed.
Lemma idp_b_enc : idp_enc (Pgen 4300) idp_b.
Proof.
  destruct idp_a_enc as [A B]. split; intros u; (destruct (pyval_eq_4 u) as [->|N]; [reflexivity|rewrite (idp_b_same u N)]); auto.
Qed.
Theorem c03_one_proxy_refuted_when_id_pack_changes :
  exists P v w1 p p' w2,
    idp_enc P idp_a /\ idp_enc P idp_b /\ (forall u, u <> v -> idp_b u = idp_a u) /\ byref (made (get world0 true)) v /\
    code_transfer P idp_a true v world0 = Ok (POther (proxy_name p), w1) /\ inv P idp_a w1 /\
    code_transfer P idp_b true v w1 = Ok (POther (proxy_name p'), w2) /\
    p' <> p /\
    (exists rc rc', lookup (idp_a v) (cache (wb w2)) = Some (p, rc) /\ lookup (idp_b v) (cache (wb w2)) = Some (p', rc')) /\
    (exists c c', lookup (idp_a v) (ltab (wa w2)) = Some (v, c) /\ lookup (idp_b v) (ltab (wa w2)) = Some (v, c')).
Proof.
  destruct idp_a_enc as [A B].
  destruct (first_send_links (Pgen 4300) idp_a A B true (POther 4) world0 (inv0 _ _)) as (p & w1 & E & L);
    [repeat split|reflexivity|reflexivity|intros o c H; discriminate|].
  exists (Pgen 4300), (POther 4). rewrite !code_transfer_std.
  assert (E' := E). vm_compute in E'. injection E' as Hp Hw.
  assert (p = 0%N) by (destruct p as [|[]]; try discriminate; reflexivity). subst p.
  exists w1, 0%N. subst w1.
  exists 1%N. eexists. split; [split; assumption|]. split; [exact idp_b_enc|]. split; [exact idp_b_same|].
  split; [repeat split|]. split; [exact E|]. split; [apply L|].
  split; [vm_compute; reflexivity|].
  split; [discriminate|]. split; [exists 1, 1|exists 0, 0]; vm_compute; split; reflexivity.
Qed.
Print Assumptions c03_one_proxy_refuted_when_id_pack_changes.

(* ... and worse: dropping the FIRST proxy makes the owner release the entry of the SECOND (its _handle_del recomputes the
   key from the object), so that handing the second, live, proxy back to the owner raises KeyError instead of yielding
   the original object *)
Theorem c03_echo_refuted_after_id_pack_change :
  exists P v w1 w2 w3,
    code_transfer P idp_a true v world0 = Ok (POther (proxy_name 0), w1) /\
    code_transfer P idp_b true v w1 = Ok (POther (proxy_name 1), w2) /\
    drop P Gen_box.box_ladder Gen_box.unbox_ladder idp_b false 0 w2 = Ok w3 /\
    (exists rc, lookup (idp_b v) (cache (wb w3)) = Some (1%N, rc)) /\
    code_transfer P idp_b false (POther (proxy_name 1)) w3 = Raise KeyError.
Proof.
  exists (Pgen 4300), (POther 4). rewrite !code_transfer_std, tie_box_ladder, tie_unbox_ladder.
  eexists _, _, _. split; [vm_compute; reflexivity|]. split; [vm_compute; reflexivity|]. split; [vm_compute; reflexivity|].
  split; [exists 1; vm_compute; reflexivity|vm_compute; reflexivity].
Qed.
Print Assumptions c03_echo_refuted_after_id_pack_change.

(* 5d. (E4) the same object arriving twice, the second arrival dispatched while the first waits for the class.
       Under the generated fact (the receiver looks at the proxy cache again after the wait) both arrivals are ONE proxy,
       it counts 2 and one proxy was made ... *)
Theorem c03_one_proxy_nested_when_rechecked : forall k r,
  Gen_box.factory_rechecks_cache_after_inspect = true -> lookup k (cache r) = None ->
  exists n r', nested_arrival Gen_box.factory_rechecks_cache_after_inspect k r = ((POther (proxy_name n), POther (proxy_name n)), r') /\
    lookup k (cache r') = Some (n, 2) /\ made r' = made r ++ [k].
Proof.
  intros k r F H. rewrite F, (nested_arrival_rechecked k r H). eexists _, _. split; [reflexivity|].
  cbn [cache made]. split; [apply lookup_update_same|reflexivity].
Qed.
Print Assumptions c03_one_proxy_nested_when_rechecked.

(* ... and without it the clause "received again while a proxy for it is alive = that same proxy" FAILS: the two arrivals
   are two different proxies, both alive, each counting 1, and the cache knows only the later one *)
Theorem c03_one_proxy_nested_refuted : forall k r,
  Gen_box.factory_rechecks_cache_after_inspect = false -> lookup k (cache r) = None ->
  exists n m r', nested_arrival Gen_box.factory_rechecks_cache_after_inspect k r = ((POther (proxy_name m), POther (proxy_name n)), r') /\
    POther (proxy_name m) <> POther (proxy_name n) /\ lookup k (cache r') = Some (m, 1) /\ made r' = (made r ++ [k]) ++ [k].
Proof.
  intros k r F H. rewrite F, (nested_arrival_stale k r H). eexists _, _, _. split; [reflexivity|].
  split; [intros E; apply proxy_name_inj in E; lia|]. cbn [cache made]. split; [apply lookup_update_same|reflexivity].
Qed.
Print Assumptions c03_one_proxy_nested_refuted.

(* 7. all orders of sending, echoing back, re-receiving, dropping and operating through proxies: no step of a
      history of well-behaved parties raises, and the invariant the theorems above assume holds throughout *)
Theorem c03_histories : forall P idp, idp_enc P idp -> forall ops,
  good P idp world0 ops ->
  Forall is_ok (fst (run P Gen_box.box_ladder Gen_box.unbox_ladder idp ops world0)) /\
  inv P idp (snd (run P Gen_box.box_ladder Gen_box.unbox_ladder idp ops world0)).
Proof. intros P idp [A B] ops G. rewrite tie_box_ladder, tie_unbox_ladder. apply run_inv; auto. apply inv0. Qed.
Print Assumptions c03_histories.

Theorem c03_step_keeps_invariant : forall P idp, idp_enc P idp -> forall o w,
  inv P idp w -> valid_op P w o ->
  exists v w', step P Gen_box.box_ladder Gen_box.unbox_ladder idp o w = Ok (v, w') /\ inv P idp w'.
Proof. intros P idp [A B] **. rewrite tie_box_ladder, tie_unbox_ladder. now apply step_inv. Qed.
Print Assumptions c03_step_keeps_invariant.

(* 8. tie to the generated facts of the current source tree *)
Theorem c03_tie :
  Gen_box.box_ladder = std_bladder /\ Gen_box.unbox_ladder = std_uladder /\
  (Gen_consts.LABEL_VALUE, Gen_consts.LABEL_TUPLE, Gen_consts.LABEL_LOCAL_REF, Gen_consts.LABEL_REMOTE_REF) = (1, 2, 3, 4) /\
  Gen_box.id_pack_instance = ["name_pack"; "id(type(obj))"; "id(obj)"]%string /\
  Gen_box.id_pack_class = ["name_pack"; "id(obj)"; "0"]%string /\
  Gen_box.dumpable_tests_exact_types = true /\
  Gen_box.obtain_is_loads_of_dumps = true /\ Gen_box.deliver_is_remote_loads_of_local_dumps = true /\
  Gen_box.id_pack_netref_test_on_type = true /\ Gen_box.id_pack_undefined_names = [] /\
  List.length Gen_box.id_pack_module_returns = 2%nat /\ List.length Gen_box.id_pack_module_names = 5%nat.
Proof.
  pose proof tie_box_ladder. pose proof tie_unbox_ladder. pose proof tie_labels as (L & _). pose proof tie_id_pack as (I1 & I2 & _).
  pose proof tie_exact_types as (E & _). pose proof tie_copy as (C1 & C2 & _).
  pose proof tie_id_pack_guards as (G1 & G2 & G3 & G4 & G5). repeat split; auto; rewrite ?G4, ?G5; reflexivity.
Qed.
Print Assumptions c03_tie.

(* ---- non-vacuity ---- *)
Definition idp_small (v : pyval) : idpack :=
  match v with
  | POther k => ([111%N], 1, Z.of_N (k mod 64) + 8)
  | _ => ([99%N], 1, 7)
  end.
Lemma idp_small_enc : idp_enc (Pgen 4300) idp_small.
Proof.
  split; intros u; destruct u; try reflexivity.
  cbn [idp_small pv_of_idpack wf forallb]. replace (is_imm (Z.of_N (k mod 64) + 8)) with true; [reflexivity|].
  symmetry. unfold is_imm, IMM_LO, IMM_HI. pose proof (N.mod_upper_bound k 64). apply andb_true_iff. split; [apply Z.leb_le|apply Z.ltb_lt]; lia.
Qed.

Definition PP := Pgen 4300.
(* a nested value mixing plain values, a list-like object (POther 4), a class (POther 6), a subclass instance (POther 8),
   a frozenset holding an object, and the same object twice *)
Definition mixed : pyval :=
  PTuple [PInt 5; POther 4; PTuple [PStr [0x20ac%N; 0x41%N]; POther 6; PTuple [PNone; POther 4]];
          PFset [POther 8; PInt 1]; PSlice PNone (PInt (-49)) (PBytes [x00; xff])].
Definition plain : pyval :=
  PTuple [PTuple []; PInt (10 ^ 40); PFset [PBool true; PEllipsis; PTuple [PNotImpl; PStr [0x10ffff%N]]];
          PSlice PNone (PInt 3) (PTuple [PBytes [x01]]); PFloat [x7f; xf8; x00; x00; x00; x00; x01; x23]].

(* 1: a nested plain value meets the hypotheses and arrives unchanged *)
Example c03_ex_values :
  dumpable plain = true /\ wf PP plain = true /\ text_ok PP plain = true /\
  code_transfer PP idp_small true plain world0 = Ok (plain, world0).
Proof. vm_compute. repeat split. Qed.

(* 2, 2', 2'': the mixed tuple from the initial world: values copied, objects replaced by proxies 0,1,2 (the second
   occurrence of POther 4 is the same proxy), the frozenset-with-object by a proxy of its own *)
Example c03_ex_mixed :
  wf PP mixed = true /\ text_ok PP mixed = true /\ held (get world0 true) mixed = true /\
  match code_transfer PP idp_small true mixed world0 with
  | Ok (v, w) => v = PTuple [PInt 5; POther 1; PTuple [PStr [0x20ac%N; 0x41%N]; POther 3; PTuple [PNone; POther 1]];
                            POther 5; PSlice PNone (PInt (-49)) (PBytes [x00; xff])]
                 /\ map (fun e => snd (snd e)) (cache (wb w)) = [2; 1; 1]
                 /\ map (fun e => snd (snd e)) (ltab (wa w)) = [1; 0; 0]
  | _ => False
  end.
Proof. vm_compute. repeat split. Qed.

(* 3, 4, 4', 5, 5'': a world with a live proxy satisfying [inv] and the lookups exists: send an object once *)
Example c03_ex_linked :
  byref (made (get world0 true)) (POther 4) /\
  exists p w1, code_transfer PP idp_small true (POther 4) world0 = Ok (POther (proxy_name p), w1) /\
    linked PP idp_small true p (POther 4) w1 /\
    hops PP idp_small 6 true (POther 4) world0 = Ok (POther 4, snd (match hops PP idp_small 6 true (POther 4) world0 with Ok x => x | _ => (PNone, world0) end)).
Proof.
  split; [repeat split|]. destruct idp_small_enc as [A B].
  destruct (first_send_links PP idp_small A B true (POther 4) world0 (inv0 _ _)) as (p & w1 & E & L);
    [repeat split|reflexivity|reflexivity|intros o c H; discriminate|].
  exists p, w1. rewrite code_transfer_std. split; [exact E|]. split; [exact L|]. vm_compute. reflexivity.
Qed.

(* 7: a history with every kind of step is [good], so c03_histories applies to it; its outcomes *)
Definition hist : list op :=
  [Send true mixed; Send false (PTuple [POther 1; POther 12]); Mutate false 0 7; Send true (POther 4);
   Drop false 0; Send true (POther 4); Drop true 0].
Example c03_ex_history :
  fst (run PP std_bladder std_uladder idp_small hist world0) =
    [Ok (PTuple [PInt 5; POther 1; PTuple [PStr [0x20ac%N; 0x41%N]; POther 3; PTuple [PNone; POther 1]];
                 POther 5; PSlice PNone (PInt (-49)) (PBytes [x00; xff])]);
     Ok (PTuple [POther 4; POther 1]); Ok PNone; Ok (POther 1); Ok PNone; Ok (POther 7); Ok PNone] /\
  mlog (wa (snd (run PP std_bladder std_uladder idp_small hist world0))) = [(POther 4, 7)].
Proof. vm_compute. split; reflexivity. Qed.

(* 5d: both hypotheses' shapes occur: an empty receiver, and the fact has one of the two values on every tree *)
Example c03_ex_nested :
  lookup ([111%N], 1, 12) (cache side0) = None /\
  fst (nested_arrival true ([111%N], 1, 12) side0) = (POther 1, POther 1) /\
  fst (nested_arrival false ([111%N], 1, 12) side0) = (POther 3, POther 1) /\
  (Gen_box.factory_rechecks_cache_after_inspect = true \/ Gen_box.factory_rechecks_cache_after_inspect = false).
Proof. repeat split; try reflexivity. exact tie_factory. Qed.
