(* C09 — Remote exceptions arrive as the same class with the same data, and safely.
   Only statements, [exact]s / short glue and Print Assumptions live here. *)
From V Require Import lib.Base model.Brine model.Vinegar proofs.BrineP proofs.VinegarP proofs.VinegarTie gen.Gen_vinegar.
From Coq Require Import String.
Open Scope N_scope.

(* 1. Every built-in exception class that is not re-raised locally, with every argument tuple (immutable or not),
      every attribute list and every setting of the switches on both sides: the requester rebuilds the same class with
      [cls.__new__] (one effect, no import, no constructor), the arguments with non-immutable items replaced by their repr,
      the public attributes normalised the same way followed by [_remote_version], and the traceback field; traceback and
      version are the real texts iff the SENDER's two switches are on, the denied markers otherwise.
      Guard: the record path is taken (see 1b/1c for the fast path); the class exists at the receiver under the same name
      and its __new__ needs no arguments. *)
Theorem c09_builtin_fidelity : forall M P fS fR E ver tb e n,
  e_cls e = Builtin n -> args_entries (e_dir e) = 1%nat ->
  assoc n (builtins_ns E) = Some (AExc (Builtin n) true) ->
  routed fS (e_cls e) = false ->
  fast_taken P e = false ->
  exists payload, serve_exc P fS ver tb e = Sent payload /\
  vload M fR E payload =
    ([ENew (Real (Builtin n))],
     Ok (LExc (Real (Builtin n)) (PTuple (map norm (e_args e)))
              (map set_of (public_attrs (skip_callables P) (e_dir e) ++ [(REMOTE_VERSION, PStr (if incl_ver fS then ver else DENIED_VER))]))
              (Done (PStr (if incl_tb fS then tb else DENIED_TB)) (version_warn fS E ver)))).
Proof.
  intros M P fS fR E ver tb e n HC HA HB HR HF. exists (vdump P fS ver tb e). split; [now apply serve_not_routed|].
  exact (builtin_fidelity_slow M P fS fR E ver tb e n HC HA HB HF).
Qed.
Print Assumptions c09_builtin_fidelity.

(* 1b. the obligation after the repair: when the fast path is guarded by "no arguments" (generated fact), class and
       arguments of EVERY built-in exception, StopIteration included, arrive intact on whichever path *)
Theorem c09_builtin_class_and_args : forall M P fS fR E ver tb e n,
  fast_noargs_only P = true ->
  e_cls e = Builtin n -> args_entries (e_dir e) = 1%nat ->
  assoc n (builtins_ns E) = Some (AExc (Builtin n) true) ->
  arrived (vload M fR E (vdump P fS ver tb e)) = Some (Builtin n, PTuple (map norm (e_args e))).
Proof. exact builtin_class_args_preserved. Qed.
Print Assumptions c09_builtin_class_and_args.

(* 1c. on a tree whose fast path is unconditional, StopIteration("x") meets every hypothesis of 1b except the generated
       guard and arrives with args == ()  (finding F9) *)
Theorem c09_builtin_fidelity_refuted : forall M P fS fR E ver tb, fast_noargs_only P = false ->
  exists e, e_cls e = Builtin STOP_ITERATION /\ args_entries (e_dir e) = 1%nat /\ routed fS (e_cls e) = false /\
    map norm (e_args e) = [PStr (txt "x")] /\
    arrived (vload M fR E (vdump P fS ver tb e)) = Some (Builtin STOP_ITERATION, PTuple []).
Proof.
  intros M P fS fR E ver tb HP. exists stop_x. split; [reflexivity|].
  exact (builtin_fidelity_refuted M P fS fR E ver tb HP).
Qed.
Print Assumptions c09_builtin_fidelity_refuted.

(* 1d. "so ordinary except-clauses work": what is set on the rebuilt object are DATA attributes.  SCOPE of theorem 1: its attribute
       list is [public_attrs (skip_callables P)], i.e. on a tree whose dump does not leave callables out (generated fact) it contains
       the repr text of every public METHOD (add_note, a custom class's methods), which setattr then puts on the instance, shadowing
       the method.  Positive statement, guarded by the generated fact: every pair that reaches the wire comes from a non-callable
       attribute of the original; refuted otherwise with a witness (finding: method-replaced-by-text). *)
Theorem c09_methods_not_shadowed : forall P fS ver tb e m n, skip_callables P = true -> fast_taken P e = false ->
  args_entries (e_dir e) = 1%nat -> cls_key (e_cls e) = (m, n) ->
  exists attrs, vdump P fS ver tb e = record m n (map norm (e_args e)) (attrs ++ [version_attr fS ver]) (tb_field fS tb) /\
    forall na, In na attrs -> exists o, In (fst na, Some o) (e_dir e) /\ o_callable o = false /\ snd na = norm o.
Proof.
  intros P fS ver tb e m n HS HF HA HK. exists (public_attrs true (e_dir e)). split.
  - rewrite (vdump_slow _ _ _ _ _ HF HA), HK, HS. reflexivity.
  - intros na. apply public_attrs_not_callable.
Qed.
Print Assumptions c09_methods_not_shadowed.
Theorem c09_methods_not_shadowed_refuted : forall P fS ver tb, skip_callables P = false ->
  exists e name o, e_cls e = Builtin (txt "ValueError") /\ args_entries (e_dir e) = 1%nat /\ fast_taken P e = false /\
    In (name, Some o) (e_dir e) /\ o_callable o = true /\
    In (name, PStr (o_repr o)) (public_attrs (skip_callables P) (e_dir e)) /\
    vdump P fS ver tb e = record BUILTINS (txt "ValueError") [] (public_attrs (skip_callables P) (e_dir e) ++ [version_attr fS ver]) (tb_field fS tb).
Proof.
  intros P fS ver tb HS.
  pose (o := {| o_val := POther 1; o_repr := txt "<built-in method add_note of ValueError object>"; o_callable := true |}).
  exists {| e_cls := Builtin (txt "ValueError"); e_args := []; e_dir := [(txt "add_note", Some o); (ARGS, None)] |}, (txt "add_note"), o.
  rewrite HS. repeat split; try (now left). unfold vdump, fast_taken. rewrite HS. reflexivity.
Qed.
Print Assumptions c09_methods_not_shadowed_refuted.

(* 2. a class outside builtins: the real class is rebuilt exactly when the receiver instantiates custom exceptions AND the
      module is present (already imported, or importable AND the receiver imports custom exceptions) AND the attribute is
      a BaseException subclass -- found in the module's namespace, or handed out by the module's __getattr__ hook (PEP 562)
      when the lookup consults it ([hooks_run], a generated fact of the tree); otherwise a generic stand-in named after the
      original.  Effects: the guarded import (iff import_custom is on and the module is not loaded), then the imports of a
      consulted hook, then exactly one __new__. *)
Theorem c09_custom_gating : forall M fR E m n args l fS ver tb,
  text_eqb m BUILTINS = false -> name_ok m n -> snd (expected_class M fR E m n) = true ->
  vload M fR E (record m n args (l ++ [version_attr fS ver]) (tb_field fS tb)) =
    (import_effects M fR E m n ++ [ENew (fst (expected_class M fR E m n))],
     Ok (LExc (fst (expected_class M fR E m n)) (PTuple args) (map set_of (l ++ [version_attr fS ver]))
              (Done (tb_field fS tb) (version_warn fS E ver)))).
Proof. exact custom_gating. Qed.
Print Assumptions c09_custom_gating.

Theorem c09_custom_real_iff : forall M fR E m n c, text_eqb m BUILTINS = false ->
  fst (expected_class M fR E m n) = Real c <->
  inst_custom fR = true /\
  exists x, (assoc m (modules E) = Some x \/ (assoc m (modules E) = None /\ import_custom fR = true /\ assoc m (importable E) = Some x))
            /\ exists ok, assoc n x = Some (AExc c ok) \/
                          (hooks_run M fR = true /\ exists imps, assoc n x = Some (ALazy imps (Some (c, ok)))).
Proof. exact custom_real_iff. Qed.
Print Assumptions c09_custom_real_iff.

(* the record of a custom exception as the sender produces it is of the shape 2 quantifies over *)
Theorem c09_custom_record : forall P fS ver tb e m n, e_cls e = Custom m n -> args_entries (e_dir e) = 1%nat ->
  vdump P fS ver tb e = record m n (map norm (e_args e)) (public_attrs (skip_callables P) (e_dir e) ++ [version_attr fS ver]) (tb_field fS tb).
Proof.
  intros P fS ver tb e m n HC HA. rewrite vdump_slow; [now rewrite HC|unfold fast_taken; now rewrite HC|exact HA].
Qed.
Print Assumptions c09_custom_record.

(* 3. safety for EVERY payload (genuine record or not), every environment and every setting of the switches:
      (a) an import happens only in two ways: the guarded __import__ (import_custom on, module not loaded yet), or inside a
          module-level __getattr__ hook of an already loaded module that the sys.modules lookup consulted (instantiate_custom on
          and [hooks_run]);
      (b) no constructor ever, (c) with instantiate_custom off the only real classes instantiated are exception classes of
          the builtins namespace, (d) at most one __new__ *)
Theorem c09_safe_any_payload : forall M fR E payload,
  (forall m, In (EImport m) (fst (vload M fR E payload)) ->
     (import_custom fR = true /\ in_modules E (modules E) (PStr m) = false) \/ (hooks_run M fR = true /\ inst_custom fR = true)) /\
  (forall c, ~ In (EInit c) (fst (vload M fR E payload))) /\
  (inst_custom fR = false -> forall c, In (ENew (Real c)) (fst (vload M fR E payload)) ->
      exists n ok, assoc n (builtins_ns E) = Some (AExc c ok)) /\
  (List.length (filter (fun x => match x with ENew _ => true | _ => false end) (fst (vload M fR E payload))) <= 1)%nat.
Proof.
  intros M fR E v. split; [|split; [|split]].
  - intros m. apply import_only_two_ways.
  - apply never_init.
  - intros H c. now apply new_only_builtin.
  - apply at_most_one_new.
Qed.
Print Assumptions c09_safe_any_payload.

(* 3a. the property's clause "import only if the receiver's configuration allows importing", for every payload: it holds on a
       tree whose lookup consults module hooks only when importing is allowed (generated fact [mode_safe Mgen]) ... *)
Theorem c09_no_import_without_switch : forall M fR E payload m, mode_safe M = true ->
  In (EImport m) (fst (vload M fR E payload)) -> import_custom fR = true.
Proof. exact no_import_unless_allowed. Qed.
Print Assumptions c09_no_import_without_switch.

(* 3b. ... and fails on a tree that reads the class with getattr(module, name, None): with instantiate_custom on and
       import_custom OFF, a payload naming an attribute that a loaded module serves through __getattr__ makes the receiver
       import (finding: import-without-switch:module-getattr-hook); the same payload imports nothing under the repaired lookup *)
Theorem c09_no_import_without_switch_refuted : forall M, mode_safe M = false ->
  exists fR E payload m, import_custom fR = false /\ inst_custom fR = true /\
    In (EImport m) (fst (vload M fR E payload)) /\ ~ In (EImport m) (fst (vload LkDictUnlessImport fR E payload)).
Proof.
  intros M HM. destruct M; try discriminate HM.
  destruct no_import_refuted as (fR & E & v & m & A & B & C & D). exists fR, E, v, m. auto.
Qed.
Print Assumptions c09_no_import_without_switch_refuted.

(* 3'. under the switches of the current tree's DEFAULT_CONFIG (regenerated) nothing is imported, whatever the lookup form:
       the sys.modules lookup is not reached *)
Theorem c09_safe_default_config : forall M E payload,
  (forall m, ~ In (EImport m) (fst (vload M default_rflags E payload))) /\
  (forall c, ~ In (EInit c) (fst (vload M default_rflags E payload))) /\
  (forall c, In (ENew (Real c)) (fst (vload M default_rflags E payload)) -> exists n ok, assoc n (builtins_ns E) = Some (AExc c ok)).
Proof.
  intros M E v. destruct (c09_safe_any_payload M default_rflags E v) as (A & B & C & _). repeat split.
  - intros m H. apply A in H as [[H _]|[_ H]]; discriminate H.
  - exact B.
  - apply C. reflexivity.
Qed.
Print Assumptions c09_safe_default_config.

(* 4. the StopIteration fast path, both directions on both sides *)
Theorem c09_stopiteration_fastpath : forall M P fS fR E ver tb e v,
  (vdump P fS ver tb e = PInt EXC_STOP <-> fast_taken P e = true) /\
  (snd (vload M fR E v) = Ok LStop <-> py_eq_one v = true) /\
  (fast_taken P e = true -> vload M fR E (vdump P fS ver tb e) = ([], Ok LStop)) /\
  (fast_taken P e = true -> e_cls e = Builtin STOP_ITERATION /\ (fast_noargs_only P = true -> e_args e = [])).
Proof.
  intros. repeat split; try apply fastpath_dump; try apply fastpath_load; try apply fastpath_roundtrip; try assumption;
  destruct (fast_taken_inv P e H); auto.
Qed.
Print Assumptions c09_stopiteration_fastpath.

(* 4b. every exception message reaches the request it answers.  vinegar.load fails -- before an object exists ([Raise]: ill-shaped
       payload, a class whose __new__ needs arguments, an unusable generic name) or while filling the object in ([Fail]: attribute
       list / version / traceback fields of the wrong type) -- with TypeError / ValueError / UnicodeError / AttributeError only, never
       EOFError (SCOPE: failures of CPython's own setattr on the new object are outside the model); on a tree whose _dispatch
       delivers a rebuild failure to the request (generated fact, asserted in c09_tie) nothing escapes _dispatch: the request gets
       the rebuilt exception or that failure.  On a tree that unboxes inline both kinds of failure escape, callback left registered. *)
Theorem c09_exception_reaches_request : forall M fR E payload,
  (forall e, load_failure (snd (vload M fR E payload)) = Some e -> e = TypeError \/ e = ValueError \/ e = UnicodeError \/ e = AttributeError) /\
  (forall e, dispatch_exception true (snd (vload M fR E payload)) <> Escapes e) /\
  (forall l, snd (vload M fR E payload) = Ok l -> load_failure (Ok l) = None -> forall d, dispatch_exception d (snd (vload M fR E payload)) = ToRequest l).
Proof.
  intros M fR E v. split; [|split].
  - intros e. apply vload_failure_kinds.
  - apply exception_reaches_request.
  - intros l H HN d. rewrite H. unfold dispatch_exception. now rewrite HN.
Qed.
Print Assumptions c09_exception_reaches_request.
Theorem c09_exception_reaches_request_refuted : forall M,
  (forall fR E, dispatch_exception false (snd (vload M fR E (PInt 2))) = Escapes TypeError) /\
  (exists fR E payload l, snd (vload M fR E payload) = Ok l /\ dispatch_exception false (snd (vload M fR E payload)) = Escapes AttributeError).
Proof.
  intros M. split; [intros; apply exception_escapes_refuted|].
  eexists _, hook_env, _, _. split; [|exact (exception_escapes_refuted_fail M)]. destruct M; reflexivity.
Qed.
Print Assumptions c09_exception_reaches_request_refuted.

(* 5. "when, and only when": with a sender switch off the payload does not depend on the traceback / version text at all *)
Theorem c09_disclosure : forall P fS e,
  (incl_tb fS = false -> forall ver tb1 tb2, vdump P fS ver tb1 e = vdump P fS ver tb2 e) /\
  (incl_ver fS = false -> forall ver1 ver2 tb, vdump P fS ver1 tb e = vdump P fS ver2 tb e).
Proof. intros. split; intros; [now apply tb_not_disclosed|now apply version_not_disclosed]. Qed.
Print Assumptions c09_disclosure.

(* 6. every record the sender produces is an immutable plain value, and crosses the wire unchanged (C04 round trip) *)
Theorem c09_wire : forall B P fS ver tb e,
  dumpable (vdump P fS ver tb e) = true /\
  (wf B (vdump P fS ver tb e) = true -> text_ok B (vdump P fS ver tb e) = true ->
   exists bs, Brine.dump B (vdump P fS ver tb e) = Ok bs /\ Brine.load B bs = Ok (vdump P fS ver tb e)).
Proof. intros. split; [apply vdump_dumpable|apply wire_roundtrip]. Qed.
Print Assumptions c09_wire.

(* 7. only SystemExit / KeyboardInterrupt are ever re-raised locally, each under its own switch *)
Theorem c09_routing : forall fS c, routed fS c = true ->
  (c = Builtin SYSTEM_EXIT /\ prop_sysexit fS = true) \/ (c = Builtin KEYBOARD_INTERRUPT /\ prop_kbdint fS = true).
Proof. exact routed_only_two. Qed.
Print Assumptions c09_routing.

(* 8. tie to the generated facts of the current source tree *)
Theorem c09_tie :
  Gen_vinegar.load_import_guard = Vinegar.import_guard /\ Gen_vinegar.load_ladder = Vinegar.resolution_prog /\
  Gen_vinegar.load_class_guard = true /\ Gen_vinegar.load_instantiates_with_new_only = true /\
  txt Gen_vinegar.dump_denied_tb = DENIED_TB /\ txt Gen_vinegar.dump_denied_ver = DENIED_VER /\
  map txt Gen_vinegar.dump_ignored_attrs = IGNORED_ATTRS /\ Gen_vinegar.dump_norm_is_dumpable_or_repr = true /\
  List.length Gen_vinegar.box_exc_map = 2%nat /\ List.length Gen_vinegar.unbox_exc_map = 3%nat /\
  import_custom default_rflags = false /\ inst_custom default_rflags = false /\
  List.length Gen_vinegar.routed_locally = 2%nat /\ Gen_vinegar.dispatch_exception_unboxes = true /\
  (* the repairs this tree carries: reverting one breaks the tie *)
  Dgen = true /\ mode_safe Mgen = true /\ fast_noargs_only Pgen = true /\ Gen_vinegar.send_exc_reports_dump_failure = true /\
  Gen_vinegar.remote_line_format = "{0}({{}}){1}"%string /\ String.length Gen_vinegar.remote_line_start = 29%nat /\ String.length Gen_vinegar.remote_line_end = 11%nat.
Proof.
  pose proof tie_import_guard. pose proof tie_ladder. pose proof tie_load_guards as [? ?]. pose proof tie_denied as (? & ? & ?).
  pose proof tie_names as (? & ? & ? & ? & ?). pose proof tie_norm. pose proof tie_box as TB. pose proof tie_unbox as TU.
  pose proof default_rflags_safe as [? ?]. pose proof tie_routed as [TR ?]. pose proof tie_dispatch. pose proof tie_fast_const.
  pose proof tie_exceptions_module. pose proof tie_record. pose proof tie_defaults. pose proof tie_repairs as (? & ? & ?).
  pose proof tie_send_exc. pose proof tie_remote_line as (? & ? & ?).
  repeat split; auto; try (now rewrite TB); try (now rewrite TU); now rewrite TR.
Qed.
Print Assumptions c09_tie.

(* ---------------------------------------------------------------- non-vacuity *)
Definition T := txt.
Definition E0 : env :=
  {| builtins_ns := [(T "ValueError", AExc (Builtin (T "ValueError")) true); (T "OSError", AExc (Builtin (T "OSError")) true);
                     (T "IOError", AExc (Builtin (T "OSError")) true); (T "StopIteration", AExc (Builtin (T "StopIteration")) true);
                     (T "ExceptionGroup", AExc (Builtin (T "ExceptionGroup")) false); (T "int", AOther)];
     modules := [(T "mymod", [(T "Foo", AExc (Custom (T "mymod") (T "Foo")) true); (T "helper", AOther)])];
     importable := [(T "lazy", [(T "Bar", AExc (Custom (T "lazy") (T "Bar")) true)])];
     local_major := T "5" |}.
Definition imm (v : pyval) : obj := {| o_val := v; o_repr := T "?"; o_callable := false |}.
Definition opaque (r : string) : obj := {| o_val := POther 1; o_repr := T r; o_callable := false |}.
Definition method (r : string) : obj := {| o_val := POther 1; o_repr := T r; o_callable := true |}.
(* explicit parameters (the examples must not depend on which repairs the tree carries) *)
Definition Pold : vparams := {| fast_noargs_only := true; skip_callables := false |}.
Definition Pnew : vparams := {| fast_noargs_only := true; skip_callables := true |}.
Definition verr : exc :=
  {| e_cls := Builtin (T "ValueError");
     e_args := [imm (PInt 7); opaque "[1, 2]"; imm (PTuple [PStr (T "a"); PNone]); {| o_val := PTuple [PInt 1; POther 1]; o_repr := T "(1, [])"; o_callable := false |}];
     e_dir := [(T "__class__", Some (opaque "<class 'ValueError'>")); (T "_secret", Some (imm (PInt 1)));
               (T "add_note", Some (method "<built-in method add_note>")); (T "args", Some (opaque "(..)"));
               (T "characters_written", None); (T "errno", Some (imm (PInt 2))); (T "payload", Some (opaque "{'k': 1}"));
               (T "with_traceback", Some (method "<built-in method with_traceback>"))] |}.
Definition on : sflags := {| incl_tb := true; incl_ver := true; prop_sysexit := false; prop_kbdint := true |}.
Definition off : sflags := {| incl_tb := false; incl_ver := false; prop_sysexit := true; prop_kbdint := true |}.
Definition R (i c : bool) : rflags := {| import_custom := i; inst_custom := c; inst_oldstyle := false |}.

Example c09_fidelity_hypotheses_met :
  args_entries (e_dir verr) = 1%nat /\ assoc (T "ValueError") (builtins_ns E0) = Some (AExc (Builtin (T "ValueError")) true) /\
  routed off (e_cls verr) = false /\ fast_taken Pold verr = false /\
  vload Mgen (R false false) E0 (vdump Pold on (T "4.0.0") (T "Traceback..") verr) =
    ([ENew (Real (Builtin (T "ValueError")))],
     Ok (LExc (Real (Builtin (T "ValueError")))
              (PTuple [PInt 7; PStr (T "[1, 2]"); PTuple [PStr (T "a"); PNone]; PStr (T "(1, [])")])
              [(PStr (T "add_note"), PStr (T "<built-in method add_note>")); (PStr (T "errno"), PInt 2);
               (PStr (T "payload"), PStr (T "{'k': 1}")); (PStr (T "_remote_version"), PStr (T "4.0.0"))]
              (Done (PStr (T "Traceback..")) true))) /\
  vload Mgen (R true true) E0 (vdump Pnew off (T "4.0.0") (T "Traceback..") verr) =
    ([ENew (Real (Builtin (T "ValueError")))],
     Ok (LExc (Real (Builtin (T "ValueError")))
              (PTuple [PInt 7; PStr (T "[1, 2]"); PTuple [PStr (T "a"); PNone]; PStr (T "(1, [])")])
              [(PStr (T "errno"), PInt 2);           (* Pnew: the method add_note is not sent *)
               (PStr (T "payload"), PStr (T "{'k': 1}")); (PStr (T "_remote_version"), PStr (T "<version denied>"))]
              (Done (PStr (T "<traceback denied>")) false))).
Proof. vm_compute. repeat split. Qed.

(* gating over the 2x2 receiver switches, for: an imported module, an importable one, an unknown one, a non-exception attribute *)
Definition rec0 (m n : string) : pyval := record (T m) (T n) [PInt 1] ([] ++ [version_attr on (T "5.0.1")]) (tb_field on (T "tb")).
Definition cls_of (r : list effect * result lres) : option rcls := match snd r with Ok (LExc c _ _ _) => Some c | _ => None end.
Example c09_gating_matrix :
  map (fun f => (fst (vload Mgen f E0 (rec0 "mymod" "Foo")), cls_of (vload Mgen f E0 (rec0 "mymod" "Foo")))) [R false false; R true false; R false true; R true true] =
    [([ENew (Generic (PStr (T "mymod")) (PStr (T "Foo")))], Some (Generic (PStr (T "mymod")) (PStr (T "Foo"))));
     ([ENew (Generic (PStr (T "mymod")) (PStr (T "Foo")))], Some (Generic (PStr (T "mymod")) (PStr (T "Foo"))));
     ([ENew (Real (Custom (T "mymod") (T "Foo")))], Some (Real (Custom (T "mymod") (T "Foo"))));
     ([ENew (Real (Custom (T "mymod") (T "Foo")))], Some (Real (Custom (T "mymod") (T "Foo"))))] /\
  map (fun f => (fst (vload Mgen f E0 (rec0 "lazy" "Bar")), cls_of (vload Mgen f E0 (rec0 "lazy" "Bar")))) [R false false; R true false; R false true; R true true] =
    [([ENew (Generic (PStr (T "lazy")) (PStr (T "Bar")))], Some (Generic (PStr (T "lazy")) (PStr (T "Bar"))));
     ([EImport (T "lazy"); ENew (Generic (PStr (T "lazy")) (PStr (T "Bar")))], Some (Generic (PStr (T "lazy")) (PStr (T "Bar"))));
     ([ENew (Generic (PStr (T "lazy")) (PStr (T "Bar")))], Some (Generic (PStr (T "lazy")) (PStr (T "Bar"))));
     ([EImport (T "lazy"); ENew (Real (Custom (T "lazy") (T "Bar")))], Some (Real (Custom (T "lazy") (T "Bar"))))] /\
  map (fun f => cls_of (vload Mgen f E0 (rec0 "nosuch" "X"))) [R false false; R true true] =
    [Some (Generic (PStr (T "nosuch")) (PStr (T "X"))); Some (Generic (PStr (T "nosuch")) (PStr (T "X")))] /\
  map (fun f => cls_of (vload Mgen f E0 (rec0 "mymod" "helper"))) [R false false; R true true] =
    [Some (Generic (PStr (T "mymod")) (PStr (T "helper"))); Some (Generic (PStr (T "mymod")) (PStr (T "helper")))] /\
  name_ok (T "mymod") (T "Foo") /\ snd (expected_class Mgen (R true true) E0 (T "lazy") (T "Bar")) = true /\
  text_eqb (T "mymod") BUILTINS = false.
Proof. vm_compute. repeat split. Qed.

(* hostile payloads under the default switches: outcomes differ, effects never contain an import *)
Example c09_hostile_samples :
  map (fun v => vload Mgen default_rflags E0 v)
    [PInt 1; PBool true; PFloat ONE_BITS; PInt 2; PStr (T "boom"); PBytes [x61; x62; x63; x64]; PTuple [PInt 1; PInt 2; PInt 3];
     PTuple [PStr (T "ab"); PTuple []; PTuple []; PStr (T "tb")];
     PTuple [PTuple [PStr (T "builtins"); PStr (T "int")]; PTuple []; PTuple []; PStr (T "tb")];
     PTuple [PTuple [PStr (T "builtins"); PInt 5]; PTuple []; PTuple []; PStr (T "tb")];
     PTuple [PTuple [PStr (T "builtins"); PStr (T "ExceptionGroup")]; PTuple []; PTuple []; PStr (T "tb")];
     PTuple [PTuple [PStr (T "lazy"); PStr (T "Bar")]; PNone; PTuple [PTuple [PStr (T "_remote_version"); PInt 4]]; PInt 9];
     PTuple [PTuple [PStr [0xD800]; PStr (T "Bar")]; PTuple []; PTuple []; PStr (T "tb")];
     PTuple [PTuple [PStr (T "builtins"); PStr (T "ValueError")]; PTuple []; PTuple [PTuple [PStr (T "x"); PInt 1]; PInt 3]; PStr (T "tb")]] =
    [([], Ok LStop); ([], Ok LStop); ([], Ok LStop); ([], Raise TypeError); ([], Ok (LStr (T "boom"))); ([], Raise TypeError); ([], Raise ValueError);
     ([ENew (Generic (PStr (T "a")) (PStr (T "b")))], Ok (LExc (Generic (PStr (T "a")) (PStr (T "b"))) (PTuple []) [] (Done (PStr (T "tb")) false)));
     ([ENew (Generic (PStr (T "builtins")) (PStr (T "int")))], Ok (LExc (Generic (PStr (T "builtins")) (PStr (T "int"))) (PTuple []) [] (Done (PStr (T "tb")) false)));
     ([], Raise TypeError);
     ([ENew (Real (Builtin (T "ExceptionGroup")))], Raise TypeError);
     ([ENew (Generic (PStr (T "lazy")) (PStr (T "Bar")))],
      Ok (LExc (Generic (PStr (T "lazy")) (PStr (T "Bar"))) PNone [(PStr (T "_remote_version"), PInt 4)] (Fail AttributeError)));
     ([], Raise UnicodeError);
     ([ENew (Real (Builtin (T "ValueError")))], Ok (LExc (Real (Builtin (T "ValueError"))) (PTuple []) [(PStr (T "x"), PInt 1)] (Fail TypeError)))].
Proof. vm_compute. reflexivity. Qed.

(* F9 witness and the repaired behaviour side by side *)
Example c09_stopiteration_witness :
  arrived (vload Mgen (R false false) E0 (vdump {| fast_noargs_only := false; skip_callables := false |} on (T "5.0.1") (T "tb") stop_x)) = Some (Builtin STOP_ITERATION, PTuple []) /\
  arrived (vload Mgen (R false false) E0 (vdump {| fast_noargs_only := true; skip_callables := false |} on (T "5.0.1") (T "tb") stop_x)) = Some (Builtin STOP_ITERATION, PTuple [PStr (T "x")]) /\
  assoc STOP_ITERATION (builtins_ns E0) = Some (AExc (Builtin STOP_ITERATION) true).
Proof. vm_compute. repeat split. Qed.

Example c09_disclosure_witness :
  vdump Pold off (T "5.0.1") (T "secret traceback") verr = vdump Pold off (T "9.9.9") (T "other") verr /\
  vdump Pold on (T "5.0.1") (T "secret traceback") verr <> vdump Pold on (T "5.0.1") (T "other") verr /\
  routed off (Builtin SYSTEM_EXIT) = true /\ routed on (Builtin SYSTEM_EXIT) = false.
Proof. vm_compute. repeat split. discriminate. Qed.

(* a loaded module with a __getattr__ hook: what each lookup form does under the four receiver switch settings.
   LkGetattr (pinned tree): with instantiate_custom on, "dep" is imported even when import_custom is off;
   LkDictUnlessImport (repaired): the hook is consulted only when both switches are on *)
Definition E1 : env :=
  {| builtins_ns := builtins_ns E0;
     modules := [(T "hookmod", [(T "Plain", AExc (Custom (T "hookmod") (T "Plain")) true);
                                (T "Lazy", ALazy [T "dep"] (Some (Custom (T "dep") (T "Exc"), true)));
                                (T "LazyOther", ALazy [T "dep"; T "dep2"] None)])];
     importable := []; local_major := T "5" |}.
Example c09_module_hook_matrix :
  map (fun f => fst (vload LkGetattr f E1 (rec0 "hookmod" "Lazy"))) [R false false; R true false; R false true; R true true] =
    [[ENew (Generic (PStr (T "hookmod")) (PStr (T "Lazy")))]; [ENew (Generic (PStr (T "hookmod")) (PStr (T "Lazy")))];
     [EImport (T "dep"); ENew (Real (Custom (T "dep") (T "Exc")))]; [EImport (T "dep"); ENew (Real (Custom (T "dep") (T "Exc")))]] /\
  map (fun f => fst (vload LkDictUnlessImport f E1 (rec0 "hookmod" "Lazy"))) [R false false; R true false; R false true; R true true] =
    [[ENew (Generic (PStr (T "hookmod")) (PStr (T "Lazy")))]; [ENew (Generic (PStr (T "hookmod")) (PStr (T "Lazy")))];
     [ENew (Generic (PStr (T "hookmod")) (PStr (T "Lazy")))]; [EImport (T "dep"); ENew (Real (Custom (T "dep") (T "Exc")))]] /\
  fst (vload LkGetattr (R false true) E1 (rec0 "hookmod" "LazyOther")) =
    [EImport (T "dep"); EImport (T "dep2"); ENew (Generic (PStr (T "hookmod")) (PStr (T "LazyOther")))] /\
  fst (vload LkDict (R true true) E1 (rec0 "hookmod" "LazyOther")) = [ENew (Generic (PStr (T "hookmod")) (PStr (T "LazyOther")))] /\
  map (fun M => fst (vload M (R false true) E1 (rec0 "hookmod" "Plain"))) [LkGetattr; LkDictUnlessImport; LkDict] =
    [[ENew (Real (Custom (T "hookmod") (T "Plain")))]; [ENew (Real (Custom (T "hookmod") (T "Plain")))]; [ENew (Real (Custom (T "hookmod") (T "Plain")))]] /\
  mode_safe LkDictUnlessImport = true /\ mode_safe LkDict = true /\ mode_safe LkGetattr = false /\
  text_eqb (T "hookmod") BUILTINS = false /\ name_ok (T "hookmod") (T "Lazy") /\ snd (expected_class LkGetattr (R false true) E1 (T "hookmod") (T "Lazy")) = true.
Proof. vm_compute. repeat split. Qed.

(* the delivering dispatch on the hostile samples: a failure of the loader becomes the request's exception *)
Example c09_dispatch_witness :
  map (fun v => dispatch_exception true (snd (vload Mgen default_rflags E0 v))) [PInt 1; PInt 2; PTuple [PInt 1; PInt 2; PInt 3]; PTuple [PTuple [PStr [0xD800]; PStr (T "Bar")]; PTuple []; PTuple []; PStr (T "tb")]] =
    [ToRequest LStop; FailsRequest TypeError; FailsRequest ValueError; FailsRequest UnicodeError] /\
  dispatch_exception false (snd (vload Mgen default_rflags E0 (PInt 2))) = Escapes TypeError /\
  dispatch_exception true (Raise EOFError) = Escapes EOFError.
Proof. vm_compute. repeat split. Qed.
