(* C13 — Threads sharing a connection never cross, duplicate or lose replies.
(* SCOPE. The transition system has client threads that issue one request each and wait for it - with or without an expiry (LExpire: the
   clock passes a request's expiry; a reply dispatched afterwards is dropped and the waiter gives up: theorems c13_late_* below; the
   timing of expiries is C15's) -, timeouts that end a poll or a condition wait, background serving threads, and a peer that answers with by-value replies in any
   order; dispatching a reply is one step. An incoming REQUEST of the peer is, for every other thread, a message whose issuer is not looking (it is
   read under the lock, the lock is released and the sleepers are notified before it is dispatched, its dispatch touches nobody else's result): the
   harness maps it to an `issue` by a thread identifier that never steps again, and c13_inbound_* below prove what that reading needs (proofs/ServeI.v).
   Exception replies are exercised by the harness only.
   Liveness: [c13_no_deadlock] is progress (some thread can step while a reply is in the stream); that every request completes is
   refuted for deadline-free waits (last theorem) and not proved otherwise. *)
   Every statement holds in every state reachable under any scheduler, any number of client threads and
   background serving threads, any order of answers by the peer, with nondeterministic timeouts. *)
From V Require Import lib.Base model.Serve proofs.ServeP proofs.ServeF proofs.ServeI proofs.ServeTie gen.Gen_serve.

Section C13.
Variable servers : nat -> bool.
Variable s : st.
Hypothesis R : reach (init servers) s.

(* 1. each incoming message is taken from the stream by the receive-lock holder only (at most one thread polls/reads),
      and is dispatched at most once *)
Theorem c13_single_reader : forall i j, tpc (thrs s i) = S2 -> tpc (thrs s j) = S2 -> i = j.
Proof.
  intros i j Hi Hj. pose proof (invA_reach _ _ R) as I.
  assert (holder s = Some i) by (apply (A_hold s I); rewrite Hi; reflexivity).
  assert (holder s = Some j) by (apply (A_hold s I); rewrite Hj; reflexivity). congruence.
Qed.
Theorem c13_dispatch_once : NoDup (dispatched s).
Proof. exact (proj1 (B_disp s (invB_reach _ _ R))). Qed.

(* 2. every reply is delivered to the request with that number and to no other: the callback registered under a number
      belongs to the thread whose request has that number; a result cell is set exactly by the dispatch of its own reply;
      a waiter returns only when the reply to its very request has been dispatched *)
Theorem c13_callback_owner : forall q t, pending s q = Some t -> myseq (thrs s t) = Some q.
Proof. intros q. exact (proj2 (B_pend s (invB_reach _ _ R) q)). Qed.
(* a result cell is ready exactly when its reply has been dispatched and was not late: a reply dispatched after the request's own
   expiry is dropped (AsyncResult.__call__), and [late] is only ever set after that expiry *)
Theorem c13_ready_iff_dispatched : forall q, ready s q = true <-> (In q (dispatched s) /\ late s q = false).
Proof. intros q. pose proof (invB_reach _ _ R) as I. rewrite (B_ready s I q). rewrite (proj2 (B_disp s I) q). tauto. Qed.
Theorem c13_late_only_after_expiry : forall q, late s q = true -> In q (dispatched s) /\ expd s q = true.
Proof. intros q H. pose proof (invB_reach _ _ R) as I. destruct (B_late s I q H) as [A B]. split; [now apply (proj2 (B_disp s I) q)|exact B]. Qed.
(* a wait gives up only after its own expiry, with its cell not ready *)
Theorem c13_gives_up_only_after_expiry : forall i, tpc (thrs s i) = TimedOut ->
  exists q, myseq (thrs s i) = Some q /\ expd s q = true /\ ready s q = false.
Proof. exact (invD_reach _ _ R). Qed.
Theorem c13_return_means_own_reply : forall i, tpc (thrs s i) = Returned ->
  exists q, myseq (thrs s i) = Some q /\ ready s q = true /\ In q (dispatched s).
Proof.
  intros i Hi. destruct (invC_reach _ _ R i Hi) as (q & Hm & Hr). exists q. repeat split; auto.
  now apply c13_ready_iff_dispatched.
Qed.

(* 3. sequence numbers are never reused *)
Theorem c13_seq_unique : forall i j q, myseq (thrs s i) = Some q -> myseq (thrs s j) = Some q -> i = j.
Proof. exact (proj2 (B_seq s (invB_reach _ _ R))). Qed.

(* 4. no lost wake-up: whoever sleeps on the condition has a thread that holds the receive lock or has just released it
      and has not notified yet; and no deadlock: with a reply in the stream and anybody in the serving loop,
      some thread can take a step that is not a timeout *)
Theorem c13_no_lost_wakeup : forall i, tpc (thrs s i) = Asleep -> exists h, will_notify (tpc (thrs s h)) = true.
Proof. exact (A_wake s (invA_reach _ _ R)). Qed.
Theorem c13_no_deadlock : inbox s <> [] -> (exists i, in_loop (tpc (thrs s i)) = true) -> exists j s', step LStep j s = Some s'.
Proof. apply progress; [exact (invA_reach _ _ R)|exact (invB_reach _ _ R)]. Qed.
End C13.
Print Assumptions c13_single_reader.
Print Assumptions c13_dispatch_once.
Print Assumptions c13_callback_owner.
Print Assumptions c13_ready_iff_dispatched.
Print Assumptions c13_late_only_after_expiry.
Print Assumptions c13_gives_up_only_after_expiry.
Print Assumptions c13_return_means_own_reply.
Print Assumptions c13_seq_unique.
Print Assumptions c13_no_lost_wakeup.
Print Assumptions c13_no_deadlock.

(* 5. no state is a trap ("never ... strand a message", for every reachable state rather than for sampled schedules; proofs/ServeF.v).
      Wherever the execution has got to - whoever holds the receive lock, wherever the reply to a thread's request is (not sent yet,
      in the stream behind other frames, in another thread's hand, already dispatched, dropped as late) - there is a continuation made
      of thread steps, timeouts of blocked threads and the peer's answer ONLY ([quiet]: the clock passes no further expiry) after
      which that thread has left wait(): it has Returned - necessarily with the reply to its own request, c13_return_means_own_reply -
      or, only if its own expiry had ALREADY passed in s, it has given up. In particular a request whose expiry has not passed can
      always still complete. This is possibility (the theorem exhibits a schedule: a lexicographic measure on where the reply is,
      the length of the stream and the lock holder's position decreases); a guarantee under every scheduler is false for waits
      without a deadline: c13_completion_refuted_without_deadline below. *)
Theorem c13_no_state_is_a_trap : forall servers s w q, reach (init servers) s ->
  myseq (thrs s w) = Some q -> in_loop (tpc (thrs s w)) = true ->
  exists evs s', ServeF.runl s evs = Some s' /\ (forall e, In e evs -> quiet (fst e))
    /\ (tpc (thrs s' w) = Returned \/ (tpc (thrs s' w) = TimedOut /\ expd s q = true)).
Proof.
  intros servers s w q R. apply no_trap; [exact (invA_reach _ _ R)|exact (invB_reach _ _ R)|exact (invD_reach _ _ R)].
Qed.
Print Assumptions c13_no_state_is_a_trap.
Theorem c13_unexpired_request_can_still_complete : forall servers s w q, reach (init servers) s ->
  myseq (thrs s w) = Some q -> in_loop (tpc (thrs s w)) = true -> expd s q = false ->
  exists evs s', ServeF.runl s evs = Some s' /\ tpc (thrs s' w) = Returned /\ ready s' q = true.
Proof.
  intros servers s w q R Hm Hl He.
  destruct (c13_no_state_is_a_trap servers s w q R Hm Hl) as (evs & s' & Hr & Hq & [Hf|[_ X]]); [|congruence].
  exists evs, s'. split; [exact Hr|]. split; [exact Hf|].
  assert (IC : InvC s') by (apply (invC_reach servers); exact (ServeF.runl_reach _ evs s s' R Hr)).
  destruct (IC w Hf) as (q' & Hm' & Hr').
  rewrite (quiet_run_myseq evs s s' w Hq Hr), Hm in Hm'. inversion Hm'; subst q'. exact Hr'.
Qed.
Print Assumptions c13_unexpired_request_can_still_complete.

(* 7. Messages nobody is waiting for - the peer's own requests, replies whose requester is not looking.
      (a) Dispatching a message changes that message's own cell, the dispatcher's own program counter and the dispatch log; every other
      result cell, callback, every other thread, the stream and the receive lock are untouched - however long the handler runs (the
      dispatcher simply stays at S5 meanwhile: the lock was released and the sleepers notified before). *)
Theorem c13_inbound_dispatch_frame : forall servers s i s' q, reach (init servers) s ->
  tpc (thrs s i) = S5 -> hand (thrs s i) = Some q -> step LStep i s = Some s' ->
  (forall q', q' <> q -> ready s' q' = ready s q' /\ pending s' q' = pending s q' /\ ph s' q' = ph s q' /\ late s' q' = late s q')
  /\ (forall j, j <> i -> thrs s' j = thrs s j) /\ inbox s' = inbox s /\ holder s' = holder s /\ counter s' = counter s
  /\ dispatched s' = dispatched s ++ [q].
Proof. intros servers s i s' q _. apply dispatch_frame. Qed.
Print Assumptions c13_inbound_dispatch_frame.
(*    (b) No continuation ever needs a step of a thread that is outside serve() and not looking (`absent`: any set of such threads that
      does not contain the waiter - the phantom issuers of the peer's requests, clients that issued asynchronously and went away): from every
      reachable state every waiting thread can still leave wait() by its own steps, steps of threads that are inside serve() with the lock or
      a frame in hand, and the peer's answers; the absent threads are never scheduled and are left exactly as they were. *)
Theorem c13_inbound_absent_threads_never_needed : forall servers s w q (absent : nat -> bool), reach (init servers) s ->
  myseq (thrs s w) = Some q -> in_loop (tpc (thrs s w)) = true ->
  absent w = false -> (forall j, absent j = true -> outside (tpc (thrs s j)) = true) ->
  exists evs s', ServeF.runl s evs = Some s' /\ (forall e, In e evs -> quiet (fst e))
    /\ (forall e, In e evs -> (exists q0, fst e = LAnswer q0) \/ absent (snd e) = false)
    /\ (forall j, absent j = true -> thrs s' j = thrs s j)
    /\ (tpc (thrs s' w) = Returned \/ (tpc (thrs s' w) = TimedOut /\ expd s q = true)).
Proof.
  intros servers s w q absent R. apply no_trap_without; [exact (invA_reach _ _ R)|exact (invB_reach _ _ R)|exact (invD_reach _ _ R)].
Qed.
Print Assumptions c13_inbound_absent_threads_never_needed.
(* non-vacuity: a peer request (phantom issuer 7, number 0) sits in the stream IN FRONT of client 0's reply (number 1); the background thread 1
   reads it, releases, notifies and is still busy with its handler (S5) when client 0 takes the free lock, reads its own reply and returns;
   thread 7 never moves *)
Example c13_inbound_request_in_front_of_a_reply :
  match ServeF.runl (init (fun i => Nat.eqb i 1))
    [(LIssue, 7); (LIssue, 0); (LIssue, 1); (LAnswer 0, 0); (LAnswer 1, 0);
     (LStep, 1); (LStep, 1); (LStep, 1); (LStep, 1); (LStep, 1);     (* B: loop test, lock, reads the peer's request, releases, notifies: now in the handler *)
     (LStep, 0); (LStep, 0); (LStep, 0); (LStep, 0); (LStep, 0); (LStep, 0); (LStep, 0)] with   (* W: loop test, lock, reads its reply, releases, notifies, dispatches, returns *)
  | Some s => tpc (thrs s 1) = S5 /\ hand (thrs s 1) = Some 0 /\ tpc (thrs s 0) = Returned /\ ready s 1 = true /\ tpc (thrs s 7) = LoopTest /\ dispatched s = [1]
  | None => False
  end.
Proof. cbv. repeat split. Qed.
(* non-vacuity: the stalled state of c13_completion_refuted_without_deadline is not a trap either - W's own poll timeout gets it out *)

Theorem c13_program_is_current : Gen_serve.serve_prog = Serve.serve_prog /\ Gen_serve.call_sets_obj_before_ready = true
  /\ Gen_serve.callback_is_popped = true /\ Gen_serve.register_before_send = true /\ Gen_serve.seq_is_atomic_counter = true.
Proof. split; [exact tie_serve_prog|]. pose proof tie_serve_facts. tauto. Qed.
Print Assumptions c13_program_is_current.

(* non-vacuity: two clients and a background server; the peer answers in reverse order; both clients return *)
Fixpoint runl (s : st) (evs : list (label * nat)) : option st :=
  match evs with [] => Some s | (l, i) :: r => match step l i s with Some s' => runl s' r | None => None end end.
Example c13_two_clients_reverse_answers :
  match runl (init (fun i => Nat.eqb i 2))
    [(LIssue, 0); (LIssue, 1); (LIssue, 2); (LAnswer 1, 0); (LAnswer 0, 0);
     (LStep, 2); (LStep, 2); (LStep, 0); (LStep, 0);            (* server takes the lock; client 0 goes to sleep *)
     (LStep, 2); (LStep, 2); (LStep, 2); (LStep, 2);            (* server reads reply 1, releases, notifies (0 wakes), dispatches *)
     (LStep, 1); (LStep, 0); (LStep, 0); (LStep, 0); (LStep, 0); (LStep, 0); (LStep, 0); (LStep, 0)] with
  | Some s => tpc (thrs s 1) = Returned /\ tpc (thrs s 0) = Returned /\ dispatched s = [1; 0]
  | None => False
  end.
Proof. vm_compute. repeat split. Qed.

(* "every request completes" is FALSE for a waiter without a deadline (finding F5 seen from C13; known): the schedule of
   c14_prompt_refuted, continued until the background thread has gone back to sleep, ends in a state where the request's reply
   has been received and processed (ready), yet no thread can take a program step and no answer is pending. Only a timeout of
   the waiter's poll - which a wait without deadline does not have - or new traffic gets anybody moving again. *)
Definition stall_forever_schedule : list (label * nat) :=
  [(LIssue, 0); (LIssue, 1); (LAnswer 0, 0);
   (LStep, 1); (LStep, 1); (LStep, 1); (LStep, 1);     (* B: loop test, takes the lock, reads W's reply, releases the lock *)
   (LStep, 0); (LStep, 0);                              (* W: not ready yet -> serve -> takes the free lock: poll on an empty stream *)
   (LStep, 1); (LStep, 1);                              (* B: notify_all, dispatches W's reply: W's result is ready *)
   (LStep, 1); (LStep, 1)].                             (* B: loop test, lock is taken by W: goes to sleep on the condition *)
Lemma runl_reach s0 : forall l s1 s, reach s0 s1 -> runl s1 l = Some s -> reach s0 s.
Proof.
  induction l as [|[lb i] r IH]; intros s1 s R H; cbn in H.
  - injection H as <-. exact R.
  - destruct (step lb i s1) as [s2|] eqn:E; [|discriminate]. apply (IH s2 s); [econstructor; eauto|exact H].
Qed.
Theorem c13_completion_refuted_without_deadline : exists s, reach (init (fun i => Nat.eqb i 1)) s
  /\ myseq (thrs s 0) = Some 0 /\ ready s 0 = true /\ dispatched s = [0] /\ tpc (thrs s 0) <> Returned
  /\ (forall i, step LStep i s = None) /\ (forall q i, step (LAnswer q) i s = None)
  /\ (forall i s', step LTimeout i s = Some s' -> i = 0 \/ i = 1).
Proof.
  destruct (runl (init (fun i => Nat.eqb i 1)) stall_forever_schedule) as [s|] eqn:E; [|vm_compute in E; discriminate].
  exists s. split; [exact (runl_reach _ _ _ s (r0 _) E)|].
  vm_compute in E. injection E as <-. repeat split.
  - discriminate.
  - intros [|[|i]]; reflexivity.
  - intros [|q] i; reflexivity.
  - intros [|[|i]] s' H; [now left|now right|discriminate].
Qed.
Print Assumptions c13_completion_refuted_without_deadline.
