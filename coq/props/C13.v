(* C13 — Threads sharing a connection never cross, duplicate or lose replies.
   Every statement holds in every state reachable under any scheduler, any number of client threads and
   background serving threads, any order of answers by the peer, with nondeterministic timeouts. *)
From V Require Import lib.Base model.Serve proofs.ServeP proofs.ServeTie gen.Gen_serve.

Section C13.
Variable servers : nat -> bool.
Variable s : st.
Hypothesis R : reach (init servers) s.

(* 1. each incoming message is taken from the stream by the receive-lock holder only (at most one thread polls/reads),
      and is dispatched at most once *)
Theorem c13_single_reader : forall i j, tpc (thrs s i) = S2 -> tpc (thrs s j) = S2 -> i = j.
Proof.
  intros i j Hi Hj. pose proof (invA_reach _ _ R) as I.
  assert (holder s = Some i) by (apply (A_hold s I); rewrite Hi; reflexivity).
  assert (holder s = Some j) by (apply (A_hold s I); rewrite Hj; reflexivity). congruence.
Qed.
Theorem c13_dispatch_once : NoDup (dispatched s).
Proof. exact (proj1 (B_disp s (invB_reach _ _ R))). Qed.

(* 2. every reply is delivered to the request with that number and to no other: the callback registered under a number
      belongs to the thread whose request has that number; a result cell is set exactly by the dispatch of its own reply;
      a waiter returns only when the reply to its very request has been dispatched *)
Theorem c13_callback_owner : forall q t, pending s q = Some t -> myseq (thrs s t) = Some q.
Proof. intros q. exact (proj2 (B_pend s (invB_reach _ _ R) q)). Qed.
Theorem c13_ready_iff_dispatched : forall q, ready s q = true <-> In q (dispatched s).
Proof. intros q. pose proof (invB_reach _ _ R) as I. rewrite (B_ready s I q). symmetry. apply (proj2 (B_disp s I) q). Qed.
Theorem c13_return_means_own_reply : forall i, tpc (thrs s i) = Returned ->
  exists q, myseq (thrs s i) = Some q /\ ready s q = true /\ In q (dispatched s).
Proof.
  intros i Hi. destruct (invC_reach _ _ R i Hi) as (q & Hm & Hr). exists q. repeat split; auto.
  now apply c13_ready_iff_dispatched.
Qed.

(* 3. sequence numbers are never reused *)
Theorem c13_seq_unique : forall i j q, myseq (thrs s i) = Some q -> myseq (thrs s j) = Some q -> i = j.
Proof. exact (proj2 (B_seq s (invB_reach _ _ R))). Qed.

(* 4. no lost wake-up: whoever sleeps on the condition has a thread that holds the receive lock or has just released it
      and has not notified yet; and no deadlock: with a reply in the stream and anybody in the serving loop,
      some thread can take a step that is not a timeout *)
Theorem c13_no_lost_wakeup : forall i, tpc (thrs s i) = Asleep -> exists h, will_notify (tpc (thrs s h)) = true.
Proof. exact (A_wake s (invA_reach _ _ R)). Qed.
Theorem c13_no_deadlock : inbox s <> [] -> (exists i, in_loop (tpc (thrs s i)) = true) -> exists j s', step LStep j s = Some s'.
Proof. apply progress; [exact (invA_reach _ _ R)|exact (invB_reach _ _ R)]. Qed.
End C13.
Print Assumptions c13_single_reader.
Print Assumptions c13_dispatch_once.
Print Assumptions c13_callback_owner.
Print Assumptions c13_ready_iff_dispatched.
Print Assumptions c13_return_means_own_reply.
Print Assumptions c13_seq_unique.
Print Assumptions c13_no_lost_wakeup.
Print Assumptions c13_no_deadlock.

Theorem c13_program_is_current : Gen_serve.serve_prog = Serve.serve_prog /\ Gen_serve.call_sets_obj_before_ready = true
  /\ Gen_serve.callback_is_popped = true /\ Gen_serve.register_before_send = true /\ Gen_serve.seq_is_atomic_counter = true.
Proof. split; [exact tie_serve_prog|]. pose proof tie_serve_facts. tauto. Qed.
Print Assumptions c13_program_is_current.

(* non-vacuity: two clients and a background server; the peer answers in reverse order; both clients return *)
Fixpoint runl (s : st) (evs : list (label * nat)) : option st :=
  match evs with [] => Some s | (l, i) :: r => match step l i s with Some s' => runl s' r | None => None end end.
Example c13_two_clients_reverse_answers :
  match runl (init (fun i => Nat.eqb i 2))
    [(LIssue, 0); (LIssue, 1); (LIssue, 2); (LAnswer 1, 0); (LAnswer 0, 0);
     (LStep, 2); (LStep, 2); (LStep, 0); (LStep, 0);            (* server takes the lock; client 0 goes to sleep *)
     (LStep, 2); (LStep, 2); (LStep, 2); (LStep, 2);            (* server reads reply 1, releases, notifies (0 wakes), dispatches *)
     (LStep, 1); (LStep, 0); (LStep, 0); (LStep, 0); (LStep, 0); (LStep, 0); (LStep, 0); (LStep, 0)] with
  | Some s => tpc (thrs s 1) = Returned /\ tpc (thrs s 0) = Returned /\ dispatched s = [1; 0]
  | None => False
  end.
Proof. vm_compute. repeat split. Qed.
