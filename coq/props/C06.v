(* C06 — Attribute access by the peer follows the connection's policy, and only its own.
   Only statements, [exact]s and Print Assumptions live here.  Gen_attrpolicy.* is regenerated from
   rpyc/core/protocol.py, service.py, helpers.py on every run; the theorems below are about those generated functions. *)
From V Require Import lib.Base lib.Utf8 model.Attr proofs.AttrP.
From V Require gen.Gen_attrpolicy.
From Coq Require Import String.

(* 1. For every setting of the seven switches, either prefix class, every name class, every object shape and every kind
      of operation, the generated _access_attr decides exactly what the property's table says
      (hook -> the hook; not text -> TypeError; switch off -> AttributeError; allowed / twin -> which attribute). *)
Theorem c06_decision : forall nk hook s perm pne n o,
  Gen_attrpolicy.decode_guarded = true \/ nk <> KBytesBad ->
  Gen_attrpolicy.access_attr nk hook s perm pne n o = spec_access nk hook s perm pne n o.
Proof. intros. rewrite tie_access_attr. now apply access_is_spec. Qed.
Print Assumptions c06_decision.

(* 1'. On a tree where the decoding error of a bytes name escapes (decode_guarded = false: the pinned tree, finding F8)
       the table is missed at exactly that name class: UnicodeError instead of TypeError. *)
Theorem c06_decision_refuted_when_decode_unguarded : Gen_attrpolicy.decode_guarded = false ->
  forall hook s perm pne n o,
    Gen_attrpolicy.access_attr KBytesBad hook s perm pne n o = Raise UnicodeError /\
    spec_access KBytesBad hook s perm pne n o = Raise TypeError.
Proof. intros H hook s perm pne n o. rewrite tie_access_attr, H. apply access_refuted. Qed.
Print Assumptions c06_decision_refuted_when_decode_unguarded.

(* 1''. The same on concrete inputs (any prefix, any safe set, any name, any attribute set), as the property's sentences.
        decide_gen is the generated _access_attr applied to what it reads of the concrete configuration, name and object. *)
Theorem c06_granted_only_if_enabled_and_allowed_or_twin : forall c perm p o final,
  hook_for o perm = false -> decide_gen c perm p o = Ok (ViaDefault final) ->
  is_text p /\ lookup_perm (sw c) perm = true /\
  ((final = text_of p /\ allowed c (text_of p)) \/ (final = exposed_prefix c ++ text_of p /\ twin_on c (text_of p) o)).
Proof.
  intros c perm p o final Hh H. rewrite decide_gen_eq in H.
  assert (T : is_text p).
  { unfold decide, access_attr, is_text in *. destruct (nkind_of p); auto; simpl in H; discriminate. }
  rewrite decide_is_spec in H by (right; now apply is_text_not_bad). now apply spec_sound.
Qed.
Print Assumptions c06_granted_only_if_enabled_and_allowed_or_twin.

Theorem c06_granted_if_enabled_and_allowed_or_twin : forall c perm p o,
  hook_for o perm = false -> is_text p -> lookup_perm (sw c) perm = true ->
  allowed c (text_of p) \/ twin_on c (text_of p) o ->
  exists final, decide_gen c perm p o = Ok (ViaDefault final).
Proof.
  intros c perm p o Hh T Hp H. rewrite decide_gen_eq, decide_is_spec by (right; now apply is_text_not_bad).
  now apply spec_complete.
Qed.
Print Assumptions c06_granted_if_enabled_and_allowed_or_twin.

Theorem c06_anything_else_is_AttributeError : forall c perm p o,
  hook_for o perm = false -> is_text p ->
  ~ (lookup_perm (sw c) perm = true /\ (allowed c (text_of p) \/ twin_on c (text_of p) o)) ->
  decide_gen c perm p o = Raise AttributeError.
Proof.
  intros c perm p o Hh T H. rewrite decide_gen_eq, decide_is_spec by (right; now apply is_text_not_bad).
  now apply spec_denied.
Qed.
Print Assumptions c06_anything_else_is_AttributeError.

Theorem c06_not_text_is_TypeError : forall c perm p o,
  Gen_attrpolicy.decode_guarded = true \/ nkind_of p <> KBytesBad -> ~ is_text p ->
  decide_gen c perm p o = Raise TypeError.
Proof. intros c perm p o G T. rewrite decide_gen_eq, decide_is_spec by exact G. now apply spec_not_text. Qed.
Print Assumptions c06_not_text_is_TypeError.

(* 2. A refusal has no effect: nothing is read, written or deleted as the access, the object is unchanged, and the only
      thing the decision itself looked at on the object is whether the exposed-prefixed twin exists. *)
Theorem c06_denied_no_effect : forall g c perm p o e,
  o_decision (handle g c perm p o) = Raise e ->
  o_result (handle g c perm p o) = Raise e /\ o_touch (handle g c perm p o) = [] /\ o_obj (handle g c perm p o) = o /\
  forall x, In x (o_trace (handle g c perm p o)) -> x = EGet (exposed_prefix c ++ text_of p).
Proof. exact denied_no_effect. Qed.
Print Assumptions c06_denied_no_effect.

Theorem c06_granted_touches_exactly_the_decided_attribute : forall g c perm p o final,
  o_decision (handle g c perm p o) = Ok (ViaDefault final) ->
  o_touch (handle g c perm p o) = [match perm with PGet => EGet final | PSet => ESet final | PDel => EDel final end].
Proof. exact granted_touches_final. Qed.
Print Assumptions c06_granted_touches_exactly_the_decided_attribute.

(* 3. Objects with their own hooks decide instead of the configuration (no configuration is consulted: c is arbitrary);
      restricted views permit exactly their listed names.  SCOPE: the routes that hand the object itself to _access_attr
      (all by-name routes except cmp, see 4 and 4'). *)
Theorem c06_hook_overrides : forall c perm p o,
  hook_for o perm = true -> is_text p -> decide_gen c perm p o = Ok (ViaHook (text_of p)).
Proof. intros. rewrite decide_gen_eq. now apply hook_overrides. Qed.
Print Assumptions c06_hook_overrides.

Theorem c06_restricted_exact : forall g c p r, is_text p ->
  (In (text_of p) (r_attrs r) -> handle_restricted g c PGet p r = perform PGet (text_of p) (r_under r)) /\
  (~ In (text_of p) (r_attrs r) -> handle_restricted g c PGet p r = (Raise AttributeError, [], r_under r)) /\
  (In (text_of p) (r_wlist r) -> handle_restricted g c PSet p r = perform PSet (text_of p) (r_under r)) /\
  (~ In (text_of p) (r_wlist r) -> handle_restricted g c PSet p r = (Raise AttributeError, [], r_under r)) /\
  (exists tr, handle_restricted g c PDel p r = (Raise AttributeError, tr, r_under r) /\ forall e, In e tr -> is_write e = false).
Proof.
  intros g c p r T. destruct (restricted_via_connection g c p r T) as (G & S & D).
  destruct (restricted_get_exact r (text_of p)) as [G1 G2]. destruct (restricted_set_exact r (text_of p)) as [S1 S2].
  rewrite G, S. repeat split; auto.
Qed.
Print Assumptions c06_restricted_exact.

Theorem c06_restricted_underlying_changes_only_by_listed_write : forall g c perm p r,
  snd (handle_restricted g c perm p r) <> r_under r -> perm = PSet /\ In (text_of p) (r_wlist r).
Proof. exact restricted_underlying_changes_only_by_listed_write. Qed.
Print Assumptions c06_restricted_underlying_changes_only_by_listed_write.

(* 3'. A Service instance (the root object a peer always holds) defines _rpyc_setattr/_rpyc_delattr that only raise
       AttributeError: whatever the configuration -- blanket classic permissions included -- writing or deleting an attribute
       of the service itself is refused without effect; reading follows the configuration (no read hook).  The two booleans
       are the generated facts about class Service's hook bodies (true on the current tree, tie below). *)
Theorem c06_service_root_denies_writes : forall g c p l, is_text p ->
  Gen_attrpolicy.service_denies_set = true /\ Gen_attrpolicy.service_denies_del = true /\
  handle_service Gen_attrpolicy.service_denies_set Gen_attrpolicy.service_denies_del g c PSet p l = (Raise AttributeError, [], svc_obj l) /\
  handle_service Gen_attrpolicy.service_denies_set Gen_attrpolicy.service_denies_del g c PDel p l = (Raise AttributeError, [], svc_obj l) /\
  handle_service Gen_attrpolicy.service_denies_set Gen_attrpolicy.service_denies_del g c PGet p l =
    (o_result (handle g c PGet p (svc_obj l)), o_trace (handle g c PGet p (svc_obj l)), o_obj (handle g c PGet p (svc_obj l))) /\
  decide_gen c PSet p (svc_obj l) = Ok (ViaHook (text_of p)) /\ decide_gen c PDel p (svc_obj l) = Ok (ViaHook (text_of p)).
Proof.
  intros g c p l T. destruct tie_service_hooks as (_ & -> & -> & _). destruct (service_root g c p l T) as (A & B & C & _).
  repeat split; auto; rewrite decide_gen_eq; now apply hook_overrides.
Qed.
Print Assumptions c06_service_root_denies_writes.

(* 4. FULL STATEMENT wanted: "every way a peer can get at an attribute of an object follows the policy".
      PROVED (partial): every request handler that takes an attribute NAME from the peer or uses a fixed one -- exactly
      cmp, getattr, delattr, setattr, callattr, ctxexit, oldslicing -- reaches attributes only through _access_attr, with the
      hook, the permission and the builtin of the same kind, and with the permission the property names for it.
      EXCLUDED, stated by c06_route_exclusions below: the thirteen handlers that take no attribute name.  They are not
      governed by the seven attribute switches: dir returns the names dir(obj) lists; inspect returns names and docstrings of
      the callables found in the class dicts of type(obj); pickle returns the whole state and is gated by allow_pickle alone;
      repr/str/hash/call/buffiter/instancecheck run special methods of the object; ping/close/getroot/del touch no attribute.
      "No other getattr-like call with a peer-chosen name" rests on the translator's syntactic scan of the handler bodies
      (trusted); the bodies of the excluded handlers and lib.get_methods are shape-snapshotted. *)
(*    WHOSE hooks: each route also records which object is handed to _access_attr (handler_targets).  getattr, delattr,
      setattr, callattr, ctxexit and oldslicing hand over the object the peer named, so that object's own hooks decide
      (c06_hook_overrides).  cmp hands over type(obj): on the cmp route the OBJECT'S OWN HOOK IS NEVER ASKED, the configuration
      decides on the class's attributes (or the metaclass's hook does).  SCOPE of "own hooks decide instead of the
      configuration": every by-name route except cmp.  On the pinned tree the name on the cmp route is moreover free
      (cmp_ops_restricted = false): c06_cmp_route_refuted_when_unrestricted exhibits a method called by name that the
      object's hook refuses on every other route (finding; proposed repair build/proposed_findings/C06_cmp.patch serves
      only the comparison protocol there, after which c06_cmp_route_only_comparisons applies: comparisons are then
      applied as Python applies operators, through the type, subject to the configuration). *)
Theorem c06_all_routes_checked_partial : forall h rs, In (h, rs) Gen_attrpolicy.handlers ->
  handler_perms Gen_attrpolicy.handlers h = expected_perms h /\
  Forall (fun x => x <> None) (handler_perms Gen_attrpolicy.handlers h) /\
  handler_targets Gen_attrpolicy.handlers h = expected_targets h.
Proof. exact (routes_checked Gen_attrpolicy.handlers tie_routes_ok). Qed.
Print Assumptions c06_all_routes_checked_partial.

(* 4'. The cmp route.  decide_cmp r g c p ty: the decision of _handle_cmp for the peer-chosen name p on an object whose
       class has the attributes/hook of ty; r = generated fact "the accessor serves only the comparison protocol". *)
Theorem c06_cmp_route_only_comparisons : Gen_attrpolicy.cmp_ops_restricted = true ->
  forall g c p ty final, decide_cmp Gen_attrpolicy.cmp_ops_restricted g c p ty = Ok (ViaDefault final) ->
  In final (map text_of_string Gen_attrpolicy.cmp_ops).
Proof.
  intros H g c p ty final D. rewrite tie_cmp_route, H. rewrite H in D. now apply (cmp_restricted_only_comparisons g c p ty).
Qed.
Print Assumptions c06_cmp_route_only_comparisons.

Theorem c06_cmp_route_refuted_when_unrestricted : Gen_attrpolicy.cmp_ops_restricted = false ->
  exists c p inst ty final,
    hook_get inst = true /\ decide_gen c PGet p inst = Ok (ViaHook (text_of p)) /\      (* every other route: the hook decides *)
    hook_get ty = false /\ decide_cmp Gen_attrpolicy.cmp_ops_restricted Gen_attrpolicy.decode_guarded c p ty = Ok (ViaDefault final) /\
    ~ In final (map text_of_string cmp_names).                                          (* cmp: a non-comparison method reached *)
Proof.
  intros H. rewrite H.
  exists {| sw := Gen_attrpolicy.default_switches; exposed_prefix := text_of_string "exposed_"; safe_attrs := [] |},
         (NStr (text_of_string "dump")),
         {| attrs := []; hook_get := true; hook_set := false; hook_del := false |},
         {| attrs := [text_of_string "exposed_dump"]; hook_get := false; hook_set := false; hook_del := false |},
         (text_of_string "exposed_dump").
  split; [reflexivity|]. split; [rewrite decide_gen_eq; vm_compute; reflexivity|]. split; [reflexivity|].
  split; [destruct Gen_attrpolicy.decode_guarded; vm_compute; reflexivity|].
  intros K. apply mem_In in K. vm_compute in K. discriminate.
Qed.
Print Assumptions c06_cmp_route_refuted_when_unrestricted.

Theorem c06_route_exclusions :
  handlers_with_routes Gen_attrpolicy.handlers = ["cmp"; "getattr"; "delattr"; "setattr"; "callattr"; "ctxexit"; "oldslicing"]%string /\
  handlers_without_routes Gen_attrpolicy.handlers =
    ["ping"; "close"; "getroot"; "del"; "repr"; "str"; "hash"; "call"; "dir"; "inspect"; "instancecheck"; "pickle"; "buffiter"]%string /\
  Gen_attrpolicy.pickle_gate = "allow_pickle"%string /\ Gen_attrpolicy.pickle_refusal = "ValueError"%string.
Proof. destruct tie_handler_partition as [A B]. destruct tie_pickle_gate as [C D]. repeat split; assumption. Qed.
Print Assumptions c06_route_exclusions.

Theorem c06_route_is_consistent_triple : forall r p, route_perm r = Some p ->
  exists t, r = match p with
      | PGet => RAccess t "_rpyc_getattr" "allow_getattr" "getattr"
      | PSet => RAccess t "_rpyc_setattr" "allow_setattr" "setattr"
      | PDel => RAccess t "_rpyc_delattr" "allow_delattr" "delattr"
      end%string.
Proof. exact route_perm_sound. Qed.
Print Assumptions c06_route_is_consistent_triple.

(* 5. Isolation, for every history of opens (with any configuration, plain or classic service), closes and requests:
      a connection's configuration -- hence its decision function -- is what it was given at open plus its own on_connect;
      DEFAULT_CONFIG is never changed; no later operation on any connection changes it.
      Fgen carries three generated facts: __init__ copies the defaults, on_connect writes the connection it was given, and
      every write to any configuration dict found by the whole-tree scan of rpyc/ sits in Connection.__init__ or
      SlaveService.on_connect (so serving a request or closing writes none).  The third is what makes a request a no-op on
      configurations in the model; without it the model lets a request overwrite everything (5' below). *)
Theorem c06_isolation : forall d h i u s,
  nth_open h i = Some (u, s) -> cfg_of (run Fgen d h) i = Some (own_cfg d u s) /\ default_of (run Fgen d h) = d.
Proof.
  destruct tie_facts as (A & B & R). intros d h i u s H. split.
  - now apply isolation.
  - now apply default_of_run.
Qed.
Print Assumptions c06_isolation.

Theorem c06_isolation_frame : forall d h op j c,
  cfg_of (run Fgen d h) j = Some c -> cfg_of (step Fgen (run Fgen d h) op) j = Some c.
Proof. destruct tie_facts as (A & B & R). intros. now apply isolation_frame. Qed.
Print Assumptions c06_isolation_frame.

Theorem c06_isolation_decisions : forall d h i u s perm p o,
  nth_open h i = Some (u, s) ->
  option_map (fun c => decide_gen c perm p o) (cfg_of (run Fgen d h) i) = Some (decide_gen (own_cfg d u s) perm p o).
Proof. intros d h i u s perm p o H. destruct (c06_isolation d h i u s H) as [-> _]. reflexivity. Qed.
Print Assumptions c06_isolation_decisions.

(* 5'. The two facts the isolation proof rests on are necessary: without either, a counterexample history exists. *)
Theorem c06_isolation_refuted_when_default_shared : forall F, f_init_copies F = false ->
  exists h i u s, nth_open h i = Some (u, s) /\ cfg_of (run F d0 h) i <> Some (own_cfg d0 u s).
Proof. exact isolation_refuted_shared_default. Qed.
Print Assumptions c06_isolation_refuted_when_default_shared.

Theorem c06_isolation_refuted_when_on_connect_foreign : forall F, f_on_connect_own F = false ->
  exists h i u s, nth_open h i = Some (u, s) /\ cfg_of (run F d0 h) i <> Some (own_cfg d0 u s).
Proof. exact isolation_refuted_foreign_on_connect. Qed.
Print Assumptions c06_isolation_refuted_when_on_connect_foreign.

Theorem c06_isolation_refuted_when_requests_write_config : forall F, f_requests_leave_config F = false ->
  exists h i u s, nth_open h i = Some (u, s) /\ cfg_of (run F d1 h) i <> Some (own_cfg d1 u s).
Proof. exact isolation_refuted_request_writes. Qed.
Print Assumptions c06_isolation_refuted_when_requests_write_config.

(* 6. Tie to the generated facts of the current source tree. *)
Theorem c06_tie :
  (forall s perm pne n o, Gen_attrpolicy.check_attr s perm pne n o = Attr.check_attr s perm pne n o) /\
  (forall s perm pne n o, Gen_attrpolicy.check_probes s perm pne n o = Attr.check_probes s perm pne n o) /\
  (forall nk hook s perm pne n o, Gen_attrpolicy.access_attr nk hook s perm pne n o =
                                  Attr.access_attr Gen_attrpolicy.decode_guarded nk hook s perm pne n o) /\
  routes_ok Gen_attrpolicy.handlers = true /\
  upd_of_pairs Gen_attrpolicy.classic_update = classic_upd /\
  Gen_attrpolicy.init_copies_defaults = true /\ Gen_attrpolicy.init_updates_own = true /\
  Gen_attrpolicy.on_connect_updates_own = true /\
  List.length Gen_attrpolicy.config_writes = 4%nat /\ List.length Gen_attrpolicy.default_config_refs = 2%nat /\
  List.length Gen_attrpolicy.safe_attrs_uses = 2%nat /\ List.length Gen_attrpolicy.restricted_hooks = 2%nat /\
  writes_at_open_only Gen_attrpolicy.config_writes = true /\
  Gen_attrpolicy.service_defines_get_hook = false /\ List.length Gen_attrpolicy.hook_definitions = 4%nat.
Proof.
  pose proof tie_config_writes as W. pose proof tie_default_config_refs as R. pose proof tie_safe_attrs_uses as S.
  pose proof tie_restricted as (H & _ & _). pose proof tie_dispatch_covered. pose proof tie_default_config.
  pose proof tie_hook_definitions as HD. pose proof tie_service_hooks as (_ & _ & _ & SG).
  repeat split; try exact SG; try (now rewrite HD); try exact tie_check_attr; try exact tie_check_probes; try exact tie_access_attr; try exact tie_routes_ok;
    try (now rewrite W); try (now rewrite R); try (now rewrite S); now rewrite H.
Qed.
Print Assumptions c06_tie.

(* ------------------------------------------------------------------ non-vacuity *)
Local Open Scope string_scope.
Definition T (s : string) : text := map Byte.to_N (list_byte_of_string s).
Definition cfg_default : cfg :=
  {| sw := Gen_attrpolicy.default_switches; exposed_prefix := T Gen_attrpolicy.default_prefix;
     safe_attrs := map T Gen_attrpolicy.default_safe_attrs |}.
Definition ob (l : list string) : obj := {| attrs := map T l; hook_get := false; hook_set := false; hook_del := false |}.
Definition hooked : obj := {| attrs := [T "secret"]; hook_get := true; hook_set := false; hook_del := false |}.
Definition public_too : cfg := apply_upd [SetSw KPublic true; SetSw KSetattr true] cfg_default.

(* the default configuration: twin granted, private refused, safe-listed allowed though absent, non-text refused,
   bytes names decoded, a bytes name that is not UTF-8 is its own class *)
Example c06_decisions_default :
  decide_gen cfg_default PGet (NStr (T "foo")) (ob ["exposed_foo"; "foo"]) = Ok (ViaDefault (T "exposed_foo")) /\
  decide_gen cfg_default PGet (NStr (T "foo")) (ob ["foo"]) = Raise AttributeError /\
  decide_gen cfg_default PGet (NStr (T "__len__")) (ob []) = Ok (ViaDefault (T "__len__")) /\
  decide_gen cfg_default PSet (NStr (T "exposed_foo")) (ob ["exposed_foo"]) = Raise AttributeError /\
  decide_gen cfg_default PGet NOther (ob ["foo"]) = Raise TypeError /\
  decide_gen cfg_default PGet (NBytes [x66; x6f; x6f]) (ob ["exposed_foo"]) = Ok (ViaDefault (T "exposed_foo")) /\
  nkind_of (NBytes [xff]) = KBytesBad /\ nkind_of (NBytes [xc3; xa9]) = KBytesOk /\
  decide_gen public_too PSet (NStr (T "foo")) (ob ["exposed_foo"; "foo"]) = Ok (ViaDefault (T "foo")) /\
  decide_gen public_too PGet (NStr (T "foo")) (ob ["exposed_foo"]) = Ok (ViaDefault (T "exposed_foo")).
Proof. vm_compute. repeat split. Qed.

(* hypotheses of 1'' are satisfiable with a non-trivial object: allowed by the public rule and by a twin at once *)
Example c06_policy_hypotheses_met :
  hook_for (ob ["exposed_foo"]) PGet = false /\ is_text (NStr (T "foo")) /\ lookup_perm (sw public_too) PGet = true /\
  allowed public_too (T "foo") /\ twin_on public_too (T "foo") (ob ["exposed_foo"]) /\
  ~ allowed cfg_default (T "_x") /\ is_text (NBytes [xc3; xa9]) /\ ~ is_text (NBytes [xff]).
Proof.
  split; [reflexivity|]. split; [left; reflexivity|]. split; [reflexivity|].
  split; [right; right; right; split; reflexivity|].
  split; [split; [reflexivity | split; [vm_compute; discriminate | vm_compute; auto]]|].
  split.
  { intros [H|[[_ H]|[[_ H]|[H _]]]]; try (vm_compute in H; discriminate). apply mem_In in H. vm_compute in H. discriminate. }
  split; [right; reflexivity|]. intros [H|H]; vm_compute in H; discriminate.
Qed.

(* a refusal that did look at the object (the twin probe), and a grant that probed both names before touching one *)
Example c06_effects :
  o_trace (handle false cfg_default PGet (NStr (T "_x")) (ob ["_x"])) = [EGet (T "exposed__x")] /\
  o_touch (handle false cfg_default PGet (NStr (T "_x")) (ob ["_x"])) = [] /\
  o_decision (handle false cfg_default PGet (NStr (T "_x")) (ob ["_x"])) = Raise AttributeError /\
  o_trace (handle false public_too PSet (NStr (T "foo")) (ob ["exposed_foo"; "foo"])) = [EGet (T "exposed_foo"); EGet (T "foo"); ESet (T "foo")] /\
  attrs (o_obj (handle false public_too PDel (NStr (T "exposed_foo")) (ob ["exposed_foo"; "foo"]))) = attrs (ob ["exposed_foo"; "foo"]).
Proof. vm_compute. repeat split. Qed.

Example c06_hook_and_restricted :
  decide_gen cfg_default PGet (NStr (T "secret")) hooked = Ok (ViaHook (T "secret")) /\
  decide_gen cfg_default PSet (NStr (T "secret")) hooked = Raise AttributeError /\
  let r := {| r_attrs := [T "read"; T "close"]; r_wattrs := Some [T "pos"]; r_under := ob ["read"; "write"; "close"] |} in
  handle_restricted false cfg_default PGet (NStr (T "read")) r = (Ok tt, [EGet (T "read")], ob ["read"; "write"; "close"]) /\
  handle_restricted false cfg_default PGet (NStr (T "write")) r = (Raise AttributeError, [], ob ["read"; "write"; "close"]) /\
  handle_restricted false cfg_default PSet (NStr (T "pos")) r = (Ok tt, [ESet (T "pos")], ob ["read"; "write"; "close"; "pos"]) /\
  handle_restricted false cfg_default PSet (NStr (T "read")) r = (Raise AttributeError, [], ob ["read"; "write"; "close"]).
Proof. vm_compute. repeat split. Qed.

Example c06_service_root_sample :
  let blanket := own_cfg cfg_default [] SvcClassic in
  allow_all (sw blanket) = true /\ allow_setattr (sw blanket) = true /\ is_text (NStr (T "pub")) /\
  handle_service true true false blanket PSet (NStr (T "pub")) [T "pub"] = (Raise AttributeError, [], svc_obj [T "pub"]) /\
  fst (fst (handle_service true true false blanket PGet (NStr (T "pub")) [T "pub"])) = Ok tt /\
  fst (fst (handle_service true true false cfg_default PGet (NStr (T "pub")) [T "pub"])) = Raise AttributeError.
Proof. vm_compute. repeat split. auto. Qed.

(* the cmp route, restricted form: comparison names pass (subject to the configuration), any other name is refused *)
Example c06_cmp_route_sample :
  let c := {| sw := Gen_attrpolicy.default_switches; exposed_prefix := text_of_string "exposed_"; safe_attrs := [text_of_string "__eq__"] |} in
  let ty := {| attrs := [text_of_string "__eq__"; text_of_string "exposed_dump"]; hook_get := false; hook_set := false; hook_del := false |} in
  decide_cmp true true c (NStr (text_of_string "__eq__")) ty = Ok (ViaDefault (text_of_string "__eq__")) /\
  decide_cmp true true c (NStr (text_of_string "dump")) ty = Raise AttributeError /\
  decide_cmp false true c (NStr (text_of_string "dump")) ty = Ok (ViaDefault (text_of_string "exposed_dump")).
Proof. vm_compute. repeat split. Qed.

Example c06_routes_nonempty :
  In ("callattr", [RHandler "getattr"; RHandler "call"])%string Gen_attrpolicy.handlers /\
  handler_perms Gen_attrpolicy.handlers "oldslicing" = [Some PGet; Some PGet] /\
  handler_perms Gen_attrpolicy.handlers "setattr" = [Some PSet] /\
  routes_ok [("setattr", [RAccess "obj" "_rpyc_setattr" "allow_getattr" "setattr"])]%string = false /\
  routes_ok [("callattr", [RRaw "getattr"])]%string = false /\
  handler_targets Gen_attrpolicy.handlers "cmp" = [Some true] /\ handler_targets Gen_attrpolicy.handlers "callattr" = [Some false] /\
  routes_ok [("getattr", [RAccess "type(obj)" "_rpyc_getattr" "allow_getattr" "getattr"])]%string = false.
Proof. vm_compute. repeat split. auto 20. Qed.

(* a history with a restrictive connection, a classic one, a permissive one, a close and requests in between *)
Definition hist : list hop :=
  [HOpen [SetSw KGetattr false] SvcPlain; HAccess 0; HOpen [SetSw KPublic true] SvcClassic; HOpen [SetSw KAll true; SetPrefix (T "x_")] SvcPlain;
   HClose 1; HAccess 2; HOpen [] SvcPlain].
Example c06_isolation_hypotheses_met :
  f_init_copies Fgen = true /\ f_on_connect_own Fgen = true /\ f_requests_leave_config Fgen = true /\
  writes_at_open_only [("rpyc/core/protocol.py:Connection._handle_getattr", "setitem:'allow_all_attrs'")]%string = false.
Proof. vm_compute. repeat split. Qed.

Example c06_isolation_sample :
  nth_open hist 0 = Some ([SetSw KGetattr false], SvcPlain) /\ nth_open hist 3 = Some ([], SvcPlain) /\
  cfg_of (run Fgen cfg_default hist) 3 = Some cfg_default /\
  option_map (fun c => allow_all (sw c)) (cfg_of (run Fgen cfg_default hist) 1) = Some true /\
  option_map (fun c => allow_all (sw c)) (cfg_of (run Fgen cfg_default hist) 0) = Some false /\
  decide_gen (own_cfg cfg_default [SetSw KPublic true] SvcClassic) PDel (NStr (T "_x")) (ob ["_x"]) = Ok (ViaDefault (T "_x")) /\
  decide_gen (own_cfg cfg_default [SetSw KGetattr false] SvcPlain) PGet (NStr (T "exposed_a")) (ob ["exposed_a"]) = Raise AttributeError.
Proof. vm_compute. repeat split. Qed.
