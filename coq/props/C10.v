(* C10 — Objects lent to the peer live exactly as long as the peer holds them.
   Only statements, [exact]s and Print Assumptions live here.  The theorems are about the model
   instantiated with the parameters regenerated from the source tree (gen/Gen_colls.v); they hold for
   every finite history of valid operations (model/Refcount.v, [op]) over any number of objects:
   send again (alone / repeatedly in one tuple, async / sync), drop one or all references to a proxy,
   operate through a proxy and pass proxies back (optionally getting the object back by reference),
   forget the object at its owner, collect results (forced delivery), deliver the next message in
   either direction, close from either side. *)
From V Require Import lib.Base model.Refcount proofs.RefcountP proofs.RefcountTie gen.Gen_colls.
Open Scope Z_scope.
Notation Pg := Gen_colls.params.

(* 1. the counting invariant: what the owner's table accounts for (count field + 1, or 0 when absent) is
      exactly: references in flight to the peer + the live proxy's count + counts of release notices in flight *)
Theorem c10_inv : forall ops k, Forall valid_op ops -> closed (run Pg ops) = false ->
  Sv (slot (run Pg ops)) k =
    refs (qab (run Pg ops)) k + pz (prox (run Pg ops) k) + dels (qba (run Pg ops)) k.
Proof. rewrite tie_params. exact count_invariant. Qed.
Print Assumptions c10_inv.

(* 2. while the peer holds a proxy -- or a reference, a release notice or a request through a proxy is still
      in flight -- the owner's connection references the object (so it is alive); in particular a release
      notice crossing a fresh reference cannot remove the entry *)
Theorem c10_alive_while_held : forall ops k, Forall valid_op ops -> closed (run Pg ops) = false ->
  held_or_in_flight (run Pg ops) k -> slot (run Pg ops) k <> None /\ alive (run Pg ops) k = true.
Proof. rewrite tie_params. exact alive_while_held. Qed.
Print Assumptions c10_alive_while_held.

(* 2'. no lookup or decref at the owner ever raises KeyError: every LOCAL_REF and every release notice finds
       its slot, in every interleaving *)
Theorem c10_no_keyerror : forall ops, Forall valid_op ops -> errs (run Pg ops) = O.
Proof. rewrite tie_params. exact no_keyerror. Qed.
Print Assumptions c10_no_keyerror.

(* 2''. reachable through every proxy the peer holds: the request is sent, it and everything before it is
        served, and nothing raises at the owner *)
Theorem c10_reachable_through_proxy : forall ops c args ret, Forall valid_op ops -> closed (run Pg ops) = false ->
  (forall k, In k (c :: args) -> holds (run Pg ops) k <> O) ->
  In (MUse c args ret) (qba (run Pg (ops ++ [Use c args ret]))) /\
  qba (run Pg ((ops ++ [Use c args ret]) ++ [Sync])) = [] /\
  errs (run Pg ((ops ++ [Use c args ret]) ++ [Sync])) = O.
Proof. rewrite tie_params. exact reachable_through_proxy. Qed.
Print Assumptions c10_reachable_through_proxy.

(* 3. once the peer has no proxy and no reference / release notice for k is in flight, the owner's connection
      no longer references k: the object lives exactly as long as its owner application keeps it *)
Theorem c10_released_at_quiescence : forall ops k, Forall valid_op ops -> closed (run Pg ops) = false ->
  refs (qab (run Pg ops)) k = 0 -> dels (qba (run Pg ops)) k = 0 -> prox (run Pg ops) k = None ->
  slot (run Pg ops) k = None /\ alive (run Pg ops) k = appref (run Pg ops) k.
Proof. rewrite tie_params. exact released_at_quiescence. Qed.
Print Assumptions c10_released_at_quiescence.

(* 3'. and that state is always reached: from any reachable open state, once everything in flight has been
       consumed, the peer drops every proxy of the objects ks and the owner processes the release notices,
       the owner's connection references none of them (no leak at quiescence after arbitrarily long histories) *)
Theorem c10_release_after_drop : forall ops ks, Forall valid_op ops -> closed (run Pg ops) = false ->
  let s := run Pg (ops ++ [Sync; Sync] ++ map DropAll ks ++ [Sync]) in
  closed s = false /\ qba s = [] /\ norefs (qab s) /\
  forall k, In k ks -> prox s k = None /\ slot s k = None /\ alive s k = appref s k.
Proof. rewrite tie_params. exact release_after_drop. Qed.
Print Assumptions c10_release_after_drop.

(* 4. closing (by either side) releases everything, after any history at all -- also one with a misbehaving
      peer -- and nothing comes back afterwards *)
Theorem c10_close_releases : forall ops b more k,
  closed (run Pg (ops ++ Close b :: more)) = true /\ slot (run Pg (ops ++ Close b :: more)) k = None.
Proof. rewrite tie_params. exact close_releases. Qed.
Print Assumptions c10_close_releases.

(* ---- non-vacuity ---- *)
(* the race of the property text: object 0 is sent twice in one tuple, the peer drops its proxy (release
   notice for 2 in flight), the owner sends the object again, the notice is delivered while the fresh
   reference is still in flight, then the reference arrives *)
Definition crossing : list op :=
  [Send [0; 0]; DeliverAB; DropAll 0; Send [0]; DeliverBA; DeliverBA; DeliverAB]%nat.
Example c10_crossing_race :
  Forall valid_op crossing /\
  (let s := run Pg (firstn 4 crossing) in
     slot s 0%nat = Some 2 /\ prox s 0%nat = None /\ refs (qab s) 0%nat = 1 /\ dels (qba s) 0%nat = 2) /\
  (let s := run Pg (firstn 6 crossing) in slot s 0%nat = Some 0 /\ prox s 0%nat = None /\ refs (qab s) 0%nat = 1) /\
  (let s := run Pg crossing in
     closed s = false /\ slot s 0%nat = Some 0 /\ prox s 0%nat = Some 1 /\ holds s 0%nat = 1%nat /\ errs s = O /\
     held_or_in_flight s 0%nat).
Proof.
  split; [repeat constructor|]. vm_compute. repeat split; try reflexivity. left. discriminate.
Qed.

(* all three terms of the invariant non-zero at once, two objects *)
Example c10_inv_nontrivial :
  let ops := [Send [0; 0; 1]; DeliverAB; DropAll 0; Send [0]; DeliverAB; Send [0; 1]]%nat in
  let s := run Pg ops in
  Forall valid_op ops /\ closed s = false /\ slot s 0%nat = Some 3 /\
  refs (qab s) 0%nat = 1 /\ pz (prox s 0%nat) = 1 /\ dels (qba s) 0%nat = 2 /\ slot s 1%nat = Some 1.
Proof. cbn zeta. split; [repeat constructor|]. vm_compute. repeat split; reflexivity. Qed.

(* quiescence is reached and the entry is gone; the object then lives only through its owner *)
Example c10_quiescence_reached :
  let ops := crossing ++ [Use 0 [0] true; Sync; Sync; DropAll 0; Sync; Forget 0]%nat in
  let s := run Pg ops in
  Forall valid_op ops /\ closed s = false /\ refs (qab s) 0%nat = 0 /\ dels (qba s) 0%nat = 0 /\ prox s 0%nat = None /\
  slot s 0%nat = None /\ alive s 0%nat = false /\ errs s = O /\
  slot (run Pg (crossing ++ [Use 0 [0] true; Sync; Sync]%nat)) 0%nat = Some 1.
Proof. cbn zeta. split; [repeat constructor|]. vm_compute. repeat split; reflexivity. Qed.

(* dropping and draining from a state with references, proxies and notices in flight, three objects *)
Example c10_release_after_drop_nontrivial :
  let ops := [Send [0; 1; 1; 2]; DeliverAB; DropAll 1; Send [1; 2]; Use 0 [2] true; DeliverBA; DeliverBA]%nat in
  let s := run Pg ops in
  Forall valid_op ops /\ closed s = false /\ slot s 0%nat = Some 0 /\ slot s 1%nat = Some 0 /\ slot s 2%nat = Some 1 /\
  List.length (qab s) = 2%nat /\ List.length (qba s) = 1%nat /\
  let s' := run Pg (ops ++ [Sync; Sync] ++ map DropAll [0; 1; 2]%nat ++ [Sync]) in
  slot s' 0%nat = None /\ slot s' 1%nat = None /\ slot s' 2%nat = None.
Proof. cbn zeta. split; [repeat constructor|]. vm_compute. repeat split; reflexivity. Qed.

(* a proxy held by the peer is usable *)
Example c10_reachable_nontrivial :
  holds (run Pg crossing) 0%nat <> O /\ In (MUse 0 [0]%nat true) (qba (run Pg (crossing ++ [Use 0 [0] true]%nat))).
Proof. vm_compute. split; [discriminate|]. right. now left. Qed.

(* closing with entries present *)
Example c10_close_nontrivial :
  slot (run Pg [Send [0; 1]; DeliverAB]%nat) 0%nat = Some 0 /\
  slot (run Pg ([Send [0; 1]; DeliverAB] ++ Close false :: [Send [0]])%nat) 0%nat = None /\
  slot (run Pg ([Send [0; 1]; DeliverAB; DropAll 1] ++ Close true :: [])%nat) 1%nat = None.
Proof. vm_compute. repeat split; reflexivity. Qed.

(* the parameters matter: with `<=` instead of `<` in decref the crossing race loses the entry while the
   peer holds a proxy (the model follows the generated parameters, the theorems need the generated ones) *)
Example c10_le_would_break :
  let P := {| p_add_init := 0; p_add_inc := 1; p_dec_cmp := CLe; p_dec_default := 1; p_proxy_init := 1;
              p_unbox_inc := 1; p_del_src := DRefcount; p_cleanup_clears := true |} in
  let ops := [Send [0]; DeliverAB; DropAll 0; Send [0]; DeliverBA; DeliverBA; DeliverAB]%nat in
  slot (run P ops) 0%nat = None /\ prox (run P ops) 0%nat = Some 1.
Proof. vm_compute. split; reflexivity. Qed.
