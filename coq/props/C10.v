(* C10 — Objects lent to the peer live exactly as long as the peer holds them.
   Only statements, [exact]s and Print Assumptions live here.

   SCOPE (what these theorems are about, and what they are not about).
   The theorems speak about the model model/Refcount.v instantiated with the parameters regenerated from the
   source tree (gen/Gen_colls.v), for every finite history over any number of objects of the operations [op]:
   send again (alone / repeatedly in one tuple, async / sync, also to a peer function that raises), drop one
   or all references to a proxy, operate through a proxy and pass proxies back (plain answer / the object comes
   back by reference / the call raises), forget the object at its owner, collect results (forced delivery),
   deliver the next message in either direction, close from either side (also while the before_closed hook or
   the service's on_disconnect raises), and keep using the closed connection.
   Exclusions, stated as hypotheses or by the choice of [run]:
   * the lent objects are objects whose proxy class the peer already knows (builtin types), so that unboxing a
     reference needs no nested HANDLE_INSPECT exchange and the peer has at most one live proxy per object.
     USER-CLASS INSTANCES, CLASSES AND MODULES ARE NOT COVERED BY THESE THEOREMS (for them one delivery may
     consume several messages and several proxies of one object may be alive); the harness evaluates the
     property's statement on them directly, after every step;
   * [valid_op]: the peer only sends release notices / local references it is entitled to, and the key of a lent
     object (rpyc.lib.get_id_pack) does not change while it is lent ([Morph]; see c10_unstable_key_refuted);
   * [calm_op] (theorems 3c, 3'): moreover no remote call raises; otherwise the connection that served the call
     keeps the traceback, and with it the lent object / the proxies (see 3r, 3'r);
   * theorems 4, 4': the generated close-path facts; 4' speaks about operations issued on the connection after the
     close has returned -- a callee that closes the connection while it is being served and then returns by
     reference is the subject of 4'' / 4''r;
   * every call's arguments and every result can be boxed and encoded, and the peer can unbox what it receives
     (no sibling in the same message fails to box, to encode, or to unbox at the peer).  What the code does
     otherwise is stated by the operations [SendFail], [ReplyFail], [SendBadSibling] (not [valid_op]s) and the
     theorems 5, 5r, 6r: on the pinned tree such a failure leaks the siblings passed by reference. *)
From V Require Import lib.Base model.Refcount proofs.RefcountP proofs.RefcountTie gen.Gen_colls.
Open Scope Z_scope.
Notation Pg := Gen_colls.params.

(* 1. the counting invariant: what the owner's table accounts for (count field + 1, or 0 when absent) is
      exactly: references in flight to the peer + the live proxy's count + counts of release notices in flight *)
Theorem c10_inv : forall ops k, Forall valid_op ops -> closed (run Pg ops) = false ->
  Sv (slot (run Pg ops)) k =
    refs (qab (run Pg ops)) k + pz (prox (run Pg ops) k) + dels (qba (run Pg ops)) k.
Proof. rewrite tie_params. apply count_invariant. Qed.
Print Assumptions c10_inv.

(* 2. while the peer holds a proxy -- or a reference, a release notice or a request through a proxy is still
      in flight -- the owner's table references the object (so it is alive); in particular a release notice
      crossing a fresh reference cannot remove the entry *)
Theorem c10_alive_while_held : forall ops k, Forall valid_op ops -> closed (run Pg ops) = false ->
  held_or_in_flight (run Pg ops) k -> slot (run Pg ops) k <> None /\ alive (run Pg ops) k = true.
Proof. rewrite tie_params. apply alive_while_held. Qed.
Print Assumptions c10_alive_while_held.

(* 2'. no lookup or decref at the owner ever raises KeyError: every LOCAL_REF and every release notice finds
       its slot, in every interleaving *)
Theorem c10_no_keyerror : forall ops, Forall valid_op ops -> errs (run Pg ops) = O.
Proof. rewrite tie_params. apply no_keyerror. Qed.
Print Assumptions c10_no_keyerror.

(* 2''. reachable through every proxy the peer holds: the request is sent; when the owner has worked through its
        stream up to and including it, no KeyError was raised and the last message the owner sent is the answer
        the callee determines ([answer]: plain value / the object by reference / the callee's own exception) *)
Theorem c10_use_is_served : forall ops c args md, Forall valid_op ops -> closed (run Pg ops) = false ->
  (forall k, In k (c :: args) -> holds (run Pg ops) k <> O) ->
  let s1 := run Pg (ops ++ [Use c args md]) in
  let s2 := run Pg ((ops ++ [Use c args md]) ++ repeat DeliverBA (List.length (qba s1))) in
  qba s1 = qba (run Pg ops) ++ [MUse c args md] /\ closed s2 = false /\ qba s2 = [] /\ errs s2 = O /\
  exists pre, qab s2 = pre ++ [answer args md].
Proof. rewrite tie_params. apply use_is_served. Qed.
Print Assumptions c10_use_is_served.

(* 3. once the peer has no proxy and no reference / release notice for k is in flight, the owner's table no
      longer references k; the object then lives through its owner application -- or through the frames of the
      owner connection's last traceback (a remote call on it raised) *)
Theorem c10_released_at_quiescence : forall ops k, Forall valid_op ops -> closed (run Pg ops) = false ->
  refs (qab (run Pg ops)) k = 0 -> dels (qba (run Pg ops)) k = 0 -> prox (run Pg ops) k = None ->
  slot (run Pg ops) k = None /\ alive (run Pg ops) k = appref (run Pg ops) k || mem k (tbo (run Pg ops)).
Proof. rewrite tie_params. apply released_at_quiescence. Qed.
Print Assumptions c10_released_at_quiescence.

(* 3c. ... exactly as long as its owner application keeps it, when no remote call raised *)
Theorem c10_released_at_quiescence_calm : forall ops k, Forall calm_op ops -> closed (run Pg ops) = false ->
  refs (qab (run Pg ops)) k = 0 -> dels (qba (run Pg ops)) k = 0 -> prox (run Pg ops) k = None ->
  slot (run Pg ops) k = None /\ alive (run Pg ops) k = appref (run Pg ops) k.
Proof.
  rewrite tie_params. intros ops k Hc Ho Hr Hd Hp.
  destruct (released_at_quiescence _ _ _ _ _ ops k (calm_valid_all ops Hc) Ho Hr Hd Hp) as [A B]. split; [exact A|].
  rewrite B, (q_tbo _ (run_quiet _ _ _ _ _ ops Hc)). apply orb_false_r.
Qed.
Print Assumptions c10_released_at_quiescence_calm.

(* 3r. the full statement "lives exactly as long as held" fails after a raising call (the generated fact
       keeps_last_traceback, tied in RefcountTie): released, forgotten, and still alive *)
Theorem c10_alive_exact_refuted : exists ops k,
  Forall valid_op ops /\ closed (run Pg ops) = false /\
  refs (qab (run Pg ops)) k = 0 /\ dels (qba (run Pg ops)) k = 0 /\
  prox (run Pg ops) k = None /\ slot (run Pg ops) k = None /\
  appref (run Pg ops) k = false /\ alive (run Pg ops) k = true.
Proof. rewrite tie_params. apply alive_exact_refuted. Qed.
Print Assumptions c10_alive_exact_refuted.

(* 3'. and that state is always reached: from any reachable open state of a history without raising calls, once
       everything in flight has been consumed, the peer drops every proxy of the objects ks and the owner
       processes the release notices, the owner's connection references none of them (no leak at quiescence
       after arbitrarily long histories) *)
Theorem c10_release_after_drop : forall ops ks, Forall calm_op ops -> closed (run Pg ops) = false ->
  let s := run Pg (ops ++ [Sync; Sync] ++ map DropAll ks ++ [Sync]) in
  closed s = false /\ qba s = [] /\ norefs (qab s) /\
  forall k, In k ks -> prox s k = None /\ slot s k = None /\ alive s k = appref s k.
Proof. rewrite tie_params. apply release_after_drop. Qed.
Print Assumptions c10_release_after_drop.

(* 3'r. with a raising call served by the peer it fails: the peer application holds nothing, both streams are
        empty, and the owner's entry stays (the proxy lives on in the peer connection's last traceback) *)
Theorem c10_release_after_drop_refuted : exists ops k,
  Forall valid_op ops /\ closed (run Pg ops) = false /\
  let s := run Pg (ops ++ [Sync; Sync] ++ map DropAll [k] ++ [Sync]) in
  closed s = false /\ qab s = [] /\ qba s = [] /\ holds s k = O /\ prox s k = Some 1 /\ slot s k = Some 0.
Proof. rewrite tie_params. apply release_after_drop_refuted. Qed.
Print Assumptions c10_release_after_drop_refuted.

(* 3''r. why the key of a lent object has to be stable: _handle_del recomputes it (get_id_pack(obj)); after a
         change the release notice raises KeyError at the owner and the entry is never released *)
Theorem c10_unstable_key_refuted : exists ops k,
  Forall valid_op ops /\
  let s := run Pg (ops ++ [Morph k; DropAll k; Sync; Sync]) in
  closed s = false /\ qba s = [] /\ prox s k = None /\ holds s k = O /\ errs s = 1%nat /\ slot s k = Some 0.
Proof. rewrite tie_params. apply unstable_key_refuted. Qed.
Print Assumptions c10_unstable_key_refuted.

(* 4. closing (by either side, after any history at all, also with a misbehaving peer): at the instant of the
      close every entry is gone, provided the closing connection reaches its clear -- always when no hook raises;
      with a raising before_closed hook iff close() calls _cleanup in a finally; with a raising on_disconnect iff
      the clear in _cleanup is guarded against it *)
Theorem c10_close_releases : forall ops b f k, closed (run Pg ops) = false -> close_reaches_clear Pg b f = true ->
  closed (run Pg (ops ++ [Close b f])) = true /\ slot (run Pg (ops ++ [Close b f])) k = None /\
  alive (run Pg (ops ++ [Close b f])) k = appref (run Pg (ops ++ [Close b f])) k.
Proof. rewrite tie_params. apply close_releases_now. Qed.
Print Assumptions c10_close_releases.

(* 4'. and nothing comes back afterwards, whatever operation is issued on the closed connection after the close has
       returned -- when lending through a closed connection is refused before anything is boxed.  (Not covered
       here: a result boxed by a request that was being served while the connection closed, see 4''.) *)
Theorem c10_close_stays_released : Gen_colls.send_checks_closed = true ->
  forall ops b f more k, closed (run Pg ops) = false -> close_reaches_clear Pg b f = true ->
  closed (run Pg (ops ++ Close b f :: more)) = true /\ slot (run Pg (ops ++ Close b f :: more)) k = None.
Proof. rewrite tie_params. intros H ops b f more k. now apply close_stays_released. Qed.
Print Assumptions c10_close_stays_released.

(* 4''. a callee that closes the owner's connection while it is being served and then returns an object by reference:
        nothing is registered when the reply path refuses before boxing on a closed channel ... *)
Theorem c10_close_in_callee_releases : Gen_colls.reply_checks_closed = true -> forall s c r k, closed s = false ->
  closed (step Pg (CloseInCallee c r) s) = true -> slot (step Pg (CloseInCallee c r) s) k = None.
Proof. rewrite tie_params. intros ->. apply close_in_callee_releases. Qed.
Print Assumptions c10_close_in_callee_releases.
(* 4''r. ... and otherwise the returned object is registered in the table of the closed connection for ever *)
Theorem c10_close_in_callee_refuted : Gen_colls.reply_checks_closed = false -> exists ops k,
  Forall valid_op ops /\ closed (run Pg ops) = false /\
  closed (run Pg (ops ++ [CloseInCallee k k])) = true /\ slot (run Pg (ops ++ [CloseInCallee k k])) k = Some 0.
Proof. rewrite tie_params. intros ->. apply close_in_callee_refuted. Qed.
Print Assumptions c10_close_in_callee_refuted.

(* 5. a call whose arguments (or whose result) cannot all be boxed and encoded: when what _box registered is given back
      on failure, a failed call leaves the state as it was, a failed reply leaves the table as it was *)
Theorem c10_failed_send_harmless : Gen_colls.failed_send_releases = true -> forall s ks c r k, closed s = false ->
  step Pg (SendFail ks) s = s /\ slot (step Pg (ReplyFail c r) s) k = slot (sync Pg (sync Pg s)) k.
Proof. rewrite tie_params. intros -> s ks c r k H. split; [now apply failed_send_harmless|now apply failed_reply_harmless]. Qed.
Print Assumptions c10_failed_send_harmless.
(* 5r. otherwise the siblings passed by reference leak on an open, healthy connection: after everything has been
       delivered and every proxy dropped the entry is still there *)
Theorem c10_failed_send_refuted : Gen_colls.failed_send_releases = false ->
  (exists ops k, let s := run Pg (ops ++ [Sync; Sync] ++ map DropAll [k] ++ [Sync]) in
     closed s = false /\ qab s = [] /\ qba s = [] /\ prox s k = None /\ holds s k = O /\ errs s = O /\ slot s k = Some 0) /\
  (exists ops k, let s := run Pg (ops ++ [Sync; Sync] ++ map DropAll [k] ++ [Sync; Sync]) in
     closed s = false /\ qab s = [] /\ qba s = [] /\ prox s k = None /\ holds s k = O /\ errs s = O /\ slot s k = Some 0).
Proof. rewrite tie_params. intros ->. split; [apply failed_send_refuted|apply failed_reply_refuted]. Qed.
Print Assumptions c10_failed_send_refuted.
(* 6r. a reference the peer consumed without producing a proxy (the unboxing of a sibling failed: its INSPECT raised at
       the owner) is never given back: same end state *)
Theorem c10_lost_reference_refuted : exists ops k,
  let s := run Pg (ops ++ [Sync; Sync] ++ map DropAll [k] ++ [Sync]) in
  closed s = false /\ qab s = [] /\ qba s = [] /\ prox s k = None /\ holds s k = O /\ errs s = O /\ slot s k = Some 0.
Proof. rewrite tie_params. apply lost_reference_refuted. Qed.
Print Assumptions c10_lost_reference_refuted.

(* 4r. what happens when the close-path facts are false *)
Theorem c10_close_stays_released_refuted : Gen_colls.send_checks_closed = false -> exists ops more k,
  Forall valid_op (ops ++ Close false FNone :: more) /\ closed (run Pg ops) = false /\
  slot (run Pg (ops ++ [Close false FNone])) k = None /\
  closed (run Pg (ops ++ Close false FNone :: more)) = true /\
  slot (run Pg (ops ++ Close false FNone :: more)) k = Some 0.
Proof. rewrite tie_params. intros ->. apply close_stays_released_refuted. Qed.
Print Assumptions c10_close_stays_released_refuted.
Theorem c10_close_releases_refuted_on_disconnect : Gen_colls.cleanup_guarded = false -> exists ops b k,
  closed (run Pg ops) = false /\ closed (run Pg (ops ++ [Close b FDisc])) = true /\
  slot (run Pg (ops ++ [Close b FDisc])) k = Some 0.
Proof. rewrite tie_params. intros ->. apply close_releases_refuted_disc. Qed.
Print Assumptions c10_close_releases_refuted_on_disconnect.
Theorem c10_close_releases_refuted_before_closed : Gen_colls.close_finally = false -> exists ops k,
  closed (run Pg ops) = false /\ closed (run Pg (ops ++ [Close false FHook])) = true /\
  slot (run Pg (ops ++ [Close false FHook])) k = Some 0.
Proof. rewrite tie_params. intros ->. apply close_releases_refuted_hook. Qed.
Print Assumptions c10_close_releases_refuted_before_closed.

(* ---- non-vacuity ---- *)
(* the race of the property text: object 0 is sent twice in one tuple, the peer drops its proxy (release
   notice for 2 in flight), the owner sends the object again, the notice is delivered while the fresh
   reference is still in flight, then the reference arrives *)
Definition crossing : list op :=
  [Send [0; 0]; DeliverAB; DropAll 0; Send [0]; DeliverBA; DeliverBA; DeliverAB]%nat.
Example c10_crossing_race :
  Forall calm_op crossing /\
  (let s := run Pg (firstn 4 crossing) in
     slot s 0%nat = Some 2 /\ prox s 0%nat = None /\ refs (qab s) 0%nat = 1 /\ dels (qba s) 0%nat = 2) /\
  (let s := run Pg (firstn 6 crossing) in slot s 0%nat = Some 0 /\ prox s 0%nat = None /\ refs (qab s) 0%nat = 1) /\
  (let s := run Pg crossing in
     closed s = false /\ slot s 0%nat = Some 0 /\ prox s 0%nat = Some 1 /\ holds s 0%nat = 1%nat /\ errs s = O /\
     held_or_in_flight s 0%nat).
Proof.
  split; [repeat constructor|]. vm_compute. repeat split; try reflexivity. left. discriminate.
Qed.

(* all three terms of the invariant non-zero at once, two objects, with a raising call in the history *)
Example c10_inv_nontrivial :
  let ops := [Send [0; 0; 1]; DeliverAB; DropAll 0; SendRaise [1]; Send [0]; DeliverAB; DeliverAB; Send [0; 1]]%nat in
  let s := run Pg ops in
  Forall valid_op ops /\ closed s = false /\ slot s 0%nat = Some 3 /\
  refs (qab s) 0%nat = 1 /\ pz (prox s 0%nat) = 1 /\ dels (qba s) 0%nat = 2 /\ slot s 1%nat = Some 2 /\ pz (prox s 1%nat) = 2.
Proof. cbn zeta. split; [repeat constructor|]. vm_compute. repeat split; reflexivity. Qed.

(* quiescence is reached and the entry is gone; the object then lives only through its owner *)
Example c10_quiescence_reached :
  let ops := crossing ++ [Use 0 [0] URet; Sync; Sync; DropAll 0; Sync; Forget 0]%nat in
  let s := run Pg ops in
  Forall calm_op ops /\ closed s = false /\ refs (qab s) 0%nat = 0 /\ dels (qba s) 0%nat = 0 /\ prox s 0%nat = None /\
  slot s 0%nat = None /\ alive s 0%nat = false /\ errs s = O /\
  slot (run Pg (crossing ++ [Use 0 [0] URet; Sync; Sync]%nat)) 0%nat = Some 1.
Proof. cbn zeta. split; [repeat constructor|]. vm_compute. repeat split; reflexivity. Qed.

(* dropping and draining from a state with references, proxies and notices in flight, three objects *)
Example c10_release_after_drop_nontrivial :
  let ops := [Send [0; 1; 1; 2]; DeliverAB; DropAll 1; Send [1; 2]; Use 0 [2] URet; DeliverBA; DeliverBA]%nat in
  let s := run Pg ops in
  Forall calm_op ops /\ closed s = false /\ slot s 0%nat = Some 0 /\ slot s 1%nat = Some 0 /\ slot s 2%nat = Some 1 /\
  List.length (qab s) = 2%nat /\ List.length (qba s) = 1%nat /\
  let s' := run Pg (ops ++ [Sync; Sync] ++ map DropAll [0; 1; 2]%nat ++ [Sync]) in
  slot s' 0%nat = None /\ slot s' 1%nat = None /\ slot s' 2%nat = None.
Proof. cbn zeta. split; [repeat constructor|]. vm_compute. repeat split; reflexivity. Qed.

(* a proxy held by the peer is used, behind a release notice of an earlier proxy of the same object: the answer
   is the object itself by reference *)
Example c10_use_is_served_nontrivial :
  let ops := crossing ++ [Send [0]; DropAll 0; DeliverAB; DeliverAB]%nat in
  holds (run Pg ops) 0%nat <> O /\ qba (run Pg ops) <> [] /\ answer [0%nat] URet = MReplyRef (Some 0%nat) /\
  List.length (qba (run Pg (ops ++ [Use 0 [0] URet]%nat))) = 4%nat.
Proof. vm_compute. repeat split; try reflexivity; discriminate. Qed.

(* closing with entries present; with the before_closed hook raising (the tree calls _cleanup in a finally) *)
Example c10_close_nontrivial :
  slot (run Pg [Send [0; 1]; DeliverAB]%nat) 0%nat = Some 0 /\
  close_reaches_clear Pg false FNone = true /\ close_reaches_clear Pg true FHook = true /\
  slot (run Pg ([Send [0; 1]; DeliverAB] ++ [Close false FNone])%nat) 0%nat = None /\
  slot (run Pg ([Send [0; 1]; DeliverAB; DropAll 1] ++ [Close true FNone])%nat) 1%nat = None.
Proof. vm_compute. repeat split; reflexivity. Qed.

(* the parameters matter: with `<=` instead of `<` in decref the crossing race loses the entry while the
   peer holds a proxy (the model follows the generated parameters, the theorems need the generated ones) *)
Example c10_le_would_break :
  let P := {| p_add_init := 0; p_add_inc := 1; p_dec_cmp := CLe; p_dec_default := 1; p_proxy_init := 1;
              p_unbox_inc := 1; p_del_src := DRefcount; p_cleanup_clears := true;
              p_send_checks_closed := true; p_cleanup_guarded := true; p_close_finally := true;
              p_failed_send_releases := true; p_reply_checks_closed := true |} in
  let ops := [Send [0]; DeliverAB; DropAll 0; Send [0]; DeliverBA; DeliverBA; DeliverAB]%nat in
  slot (run P ops) 0%nat = None /\ prox (run P ops) 0%nat = Some 1.
Proof. vm_compute. split; reflexivity. Qed.
