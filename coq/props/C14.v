(* C14 — A waiter returns as soon as its reply has been processed by any thread.
   On the current tree this is FALSE (finding F5): serve() gives up the receive lock and notifies before it dispatches,
   and a waiter that takes the free lock in that window blocks in poll() on a stream from which its reply is already gone.
   Both directions are machine-checked: the refutation with an explicit schedule, and the theorem that this window
   (the waiter polling an empty stream, or sleeping behind a thread that is about to notify) is where a held-up waiter is found,
   and (history) that a polling waiter got there straight from a readiness test made before the dispatch. *)
From V Require Import lib.Base model.Serve proofs.ServeP proofs.ServeG proofs.ServeL proofs.ServeTie gen.Gen_serve.

Fixpoint runl (s : st) (evs : list (label * nat)) : option st :=
  match evs with [] => Some s | (l, i) :: r => match step l i s with Some s' => runl s' r | None => None end end.

(* the witness: W = thread 0 (client), B = thread 1 (background server) *)
Definition stall_schedule : list (label * nat) :=
  [(LIssue, 0); (LIssue, 1); (LAnswer 0, 0);
   (LStep, 1); (LStep, 1);        (* B: loop test, takes the receive lock *)
   (LStep, 1);                    (* B: reads W's reply from the stream *)
   (LStep, 1);                    (* B: releases the receive lock *)
   (LStep, 0); (LStep, 0);        (* W: not ready yet -> serve -> takes the free lock, now polling an empty stream *)
   (LStep, 1); (LStep, 1)].       (* B: notify_all, then dispatches W's reply: the result is ready *)

Lemma runl_reach s0 : forall l s1 s, reach s0 s1 -> runl s1 l = Some s -> reach s0 s.
Proof.
  induction l as [|[lb i] r IH]; intros s1 s R H; cbn in H.
  - injection H as <-. exact R.
  - destruct (step lb i s1) as [s2|] eqn:E; [|discriminate]. apply (IH s2 s); [econstructor; eauto|exact H].
Qed.

Theorem c14_prompt_refuted : exists s, reach (init (fun i => Nat.eqb i 1)) s /\ stalled s 0.
Proof.
  assert (H : exists s, runl (init (fun i => Nat.eqb i 1)) stall_schedule = Some s /\ stalled s 0).
  { eexists. split; [vm_compute; reflexivity|]. exists 0. vm_compute. repeat split. }
  destruct H as (s & Hr & Hs). exists s. split; [|exact Hs].
  apply (runl_reach _ stall_schedule _ s (r0 _)). exact Hr.
Qed.
Print Assumptions c14_prompt_refuted.

(* the complement, as far as a model without a clock can say it: a waiter whose reply has been processed and that cannot take a program
   step NOW (it has neither returned nor given up) is polling an empty stream itself, or asleep on the condition with some thread still
   due to notify. This classifies the blocked states; that such a waiter then stays blocked until a timeout or new traffic is the
   refutation above (and c13_completion_refuted_without_deadline for waits without a deadline); "how late" is measured by the harness
   in virtual time, which also checks from the event trace that every late waiter entered through this window *)
Theorem c14_only_this_window : forall servers s w q, reach (init servers) s ->
  myseq (thrs s w) = Some q -> ready s q = true -> tpc (thrs s w) <> Returned -> tpc (thrs s w) <> TimedOut -> step LStep w s = None ->
  (tpc (thrs s w) = S2 /\ inbox s = []) \/ (tpc (thrs s w) = Asleep /\ exists h, will_notify (tpc (thrs s h)) = true).
Proof. intros servers s w q R. apply blocked_only_in_window; [exact (invA_reach _ _ R)|exact (invB_reach _ _ R)]. Qed.
Print Assumptions c14_only_this_window.

(* the window as HISTORY (proofs/ServeG.v: a ghost layer over the same transition system records, per thread, how many dispatches had
   happened at its last readiness test and whether it has slept on the condition since): in every execution, a waiter that is past
   its test - trying for the lock, holding it, polling - made that test when its reply had NOT been dispatched yet, and has not slept
   since: it came straight from the test. So the held-up waiters of c14_only_this_window that poll are exactly those that tested just
   before the dispatch; a thread that is woken from the condition goes back to the test first (with its reply processed it returns).
   This is what the harness checks on the event trace of the real code before it files a lateness under the known finding. *)
Theorem c14_window_entered_from_the_test : forall servers s g w q, greach (init servers) s g ->
  myseq (thrs s w) = Some q -> past_test (tpc (thrs s w)) = true ->
  ~ In q (firstn (tlen g w) (dispatched s)) /\ slept g w = false.
Proof. exact window_entered_from_the_test. Qed.
Print Assumptions c14_window_entered_from_the_test.
Theorem c14_every_execution_has_its_ghost : forall servers s, reach (init servers) s -> exists g, greach (init servers) s g.
Proof. intros servers s. apply reach_greach. Qed.
Print Assumptions c14_every_execution_has_its_ghost.
(* non-vacuity: along the refutation's schedule W (thread 0) ends polling with its reply dispatched; its last test saw 0 dispatches *)
Fixpoint grunl (s : st) (g : ghost) (evs : list (label * nat)) : option (st * ghost) :=
  match evs with [] => Some (s, g) | (l, i) :: r => match step l i s with Some s' => grunl s' (gupd l i s g) r | None => None end end.
Example c14_window_sample :
  match grunl (init (fun i => Nat.eqb i 1)) g_init stall_schedule with
  | Some (s, g) => tpc (thrs s 0) = S2 /\ dispatched s = [0] /\ tlen g 0 = 0 /\ slept g 0 = false /\ ready s 0 = true
  | None => False
  end.
Proof. vm_compute. repeat split. Qed.

(* the BOUNDED half (proofs/ServeL.v): the hold-up above is never a deadlock and never longer than one timeout of the waiter itself.
   From every reachable state in which the waiter's reply has been processed and the waiter is anywhere inside wait()/serve(), the
   waiter's OWN moves - its next program step whenever it has one, its poll()/Condition.wait() timeout when it has none - bring it to
   Returned within six moves, at most one of them a timeout; no step of any other thread, no further traffic, no notification is
   needed. (own_n n w s = Some (s', t): after at most n own moves of w from s the state is s', t timeouts were used.) *)
Theorem c14_late_waiter_returns_alone : forall servers s w q, reach (init servers) s ->
  myseq (thrs s w) = Some q -> ready s q = true -> in_loop (tpc (thrs s w)) = true ->
  exists s' t, own_n 6 w s = Some (s', t) /\ tpc (thrs s' w) = Returned /\ t <= 1.
Proof.
  intros servers s w q R Hm Hr Hl.
  destruct (late_waiter_returns_alone s w q (invA_reach _ _ R) (invB_reach _ _ R) Hm Hr Hl) as (s' & t & H & Hret).
  exists s', t. split; [exact H|]. split; [exact Hret|].
  exact (at_most_one_timeout 6 s w q s' t (invA_reach _ _ R) (invB_reach _ _ R) Hm Hr Hl H).
Qed.
Print Assumptions c14_late_waiter_returns_alone.
(* ... and a timeout is needed ONLY in the window of c14_only_this_window or one step before it (near_window: asleep; polling an empty
   stream; at the try-acquire with the lock taken, or with the lock free and nothing to read): everywhere else a waiter whose reply
   has been processed returns by program steps alone - "as soon as", in the property's words *)
Theorem c14_timeout_needed_only_near_the_window : forall servers n s w q s' t, reach (init servers) s ->
  myseq (thrs s w) = Some q -> ready s q = true -> in_loop (tpc (thrs s w)) = true ->
  own_n n w s = Some (s', t) -> t <> 0 -> near_window s w.
Proof.
  intros servers n s w q s' t R. apply alone_needs_timeout_only_in_window; [exact (invA_reach _ _ R)|exact (invB_reach _ _ R)].
Qed.
Print Assumptions c14_timeout_needed_only_near_the_window.
(* non-vacuity: at the end of the refutation's schedule W is polling an empty stream with its reply dispatched; alone it returns in
   five moves, exactly one of them its timeout (S2 -timeout-> S3 -> S4 -> LoopTest -> Returned) *)
Example c14_stalled_waiter_gets_out_by_its_timeout :
  match runl (init (fun i => Nat.eqb i 1)) stall_schedule with
  | Some s => match own_n 6 0 s with Some (s', t) => tpc (thrs s' 0) = Returned /\ t = 1 | None => False end
  | None => False
  end.
Proof. vm_compute. split; reflexivity. Qed.

(* the generated program has the order the refutation uses: release, notify_all, then dispatch *)
Theorem c14_program_is_current : Gen_serve.serve_prog = Serve.serve_prog.
Proof. exact tie_serve_prog. Qed.
Print Assumptions c14_program_is_current.
