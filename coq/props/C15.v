(* C15 — Asynchronous results: one final outcome, callbacks once, timeouts exact.
   Only statements, [exact]s / short glue and Print Assumptions live here.
   Vocabulary (model/Async.v): a [world] is the virtual clock, the AsyncResult, whether the connection still holds our
   request's callback, the scripted byte stream (first-byte clock, completion clock, message), the callback log, the two
   generated facts [iso] (a raising callback does not stop the others) and [atom] (add_callback is atomic w.r.t. the
   arrival), a registration in flight on a second thread, and three ghost logs (registrations; dispatches with the clock
   at the first byte, at frame completion and at the end; the instant the result became ready).  [run_w w acts] runs ANY
   list of caller actions (advance the clock, add_callback of a recording or raising callback, a registration split into
   test and append around other actions, set_expiry, ready / error / expired / value queries, wait, serve) from w.

   SCOPE (stated here once, repeated where it matters):
     - "a reply ARRIVES" means: its frame has been completely RECEIVED BY A THREAD OF THE CALLER (the instant [rc] of the
       dispatch log), not the instant the peer put it on the wire: a reply that sits unread in the socket while the caller
       does something else until after the expiry has not arrived, the result is Expired (c15_ex_late, c15_ex_unread).
     - the dispatch of a frame, including all callbacks it triggers, is ONE step of the model: a callback registered by a
       second thread while the callbacks of the arrival are still running is ordered after that loop in the model; in the
       code it runs at once, i.e. possibly before callbacks registered earlier have finished ("at once, if registered
       afterwards" still holds, the relative order of a late registration and a running loop is not claimed).
     - "a callback raises" means: raises an Exception.  A callback that raises a BaseException (KeyboardInterrupt,
       SystemExit, GeneratorExit) still loses the callbacks behind it on a tree whose loop catches `Exception` only
       (finding callbacks:aborted-by-baseexception-callback, found by the harness oracle; not in the model).

   The property's own clauses are stated in full below.  Four of them do NOT hold on the current tree in all generality;
   each is proved under an explicit hypothesis and refuted by a witness where the hypothesis fails:
     - "reply came first => value"           needs replies whose value is materialised instantly   (c15_timely_reply_discarded_refuted)
     - "not later unless busy serving"       needs that and frames that arrive whole               (c15_wait_late_without_serving_refuted)
     - "every callback exactly once"         needs isolated callbacks, or none that raises         (c15_callbacks_refuted_when_not_isolated)
     -   the same, over schedules            needs atomic registration, or none split              (c15_callbacks_refuted_when_not_atomic)
     - "the timeout error ... never earlier"  needs that materialising the reply does not time out  (c15_value_timeout_error_before_expiry_refuted) *)
From V Require Import lib.Base model.Async proofs.AsyncP proofs.AsyncTie gen.Gen_libinit gen.Gen_async_.
From Coq Require Import String.
Open Scope Z_scope.

(* how a result comes into being: async_request(timeout=t) or timed(proxy, t)(..) on a fresh connection whose stream
   will deliver q; sending takes sd ticks; tb decides ties between an arrival and a poll deadline; i, a are the two facts *)
Definition start (timed : bool) (t : option Z) (sd : N) (t0 : Z) (tb i a : bool) (q : list (Z * Z * msg)) : world :=
  if timed then timed_call t sd (fresh t0 tb i a q) else async_request t sd (fresh t0 tb i a q).
(* ... with the facts of the current source tree *)
Definition start_gen timed t sd t0 tb q := start timed t sd t0 tb Gen_async_.callbacks_isolated Gen_async_.add_callback_atomic q.

Lemma start_flags timed t sd t0 tb i a q : iso (start timed t sd t0 tb i a q) = i /\ atom (start timed t sd t0 tb i a q) = a.
Proof. unfold start, timed_call, async_request. destruct timed, t; split; reflexivity. Qed.
Lemma start_good timed t sd t0 tb i a q : good (start timed t sd t0 tb i a q).
Proof.
  unfold start, timed_call, async_request, good, inv0. destruct timed, t; cbn; (split; [discriminate|]);
    split; cbn; try discriminate; auto; right; constructor.
Qed.
Lemma start_chr timed t sd t0 tb i a q : chr (ttl (res (start timed t sd t0 tb i a q))) (start timed t sd t0 tb i a q).
Proof. unfold start, timed_call, async_request, chr. destruct timed, t; cbn; auto. Qed.
Lemma start_sound timed t sd t0 tb i a q : disp_sound (start timed t sd t0 tb i a q) /\ queue (start timed t sd t0 tb i a q) = q /\
  g_disp (start timed t sd t0 tb i a q) = [] /\ g_regs (start timed t sd t0 tb i a q) = [] /\ pend (start timed t sd t0 tb i a q) = None.
Proof. unfold start, timed_call, async_request, disp_sound. destruct timed, t; cbn; repeat split; constructor. Qed.

(* 1. ONE OUTCOME, DECIDED BY WHAT COMES FIRST.  For every way of creating the result, every stream script, every
      timeout value (none, zero, negative, positive), both values of both facts and every history of caller actions that
      leaves the expiry alone: the outcome is Got exactly when the reply was DECIDED -- its frame complete and its value
      materialised -- at a clock value before the expiry, Expired when the expiry passed first (whether or not the reply
      came later), Pending otherwise.  [first_reply] = (clock frame complete, clock decided, exception?, value). *)
Theorem c15_outcome_first_of_decision_and_expiry : forall timed t sd t0 tb i a q acts, no_set_expiry acts ->
  let w0 := start timed t sd t0 tb i a q in
  let w := run_w w0 acts in
  outcome_of w = match first_reply (g_disp w) with
                 | Some (_, td, e, v) => if expired_at (ttl (res w0)) td then Expired else Got e v
                 | None => if expired_at (ttl (res w0)) (now w) then Expired else Pending
                 end.
Proof. intros. apply outcome_first_of_decision_and_expiry; [assumption|apply start_chr]. Qed.
Print Assumptions c15_outcome_first_of_decision_and_expiry.

(* the statement's clause ("pending until its reply ARRIVES or its expiry passes, whichever happens first"): holds when no
   reply needs time to be materialised; the arrival is the instant the reply's frame is complete *)
Theorem c15_outcome_first_of_arrival_and_expiry : forall timed t sd t0 tb i a q acts, no_set_expiry acts -> instant_replies q ->
  let w0 := start timed t sd t0 tb i a q in
  let w := run_w w0 acts in
  outcome_of w = match first_reply (g_disp w) with
                 | Some (tc, _, e, v) => if expired_at (ttl (res w0)) tc then Expired else Got e v
                 | None => if expired_at (ttl (res w0)) (now w) then Expired else Pending
                 end.
Proof.
  intros timed t sd t0 tb i a q acts N IR. cbn zeta. destruct (start_sound timed t sd t0 tb i a q) as (S & Q & G & _).
  apply outcome_first_of_arrival_and_expiry; [assumption|apply start_chr|exact S|].
  unfold all_instant. rewrite Q, G. split; [assumption|constructor].
Qed.
Print Assumptions c15_outcome_first_of_arrival_and_expiry.

(* ... and is false otherwise (finding timely-reply-discarded:decided-after-unboxing): expiry 5, the reply's frame is
   complete at 4 but its value (a proxy of an unseen class) is there at 7: the result is Expired, wait raises at 7 *)
Theorem c15_timely_reply_discarded_refuted : forall i a, exists q acts, no_set_expiry acts /\
  let w0 := start false (Some 5) 0 0 false i a q in
  let w := run_w w0 acts in
  first_reply (g_disp w) = Some (4, 7, false, 42) /\ expired_at (ttl (res w0)) 4 = false /\ outcome_of w = Expired /\
  snd (run_hist w0 acts) = [(OTimeout, 7)] /\ g_disp w = [(4, 4, 7, Reply false 42 3)].
Proof. intros i a. exists [(4, 4, Reply false 42 3)], [Wait]. destruct i, a; vm_compute; repeat split. Qed.
Print Assumptions c15_timely_reply_discarded_refuted.

(* materialising a reply's value is bounded by the connection's configured sync_request_timeout: a class inquiry the peer
   needs u >= cfg ticks for times out after cfg ticks and the request receives that timeout error as ITS exception *)
Theorem c15_materialisation_bounded : forall c e v u,
  (0 <= c -> c <= Z.of_N u -> (0 < u)%N -> bound_reply (Some c) (Reply e v u) = Reply true tmark (Z.to_N c)) /\
  (forall cfg, timeout_finite cfg = false \/ Z.of_N u < oz cfg \/ u = 0%N -> bound_reply cfg (Reply e v u) = Reply e v u).
Proof. intros. split; [apply bound_reply_times_out|intros; now apply bound_reply_in_time]. Qed.
Print Assumptions c15_materialisation_bounded.

(* ... so "the timeout error is raised at the expiry, never earlier" is false for .value (finding
   value:timeout-error-from-materialising-reply): no expiry at all (and expiry 40), configured timeout 8, the reply's frame
   complete at 4, the peer never answers the class inquiry: .value raises the connection's timeout error at 12; the result
   is ready (with that error), not expired *)
Theorem c15_value_timeout_error_before_expiry_refuted : forall i a t, t = None \/ t = Some 40 ->
  let w0 := start false t 0 0 false i a (norm_queue (Some 8) [(4, 4, Reply false 42 130)]) in
  snd (run_hist w0 [QValue; QExpired; QReady]) = [(ORaise tmark, 12); (OBool false, 12); (OBool true, 12)].
Proof. intros i a t [-> | ->]; destruct i, a; vm_compute; reflexivity. Qed.
Print Assumptions c15_value_timeout_error_before_expiry_refuted.

(* 1a. a value is final: whatever happens afterwards (including set_expiry, further replies, any traffic, raising callbacks) *)
Theorem c15_value_is_final : forall timed t sd t0 tb i a q acts1 acts2 e v,
  let w := run_w (start timed t sd t0 tb i a q) acts1 in
  outcome_of w = Got e v -> outcome_of (run_w w acts2) = Got e v.
Proof. intros. apply got_final; [apply inv0_run, start_good|assumption]. Qed.
Print Assumptions c15_value_is_final.

(* ... and it is available at once, at the same clock, without touching the state *)
Theorem c15_value_available : forall w e v, outcome_of w = Got e v ->
  step w QReady = (w, OBool true) /\ step w QError = (w, OBool e) /\ step w QExpired = (w, OBool false) /\
  step w Wait = (w, ONone) /\ step w QValue = (w, if e then ORaise v else OVal v).
Proof. exact got_observations. Qed.
Print Assumptions c15_value_available.

(* 1b. expiry is final (until the caller arms a new expiry with set_expiry): the outcome stays Expired, the callback
       log, the stored value and exception flag never change -- a reply arriving afterwards is discarded *)
Theorem c15_expiry_is_final : forall w acts, no_set_expiry acts -> outcome_of w = Expired ->
  let w' := run_w w acts in
  outcome_of w' = Expired /\ log w' = log w /\ is_exc (res w') = is_exc (res w) /\ obj (res w') = obj (res w) /\ ttl (res w') = ttl (res w).
Proof. exact expired_final. Qed.
Print Assumptions c15_expiry_is_final.

Theorem c15_expired_observations : forall w, outcome_of w = Expired ->
  step w QReady = (w, OBool false) /\ step w QError = (w, OBool false) /\ step w QExpired = (w, OBool true) /\
  step w Wait = (w, OTimeout) /\ step w QValue = (w, OTimeout).
Proof. exact expired_observations. Qed.
Print Assumptions c15_expired_observations.

(* 1c. the instant of decision: dispatching the reply of a pending result accepts it iff the clock, once its value has been
       materialised, is before the expiry; a late reply changes nothing and runs no callback *)
Theorem c15_reply_decides : forall w r e v u, registered w = true -> ready (res w) = false ->
  let w' := fst (dispatch w r (Reply e v u)) in
  let t := now w + Z.of_N u in
  registered w' = false /\ now w' = t /\
  if expired_at (ttl (res w)) t
  then outcome_of w' = Expired /\ res w' = res w /\ log w' = log w
  else outcome_of w' = Got e v /\ (cb_ok w -> log w' = log w ++ at_clock t (callbacks (res w))).
Proof. exact reply_decides. Qed.
Print Assumptions c15_reply_decides.

(* 2. CALLBACKS.  In every history (set_expiry allowed) in which no raising callback is registered unless callbacks are
      isolated, and no registration is split over a second thread unless registration is atomic ([ok_acts i a]): with a
      value, the callback log is exactly the registration sequence -- every registered callback once, in registration order,
      run at max(registration, arrival), i.e. at the arrival for those registered before it and immediately for those
      registered later; without a value nothing ever ran and all registered callbacks are still waiting. *)
Theorem c15_callbacks_once_in_order : forall timed t sd t0 tb i a q acts, ok_acts i a acts ->
  let w := run_w (start timed t sd t0 tb i a q) acts in
  map fst (g_regs w) = reg_ids None acts /\
  match outcome_of w with
  | Got _ _ => exists tg, g_got w = Some tg /\ log w = map (fun r => (fst r, Z.max (snd r) tg)) (g_regs w) /\
                          map fst (log w) = reg_ids None acts /\ callbacks (res w) = []
  | _ => log w = [] /\ map fst (callbacks (res w)) = reg_ids None acts
  end.
Proof.
  intros timed t sd t0 tb i a q acts OK. destruct (start_flags timed t sd t0 tb i a q) as (Fi & Fa).
  destruct (start_sound timed t sd t0 tb i a q) as (_ & _ & _ & Gr & Pn).
  destruct (callbacks_once_in_order (start timed t sd t0 tb i a q) acts (start_good _ _ _ _ _ _ _ _) Gr Pn) as (A & B).
  { now rewrite Fi, Fa. }
  cbn zeta in *. split; [exact A|]. destruct (outcome_of _).
  - destruct B as (B1 & B2). split; [exact B1|]. now rewrite B2.
  - destruct B as (tg & B1 & B2 & B3). exists tg. repeat split; auto. rewrite B2, cb_times_ids. exact A.
  - destruct B as (B1 & B2). split; [exact B1|]. now rewrite B2.
Qed.
Print Assumptions c15_callbacks_once_in_order.

(* every history OF THE MODEL is admissible once both facts hold (the repaired form).  PARTIAL with respect to the statement
   (see SCOPE): the model's raising callbacks raise an Exception, and a registration by a second thread is atomic with respect
   to the whole callback loop of the arrival.  Full statement, not proved: "for callbacks raising anything, and registrations
   interleaved with a running callback loop, every registered callback runs exactly once, in registration order". *)
Theorem c15_callbacks_all_histories_when_isolated_and_atomic_partial : forall acts, ok_acts true true acts.
Proof. unfold ok_acts. induction acts as [|[ ] l IH]; cbn; auto. Qed.
Print Assumptions c15_callbacks_all_histories_when_isolated_and_atomic_partial.

(* ... and clause 2 is false on a tree whose callback loop is the plain one (finding callbacks:aborted-by-raising-callback):
   callback 1 raises at the arrival, callback 2 never runs, wait lets callback 1's exception through although the value is
   there, and callback 3, registered later, runs at once -- overtaking 2 *)
Theorem c15_callbacks_refuted_when_not_isolated : forall a, exists q acts,
  let w0 := start false (Some 40) 0 0 false false a q in
  let w := run_w w0 acts in
  outcome_of w = Got false 42 /\ reg_ids None acts = [1%N; 2%N; 3%N] /\ map fst (log w) = [1%N; 3%N] /\
  map fst (callbacks (res w)) = [1%N; 2%N] /\ map fst (snd (run_hist w0 acts)) = [ONone; ONone; OCbExc 1; ONone].
Proof.
  intros a. exists [(3, 3, Reply false 42 0)], [AddCb 1 true; AddCb 2 false; Wait; AddCb 3 false]. destruct a; vm_compute; repeat split.
Qed.
Print Assumptions c15_callbacks_refuted_when_not_isolated.

(* ... and over schedules it is false on a tree whose add_callback is not atomic (finding callbacks:lost-in-registration-race):
   a second thread tests readiness (not ready), the serving thread dispatches the reply, the second thread appends: the
   result has its value, the callback is registered and never runs *)
Theorem c15_callbacks_refuted_when_not_atomic : forall i, exists q acts,
  let w := run_w (start false None 0 0 false i false q) acts in
  outcome_of w = Got false 42 /\ log w = [] /\ map fst (callbacks (res w)) = [1%N] /\ map fst (g_regs w) = [1%N].
Proof.
  intros i. exists [(3, 3, Reply false 42 0)], [AddCbTest 1 false; Wait; AddCbCommit; QValue]. destruct i; vm_compute; repeat split.
Qed.
Print Assumptions c15_callbacks_refuted_when_not_atomic.

(* 3. WAIT IS EXACT.  wait on a pending result with a finite expiry tm, started at clock t0: it receives and dispatches some
      frames ds, each first seen at a clock in [t0, tm] (tm itself only when the stream reports data that arrives exactly at
      the deadline), complete at rc, done at rc + duration; it either returns because the reply made the result ready (or
      lets the exception of one of that reply's callbacks through: the result is ready then, too), or raises the timeout
      error at clock max(t0, tm, end of the last receive-and-dispatch) -- never before tm, and later than max(t0, tm) only
      if the last thing this thread did was a frame first seen no later than tm that kept it receiving beyond tm or
      dispatching for a positive time until exactly then. *)
Theorem c15_wait_exact : forall w, ready (res w) = false -> finite (ttl (res w)) = true ->
  let tm := tmax (ttl (res w)) in
  let w' := fst (ar_wait w) in let o := snd (ar_wait w) in
  exists ds, g_disp w' = g_disp w ++ ds /\ Forall (disp_ok (queue w) (now w) tm (tie w)) ds /\
    (o = ONone \/ o = OTimeout \/ exists c, o = OCbExc c) /\
    (o <> OTimeout -> ready (res w') = true) /\
    (o = OTimeout -> ready (res w') = false /\ tm <= now w' /\ now w' = Z.max (Z.max (now w) tm) (last_end ds (now w))) /\
    (o = OTimeout -> Z.max (now w) tm < now w' ->
       exists ds' r rc m, ds = ds' ++ [(r, rc, now w', m)] /\ r <= tm /\ now w' = rc + dur m /\ (tm < rc \/ 0 < dur m)).
Proof. exact wait_exact. Qed.
Print Assumptions c15_wait_exact.

(* the statement's clause ("not later unless the waiting thread is itself busy serving a request"), as far as it holds: when
   frames arrive whole and no reply needs time to be materialised, the last dispatch is ANOTHER message received whole at
   r <= tm that kept the thread busy for d > 0 ticks until exactly the instant of the error -- an unrelated REQUEST being
   served, or the reply to another pending request of the same connection whose callbacks ran that long (callbacks run on
   the thread that dispatches the reply; finding wait:late-timeout:running-callbacks-of-another-result) *)
Theorem c15_wait_late_only_when_serving : forall w, ready (res w) = false -> finite (ttl (res w)) = true ->
  whole_frames (queue w) -> instant_replies (queue w) ->
  let tm := tmax (ttl (res w)) in
  let w' := fst (ar_wait w) in
  snd (ar_wait w) = OTimeout -> Z.max (now w) tm < now w' ->
  exists ds' r m d, (m = Traffic d \/ m = Stray d) /\
    g_disp w' = g_disp w ++ ds' ++ [(r, r, now w', m)] /\ r <= tm /\ now w' = r + Z.of_N d /\ (0 < d)%N.
Proof. exact wait_late_only_when_serving. Qed.
Print Assumptions c15_wait_late_only_when_serving.

(* ... and is false otherwise (findings wait:late-timeout:blocked-receiving-a-frame and timely-reply-discarded:...): expiry 5;
   (i) the first bytes of a frame nobody waits for are there at 1, the rest at 9: recv() has no deadline, wait raises at 9;
   (ii) a reply complete at 4 whose value is materialised at 7: wait raises at 7.  No request was served in either. *)
Theorem c15_wait_late_without_serving_refuted : forall i a,
  (let w := start false (Some 5) 0 0 false i a [(1, 9, Stray 0)] in
   ar_wait w = (fst (ar_wait w), OTimeout) /\ now (fst (ar_wait w)) = 9 /\ g_disp (fst (ar_wait w)) = [(1, 9, 9, Stray 0)]) /\
  (let w := start false (Some 5) 0 0 false i a [(4, 4, Reply false 42 3)] in
   ar_wait w = (fst (ar_wait w), OTimeout) /\ now (fst (ar_wait w)) = 7 /\ g_disp (fst (ar_wait w)) = [(4, 4, 7, Reply false 42 3)]) /\
  (* (iii) whole frames, instant replies: the reply to ANOTHER pending request arrives at 3, its callbacks run 10 ticks *)
  (let w := start false (Some 5) 0 0 false i a [(3, 3, Stray 10)] in
   ar_wait w = (fst (ar_wait w), OTimeout) /\ now (fst (ar_wait w)) = 13 /\ g_disp (fst (ar_wait w)) = [(3, 3, 13, Stray 10)]).
Proof. intros i a. destruct i, a; vm_compute; repeat split. Qed.
Print Assumptions c15_wait_late_without_serving_refuted.

(* nothing receivable up to the expiry: the error is raised exactly at the expiry instant (at once if it already passed),
   and nothing else changed *)
Theorem c15_wait_exact_idle : forall w, ready (res w) = false -> finite (ttl (res w)) = true ->
  let tm := tmax (ttl (res w)) in
  (match queue w with [] => True | (a, _, _) :: _ => tm < a \/ (tm = a /\ tie w = false /\ now w < tm) end) ->
  ar_wait w = (set_now w (Z.max (now w) tm), OTimeout).
Proof. exact wait_exact_idle. Qed.
Print Assumptions c15_wait_exact_idle.

(* no finite expiry (timeout None or negative): wait never raises the timeout error *)
Theorem c15_wait_without_expiry : forall w, finite (ttl (res w)) = false -> snd (ar_wait w) <> OTimeout.
Proof. exact wait_never_times_out_without_expiry. Qed.
Print Assumptions c15_wait_without_expiry.

(* all timeout values: None and negative never expire, zero expires at once, z >= 0 expires exactly from now + z on *)
Theorem c15_timeout_values : forall now z t,
  expired_at (mk_timeout now None) t = false /\
  (z < 0 -> expired_at (mk_timeout now (Some z)) t = false) /\
  (0 <= z -> expired_at (mk_timeout now (Some z)) t = (now + z <=? t)) /\
  expired_at (mk_timeout now (Some 0)) now = true.
Proof.
  intros. split; [apply mk_timeout_none_never|]. split; [apply mk_timeout_negative_never|]. split; [apply mk_timeout_expired|].
  rewrite mk_timeout_expired by lia. lia.
Qed.
Print Assumptions c15_timeout_values.

(* 4. A SYNCHRONOUS REQUEST is an asynchronous one carrying the configured timeout, followed by .value; so is every
      synchronous operation on a proxy (netref.syncreq hands it to the connection's sync_request); timed(p, t)(..) is an
      asynchronous one followed by set_expiry(t); the expiry is armed after the request was sent *)
Theorem c15_sync_is_async : forall cfg_timeout sd w,
  sync_request cfg_timeout sd w = step (async_request cfg_timeout sd w) QValue.
Proof. exact sync_is_async_then_value. Qed.
Print Assumptions c15_sync_is_async.

Theorem c15_proxy_operation_is_sync_request : forall cfg own sd t0 w,
  let f := cexec cfg own sd Gen_async_.netref_syncreq {| c_w := w; c_timeout := t0; c_ret := None |} in
  (c_w f, c_ret f) = (fst (step (async_request (cfg "sync_request_timeout"%string) sd w) QValue),
                      Some (snd (step (async_request (cfg "sync_request_timeout"%string) sd w) QValue))) /\
  c_w (cexec cfg own sd Gen_async_.netref_asyncreq {| c_w := w; c_timeout := t0; c_ret := None |}) = async_request None sd w.
Proof. intros cfg own sd t0 w. cbn zeta. rewrite tie_syncreq, tie_asyncreq. split; [apply cexec_syncreq|apply cexec_asyncreq]. Qed.
Print Assumptions c15_proxy_operation_is_sync_request.

Theorem c15_timed_is_async_then_set_expiry : forall t sd w,
  timed_call t sd w = fst (step (async_request None sd w) (SetExpiry t)).
Proof. exact timed_is_async_then_set_expiry. Qed.
Print Assumptions c15_timed_is_async_then_set_expiry.

Theorem c15_expiry_armed_after_send : forall t sd w,
  let w' := async_request t sd w in
  now w' = now w + Z.of_N sd /\ registered w' = true /\ ready (res w') = false /\
  ttl (res w') = match t with None => never | Some _ => mk_timeout (now w + Z.of_N sd) t end.
Proof. exact async_request_arms_after_send. Qed.
Print Assumptions c15_expiry_armed_after_send.

(* 5. TIE.  What the translator reads in the current source tree is what the model uses: Timeout's four functions; the
      bodies of the eight AsyncResult methods (__call__ and add_callback in their current or repaired form, the two facts
      being read off those bodies), of sync_request / async_request / syncreq / asyncreq / timed.__call__ as skeleton
      programs; the order "unbox, then callback" in _dispatch; and interpreting those programs gives exactly the functions
      the theorems above speak about, for a world carrying the generated facts. *)
Theorem c15_tie :
  Gen_libinit.Timeout_init_finite = timeout_finite /\ Gen_libinit.Timeout_init_tmax = timeout_tmax /\
  Gen_libinit.Timeout_expired = timeout_expired /\ Gen_libinit.Timeout_timeleft = timeout_timeleft /\
  Gen_async_.callbacks_isolated = isolated_of Gen_async_.AsyncResult_call /\
  Gen_async_.add_callback_atomic = atomic_of Gen_async_.AsyncResult_call Gen_async_.AsyncResult_add_callback /\
  Gen_async_.Connection_dispatch_reply = dispatch_reply_order /\
  (forall w e v c r t, iso w = Gen_async_.callbacks_isolated ->
     exec Gen_async_.AsyncResult_call (mkargs e v c r t) w = (fst (ar_call w e v), obs_of_exc (snd (ar_call w e v)))) /\
  (forall w e v c r t, atom w = Gen_async_.add_callback_atomic ->
     exec Gen_async_.AsyncResult_add_callback (mkargs e v c r t) w = (fst (ar_add_callback w c r), obs_of_exc (snd (ar_add_callback w c r)))) /\
  (forall x w, exec Gen_async_.AsyncResult_wait x w = ar_wait w) /\
  (forall w e v c r t, fst (exec Gen_async_.AsyncResult_set_expiry (mkargs e v c r t) w) = ar_set_expiry w t) /\
  (forall x w, exec Gen_async_.AsyncResult_ready x w = q_ready w) /\
  (forall x w, exec Gen_async_.AsyncResult_error x w = q_error w) /\
  (forall x w, exec Gen_async_.AsyncResult_expired x w = (w, OBool (ar_expired (res w) (now w)))) /\
  (forall x w, exec Gen_async_.AsyncResult_value x w = q_value w) /\
  (forall cfg own sd t w, c_w (cexec cfg own sd Gen_async_.Connection_async_request {| c_w := w; c_timeout := t; c_ret := None |})
                          = async_request t sd w) /\
  (forall cfg own sd t0 w, let f := cexec cfg own sd Gen_async_.Connection_sync_request {| c_w := w; c_timeout := t0; c_ret := None |} in
        (c_w f, c_ret f) = (fst (sync_request (cfg "sync_request_timeout"%string) sd w),
                            Some (snd (sync_request (cfg "sync_request_timeout"%string) sd w)))) /\
  (forall cfg own sd t0 w, c_w (cexec cfg own sd Gen_async_.timed_call_body {| c_w := w; c_timeout := t0; c_ret := None |})
                           = timed_call own sd w).
Proof.
  pose proof tie_facts as (F1 & F2).
  rewrite tie_timeout_finite, tie_timeout_tmax, tie_timeout_expired, tie_timeout_timeleft, tie_dispatch_reply,
    tie_wait, tie_set_expiry, tie_ready, tie_error, tie_expired, tie_value, tie_async_request, tie_sync_request, tie_timed_call.
  repeat match goal with |- _ /\ _ => split end;
    first [reflexivity | exact F1 | exact F2
          | (intros w e v c r t H; rewrite tie_call, <- H; apply exec_call)
          | (intros w e v c r t H; rewrite tie_add_callback, <- H; apply exec_add_callback)
          | exact exec_wait | exact exec_set_expiry | exact exec_ready | exact exec_error | exact exec_expired | exact exec_value
          | exact cexec_async_request | exact cexec_sync_request | exact cexec_timed_call].
Qed.
Print Assumptions c15_tie.

(* the harness runs [run_hist]; its final world is [run_w]'s *)
Theorem c15_harness_runs_the_same_function : forall acts w, fst (run_hist w acts) = run_w w acts.
Proof. exact run_hist_run_w. Qed.
Print Assumptions c15_harness_runs_the_same_function.

(* ---- non-vacuity: concrete histories meeting the hypotheses ---- *)
(* reply (value 42) arrives whole at 3, expiry 5: callbacks 7 (registered at 0, runs at 3), 8 (registered at 4, runs at 4)
   and 9 (registration split over a second thread, committed at 4); admissible for the current tree's facts *)
Definition h_got : list action :=
  [AddCb 7 false; Wait; Advance 1; AddCb 8 false; QValue; SetExpiry (Some 0); Advance 9; QReady].
Example c15_ex_got :
  let w := run_w (start_gen false (Some 5) 0 0 false [(3, 3, Reply false 42 0)]) h_got in
  ok_acts Gen_async_.callbacks_isolated Gen_async_.add_callback_atomic h_got /\ instant_replies [(3, 3, Reply false 42 0)] /\
  outcome_of w = Got false 42 /\ log w = [(7%N, 3); (8%N, 4)] /\ reg_ids None h_got = [7%N; 8%N] /\
  first_reply (g_disp w) = Some (3, 3, false, 42).
Proof. vm_compute. repeat split; repeat constructor. Qed.
(* with both facts (the repaired form) raising callbacks and split registrations are admissible and all run once, in order *)
Definition h_rep : list action := [AddCb 1 true; AddCbTest 2 false; Wait; AddCbCommit; AddCb 3 true; QValue].
Example c15_ex_repaired :
  let w := run_w (start false (Some 40) 0 0 false true true [(3, 3, Reply false 42 0)]) h_rep in
  ok_acts true true h_rep /\ outcome_of w = Got false 42 /\ map fst (log w) = [1%N; 2%N; 3%N] /\ reg_ids None h_rep = [1%N; 2%N; 3%N].
Proof. vm_compute. repeat split. Qed.

(* expiry 5, unrelated request at 2 keeps the thread busy for 6 ticks: wait raises at 8; the reply that arrived at 4 is
   dispatched at 8 by a later serve and discarded; no callback ever runs *)
Definition h_late : list action := [AddCb 1 false; Wait; Serve (Some 0); QExpired; AddCb 2 false; Advance 3; QReady].
Example c15_ex_late :
  let q := [(2, 2, Traffic 6); (4, 4, Reply false 9 0)] in
  let w0 := start_gen true (Some 5) 0 0 true q in
  no_set_expiry h_late /\ whole_frames q /\ instant_replies q /\
  snd (run_hist w0 h_late) = [(ONone, 0); (OTimeout, 8); (OBool true, 8); (OBool true, 8); (ONone, 8); (ONone, 11); (OBool false, 11)] /\
  let w := run_w w0 h_late in
  outcome_of w = Expired /\ log w = [] /\ map fst (callbacks (res w)) = [1%N; 2%N] /\ first_reply (g_disp w) = Some (8, 8, false, 9) /\
  expired_at (ttl (res w0)) 8 = true.
Proof. vm_compute. repeat split; repeat constructor; discriminate. Qed.

(* "arrives" = received by a thread of the caller: the reply is on the wire, whole, at 1; expiry 5; the caller does something
   else until 10 and only then looks: expired, the late look discards the reply *)
Example c15_ex_unread :
  let w := run_w (start_gen false (Some 5) 0 0 false [(1, 1, Reply false 42 0)]) [Advance 10; QExpired; Serve (Some 0); QReady] in
  outcome_of w = Expired /\ first_reply (g_disp w) = Some (10, 10, false, 42) /\ log w = [].
Proof. vm_compute. repeat split. Qed.
(* hypotheses of c15_wait_exact / _idle are satisfiable: pending, sent at 3, finite expiry at 8, nothing receivable before 9 *)
Example c15_ex_wait_idle :
  let w := start_gen false (Some 5) 1 2 false [(9, 9, Reply true 1 0)] in
  ready (res w) = false /\ finite (ttl (res w)) = true /\ tmax (ttl (res w)) = 8 /\ ar_wait w = (set_now w 8, OTimeout).
Proof. vm_compute. repeat split. Qed.
(* tie at the deadline, both ways: data seen at the deadline is dispatched but the reply is late by then *)
Example c15_ex_tie :
  snd (ar_wait (start_gen false (Some 5) 0 0 true [(5, 5, Reply false 1 0)])) = OTimeout /\
  snd (ar_wait (start_gen false (Some 5) 0 0 false [(5, 5, Reply false 1 0)])) = OTimeout /\
  snd (ar_wait (start_gen false (Some 5) 0 0 false [(4, 4, Reply false 1 0)])) = ONone /\
  snd (ar_wait (start_gen false (Some 5) 0 0 false [(3, 4, Reply false 1 1)])) = OTimeout /\
  snd (ar_wait (start_gen false (Some 0) 0 0 false [(0, 0, Reply false 1 0)])) = OTimeout /\
  snd (ar_wait (start_gen false (Some (-3)) 0 0 false [(40, 40, Reply false 1 0)])) = ONone /\
  snd (ar_wait (start_gen false None 0 0 false [])) = OHang.
Proof. vm_compute. repeat split. Qed.
(* a synchronous request with configured timeout 3 and a reply at 3: timeout error exactly at 3 *)
Example c15_ex_sync :
  let r := sync_request (Some 3) 0 (fresh 0 false false false [(3, 3, Reply false 5 0)]) in snd r = OTimeout /\ now (fst r) = 3.
Proof. vm_compute. repeat split. Qed.
