(* C15 — Asynchronous results: one final outcome, callbacks once, timeouts exact.
   Only statements, [exact]s / short glue and Print Assumptions live here.
   Vocabulary (model/Async.v): a [world] is the virtual clock, the AsyncResult, whether the connection still holds our
   request's callback, the scripted channel, the callback log and three ghost logs (registrations, dispatches with the
   clock at receipt and at the end, the instant the result became ready).  [run_w w acts] runs ANY list of caller actions
   (advance the clock, add_callback, set_expiry, ready / error / expired / value queries, wait, serve) from w. *)
From V Require Import lib.Base model.Async proofs.AsyncP proofs.AsyncTie gen.Gen_libinit gen.Gen_async_.
From Coq Require Import String.
Open Scope Z_scope.

(* how a result comes into being: async_request(timeout=t) or timed(proxy, t)(..) on a fresh connection whose channel
   will deliver q; sending takes sd ticks; tb decides ties between an arrival and a poll deadline *)
Definition start (timed : bool) (t : option Z) (sd : N) (t0 : Z) (tb : bool) (q : list (Z * msg)) : world :=
  if timed then timed_call t sd (fresh t0 tb q) else async_request t sd (fresh t0 tb q).

Lemma start_inv timed t sd t0 tb q : inv (start timed t sd t0 tb q).
Proof.
  unfold start, timed_call. destruct timed; [apply inv_set_expiry|]; apply inv_async_request; reflexivity.
Qed.
Lemma start_chr timed t sd t0 tb q : chr (ttl (res (start timed t sd t0 tb q))) (start timed t sd t0 tb q).
Proof. unfold start, timed_call, async_request, chr. destruct timed, t; cbn; auto. Qed.

(* 1. ONE OUTCOME, DECIDED BY WHAT COMES FIRST.  For every way of creating the result, every channel script, every
      timeout value (none, zero, negative, positive) and every history of caller actions that leaves the expiry alone:
      the outcome is Got exactly when the reply was dispatched at a clock value before the expiry, Expired when the
      expiry passed first (whether or not the reply came later), Pending otherwise. *)
Theorem c15_outcome_first_of_reply_and_expiry : forall timed t sd t0 tb q acts, no_set_expiry acts ->
  let w0 := start timed t sd t0 tb q in
  let w := run_w w0 acts in
  outcome_of w = match first_reply (g_disp w) with
                 | Some (tr, e, v) => if expired_at (ttl (res w0)) tr then Expired else Got e v
                 | None => if expired_at (ttl (res w0)) (now w) then Expired else Pending
                 end.
Proof. intros. apply outcome_first_of_reply_and_expiry; [assumption|apply start_chr]. Qed.
Print Assumptions c15_outcome_first_of_reply_and_expiry.

(* 1a. a value is final: whatever happens afterwards (including set_expiry, further replies, any traffic) *)
Theorem c15_value_is_final : forall timed t sd t0 tb q acts1 acts2 e v,
  let w := run_w (start timed t sd t0 tb q) acts1 in
  outcome_of w = Got e v -> outcome_of (run_w w acts2) = Got e v.
Proof. intros. apply got_final; [apply run_w_inv, start_inv|assumption]. Qed.
Print Assumptions c15_value_is_final.

(* ... and it is available at once, at the same clock, without touching the state *)
Theorem c15_value_available : forall w e v, outcome_of w = Got e v ->
  step w QReady = (w, OBool true) /\ step w QError = (w, OBool e) /\ step w QExpired = (w, OBool false) /\
  step w Wait = (w, ONone) /\ step w QValue = (w, if e then ORaise v else OVal v).
Proof. exact got_observations. Qed.
Print Assumptions c15_value_available.

(* 1b. expiry is final (until the caller arms a new expiry with set_expiry): the outcome stays Expired, the callback
       log, the stored value and exception flag never change -- a reply arriving afterwards is discarded *)
Theorem c15_expiry_is_final : forall w acts, no_set_expiry acts -> outcome_of w = Expired ->
  let w' := run_w w acts in
  outcome_of w' = Expired /\ log w' = log w /\ is_exc (res w') = is_exc (res w) /\ obj (res w') = obj (res w) /\ ttl (res w') = ttl (res w).
Proof. exact expired_final. Qed.
Print Assumptions c15_expiry_is_final.

Theorem c15_expired_observations : forall w, outcome_of w = Expired ->
  step w QReady = (w, OBool false) /\ step w QError = (w, OBool false) /\ step w QExpired = (w, OBool true) /\
  step w Wait = (w, OTimeout) /\ step w QValue = (w, OTimeout).
Proof. exact expired_observations. Qed.
Print Assumptions c15_expired_observations.

(* 1c. the instant of decision: dispatching the reply of a pending result accepts it iff the clock is before the expiry;
       a late reply changes nothing and runs no callback *)
Theorem c15_reply_decides : forall w e v, registered w = true -> ready (res w) = false ->
  let w' := dispatch w (Reply e v) in
  registered w' = false /\ now w' = now w /\
  if expired_at (ttl (res w)) (now w)
  then outcome_of w' = Expired /\ res w' = res w /\ log w' = log w
  else outcome_of w' = Got e v /\ log w' = log w ++ map (fun c => (c, now w)) (callbacks (res w)).
Proof. exact reply_decides. Qed.
Print Assumptions c15_reply_decides.

(* 2. CALLBACKS.  In every history (set_expiry allowed): with a value, the callback log is exactly the registration
      sequence -- every registered callback once, in registration order, run at max(registration, arrival), i.e. at the
      arrival for those registered before it and immediately for those registered later; without a value nothing ever ran
      and all registered callbacks are still waiting.  (Callbacks only record: the property does not range over callbacks
      that raise.) *)
Theorem c15_callbacks_once_in_order : forall timed t sd t0 tb q acts,
  let w := run_w (start timed t sd t0 tb q) acts in
  map fst (g_regs w) = cb_ids acts /\
  match outcome_of w with
  | Got _ _ => exists tg, g_got w = Some tg /\ log w = map (fun r => (fst r, Z.max (snd r) tg)) (g_regs w) /\
                          map fst (log w) = cb_ids acts /\ callbacks (res w) = []
  | _ => log w = [] /\ callbacks (res w) = cb_ids acts
  end.
Proof.
  intros. destruct (callbacks_once_in_order (start timed t sd t0 tb q) acts (start_inv _ _ _ _ _ _)) as (A & B).
  { unfold start, timed_call, async_request. destruct timed, t; reflexivity. }
  cbn zeta in *. fold w in A, B. split; [exact A|]. destruct (outcome_of w); auto.
  destruct B as (tg & B1 & B2 & B3). exists tg. repeat split; auto. rewrite B2, cb_times_ids. exact A.
Qed.
Print Assumptions c15_callbacks_once_in_order.

(* 3. WAIT IS EXACT.  wait on a pending result with a finite expiry tm, started at clock t0: it dispatches some messages
      ds, each received at a clock in [t0, tm] (tm itself only when the channel reports data that arrives exactly at the
      deadline); it either returns because the reply made the result ready, or raises the timeout error at clock
      max(t0, tm, end of the last dispatch) -- never before tm, and later than max(t0, tm) only if the last thing this
      thread did was serving an unrelated request received no later than tm that kept it busy until exactly then. *)
Theorem c15_wait_exact : forall w, ready (res w) = false -> finite (ttl (res w)) = true ->
  let tm := tmax (ttl (res w)) in
  let w' := fst (ar_wait w) in let o := snd (ar_wait w) in
  exists ds, g_disp w' = g_disp w ++ ds /\ Forall (disp_ok (now w) tm (tie w)) ds /\
    (o = ONone \/ o = OTimeout) /\
    (o = ONone -> ready (res w') = true) /\
    (o = OTimeout -> ready (res w') = false /\ tm <= now w' /\ now w' = Z.max (Z.max (now w) tm) (last_end ds (now w))) /\
    (o = OTimeout -> Z.max (now w) tm < now w' ->
       exists ds' r d, ds = ds' ++ [(r, now w', Traffic d)] /\ r <= tm /\ now w' = r + Z.of_N d).
Proof. exact wait_exact. Qed.
Print Assumptions c15_wait_exact.

(* nothing receivable up to the expiry: the error is raised exactly at the expiry instant (at once if it already passed),
   and nothing else changed *)
Theorem c15_wait_exact_idle : forall w, ready (res w) = false -> finite (ttl (res w)) = true ->
  let tm := tmax (ttl (res w)) in
  (match queue w with [] => True | (a, _) :: _ => tm < a \/ (tm = a /\ tie w = false /\ now w < tm) end) ->
  ar_wait w = (set_now w (Z.max (now w) tm), OTimeout).
Proof. exact wait_exact_idle. Qed.
Print Assumptions c15_wait_exact_idle.

(* no finite expiry (timeout None or negative): wait never raises the timeout error *)
Theorem c15_wait_without_expiry : forall w, finite (ttl (res w)) = false -> snd (ar_wait w) <> OTimeout.
Proof. exact wait_never_times_out_without_expiry. Qed.
Print Assumptions c15_wait_without_expiry.

(* all timeout values: None and negative never expire, zero expires at once, z >= 0 expires exactly from now + z on *)
Theorem c15_timeout_values : forall now z t,
  expired_at (mk_timeout now None) t = false /\
  (z < 0 -> expired_at (mk_timeout now (Some z)) t = false) /\
  (0 <= z -> expired_at (mk_timeout now (Some z)) t = (now + z <=? t)) /\
  expired_at (mk_timeout now (Some 0)) now = true.
Proof.
  intros. split; [apply mk_timeout_none_never|]. split; [apply mk_timeout_negative_never|]. split; [apply mk_timeout_expired|].
  rewrite mk_timeout_expired by lia. lia.
Qed.
Print Assumptions c15_timeout_values.

(* 4. A SYNCHRONOUS REQUEST is an asynchronous one carrying the configured timeout, followed by .value; timed(p, t)(..) is
      an asynchronous one followed by set_expiry(t); the expiry is armed after the request was sent *)
Theorem c15_sync_is_async : forall cfg_timeout sd w,
  sync_request cfg_timeout sd w = step (async_request cfg_timeout sd w) QValue.
Proof. exact sync_is_async_then_value. Qed.
Print Assumptions c15_sync_is_async.

Theorem c15_timed_is_async_then_set_expiry : forall t sd w,
  timed_call t sd w = fst (step (async_request None sd w) (SetExpiry t)).
Proof. exact timed_is_async_then_set_expiry. Qed.
Print Assumptions c15_timed_is_async_then_set_expiry.

Theorem c15_expiry_armed_after_send : forall t sd w,
  let w' := async_request t sd w in
  now w' = now w + Z.of_N sd /\ registered w' = true /\ ready (res w') = false /\
  ttl (res w') = match t with None => never | Some _ => mk_timeout (now w + Z.of_N sd) t end.
Proof. exact async_request_arms_after_send. Qed.
Print Assumptions c15_expiry_armed_after_send.

(* 5. TIE.  What the translator reads in the current source tree is what the model uses: Timeout's four functions, the
      bodies of the eight AsyncResult methods and of sync_request / async_request / timed.__call__ as skeleton programs;
      and interpreting those programs gives exactly the functions the theorems above speak about. *)
Theorem c15_tie :
  Gen_libinit.Timeout_init_finite = timeout_finite /\ Gen_libinit.Timeout_init_tmax = timeout_tmax /\
  Gen_libinit.Timeout_expired = timeout_expired /\ Gen_libinit.Timeout_timeleft = timeout_timeleft /\
  (forall w e v c t, fst (exec Gen_async_.AsyncResult_call (mkargs e v c t) w) = ar_call w e v) /\
  (forall x w, exec Gen_async_.AsyncResult_wait x w = ar_wait w) /\
  (forall w e v c t, fst (exec Gen_async_.AsyncResult_add_callback (mkargs e v c t) w) = ar_add_callback w c) /\
  (forall w e v c t, fst (exec Gen_async_.AsyncResult_set_expiry (mkargs e v c t) w) = ar_set_expiry w t) /\
  (forall x w, exec Gen_async_.AsyncResult_ready x w = (fst (q_ready w), OBool (snd (q_ready w)))) /\
  (forall x w, exec Gen_async_.AsyncResult_error x w = (fst (q_error w), OBool (snd (q_error w)))) /\
  (forall x w, exec Gen_async_.AsyncResult_expired x w = (w, OBool (ar_expired (res w) (now w)))) /\
  (forall x w, exec Gen_async_.AsyncResult_value x w = q_value w) /\
  (forall cfg own sd t w, c_w (cexec cfg own sd Gen_async_.Connection_async_request {| c_w := w; c_timeout := t; c_ret := None |})
                          = async_request t sd w) /\
  (forall cfg own sd t0 w, let f := cexec cfg own sd Gen_async_.Connection_sync_request {| c_w := w; c_timeout := t0; c_ret := None |} in
        (c_w f, c_ret f) = (fst (sync_request (cfg "sync_request_timeout"%string) sd w),
                            Some (snd (sync_request (cfg "sync_request_timeout"%string) sd w)))) /\
  (forall cfg own sd t0 w, c_w (cexec cfg own sd Gen_async_.timed_call_body {| c_w := w; c_timeout := t0; c_ret := None |})
                           = timed_call own sd w).
Proof.
  rewrite tie_timeout_finite, tie_timeout_tmax, tie_timeout_expired, tie_timeout_timeleft,
    tie_call, tie_wait, tie_add_callback, tie_set_expiry, tie_ready, tie_error, tie_expired, tie_value,
    tie_async_request, tie_sync_request, tie_timed_call.
  repeat match goal with |- _ /\ _ => split end;
    first [reflexivity | exact exec_call | exact exec_wait | exact exec_add_callback | exact exec_set_expiry
          | exact exec_ready | exact exec_error | exact exec_expired | exact exec_value
          | exact cexec_async_request | exact cexec_sync_request | exact cexec_timed_call].
Qed.
Print Assumptions c15_tie.

(* the harness runs [run_hist]; its final world is [run_w]'s *)
Theorem c15_harness_runs_the_same_function : forall acts w, fst (run_hist w acts) = run_w w acts.
Proof. exact run_hist_run_w. Qed.
Print Assumptions c15_harness_runs_the_same_function.

(* ---- non-vacuity: concrete histories meeting the hypotheses ---- *)
(* reply (value 42) arrives at 3, expiry 5: callbacks 7 (registered at 0, runs at 3) and 8 (registered at 4, runs at 4) *)
Definition h_got : list action := [AddCb 7; Wait; Advance 1; AddCb 8; QValue; SetExpiry (Some 0); Advance 9; QReady].
Example c15_ex_got :
  let w := run_w (start false (Some 5) 0 0 false [(3, Reply false 42)]) h_got in
  outcome_of w = Got false 42 /\ log w = [(7%N, 3); (8%N, 4)] /\ cb_ids h_got = [7%N; 8%N] /\ first_reply (g_disp w) = Some (3, false, 42).
Proof. vm_compute. repeat split. Qed.

(* expiry 5, unrelated request at 2 keeps the thread busy for 6 ticks: wait raises at 8; the reply that arrived at 4 is
   dispatched at 8 by a later serve and discarded; no callback ever runs *)
Definition h_late : list action := [AddCb 1; Wait; Serve (Some 0); QExpired; AddCb 2; Advance 3; QReady].
Example c15_ex_late :
  let w0 := start true (Some 5) 0 0 true [(2, Traffic 6); (4, Reply false 9)] in
  no_set_expiry h_late /\ snd (run_hist w0 h_late) = [(ONone, 0); (OTimeout, 8); (OBool true, 8); (OBool true, 8); (ONone, 8); (ONone, 11); (OBool false, 11)] /\
  let w := run_w w0 h_late in
  outcome_of w = Expired /\ log w = [] /\ callbacks (res w) = [1%N; 2%N] /\ first_reply (g_disp w) = Some (8, false, 9) /\
  expired_at (ttl (res w0)) 8 = true.
Proof. vm_compute. repeat split. Qed.

(* hypotheses of c15_wait_exact / _idle are satisfiable: pending, sent at 3, finite expiry at 8, nothing receivable before 9 *)
Example c15_ex_wait_idle :
  let w := start false (Some 5) 1 2 false [(9, Reply true 1)] in
  ready (res w) = false /\ finite (ttl (res w)) = true /\ tmax (ttl (res w)) = 8 /\ ar_wait w = (set_now w 8, OTimeout).
Proof. vm_compute. repeat split. Qed.
(* tie at the deadline, both ways: data seen at the deadline is dispatched but the reply is late by then *)
Example c15_ex_tie :
  snd (ar_wait (start false (Some 5) 0 0 true [(5, Reply false 1)])) = OTimeout /\
  snd (ar_wait (start false (Some 5) 0 0 false [(5, Reply false 1)])) = OTimeout /\
  snd (ar_wait (start false (Some 5) 0 0 false [(4, Reply false 1)])) = ONone /\
  snd (ar_wait (start false (Some 0) 0 0 false [(0, Reply false 1)])) = OTimeout /\
  snd (ar_wait (start false (Some (-3)) 0 0 false [(40, Reply false 1)])) = ONone /\
  snd (ar_wait (start false None 0 0 false [])) = OHang.
Proof. vm_compute. repeat split. Qed.
(* a synchronous request with configured timeout 3 and a reply at 3: timeout error exactly at 3 *)
Example c15_ex_sync :
  let r := sync_request (Some 3) 0 (fresh 0 false [(3, Reply false 5)]) in snd r = OTimeout /\ now (fst r) = 3.
Proof. vm_compute. repeat split. Qed.
