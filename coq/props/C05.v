(* C05 — Packets arrive whole, in order and unaltered however the transport fragments. *)
From V Require Import lib.Base model.Channel model.ChannelS proofs.ChannelP proofs.ChannelW proofs.ChannelSP proofs.ChannelTie gen.Gen_channel gen.Gen_stream.
Open Scope N_scope.

Section C05.
(* zlib is outside the model: any pair of functions with decompress (compress x) = x *)
Variable compress : list byte -> list byte.
Variable decompress : list byte -> result (list byte).
Hypothesis zlib_roundtrip : forall x, decompress (compress x) = Ok x.
(* any parameters satisfying the side conditions (checked below for the generated ones) *)
Variable P : cparams.
Hypothesis Hhdr : hdr_size P = 5.
Hypothesis Hchunk : hdr_size P + nlen (flusher P) <= chunk P.

(* writer: however the transport splits the writes, exactly the frame reaches the wire *)
Theorem c05_write_complete : forall cmp data evs f, benign_w evs -> frame compress P cmp data = Ok f ->
  exists evs', channel_send compress P cmp evs data = Ok (true, f, evs').
Proof. exact (send_complete compress P Hhdr Hchunk). Qed.

(* reader: any packets, either compression setting at the sender (the receiver obeys the flag byte),
   any fragmentation of reads, any interleaved timeouts / would-blocks (tolerated on sockets) *)
Theorem c05_delivery : forall tol cmp pkts fs evs fuel, frames compress P cmp pkts = Ok fs -> benign_r tol evs ->
  (length pkts < fuel)%nat -> recv_all decompress P fuel tol evs (concat fs) [] = (pkts, false).
Proof. intros. now apply (recv_all_delivery compress decompress zlib_roundtrip P Hhdr Hchunk tol cmp pkts fs evs []). Qed.

(* any transport failure, end of stream or cut at any byte offset: an exact prefix of whole packets, never a
   shortened, padded or merged one, and no decompression error *)
Theorem c05_fault_prefix : forall tol cmp pkts fs k evs fuel, frames compress P cmp pkts = Ok fs ->
  exists n, recv_all decompress P fuel tol evs (nfirst k (concat fs)) [] = (firstn n pkts, false).
Proof. intros. now apply (recv_all_prefix compress decompress zlib_roundtrip P Hhdr Hchunk tol cmp pkts fs k evs []). Qed.

(* a cut with an otherwise benign transport delivers exactly the packets wholly before the cut *)
Theorem c05_cut_exact : forall tol cmp pkts fs k evs fuel, frames compress P cmp pkts = Ok fs -> benign_r tol evs ->
  (length pkts < fuel)%nat ->
  recv_all decompress P fuel tol evs (nfirst k (concat fs)) [] = (firstn (whole_before k fs) pkts, false).
Proof. intros. now apply (recv_all_cut_exact compress decompress zlib_roundtrip P Hhdr Hchunk tol cmp pkts fs k evs []). Qed.

(* the two halves composed: every packet sequence sent through a transport that splits the writes arbitrarily and read through one
   that splits, coalesces and interrupts the reads arbitrarily arrives as exactly the same sequence *)
Theorem c05_end_to_end : forall tol cmp pkts fs wevs revs fuel, frames compress P cmp pkts = Ok fs -> benign_w wevs -> benign_r tol revs ->
  (length pkts < fuel)%nat ->
  exists wire, send_all compress P cmp wevs pkts [] = Ok (true, wire) /\ recv_all decompress P fuel tol revs wire [] = (pkts, false).
Proof. exact (end_to_end compress decompress zlib_roundtrip P Hhdr Hchunk). Qed.

(* writer under ANY transport behaviour (partial sends, failure after any number of bytes): what reached the wire is a prefix of the
   packet's frame, and the whole frame exactly when send returned normally (otherwise: stream closed, EOFError) *)
Theorem c05_writer_any_transport : forall cmp data evs f ok w evs',
  frame compress P cmp data = Ok f -> channel_send compress P cmp evs data = Ok (ok, w, evs') ->
  is_prefix w f /\ (ok = true -> w = f).
Proof. exact (send_any_transport compress P). Qed.

(* and whoever reads that wire - earlier packets sent whole, then the packet whose send went wrong anywhere - through any read
   behaviour gets whole leading packets only: never a shortened, padded or merged one *)
Theorem c05_writer_fault_seen_by_reader : forall tol cmp pkts fs d f wevs ok w wevs' revs fuel,
  frames compress P cmp pkts = Ok fs -> frame compress P cmp d = Ok f ->
  channel_send compress P cmp wevs d = Ok (ok, w, wevs') ->
  exists n, recv_all decompress P fuel tol revs (concat fs ++ w) [] = (firstn n (pkts ++ [d]), false).
Proof. exact (writer_fault_seen_by_reader compress decompress zlib_roundtrip P Hhdr Hchunk). Qed.
End C05.
Print Assumptions c05_writer_any_transport.
Print Assumptions c05_writer_fault_seen_by_reader.
Print Assumptions c05_end_to_end.
Print Assumptions c05_write_complete.
Print Assumptions c05_delivery.
Print Assumptions c05_fault_prefix.
Print Assumptions c05_cut_exact.

(* the closed state ("... yields EOFError at the reader or writer and a closed stream"): a session is any sequence of sends and
   receives on one channel (model/ChannelS.v: one stream, both directions, any zlib, any parameters, either tolerance and
   compression setting, any transport behaviour). An operation on an open stream reports EOFError exactly when it leaves the stream
   closed; once any operation has reported EOFError every later one does, and the transport is exactly as the earlier operations
   left it (nothing further read, written or consumed); a session that never reported EOFError is still open; a packet the header
   cannot describe is refused without touching anything. *)
Theorem c05_eof_iff_closed : forall compress decompress P tol cmp s o s' r,
  closed s = false -> sstep compress decompress P tol cmp s o = (s', r) -> (r = OEOF <-> closed s' = true).
Proof. exact eof_iff_closed. Qed.
Theorem c05_closed_stream_is_final : forall compress decompress P tol cmp before after s s1 r1,
  srun compress decompress P tol cmp s before = (s1, r1) -> In OEOF r1 ->
  srun compress decompress P tol cmp s (before ++ after) = (s1, r1 ++ map (fun _ => OEOF) after).
Proof. exact after_eof_everything_fails. Qed.
Theorem c05_open_until_eof : forall compress decompress P tol cmp ops s s' rs,
  closed s = false -> srun compress decompress P tol cmp s ops = (s', rs) -> ~ In OEOF rs -> closed s' = false.
Proof. exact open_until_eof. Qed.
Theorem c05_rejected_packet_touches_nothing : forall compress decompress P tol cmp s d e s',
  closed s = false -> sstep compress decompress P tol cmp s (SSend d) = (s', OErr e) -> s' = s.
Proof. exact rejected_packet_touches_nothing. Qed.
Print Assumptions c05_eof_iff_closed.
Print Assumptions c05_closed_stream_is_final.
Print Assumptions c05_open_until_eof.
Print Assumptions c05_rejected_packet_touches_nothing.

(* the generated parameters of the current tree satisfy the side conditions, for both stream kinds *)
Theorem c05_generated_params_ok :
  (hdr_size Pgen_sock = 5 /\ hdr_size Pgen_sock + nlen (flusher Pgen_sock) <= chunk Pgen_sock) /\
  (hdr_size Pgen_pipe = 5 /\ hdr_size Pgen_pipe + nlen (flusher Pgen_pipe) <= chunk Pgen_pipe) /\
  ops_ok /\
  (* both stream kinds retry a read that reports would-block: the theorems' [tol = true] instances are the ones that apply *)
  Gen_stream.PipeStream_read_tolerates_wouldblock = true.
Proof. repeat split; try apply side_sock; try apply side_pipe; try apply tie_ops; apply tie_pipe_tolerant. Qed.
Print Assumptions c05_generated_params_ok.

(* non-vacuity: identity "compression", three packets around a tiny threshold/chunk, a fragmenting oracle with timeouts *)
Definition Psmall : cparams := {| threshold := 3; chunk := 8; hdr_size := 5; flusher := [x0a] |}.
Example c05_nonvacuous :
  match frames (fun x => x) Psmall true [[x61]; [x62; x63; x64; x65; x66]; []] with
  | Ok fs => recv_all (fun x => Ok x) Psmall 10 true [RData 2; RTimeout; RData 1; RWouldBlock; RData 3] (concat fs) []
             = ([[x61]; [x62; x63; x64; x65; x66]; []], false)
             /\ fst (recv_all (fun x => Ok x) Psmall 10 true [RData 5; RData 2; RErr] (nfirst 9 (concat fs)) []) = [[x61]]
  | _ => False
  end.
Proof. vm_compute. split; reflexivity. Qed.

(* non-vacuity for the writer theorems: the transport accepts 3 bytes, then 2, then fails; 5 of the 11 frame bytes are on the wire,
   send reports failure, and the reader of [earlier packet][those 5 bytes] gets the earlier packet only *)
Example c05_writer_fault_sample :
  match frame (fun x => x) Psmall true [x62; x63; x64; x65; x66], frame (fun x => x) Psmall true [x61] with
  | Ok f, Ok f0 =>
      channel_send (fun x => x) Psmall true [WSent 3; WSent 2; WErr] [x62; x63; x64; x65; x66] = Ok (false, nfirst 5 f, [])
      /\ recv_all (fun x => Ok x) Psmall 10 true [] (f0 ++ nfirst 5 f) [] = ([[x61]], false)
  | _, _ => False
  end.
Proof. vm_compute. split; reflexivity. Qed.

(* non-vacuity for the closed state: the peer's stream holds one whole frame and 3 bytes of a second; we send a packet (written in
   two pieces), receive the whole frame, meet the end inside the second, and then a send and a receive both fail at once: the wire
   still holds exactly our one frame, and the unused write behaviour [WSent 1] is still unused *)
Example c05_session_sample :
  match frame (fun x => x) Psmall true [x61], frame (fun x => x) Psmall true [x62; x63] with
  | Ok f1, Ok f2 =>
      let s0 := {| closed := false; revs := [RData 4; RTimeout]; avail := f1 ++ nfirst 3 f2; wevs := [WSent 4; WSent 100; WSent 1]; wire := [] |} in
      let '(s, outs) := srun (fun x => x) (fun x => Ok x) Psmall true true s0 [SSend [x7a]; SRecv; SRecv; SSend [x7a]; SRecv] in
      outs = [OSent; OGot [x61]; OEOF; OEOF; OEOF] /\ closed s = true /\ wire s = [x00; x00; x00; x01; x00; x7a; x0a] /\ wevs s = [WSent 1]
  | _, _ => False
  end.
Proof. vm_compute. repeat split. Qed.
