(* str(int) and int(bytes) as CPython 3.12 does them for base 10.
   render: Z -> ASCII decimal text (with the int_max_str_digits limit as parameter).
   parse : bytes -> Z for the grammar [ws] [sign] digit ('_'? digit)* [ws]. *)
From V Require Import lib.Base.
Open Scope N_scope.

(* little-endian decimal digits of a positive, by repeated doubling *)
Fixpoint dbl (c : N) (l : list N) : list N :=
  match l with
  | [] => if c =? 0 then [] else [c]
  | d :: t => let v := 2 * d + c in if v <? 10 then v :: dbl 0 t else (v - 10) :: dbl 1 t
  end.
Fixpoint digits_le (p : positive) : list N :=
  match p with
  | xH => [1]
  | xO p' => dbl 0 (digits_le p')
  | xI p' => dbl 1 (digits_le p')
  end.
Definition val_le (l : list N) : N := fold_right (fun d acc => d + 10 * acc) 0 l.

Definition digit_char (d : N) : byte := b_of (48 + d).
Definition minus_char : byte := x2d.
Definition plus_char : byte := x2b.
Definition underscore : byte := x5f.

Definition render_pos (p : positive) : list byte := rev (map digit_char (digits_le p)).
Definition render_raw (z : Z) : list byte :=
  match z with
  | Z0 => [digit_char 0]
  | Zpos p => render_pos p
  | Zneg p => minus_char :: render_pos p
  end.
Definition ndigits (z : Z) : N :=
  match z with Z0 => 1 | Zpos p | Zneg p => nlen (digits_le p) end.
(* maxdigits = 0 means "no limit" (sys.set_int_max_str_digits(0)) *)
Definition over_limit (maxdigits n : N) : bool := negb (maxdigits =? 0) && (maxdigits <? n).
Definition render (maxdigits : N) (z : Z) : result (list byte) :=
  if over_limit maxdigits (ndigits z) then Raise ValueError else Ok (render_raw z).

(* ---- parsing ---- *)
Definition is_ws (b : byte) : bool :=
  match b with x20 | x09 | x0a | x0b | x0c | x0d => true | _ => false end.
Fixpoint strip_ws (l : list byte) : list byte :=
  match l with b :: t => if is_ws b then strip_ws t else l | [] => [] end.
Definition digit_val (b : byte) : option N :=
  let n := Byte.to_N b in if (48 <=? n) && (n <=? 57) then Some (n - 48) else None.

(* scan: prev = true when the previous char was a digit (so '_' is allowed now) *)
Fixpoint scan (l : list byte) (prev_digit : bool) (acc : list N) : option (list N) :=
  match l with
  | [] => if prev_digit then Some (rev acc) else None
  | b :: t =>
    match digit_val b with
    | Some d => scan t true (d :: acc)
    | None => if Byte.eqb b underscore && prev_digit then
                match t with [] => None | _ => scan t false acc end
              else None
    end
  end.
Definition val_be (ds : list N) : N := fold_left (fun acc d => acc * 10 + d) ds 0.

Definition parse (maxdigits : N) (bs : list byte) : result Z :=
  let body := rev (strip_ws (rev (strip_ws bs))) in
  let '(neg, rest) :=
    match body with
    | b :: t => if Byte.eqb b minus_char then (true, t) else if Byte.eqb b plus_char then (false, t) else (false, body)
    | [] => (false, [])
    end in
  match scan rest false [] with
  | None => Raise ValueError
  | Some ds =>
    if over_limit maxdigits (nlen ds) then Raise ValueError
    else let v := Z.of_N (val_be ds) in Ok (if neg then (- v)%Z else v)
  end.
