(* Generic S-expression interface between the harness and every executable model.
   The OCaml driver only parses/prints this type; all per-model decoding is Gallina. *)
From V Require Import lib.Base.
From Coq Require Import String.

Inductive sx := SI (z : Z) | SB (b : list byte) | SL (l : list sx).

Definition bs (s : string) : list byte := list_byte_of_string s.
Definition SS (s : string) : sx := SB (bs s).
Definition sbool (b : bool) : sx := SI (if b then 1 else 0).
Definition sN (n : N) : sx := SI (Z.of_N n).
Definition snat (n : nat) : sx := SI (Z.of_nat n).

Fixpoint bytes_eqb (a b : list byte) : bool :=
  match a, b with
  | [], [] => true
  | x :: a', y :: b' => Byte.eqb x y && bytes_eqb a' b'
  | _, _ => false
  end.
Definition is_tag (s : string) (x : sx) : bool :=
  match x with SB b => bytes_eqb b (bs s) | _ => false end.

Definition exn_name (e : exn) : string :=
  match e with
  | TypeError => "TypeError" | ValueError => "ValueError" | AttributeError => "AttributeError"
  | KeyError => "KeyError" | EOFError => "EOFError" | UnicodeError => "UnicodeError"
  | StructError => "StructError" | TimeoutError => "TimeoutError" | StopIteration => "StopIteration"
  | IndexError => "IndexError" | ZlibError => "ZlibError" | OtherError => "OtherError"
  end%string.

Definition sx_result {A} (f : A -> sx) (r : result A) : sx :=
  match r with
  | Ok a => SL [SS "ok"; f a]
  | Raise e => SL [SS "exc"; SS (exn_name e)]
  | OutOfFuel => SL [SS "outoffuel"]
  | Unmodelled => SL [SS "unmodelled"]
  end.

Definition bad_input : sx := SL [SS "badinput"].

Definition sx_z (x : sx) : Z := match x with SI z => z | _ => 0 end.
Definition sx_n (x : sx) : N := Z.to_N (sx_z x).
Definition sx_nat (x : sx) : nat := Z.to_nat (sx_z x).
Definition sx_b (x : sx) : list byte := match x with SB b => b | _ => [] end.
Definition sx_l (x : sx) : list sx := match x with SL l => l | _ => [] end.
Definition sx_bool (x : sx) : bool := negb (Z.eqb (sx_z x) 0).
