(* Shared basics: Python outcomes, bytes, big-endian packing. No proofs of properties here. *)
From Coq Require Export List NArith ZArith Lia Bool.
From Coq.Strings Require Export Byte.
Export ListNotations.

(* ---- Python outcomes ---- *)
Inductive exn :=
| TypeError | ValueError | AttributeError | KeyError | EOFError | UnicodeError
| StructError | TimeoutError | StopIteration | IndexError | ZlibError | OtherError.

Inductive result (A : Type) := Ok (a : A) | Raise (e : exn) | OutOfFuel | Unmodelled.
Arguments Ok {A}. Arguments Raise {A}. Arguments OutOfFuel {A}. Arguments Unmodelled {A}.

Definition bind {A B} (r : result A) (f : A -> result B) : result B :=
  match r with Ok a => f a | Raise e => Raise e | OutOfFuel => OutOfFuel | Unmodelled => Unmodelled end.
Notation "'do' x <- r ; k" := (bind r (fun x => k)) (at level 200, x pattern, r at level 100, k at level 200).

(* ---- bytes ---- *)
Definition b_of (n : N) : byte :=
  match Byte.of_N (n mod 256) with Some b => b | None => x00 end.
Definition nlen {A} (l : list A) : N := N.of_nat (length l).

Definition be4 (n : N) : list byte :=
  [b_of (n / 16777216); b_of (n / 65536); b_of (n / 256); b_of n].
Definition un4 (a b c d : byte) : N :=
  (Byte.to_N a * 16777216 + Byte.to_N b * 65536 + Byte.to_N c * 256 + Byte.to_N d)%N.

Definition byte_eqb (a b : byte) : bool := Byte.eqb a b.

(* BytesIO.read(n): up to n bytes, never fails *)
Definition take_upto (n : N) (bs : list byte) : list byte * list byte :=
  if (nlen bs <=? n)%N then (bs, []) else (firstn (N.to_nat n) bs, skipn (N.to_nat n) bs).

(* ---- lemmas ---- *)
Lemma to_b_of n : (n < 256)%N -> Byte.to_N (b_of n) = n.
Proof.
  intros H. unfold b_of. rewrite N.mod_small by exact H.
  destruct (Byte.of_N n) eqn:E.
  - now apply Byte.to_of_N.
  - apply Byte.of_N_None_iff in E. lia.
Qed.

Lemma b_of_to b : b_of (Byte.to_N b) = b.
Proof.
  unfold b_of. pose proof (Byte.to_N_bounded b).
  rewrite N.mod_small by lia. now rewrite Byte.of_to_N.
Qed.

Lemma to_b_of_mod n : Byte.to_N (b_of n) = (n mod 256)%N.
Proof.
  unfold b_of. destruct (Byte.of_N (n mod 256)) eqn:E.
  - now apply Byte.to_of_N.
  - apply Byte.of_N_None_iff in E. pose proof (N.mod_upper_bound n 256). lia.
Qed.

Lemma un4_be4 n : (n < 4294967296)%N ->
  un4 (b_of (n / 16777216)) (b_of (n / 65536)) (b_of (n / 256)) (b_of n) = n.
Proof.
  intros H. unfold un4. rewrite !to_b_of_mod.
  rewrite (N.mod_small (n / 16777216)) by (apply N.div_lt_upper_bound; lia).
  Ltac Zify.zify_post_hook ::= Z.to_euclidean_division_equations.
  lia.
Qed.

Lemma take_upto_app (b rest : list byte) : take_upto (nlen b) (b ++ rest) = (b, rest).
Proof.
  unfold take_upto. destruct (N.leb_spec (nlen (b ++ rest)) (nlen b)) as [H|H].
  { unfold nlen in H. rewrite app_length in H. destruct rest; [now rewrite app_nil_r|simpl in H; lia]. }
  unfold nlen. rewrite Nat2N.id.
  rewrite firstn_app, Nat.sub_diag, firstn_all, skipn_app, Nat.sub_diag, skipn_all. simpl.
  now rewrite app_nil_r.
Qed.

(* keep binary arithmetic opaque to simpl/cbn so that lia sees it (never affects vm_compute/extraction) *)
Global Arguments N.add : simpl never.
Global Arguments N.sub : simpl never.
Global Arguments N.mul : simpl never.
Global Arguments N.div : simpl never.
Global Arguments N.modulo : simpl never.
Global Arguments Z.add : simpl never.
Global Arguments Z.sub : simpl never.
Global Arguments Z.mul : simpl never.
Global Arguments Z.div : simpl never.
Global Arguments Z.modulo : simpl never.
