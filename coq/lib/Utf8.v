(* CPython's UTF-8 codec, strict or with errors="surrogatepass" (sp = true). Code points are N. *)
From V Require Import lib.Base.
Open Scope N_scope.

Definition is_surrogate (c : N) : bool := (0xD800 <=? c) && (c <=? 0xDFFF).

Definition enc1 (sp : bool) (c : N) : option (list byte) :=
  if c <? 0x80 then Some [b_of c]
  else if c <? 0x800 then Some [b_of (0xC0 + c / 64); b_of (0x80 + c mod 64)]
  else if c <? 0x10000 then
    if is_surrogate c && negb sp then None
    else Some [b_of (0xE0 + c / 4096); b_of (0x80 + (c / 64) mod 64); b_of (0x80 + c mod 64)]
  else if c <? 0x110000 then
    Some [b_of (0xF0 + c / 262144); b_of (0x80 + (c / 4096) mod 64); b_of (0x80 + (c / 64) mod 64); b_of (0x80 + c mod 64)]
  else None.

Fixpoint utf8_encode (sp : bool) (cs : list N) : result (list byte) :=
  match cs with
  | [] => Ok []
  | c :: t => match enc1 sp c with
              | None => Raise UnicodeError
              | Some bs => do r <- utf8_encode sp t; Ok (bs ++ r)
              end
  end.

Definition cont (n : N) : bool := (0x80 <=? n) && (n <=? 0xBF).
Definition inr (lo hi n : N) : bool := (lo <=? n) && (n <=? hi).

(* decode one code point from the head; returns (code point, rest) *)
Definition dec1 (sp : bool) (l : list byte) : option (N * list byte) :=
  match l with
  | [] => None
  | b0 :: t0 =>
    let n0 := Byte.to_N b0 in
    if n0 <? 0x80 then Some (n0, t0)
    else if inr 0xC2 0xDF n0 then
      match t0 with
      | b1 :: t1 => let n1 := Byte.to_N b1 in
          if cont n1 then Some ((n0 - 0xC0) * 64 + (n1 - 0x80), t1) else None
      | _ => None end
    else if inr 0xE0 0xEF n0 then
      match t0 with
      | b1 :: b2 :: t2 =>
          let n1 := Byte.to_N b1 in let n2 := Byte.to_N b2 in
          let ok1 := if n0 =? 0xE0 then inr 0xA0 0xBF n1
                     else if n0 =? 0xED then (if sp then cont n1 else inr 0x80 0x9F n1)
                     else cont n1 in
          if ok1 && cont n2 then Some ((n0 - 0xE0) * 4096 + (n1 - 0x80) * 64 + (n2 - 0x80), t2) else None
      | _ => None end
    else if inr 0xF0 0xF4 n0 then
      match t0 with
      | b1 :: b2 :: b3 :: t3 =>
          let n1 := Byte.to_N b1 in let n2 := Byte.to_N b2 in let n3 := Byte.to_N b3 in
          let ok1 := if n0 =? 0xF0 then inr 0x90 0xBF n1
                     else if n0 =? 0xF4 then inr 0x80 0x8F n1
                     else cont n1 in
          if ok1 && cont n2 && cont n3
          then Some ((n0 - 0xF0) * 262144 + (n1 - 0x80) * 4096 + (n2 - 0x80) * 64 + (n3 - 0x80), t3) else None
      | _ => None end
    else None
  end.

Fixpoint utf8_decode_f (fuel : nat) (sp : bool) (l : list byte) : result (list N) :=
  match l with
  | [] => Ok []
  | _ => match fuel with
         | O => OutOfFuel
         | S f => match dec1 sp l with
                  | None => Raise UnicodeError
                  | Some (c, rest) => do r <- utf8_decode_f f sp rest; Ok (c :: r)
                  end
         end
  end.
Definition utf8_decode (sp : bool) (l : list byte) : result (list N) := utf8_decode_f (length l) sp l.
