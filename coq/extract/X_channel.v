From V Require Import lib.Base lib.Sx model.Channel model.ChannelS.
Require Extraction. Require Import ExtrOcamlBasic.
Definition all_bytes : list byte :=
  map (fun n => match Byte.of_N (N.of_nat n) with Some b => b | None => x00 end) (seq 0 256).
Definition run := run_channel_all.
Extraction "model.ml" all_bytes run.
