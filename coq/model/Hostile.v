(* C07 — a hostile peer cannot step outside what the service exposes.
   Executable model of the server half of rpyc/core/protocol.py as seen by a peer that sends ARBITRARY well-framed
   messages (any [pyval]): Connection._dispatch / _dispatch_request / _unbox / _box / _HANDLERS, every _handle_* body,
   RefCountingColl (rpyc/lib/colls.py) as the per-connection table of lent objects, vinegar.load (model/Vinegar.v)
   for MSG_EXCEPTION payloads, and the attribute policy (model/Attr.v).  No proofs here (see proofs/HostileP.v).

   * Handler bodies are DATA: terms of the little language [hexp]; tools/pygen/handlers.py regenerates the table from
     the source on every run (gen/Gen_handlers.v) and proofs/HostileTie.v equates it with [handlers] below.  The
     language has NO construct for an attribute access by a computed name other than [XAccess], which is
     Connection._access_attr with a consistent (hook, permission, builtin) triple; so a handler that calls
     getattr/setattr/delattr/hasattr with a peer-supplied name directly has no translation (fail closed).
   * Python objects of the serving process are numbers [oid]; what an operation on an object does is the service's own
     code: the record [sem] of functions over an abstract service state W.  The theorems quantify over [sem]; the
     harness instantiates it with a finite description of its canary objects ([world]).
   * Everything the implementation does to an object is an [event]; the trace is kept newest-first in the state.
   * The peer's answers to requests the server sends while handling a message (netref INSPECT, operations on proxies of
     peer-owned objects) are a script attached to the message. *)
From V Require Import lib.Base lib.Sx lib.Decimal model.Brine model.Attr.
From V Require model.Vinegar.
From Coq Require Import String.
Open Scope bool_scope.

Definition oid := N.

(* ------------------------------------------------------------------ exceptions and results *)
Inductive xid :=
| XStd (e : exn)          (* a builtin exception of the shared enum (all of them derive from Exception) *)
| XKbd                    (* KeyboardInterrupt raised by local code *)
| XSysExit                (* SystemExit raised by local code *)
| XBaseOther              (* any other BaseException that is not an Exception (incl. rebuilt remote KeyboardInterrupt) *)
| XExcOther               (* any other subclass of Exception *)
| XCarry (os : list N)    (* an Exception raised by service code whose arguments / attributes carry these objects *)
| XAttrObj (o : N).       (* AttributeError raised by a failed lookup on object o: CPython (3.10+) attaches the object as .obj *)
Definition is_exception (x : xid) : bool := match x with XStd _ | XExcOther | XCarry _ | XAttrObj _ => true | _ => false end.
(* the objects an exception brings with it *)
Definition carried (x : xid) : list N := match x with XCarry os => os | XAttrObj o => [o] | _ => [] end.

Inductive res (A : Type) := ROk (a : A) | RRaise (x : xid) | RUnm.
Arguments ROk {A}. Arguments RRaise {A}. Arguments RUnm {A}.

(* ------------------------------------------------------------------ values held by the server while it handles a message *)
Inductive lval :=
| LV (v : pyval)            (* an immutable plain value (came by value, or a constant of the implementation) *)
| LAny                      (* a plain value the model does not compute (hash of a string, repr of a float, ...) *)
| LO (o : oid)              (* an object of the serving process *)
| LT (l : list lval)        (* a tuple built by the implementation (_unbox of LABEL_TUPLE, argument tuples) *)
| LP (idp : pyval)          (* a netref: proxy of a peer-owned object with this id pack *)
| LSlice (a b : lval)       (* slice(a, b) built by _handle_oldslicing *)
| LOpq.                     (* another implementation-internal object (exc_info items, a builtin type) *)

Fixpoint objs_of (v : lval) : list oid :=
  match v with
  | LO o => [o]
  | LT l => flat_map objs_of l
  | LSlice a b => objs_of a ++ objs_of b
  | _ => []
  end.
(* brine.dumpable(obj) and the value that is then sent *)
Fixpoint as_value (v : lval) : option pyval :=
  match v with
  | LV p => Some p
  | LAny => Some (POther 0)
  | LT l => option_map PTuple
              ((fix go (l : list lval) : option (list pyval) :=
                  match l with
                  | [] => Some []
                  | x :: r => match as_value x, go r with Some a, Some b => Some (a :: b) | _, _ => None end
                  end) l)
  | _ => None
  end.

(* ------------------------------------------------------------------ Python equality / truth / str on plain values *)
Definition n_of_bytes (b : list byte) : N := fold_left (fun a x => (a * 256 + Byte.to_N x)%N) b 0%N.
(* the integer a float equals, if any (IEEE-754 binary64, big-endian) *)
Definition float_int (b : list byte) : option Z :=
  if negb (Nat.eqb (List.length b) 8) then None else
  let n := n_of_bytes b in
  let neg := N.testbit n 63 in
  let e := ((n / 4503599627370496) mod 2048)%N in
  let m := (n mod 4503599627370496)%N in
  let sg (z : N) : Z := if neg then (- Z.of_N z)%Z else Z.of_N z in
  if (e =? 2047)%N then None
  else if (e =? 0)%N then (if (m =? 0)%N then Some 0%Z else None)
  else let mant := (4503599627370496 + m)%N in
       if (1075 <=? e)%N then Some (sg (mant * 2 ^ (e - 1075))%N)
       else let sh := (1075 - e)%N in
            if (sh <=? 52)%N && ((mant mod 2 ^ sh) =? 0)%N then Some (sg (mant / 2 ^ sh)%N) else None.
Definition num_of (v : pyval) : option Z :=
  match v with
  | PInt z => Some z
  | PBool b => Some (if b then 1 else 0)%Z
  | PFloat b => float_int b
  | PComplex b => match float_int (skipn 8 b) with Some 0%Z => float_int (firstn 8 b) | _ => None end
  | _ => None
  end.
(* a == b for the values that occur as dictionary keys here (frozensets are compared in the sender's order) *)
Fixpoint pv_eqb (a b : pyval) {struct a} : bool :=
  match num_of a, num_of b with
  | Some x, Some y => Z.eqb x y
  | Some _, None | None, Some _ => false
  | None, None =>
    match a, b with
    | PNone, PNone | PNotImpl, PNotImpl | PEllipsis, PEllipsis => true
    | PFloat x, PFloat y | PComplex x, PComplex y | PBytes x, PBytes y => bytes_eqb x y
    | PStr x, PStr y => text_eqb x y
    | PTuple x, PTuple y | PFset x, PFset y =>
        (fix go (x y : list pyval) : bool :=
           match x, y with
           | [], [] => true
           | p :: x', q :: y' => pv_eqb p q && go x' y'
           | _, _ => false
           end) x y
    | PSlice a1 a2 a3, PSlice b1 b2 b3 => pv_eqb a1 b1 && pv_eqb a2 b2 && pv_eqb a3 b3
    | _, _ => false
    end
  end.
Definition is_zero_float (b : list byte) : bool := match float_int b with Some 0%Z => true | _ => false end.
Definition py_truth (v : pyval) : bool :=
  match v with
  | PNone => false | PNotImpl | PEllipsis => true
  | PBool b => b
  | PInt z => negb (Z.eqb z 0)
  | PFloat b => negb (is_zero_float b)
  | PComplex b => negb (is_zero_float (firstn 8 b) && is_zero_float (skipn 8 b))
  | PBytes b => match b with [] => false | _ => true end
  | PStr s => match s with [] => false | _ => true end
  | PTuple l | PFset l => match l with [] => false | _ => true end
  | PSlice _ _ _ => true
  | POther _ => true
  end.
Definition txt (s : string) : text := map Byte.to_N (list_byte_of_string s).
(* str(v) where the model computes it *)
Definition py_str (v : pyval) : option text :=
  match v with
  | PStr s => Some s
  | PInt z => Some (map Byte.to_N (render_raw z))
  | PBool b => Some (txt (if b then "True" else "False"))
  | PNone => Some (txt "None")
  | _ => None
  end.

(* ------------------------------------------------------------------ the table of lent objects (RefCountingColl) *)
Definition table := list (pyval * oid * Z).           (* key -> [obj, count] in insertion order *)
Fixpoint tbl_find (k : pyval) (t : table) : option (oid * Z) :=
  match t with
  | [] => None
  | (k', o, c) :: r => if pv_eqb k k' then Some (o, c) else tbl_find k r
  end.
(* add: slot = [obj, 0] when absent, slot[1] += 1 when present *)
Fixpoint tbl_add (k : pyval) (o : oid) (t : table) : table :=
  match t with
  | [] => [(k, o, 0%Z)]
  | (k', o', c) :: r => if pv_eqb k k' then (k', o', (c + 1)%Z) :: r else (k', o', c) :: tbl_add k o r
  end.
(* decref (the key is known to be present): if slot[1] < count: del else slot[1] -= count *)
Fixpoint tbl_decref (k : pyval) (n : Z) (t : table) : table :=
  match t with
  | [] => []
  | (k', o, c) :: r => if pv_eqb k k' then (if (c <? n)%Z then r else (k', o, (c - n)%Z) :: r)
                       else (k', o, c) :: tbl_decref k n r
  end.

(* ------------------------------------------------------------------ events *)
Inductive nop :=
| OpCall | OpRepr | OpStr | OpHash | OpDir | OpIter | OpIslice | OpBool | OpDict | OpRaise | OpCmp | OpIndex
| OpIsinstance | OpGetMethods | OpIdPack | OpHasConn | OpPickle | OpFuncStr | OpEq.

Inductive event :=
| EMsg                                          (* the next message is taken from the channel *)
| EEnv                                          (* somebody else (another connection, the application) acted on the service *)
| ERoot (o : oid)                               (* self._local_root handed to a handler *)
| EResolve (k : pyval) (o : oid)                (* self._local_objects[k] gave object o *)
| EMiss (k : pyval)                             (* self._local_objects[k] raised KeyError *)
| EType (o ty : oid)                            (* type(o) *)
| EProbe (o : oid) (n : text)                   (* hasattr(o, n) made by _check_attr *)
| EAttr (o : oid) (p : permkey) (final : text) (ys : list oid)   (* getattr/setattr/delattr(o, final, ..) after _check_attr; it gave objects ys *)
| EHook (o : oid) (p : permkey) (n : text) (ys : list oid)       (* type(o)._rpyc_{get,set,del}attr(o, n, ..) *)
| ETouch (o : oid) (op : nop) (ys : list oid)   (* a nameless operation applied to o *)
| EForeign (ys : list oid)                      (* an operation on a plain value gave objects ys *)
| EBox (k : pyval) (o : oid)                    (* o sent to the peer by reference: self._local_objects.add(k, o) *)
| EDecref (k : pyval) (n : Z)                   (* self._local_objects.decref(k, n) on a present key *)
| EClear                                        (* self._local_objects.clear() *)
| EDisconnect                                   (* self._local_root.on_disconnect(self) *)
| EAsk (h : Z)                                  (* a request sent to the peer while handling the message *)
| EPayload (o : oid) (op : nop)                 (* vinegar.dump / traceback formatting applied repr() / dir() to an object the exception carries *)
| ECtx (o : oid) (op : nop)                     (* traceback formatting of a chained (caught) exception: dir(o) for an AttributeError on o, str() of what it carries *)
| EGlobalRead (o : oid)                         (* netref.class_factory read attributes (__class__, __name__) of the object a peer-declared dotted name is bound to in an imported module *)
| ECls (m : text)                               (* netref.class_factory ran a module-level __getattr__ for a peer-declared name: module m imported *)
| EVin (e : Vinegar.effect).                    (* what vinegar.load did: import attempt / cls.__new__ / (never) constructor *)

(* ------------------------------------------------------------------ configuration, service semantics, state *)
Record config := {
  c_attr : cfg;                 (* attribute switches, exposed_prefix, safe_attrs *)
  c_guard : bool;               (* generated fact decode_guarded of _access_attr *)
  c_pickle : bool;              (* allow_pickle *)
  c_rflags : Vinegar.rflags;    (* import_custom_exceptions, instantiate_custom_exceptions, instantiate_oldstyle_exceptions *)
  c_prop_kbd : bool;            (* propagate_KeyboardInterrupt_locally *)
  c_prop_sysexit : bool;        (* propagate_SystemExit_locally *)
  c_cls_mode : Vinegar.lookup_mode;     (* generated fact: how netref.class_factory reads a peer-named class out of an imported module *)
  c_cls_reads : bool }.         (* generated fact: class_factory reads attributes of whatever object it found there (hasattr(_class, '__class__'),
                                   _class.__class__) instead of accepting it by a test on type(_class) only *)

Record sem (W : Type) := {
  s_root : oid;
  s_key : oid -> pyval;                                         (* get_id_pack(o) *)
  s_type : oid -> oid;                                          (* type(o) *)
  s_callable : oid -> bool;                                     (* callable(o) *)
  s_view : W -> oid -> obj;                                     (* which names hasattr(o, .) finds; whether type(o) defines _rpyc_*attr *)
  s_attr : W -> oid -> permkey -> text -> list lval -> W * res lval;
  s_hook : W -> oid -> permkey -> text -> list lval -> W * res lval;
  s_op : W -> nop -> oid -> list lval -> W * res lval;
  s_val : nop -> pyval -> list lval -> res lval;                (* the same operations on a plain value: Python's own semantics *)
  s_builtin_names : list text;                                  (* keys of netref.builtin_classes_cache *)
  s_globals : list (text * oid);                                (* dotted names under which service objects are bound as globals of imported modules *)
  s_env : Vinegar.env }.                                        (* builtins namespace / sys.modules as vinegar.load sees them *)
Arguments s_root {W}. Arguments s_key {W}. Arguments s_type {W}. Arguments s_callable {W}. Arguments s_view {W}. Arguments s_attr {W}.
Arguments s_hook {W}. Arguments s_op {W}. Arguments s_val {W}. Arguments s_builtin_names {W}. Arguments s_globals {W}. Arguments s_env {W}.

Inductive panswer := PReply (pkg : pyval) | PExc (payload : pyval) | PSilent.

Record hst (W : Type) := {
  tbl : table; wst : W; tr : list event; script : list panswer; closed : bool; approx : bool;
  ccache : list pyval;          (* keys of self._netref_classes_cache: id packs of peer classes (instance id 0) whose INSPECT was answered *)
  pseen : list pyval;           (* id packs for which a proxy was made on this connection (the weak _proxy_cache may still hold it) *)
  ctxs : list (oid * nop);      (* what the exceptions a try/except of the current handler caught carry (they become __context__ of a later one) *)
  lost : bool }.                (* a message met something the model does not describe: from then on the model says nothing *)
Arguments tbl {W}. Arguments wst {W}. Arguments tr {W}. Arguments script {W}. Arguments closed {W}. Arguments approx {W}.
Arguments ccache {W}. Arguments pseen {W}. Arguments ctxs {W}. Arguments lost {W}.

(* ------------------------------------------------------------------ handler bodies as data *)
Inductive hexp :=
| XParam (i : nat)                          (* i-th parameter after self *)
| XLocal (i : nat)                          (* i-th enclosing let, innermost = 0 *)
| XNone | XUnit | XText (s : string) | XInt (z : Z) | XMaxint
| XRoot                                     (* self._local_root *)
| XCleanup                                  (* self._cleanup() *)
| XTup0 | XTupCons (h t : hexp)             (* a tuple built by the implementation *)
| XLet (e body : hexp)
| XAccess (p : permkey) (g : option (list string)) (o n extra : hexp)
      (* self._access_attr(o, n, extra, "_rpyc_Xattr", "allow_Xattr", Xattr); with g = Some names the default accessor is a local
         function that serves the (policy-checked) name only if it is one of names and raises AttributeError otherwise *)
| XType (e : hexp)                          (* type(e) *)
| XCall (f pos star kw : hexp)              (* f( *pos, *star, **dict(kw) ); pos is built by the implementation *)
| XOp (op : nop) (a b : hexp)               (* repr(a), str(a), hash(a), tuple(dir(a)), tuple(islice(a, b)), ... *)
| XSlice (a b : hexp)
| XLookup (k : hexp)                        (* self._local_objects[k] *)
| XDecref (k c : hexp)                      (* self._local_objects.decref(k, c) *)
| XGuardCfg (key : string) (e : exn) (body : hexp)   (* if not self._config[key]: raise e(..)   then body *)
| XTryExc (body handler : hexp)             (* try: body  except Exception: handler *)
| XIfNone (c t e : hexp)                    (* t if c is None else e *)
| XIfHasConn (ty : bool) (c t e : hexp)     (* t if hasattr(c, '____conn__') else e; ty: the test is on type(c) *)
| XForward (c : hexp) (h : Z) (a : hexp)    (* c.____conn__.sync_request(h, a) *)
| XCtxArgs (load all : bool) (e : hexp).    (* the (exc, typ, tb) triple computed by _handle_ctxexit; all: except BaseException instead of except Exception; load: raise self._unbox_exc(exc) instead of raise exc *)
Record hdef := { h_min : nat; h_defaults : list hexp; h_body : hexp }.

Definition P0 := XParam 0. Definition P1 := XParam 1. Definition P2 := XParam 2.
Definition P3 := XParam 3. Definition P4 := XParam 4. Definition P5 := XParam 5.
Definition tup1 (a : hexp) := XTupCons a XTup0.
Definition tup2 (a b : hexp) := XTupCons a (XTupCons b XTup0).
Definition get_attr (o n : hexp) := XAccess PGet None o n XTup0.

(* the request handlers of the tree (tie: HostileTie.handlers_tie); two bodies exist in two forms, selected by generated facts:
   cmpg  = Some names: _handle_cmp serves the peer-chosen operator only if it is one of names (None: any policy-allowed name);
   ctxall = true: _handle_ctxexit catches BaseException around `raise exc` (false: Exception) *)
Definition handlers_of (cmpg : option (list string)) (ctxall : bool) : list (string * hdef) :=
  [("ping", {| h_min := 1; h_defaults := []; h_body := P0 |});
   ("close", {| h_min := 0; h_defaults := []; h_body := XCleanup |});
   ("getroot", {| h_min := 0; h_defaults := []; h_body := XRoot |});
   ("del", {| h_min := 1; h_defaults := [XInt 1]; h_body := XDecref (XOp OpIdPack P0 XNone) P1 |});
   ("repr", {| h_min := 1; h_defaults := []; h_body := XOp OpRepr P0 XNone |});
   ("str", {| h_min := 1; h_defaults := []; h_body := XOp OpStr P0 XNone |});
   ("cmp", {| h_min := 2; h_defaults := [XText "__cmp__"];
              h_body := XCall (XAccess PGet cmpg (XType P0) P2 XTup0) (tup2 P0 P1) XUnit XUnit |});
   ("hash", {| h_min := 1; h_defaults := []; h_body := XOp OpHash P0 XNone |});
   ("call", {| h_min := 2; h_defaults := [XUnit]; h_body := XCall P0 XTup0 P1 P2 |});
   ("dir", {| h_min := 1; h_defaults := []; h_body := XOp OpDir P0 XNone |});
   ("inspect", {| h_min := 1; h_defaults := [];
                  h_body := XIfHasConn true (XLookup P0) (XForward (XLookup P0) 16 P0) (XOp OpGetMethods (XLookup P0) XNone) |});
   ("getattr", {| h_min := 2; h_defaults := []; h_body := get_attr P0 P1 |});
   ("delattr", {| h_min := 2; h_defaults := []; h_body := XAccess PDel None P0 P1 XTup0 |});
   ("setattr", {| h_min := 3; h_defaults := []; h_body := XAccess PSet None P0 P1 (tup1 P2) |});
   ("callattr", {| h_min := 3; h_defaults := [XUnit]; h_body := XLet (get_attr P0 P1) (XCall (XLocal 0) XTup0 P2 P3) |});
   ("ctxexit", {| h_min := 2; h_defaults := [];
                  h_body := XLet (XCtxArgs true ctxall P1) (XCall (get_attr P0 (XText "__exit__")) XTup0 (XLocal 0) XUnit) |});
   ("instancecheck", {| h_min := 2; h_defaults := [];
                        h_body := XIfHasConn false P0 (XForward P0 16 P1) (XOp OpIsinstance P0 P1) |});
   ("pickle", {| h_min := 2; h_defaults := []; h_body := XGuardCfg "allow_pickle" ValueError (XOp OpPickle P0 P1) |});
   ("buffiter", {| h_min := 2; h_defaults := []; h_body := XOp OpIslice P0 P1 |});
   ("oldslicing", {| h_min := 6; h_defaults := [];
                     h_body := XTryExc (XLet (get_attr P0 P1) (XCall (XLocal 0) (tup1 (XSlice P3 P4)) P5 XUnit))
                                       (XLet (XIfNone P4 XMaxint P4)
                                             (XLet (get_attr P0 P2) (XCall (XLocal 0) (tup2 P3 (XLocal 1)) P5 XUnit))) |})]%string.
Definition handlers : list (string * hdef) := handlers_of None false.
Definition CMP_NAMES : list string := ["__cmp__"; "__eq__"; "__ne__"; "__lt__"; "__le__"; "__gt__"; "__ge__"]%string.
(* handler number -> method (tie: consts + _request_handlers) *)
Definition dispatch : list (Z * string) :=
  [(1, "ping"); (2, "close"); (3, "getroot"); (4, "getattr"); (5, "delattr"); (6, "setattr"); (7, "call"); (8, "callattr");
   (9, "repr"); (10, "str"); (11, "cmp"); (12, "hash"); (13, "dir"); (14, "pickle"); (15, "del"); (16, "inspect");
   (17, "buffiter"); (18, "oldslicing"); (19, "ctxexit"); (20, "instancecheck")]%Z%string.
(* the if-ladders of _dispatch, _unbox and _box as data (tie: HostileTie) *)
(* DReply / DException: the payload is rebuilt unguarded (a failure escapes _dispatch); DReplyG / DExceptionG: through
   _dispatch_response, where a failure that is an Exception other than EOFError is delivered to the request the response answers *)
Inductive dact := DRequest | DReply | DException | DReplyG | DExceptionG.
Inductive uact := UValue | UTuple | ULocal | URemote.
Definition msg_ladder : list (Z * dact) := [(1, DRequest); (2, DReplyG); (3, DExceptionG)]%Z.
Definition unbox_ladder : list (Z * uact) := [(1, UValue); (2, UTuple); (3, ULocal); (4, URemote)]%Z.
Definition box_ladder : list (string * Z) := [("dumpable", 1); ("tuple", 2); ("own_netref", 3); ("else", 4)]%Z%string.
Definition MSG_REQUEST := 1%Z. Definition MSG_REPLY := 2%Z. Definition MSG_EXCEPTION := 3%Z.
Definition HANDLE_INSPECT := 16%Z.
Definition MAXINT : Z := 9223372036854775807%Z.

Fixpoint assoc_z {A} (k : Z) (l : list (Z * A)) : option A :=
  match l with [] => None | (k', v) :: r => if Z.eqb k k' then Some v else assoc_z k r end.
Fixpoint assoc_s {A} (k : string) (l : list (string * A)) : option A :=
  match l with [] => None | (k', v) :: r => if String.eqb k k' then Some v else assoc_s k r end.

(* the default configuration (tie: HostileTie.default_config_tie) *)
Definition default_safe : list string :=
  ["__abs__"; "__add__"; "__and__"; "__bool__"; "__cmp__"; "__contains__"; "__delitem__"; "__delslice__"; "__div__"; "__divmod__";
   "__doc__"; "__eq__"; "__float__"; "__floordiv__"; "__ge__"; "__getitem__"; "__getslice__"; "__gt__"; "__hash__"; "__hex__";
   "__iadd__"; "__iand__"; "__idiv__"; "__ifloordiv__"; "__ilshift__"; "__imod__"; "__imul__"; "__index__"; "__int__"; "__invert__";
   "__ior__"; "__ipow__"; "__irshift__"; "__isub__"; "__iter__"; "__itruediv__"; "__ixor__"; "__le__"; "__len__"; "__long__";
   "__lshift__"; "__lt__"; "__mod__"; "__mul__"; "__ne__"; "__neg__"; "__new__"; "__nonzero__"; "__oct__"; "__or__"; "__pos__";
   "__pow__"; "__radd__"; "__rand__"; "__rdiv__"; "__rdivmod__"; "__repr__"; "__rfloordiv__"; "__rlshift__"; "__rmod__"; "__rmul__";
   "__ror__"; "__rpow__"; "__rrshift__"; "__rshift__"; "__rsub__"; "__rtruediv__"; "__rxor__"; "__setitem__"; "__setslice__";
   "__str__"; "__sub__"; "__truediv__"; "__xor__"; "next"; "__length_hint__"; "__enter__"; "__exit__"; "__next__"; "__format__"]%string.
Definition default_switches : switches :=
  {| allow_safe := true; allow_exposed := true; allow_public := false; allow_all := false;
     allow_getattr := true; allow_setattr := false; allow_delattr := false |}.
Definition default_config : config :=
  {| c_attr := {| sw := default_switches; exposed_prefix := txt "exposed_"; safe_attrs := map txt default_safe |};
     c_guard := true; c_pickle := false;
     c_rflags := {| Vinegar.import_custom := false; Vinegar.inst_custom := false; Vinegar.inst_oldstyle := false |};
     c_prop_kbd := true; c_prop_sysexit := false; c_cls_mode := Vinegar.LkDict; c_cls_reads := false |}.

(* ------------------------------------------------------------------ the interpreter *)
Section Interp.
Context {W : Type}.
Variable S : sem W.
Variable C : config.
Variable HT : list (string * hdef).      (* handler bodies *)
Variable DT : list (Z * string).         (* handler numbers *)
Variable ML : list (Z * dact).           (* _dispatch ladder *)
Variable UL : list (Z * uact).           (* _unbox ladder *)
Variable BL : list (string * Z).         (* _box ladder *)
Definition blabel (k : string) : pyval := PInt (match assoc_s k BL with Some z => z | None => 0%Z end).

Definition state := hst W.
Definition M (A : Type) := state -> state * res A.
Definition ret {A} (a : A) : M A := fun s => (s, ROk a).
Definition raise {A} (x : xid) : M A := fun s => (s, RRaise x).
Definition raise_std {A} (e : exn) : M A := raise (XStd e).
Definition unm {A} : M A := fun s => (s, RUnm).
Definition mbind {A B} (m : M A) (k : A -> M B) : M B :=
  fun s => match m s with
           | (s', ROk a) => k a s'
           | (s', RRaise x) => (s', RRaise x)
           | (s', RUnm) => (s', RUnm)
           end.
Notation "'dom' x <- m ; k" := (mbind m (fun x => k)) (at level 200, x pattern, m at level 100, k at level 200).
Definition lift {A} (r : result A) : M A :=
  match r with Ok a => ret a | Raise e => raise_std e | _ => unm end.

Definition with_tr (s : state) (t : list event) : state :=
  {| tbl := tbl s; wst := wst s; tr := t; script := script s; closed := closed s; approx := approx s; ccache := ccache s; pseen := pseen s; ctxs := ctxs s; lost := lost s |}.
Definition with_tbl (s : state) (t : table) : state :=
  {| tbl := t; wst := wst s; tr := tr s; script := script s; closed := closed s; approx := approx s; ccache := ccache s; pseen := pseen s; ctxs := ctxs s; lost := lost s |}.
Definition with_w (s : state) (w : W) : state :=
  {| tbl := tbl s; wst := w; tr := tr s; script := script s; closed := closed s; approx := approx s; ccache := ccache s; pseen := pseen s; ctxs := ctxs s; lost := lost s |}.
Definition with_script (s : state) (l : list panswer) : state :=
  {| tbl := tbl s; wst := wst s; tr := tr s; script := l; closed := closed s; approx := approx s; ccache := ccache s; pseen := pseen s; ctxs := ctxs s; lost := lost s |}.
Definition with_closed (s : state) : state :=
  {| tbl := tbl s; wst := wst s; tr := tr s; script := script s; closed := true; approx := approx s; ccache := []; pseen := pseen s; ctxs := ctxs s; lost := lost s |}.
Definition with_approx (s : state) : state :=
  {| tbl := tbl s; wst := wst s; tr := tr s; script := script s; closed := closed s; approx := true; ccache := ccache s; pseen := pseen s; ctxs := ctxs s; lost := lost s |}.
Definition with_caches (s : state) (c p : list pyval) : state :=
  {| tbl := tbl s; wst := wst s; tr := tr s; script := script s; closed := closed s; approx := approx s; ccache := c; pseen := p; ctxs := ctxs s; lost := lost s |}.
Definition with_ctxs (s : state) (l : list (oid * nop)) : state :=
  {| tbl := tbl s; wst := wst s; tr := tr s; script := script s; closed := closed s; approx := approx s; ccache := ccache s; pseen := pseen s; ctxs := l; lost := lost s |}.
Definition with_lost (s : state) : state :=
  {| tbl := tbl s; wst := wst s; tr := tr s; script := script s; closed := closed s; approx := approx s; ccache := ccache s; pseen := pseen s; ctxs := ctxs s; lost := true |}.
Definition add_ev (s : state) (e : event) : state := with_tr s (e :: tr s).
Definition emit (e : event) : M unit := fun s => (add_ev s e, ROk tt).
Definition mark_approx : M unit := fun s => (with_approx s, ROk tt).

(* the objects an operation hands out: in its result, or carried by the exception it raises *)
Definition yields (r : res lval) : list oid := match r with ROk v => objs_of v | RRaise x => carried x | RUnm => [] end.
(* a nameless operation on an object of the serving process *)
Definition touch (op : nop) (o : oid) (args : list lval) : M lval :=
  fun s => let '(w, r) := s_op S (wst s) op o args in (with_w (add_ev s (ETouch o op (yields r))) w, r).
(* the same on a plain value *)
Definition val_op (op : nop) (v : pyval) (args : list lval) : M lval :=
  fun s => let r := s_val S op v args in (add_ev s (EForeign (yields r)), r).

(* ---- table ---- *)
(* self._local_objects[k] *)
Definition resolve (k : pyval) : M lval :=
  fun s => match tbl_find k (tbl s) with
           | Some (o, _) => (add_ev s (EResolve k o), ROk (LO o))
           | None => (add_ev s (EMiss k), RRaise (XStd KeyError))
           end.
(* self._local_objects.add(get_id_pack(o), o) *)
Definition lend (o : oid) : M pyval :=
  fun s => let k := s_key S o in (with_tbl (add_ev s (EBox k o)) (tbl_add k o (tbl s)), ROk k).

(* ---- _box ---- *)
Fixpoint box (f : nat) (v : lval) : M pyval :=
  match f with
  | O => unm
  | Datatypes.S f' =>
    match as_value v with
    | Some p => ret (PTuple [blabel "dumpable"; p])
    | None =>
      match v with
      | LT l =>
          dom ps <- (fix go (l : list lval) : M (list pyval) :=
                       match l with
                       | [] => ret []
                       | x :: r => dom p <- box f' x; dom ps <- go r; ret (p :: ps)
                       end) l;
          ret (PTuple [blabel "tuple"; PTuple ps])
      | LP idp => ret (PTuple [blabel "own_netref"; idp])
      | LO o => dom k <- lend o; ret (PTuple [blabel "else"; k])
      | _ => unm                      (* an implementation-internal object would be lent: not modelled *)
      end
    end
  end.
Definition FUEL : nat := 64.

(* ---- the peer's scripted answers ---- *)
Definition pop_answer : M panswer :=
  fun s => match script s with
           | [] => (s, ROk PSilent)
           | a :: r => (with_script s r, ROk a)
           end.
Definition std_of_name (n : text) : option exn :=
  if text_eqb n (txt "TypeError") then Some TypeError else if text_eqb n (txt "ValueError") then Some ValueError
  else if text_eqb n (txt "AttributeError") then Some AttributeError else if text_eqb n (txt "KeyError") then Some KeyError
  else if text_eqb n (txt "EOFError") then Some EOFError else if text_eqb n (txt "UnicodeError") then Some UnicodeError
  else if text_eqb n (txt "UnicodeDecodeError") then Some UnicodeError else if text_eqb n (txt "UnicodeEncodeError") then Some UnicodeError
  else if text_eqb n (txt "TimeoutError") then Some TimeoutError else if text_eqb n (txt "StopIteration") then Some StopIteration
  else if text_eqb n (txt "IndexError") then Some IndexError else None.
Definition base_only_names : list text :=
  [txt "KeyboardInterrupt"; txt "SystemExit"; txt "GeneratorExit"; txt "BaseException"; txt "BaseExceptionGroup"].
(* the class of the object vinegar.load built (always a fresh subclass, so it never "is" KeyboardInterrupt/SystemExit) *)
Definition xid_of_rcls (c : Vinegar.rcls) : xid :=
  match c with
  | Vinegar.Real (Vinegar.Builtin n) =>
      if existsb (text_eqb n) base_only_names then XBaseOther
      else match std_of_name n with Some e => XStd e | None => XExcOther end
  | _ => XExcOther
  end.
(* exc.args = a needs an iterable; setattr(exc, n, v) with a special name and a plain value is refused with TypeError
   (only AttributeError is swallowed by vinegar.load) *)
Definition iterable (a : pyval) : bool :=
  match a with PTuple _ | PBytes _ | PStr _ | PFset _ => true | _ => false end.
Definition set_fails (nv : pyval * pyval) : bool :=
  match fst nv with
  | PStr n =>
      if text_eqb n (txt "__class__") || text_eqb n (txt "__dict__") then true
      else if text_eqb n (txt "__traceback__") || text_eqb n (txt "__cause__") || text_eqb n (txt "__context__")
           then (match snd nv with PNone => false | _ => true end)
      else if text_eqb n (txt "args") then negb (iterable (snd nv))
      else if text_eqb n (txt "__suppress_context__") then (match snd nv with PBool _ => false | _ => true end)
      else false
  | _ => true                                   (* attribute name must be string *)
  end.
(* self._unbox_exc(payload): the exception object, or the exception raised while building it *)
Definition load_exc (payload : pyval) : M xid :=
  fun s =>
    (* the class lookup in an imported module is getattr(module, name, None) (Vinegar.LkGetattr, the most permissive form);
       environments of this model carry no module-level __getattr__ entries, so the other lookup forms behave the same *)
    let '(eff, r) := Vinegar.vload Vinegar.LkGetattr (c_rflags C) (s_env S) payload in
    let s' := fold_left (fun s e => add_ev s (EVin e)) eff s in
    match r with
    | Ok Vinegar.LStop => (s', ROk (XStd StopIteration))
    | Ok (Vinegar.LStr _) => (s', ROk (XStd TypeError))          (* raise "text": exceptions must derive from BaseException *)
    | Ok (Vinegar.LExc c a sets st) =>
        if negb (iterable a) || existsb set_fails sets then (s', RRaise (XStd TypeError))
        else match st with
             | Vinegar.Done _ _ => (s', ROk (xid_of_rcls c))
             | Vinegar.Fail e => (s', RRaise (XStd e))
             end
    | Raise e => (s', RRaise (XStd e))
    | _ => (s', RUnm)
    end.

(* raise self._unbox_exc(payload) / AsyncResult.value of an exception answer *)
Definition raise_loaded {A} (payload : pyval) : M A :=
  fun s => match load_exc payload s with
           | (s1, ROk x) => (s1, RRaise x)
           | (s1, RRaise x) => (s1, RRaise x)
           | (s1, RUnm) => (s1, RUnm)
           end.

(* ---- _unbox ---- *)
Definition index3 (v : pyval) : res (pyval * pyval * pyval) :=
  match v with
  | PTuple (a :: b :: c :: _) => ROk (a, b, c)
  | PTuple _ => RRaise (XStd IndexError)
  | PStr (a :: b :: c :: _) => ROk (PStr [a], PStr [b], PStr [c])
  | PStr _ => RRaise (XStd IndexError)
  | PBytes (a :: b :: c :: _) => ROk (PInt (Z.of_N (Byte.to_N a)), PInt (Z.of_N (Byte.to_N b)), PInt (Z.of_N (Byte.to_N c)))
  | PBytes _ => RRaise (XStd IndexError)
  | _ => RRaise (XStd TypeError)
  end.
Definition is_builtin_name (n : text) : bool := existsb (text_eqb n) (s_builtin_names S).
(* for name, doc in methods: ... (names the model accepts: plain text) *)
Definition methods_ok (v : lval) : res unit :=
  match v with
  | LV p =>
      match iter_elems false p with
      | Ok l => if forallb (fun it => match it with PTuple [PStr (c :: _); PNone] => negb (N.eqb c 95) | _ => false end) l
                then ROk tt else RUnm
      | Raise e => RRaise (XStd e)
      | _ => RUnm
      end
  | _ => RUnm
  end.
Definition sane_name (n : text) : bool := forallb (fun c => (N.leb 32 c) && (N.ltb c 127)) n.

Definition emit_all (l : list event) : M unit := fun s => (fold_left add_ev l s, ROk tt).
Definition in_ccache (k : pyval) : M bool := fun s => (s, ROk (existsb (pv_eqb k) (ccache s))).
Definition was_seen (k : pyval) : M bool := fun s => (s, ROk (existsb (pv_eqb k) (pseen s))).
Definition note_seen (k : pyval) : M unit := fun s => (with_caches s (ccache s) (k :: pseen s), ROk tt).
Definition note_class (k : pyval) : M unit := fun s => (with_caches s (k :: ccache s) (pseen s), ROk tt).
(* netref.class_factory: the peer-declared dotted name is tried as a module, then split at each '.' from the right; in the
   first prefix that is an imported module the rest is looked up (getattr(module, rest, None) runs a module-level __getattr__
   hook, module.__dict__.get(rest) does not) *)
Fixpoint dot_splits (pre rest : text) : list (text * text) :=
  match rest with
  | [] => []
  | c :: r => let tail := dot_splits (c :: pre) r in if N.eqb c 46 then tail ++ [(rev pre, r)] else tail
  end.
Definition walk_candidates (n : text) : list (text * text) := (n, []) :: dot_splits [] n.
Definition class_imports (name : text) : list text :=
  let fm := Vinegar.find_module (s_env S) (Vinegar.modules (s_env S)) in
  match find (fun pr => match fm (fst pr) with Some _ => true | None => false end) (walk_candidates name) with
  | Some (m, cls) =>
      match fm m with
      | Some ns => match Vinegar.assoc cls ns with
                   | Some (Vinegar.ALazy imports _) => if Vinegar.hooks_run (c_cls_mode C) (c_rflags C) then imports else []
                   | _ => []
                   end
      | None => []
      end
  | None => []
  end.
Fixpoint assoc_txt {A} (k : text) (l : list (text * A)) : option A :=
  match l with [] => None | (k', v) :: r => if text_eqb k k' then Some v else assoc_txt k r end.
Definition class_global (name : text) : list event :=
  if c_cls_reads C then match assoc_txt name (s_globals S) with Some o => [EGlobalRead o] | None => [] end else [].
Definition class_walk (name : text) : M unit := emit_all (map ECls (class_imports name) ++ class_global name).
Definition is_zero (v : pyval) : bool := match num_of v with Some 0%Z => true | _ => false end.

(* tuple(self._unbox(item) for item in value): a StopIteration raised inside the generator expression comes out as RuntimeError (PEP 479) *)
Definition in_genexpr {A} (m : M A) : M A :=
  fun s => match m s with
           | (s', RRaise (XStd StopIteration)) => (s', RRaise XExcOther)
           | r => r
           end.
Fixpoint unbox (f : nat) (pkg : pyval) : M lval :=
  match f with
  | O => unm
  | Datatypes.S f' =>
    dom lv <- lift (Vinegar.unpack 2 pkg);
    match lv with
    | [label; value] =>
      match match num_of label with Some z => assoc_z z UL | None => None end with
      | Some UValue => ret (LV value)
      | Some UTuple =>
          dom items <- lift (iter_elems false value);
          match value, items with
          | PFset _, _ :: _ :: _ => unm         (* iteration order of a frozenset *)
          | _, _ =>
            dom l <- (fix go (l : list pyval) : M (list lval) :=
                        match l with
                        | [] => ret []
                        | x :: r => dom v <- in_genexpr (unbox f' x); dom vs <- go r; ret (v :: vs)
                        end) items;
            ret (LT l)
          end
      | Some ULocal => resolve value
      | Some URemote =>
          match index3 value with
          | ROk (a, b, c) =>
              match py_str a with
              | None => unm
              | Some name =>
                  let idp := PTuple [PStr name; b; c] in
                  dom cached <- in_ccache idp;
                  if is_zero c && cached then ret (LP idp)             (* self._netref_classes_cache *)
                  else if is_builtin_name name then ret (LP idp)       (* netref.builtin_classes_cache *)
                  else if negb (sane_name name) then unm
                  else (* _netref_factory: cls_methods = self.sync_request(HANDLE_INSPECT, id_pack) -- unless the weak proxy
                          cache still holds a proxy for this id pack (not decidable here: flagged approximate) *)
                    dom seen <- was_seen idp;
                    dom _ <- (if seen then mark_approx else ret tt);
                    dom _ <- note_seen idp;
                    dom _ <- emit (EAsk HANDLE_INSPECT);
                    dom a <- pop_answer;
                    match a with
                    | PSilent => raise_std TimeoutError
                    | PExc payload => raise_loaded payload
                    | PReply p => dom m <- unbox f' p;
                                  match methods_ok m with
                                  | ROk _ => dom _ <- class_walk name;
                                             dom _ <- (if is_zero c then note_class idp else ret tt);
                                             ret (LP idp)
                                  | RRaise x => raise x
                                  | RUnm => unm
                                  end
                    end
              end
          | RRaise x => raise x
          | RUnm => unm
          end
      | None => raise_std ValueError            (* invalid label *)
      end
    | _ => raise_std ValueError
    end
  end.

(* conn.sync_request(h, *args ) towards the peer: the arguments are boxed (objects among them are lent), one answer is awaited *)
Definition ask (h : Z) (args : list lval) : M lval :=
  dom _ <- box FUEL (LT args);
  dom _ <- emit (EAsk h);
  dom a <- pop_answer;
  match a with
  | PSilent => raise_std TimeoutError
  | PExc payload => raise_loaded payload
  | PReply p => unbox FUEL p
  end.
(* an operation whose target is a proxy: a conversation with the peer (modelled as one request; flagged approximate) *)
Definition converse (h : Z) (args : list lval) : M lval := dom _ <- mark_approx; ask h args.

(* ---- helpers of the handler language ---- *)
Definition tuple_items (v : lval) : list lval :=
  match v with LT l => l | LV (PTuple l) => map LV l | _ => [] end.
(* iterating a value with * *)
Definition iter_lval (v : lval) : M (list lval) :=
  match v with
  | LT l => ret l
  | LV (PFset (_ :: _ :: _)) => unm
  | LV p => dom l <- lift (iter_elems false p); ret (map LV l)
  | LO o => dom r <- touch OpIter o []; match r with LT l => ret l | _ => unm end
  | LP idp => dom r <- converse 8 [LP idp]; match r with LT l => ret l | LV (PTuple l) => ret (map LV l) | _ => unm end
  | LSlice _ _ => raise_std TypeError
  | LAny | LOpq => unm
  end.
(* dict(kw) followed by ** : the keys must be text *)
Definition kw_lval (v : lval) : M (list (lval * lval)) :=
  match v with
  | LT [] | LV (PTuple []) | LV (PBytes []) | LV (PStr []) | LV (PFset []) => ret []
  | LO o => dom r <- touch OpDict o []; match r with LT [] => ret [] | _ => unm end
  | LP idp => dom _ <- converse 8 [LP idp]; unm
  | LV (PTuple _) | LV (PFset _) | LT _ => unm                 (* pairs: not modelled *)
  | LV (PStr _) => raise_std ValueError                        (* dictionary update sequence element #0 has length 1; 2 is required *)
  | LV _ | LSlice _ _ => raise_std TypeError
  | LAny | LOpq => unm
  end.
Definition truthy (v : lval) : M bool :=
  match v with
  | LV p => ret (py_truth p)
  | LT l => ret (match l with [] => false | _ => true end)
  | LO o => dom r <- touch OpBool o []; match r with LV (PBool b) => ret b | _ => unm end
  | LP idp => dom _ <- converse 8 [LP idp]; unm
  | LSlice _ _ | LOpq => ret true
  | LAny => unm
  end.
Definition pyname_of (v : lval) : pyname :=
  match v with LV (PStr t) => NStr t | LV (PBytes b) => NBytes b | _ => NOther end.
Definition ev_name (e : ev) : text := match e with EGet n | ESet n | EDel n => n end.
Definition no_obj : obj := {| attrs := []; hook_get := false; hook_set := false; hook_del := false |}.

(* Connection._access_attr(tgt, nm, extra, "_rpyc_<p>attr", "allow_<p>attr", <p>attr) *)
Definition guard_ok (g : option (list string)) (final : text) : bool :=
  match g with None => true | Some names => existsb (fun n => text_eqb final (txt n)) names end.
Definition access (p : permkey) (g : option (list string)) (tgt nm : lval) (extra : list lval) : M lval :=
  let pn := pyname_of nm in
  match tgt with
  | LO o => fun s =>
      let vw := s_view S (wst s) o in
      let s1 := fold_left (fun s e => add_ev s (EProbe o (ev_name e))) (probes_of (c_attr C) p pn vw) s in
      match decide (c_guard C) (c_attr C) p pn vw with
      | Ok (ViaHook n) =>
          let '(w, r) := s_hook S (wst s1) o p n extra in (with_w (add_ev s1 (EHook o p n (yields r))) w, r)
      | Ok (ViaDefault final) =>
          if guard_ok g final then
            let '(w, r) := s_attr S (wst s1) o p final extra in (with_w (add_ev s1 (EAttr o p final (yields r))) w, r)
          else (s1, RRaise (XStd AttributeError))          (* the guarded accessor refuses the name before touching the object *)
      | Raise e => (s1, RRaise (XStd e))
      | _ => (s1, RUnm)
      end
  | LP idp => dom _ <- converse 4 [LP idp; nm]; unm
  | _ =>   (* a plain value or an implementation-internal object: no hook, nothing exposed_; an allowed name reaches Python's own attribute *)
      match decide (c_guard C) (c_attr C) p pn no_obj with
      | Raise e => raise_std e
      | Ok (ViaDefault final) => if guard_ok g final then unm else raise_std AttributeError
      | _ => unm
      end
  end.

(* tuple(itertools.islice(a, b)): the count is validated before the iterator is taken *)
Fixpoint take_z {A} (z : Z) (l : list A) : list A :=
  match l with [] => [] | x :: r => if (0 <? z)%Z then x :: take_z (z - 1)%Z r else [] end.
Definition islice_count (b : lval) : M (option Z) :=
  match b with
  | LV PNone => ret None
  | LV (PInt z) => if (0 <=? z)%Z && (z <=? MAXINT)%Z then ret (Some z) else raise_std ValueError
  | LV (PBool c) => ret (Some (if c then 1%Z else 0%Z))
  | LO o => dom _ <- touch OpIndex o []; unm
  | LP idp => dom _ <- converse 8 [LP idp]; unm
  | LAny => unm
  | _ => raise_std ValueError
  end.
(* (v[0], v[1]) of _handle_instancecheck *)
Definition index2 (v : pyval) : res (pyval * pyval) :=
  match v with
  | PTuple (a :: b :: _) => ROk (a, b)
  | PTuple _ => RRaise (XStd IndexError)
  | PStr (a :: b :: _) => ROk (PStr [a], PStr [b])
  | PStr _ => RRaise (XStd IndexError)
  | PBytes (a :: b :: _) => ROk (PInt (Z.of_N (Byte.to_N a)), PInt (Z.of_N (Byte.to_N b)))
  | PBytes _ => RRaise (XStd IndexError)
  | _ => RRaise (XStd TypeError)
  end.

Definition do_op (op : nop) (a b : lval) : M lval :=
  match op with
  | OpIslice =>
      dom n <- islice_count b;
      dom l <- iter_lval a;
      ret (LT (match n with Some k => take_z k l | None => l end))
  | OpIsinstance =>
      match b with
      | LV bv =>
          match index2 bv with
          | ROk (PStr name, b1) =>
              dom cached <- in_ccache (PTuple [PStr name; b1; PInt 0]);
              if is_builtin_name name || cached then
                match a with
                | LO o => touch OpIsinstance o []
                | LV v => val_op OpIsinstance v []
                | _ => unm
                end
              else ret (LV (PBool false))
          | ROk _ => ret (LV (PBool false))                  (* a name that is not text is in neither cache *)
          | RRaise x => raise x
          | RUnm => unm
          end
      | LO _ | LSlice _ _ => raise_std TypeError           (* not subscriptable *)
      | _ => unm
      end
  | OpIdPack =>
      match a with
      | LO o => dom _ <- emit (ETouch o OpIdPack []); ret (LV (s_key S o))
      | LP idp => ret (LV idp)
      | _ => ret LAny                                      (* the id pack of a plain value: never a key of the table *)
      end
  | OpPickle =>
      match a with
      | LO o => touch OpPickle o [b]
      | _ => unm
      end
  | _ =>
      match a with
      | LO o => touch op o []
      | LV v => val_op op v []
      | LP idp => converse (match op with OpRepr => 9 | OpStr => 10 | OpHash => 12 | OpDir => 13 | _ => 16 end)%Z [LP idp]
      | LT _ | LSlice _ _ | LOpq | LAny => unm
      end
  end.

(* self._local_objects.decref(k, c) *)
Definition decref (k c : lval) : M lval :=
  match k with
  | LV key => fun s =>
      match tbl_find key (tbl s) with
      | None => (add_ev s (EMiss key), RRaise (XStd KeyError))
      | Some (o, cnt) =>
          match c with
          | LV cv =>
              match cv with
              | PInt _ | PBool _ =>
                  let n := match num_of cv with Some z => z | None => 0%Z end in
                  (with_tbl (add_ev s (EDecref key n)) (tbl_decref key n (tbl s)), ROk (LV PNone))
              | PFloat _ | PComplex _ => (s, RUnm)
              | _ => (s, RRaise (XStd TypeError))          (* int < str, int < None, ... *)
              end
          | LO co => (dom _ <- touch OpCmp co []; unm) s
          | LT _ | LSlice _ _ => (s, RRaise (XStd TypeError))
          | _ => (s, RUnm)
          end
      end
  | LAny => raise_std KeyError
  | _ => unm
  end.

(* self._cleanup(): the connection is over *)
Definition cleanup : M unit :=
  fun s => (with_closed (with_tbl (add_ev (add_ev s EDisconnect) EClear) []), ROk tt).

Definition ctx_of (x : xid) : list (oid * nop) :=
  match x with XAttrObj o => [(o, OpDir)] | XCarry os => rev (map (fun o => (o, OpStr)) os) | _ => [] end.
(* try: m  except Exception: h *)
Definition try_exc {A} (all : bool) (m h : M A) : M A :=          (* all: except BaseException *)
  fun s => match m s with
           | (s', RRaise x) => if all || is_exception x
                               then h (with_ctxs s' (ctx_of x ++ ctxs s'))   (* what h raises has x as __context__ *)
                               else (s', RRaise x)
           | r => r
           end.
(* _handle_ctxexit: raise exc  /  raise self._unbox_exc(exc)  (never returns normally) *)
Definition ctx_raise (load : bool) (v : lval) : M lval :=
  if load then
    match v with
    | LV p => raise_loaded p
    | LO o =>            (* val == EXC_STOP_ITERATION, then (modname, clsname), args, attrs, tbtext = val *)
        dom _ <- touch OpEq o [];
        dom r <- touch OpIter o [];
        match r with
        | LT [_; _; _; _] => unm
        | LT _ => raise_std ValueError
        | _ => unm
        end
    | LT [_; _; _; _] => unm
    | LT _ => raise_std ValueError
    | LP idp => dom _ <- converse 11 [LP idp]; unm
    | _ => unm
    end
  else
    match v with
    | LO o => touch OpRaise o []
    | _ => raise_std TypeError                 (* raise <not an exception> *)
    end.

Fixpoint eval (env loc : list lval) (e : hexp) {struct e} : M lval :=
  match e with
  | XParam i => match nth_error env i with Some v => ret v | None => unm end
  | XLocal i => match nth_error loc i with Some v => ret v | None => unm end
  | XNone => ret (LV PNone)
  | XUnit => ret (LV (PTuple []))
  | XText s => ret (LV (PStr (txt s)))
  | XInt z => ret (LV (PInt z))
  | XMaxint => ret (LV (PInt MAXINT))
  | XRoot => dom _ <- emit (ERoot (s_root S)); ret (LO (s_root S))
  | XCleanup => dom _ <- cleanup; ret (LV PNone)
  | XTup0 => ret (LT [])
  | XTupCons h t => dom a <- eval env loc h; dom b <- eval env loc t; ret (LT (a :: tuple_items b))
  | XLet e1 body => dom v <- eval env loc e1; eval env (v :: loc) body
  | XAccess p g o n extra =>
      dom ov <- eval env loc o; dom nv <- eval env loc n; dom ev <- eval env loc extra;
      access p g ov nv (tuple_items ev)
  | XType e1 =>
      dom v <- eval env loc e1;
      match v with
      | LO o => dom _ <- emit (EType o (s_type S o)); ret (LO (s_type S o))
      | LP _ => dom _ <- mark_approx; ret LOpq
      | _ => ret LOpq
      end
  | XCall f pos star kw =>
      dom fv <- eval env loc f;
      dom pv <- eval env loc pos;
      dom sv <- eval env loc star;
      dom kv <- eval env loc kw;
      (* CPython: with no fixed arguments dict(kw) is evaluated before *star is iterated, otherwise after *)
      dom sk <- match tuple_items pv with
                | [] => dom k <- kw_lval kv;
                        (* "<callee> argument after * must be an iterable": CPython formats str(callee) into the message *)
                        dom _ <- match fv, sv with
                                 | LO o, LV p => match iter_elems false p with
                                                 | Raise _ => dom _ <- touch OpFuncStr o []; ret tt
                                                 | _ => ret tt
                                                 end
                                 | LP idp, LV p => match iter_elems false p with
                                                   | Raise _ => dom _ <- converse 4 [LP idp]; unm
                                                   | _ => ret tt
                                                   end
                                 | LT (_ :: _), LV p => match iter_elems false p with
                                                        | Raise _ => unm      (* str(<tuple callee>): repr() of every element; not modelled *)
                                                        | _ => ret tt
                                                        end
                                 | _, _ => ret tt
                                 end;
                        dom l <- iter_lval sv; ret (l, k)
                | _ => dom l <- iter_lval sv; dom k <- kw_lval kv; ret (l, k)
                end;
      let args := tuple_items pv ++ fst sk in
      match fv with
      | LO o => touch OpCall o args
      | LV v => val_op OpCall v args
      | LP idp => converse 7 (LP idp :: args)
      | LT _ | LSlice _ _ => raise_std TypeError
      | LAny | LOpq => unm
      end
  | XOp op a b => dom av <- eval env loc a; dom bv <- eval env loc b; do_op op av bv
  | XSlice a b => dom av <- eval env loc a; dom bv <- eval env loc b; ret (LSlice av bv)
  | XLookup k =>
      dom kv <- eval env loc k;
      match as_value kv with Some key => resolve key | None => unm end
  | XDecref k c => dom kv <- eval env loc k; dom cv <- eval env loc c; decref kv cv
  | XGuardCfg key ex body =>
      if String.eqb key "allow_pickle" then (if c_pickle C then eval env loc body else raise_std ex) else unm
  | XTryExc body handler => try_exc false (eval env loc body) (eval env loc handler)
  | XIfNone c t e1 =>
      dom cv <- eval env loc c;
      match cv with LV PNone => eval env loc t | _ => eval env loc e1 end
  | XIfHasConn ty c t e1 =>
      dom cv <- eval env loc c;
      match cv with
      | LP _ => eval env loc t
      | LO o =>
          dom _ <- (if ty then dom _ <- emit (EType o (s_type S o)); emit (ETouch (s_type S o) OpHasConn [])
                    else emit (ETouch o OpHasConn []));
          eval env loc e1
      | _ => eval env loc e1
      end
  | XForward c h a =>
      dom cv <- eval env loc c; dom av <- eval env loc a;
      converse h [av]
  | XCtxArgs load all e1 =>
      dom v <- eval env loc e1;
      dom b <- truthy v;
      if b then try_exc all (dom _ <- ctx_raise load v; unm) (ret (LT [LOpq; LOpq; LOpq]))
      else ret (LT [v; LV PNone; LV PNone])
  end.

(* self._HANDLERS[handler](self, *args ) *)
Definition find_handler (hv : pyval) : option hdef :=
  match num_of hv with
  | Some z => match assoc_z z DT with Some nm => assoc_s nm HT | None => None end
  | None => None
  end.
Fixpoint eval_list (l : list hexp) : M (list lval) :=
  match l with [] => ret [] | e :: r => dom v <- eval [] [] e; dom vs <- eval_list r; ret (v :: vs) end.
Definition call_handler (hv : pyval) (args : lval) : M lval :=
  match hv with
  | PFset _ | PSlice _ _ _ | POther _ => unm
  | _ =>
    match find_handler hv with
    | None => raise_std KeyError
    | Some d =>
        dom l <- iter_lval args;
        let n := List.length l in
        if (n <? h_min d)%nat || (h_min d + List.length (h_defaults d) <? n)%nat then raise_std TypeError
        else dom ds <- eval_list (skipn (n - h_min d) (h_defaults d)); eval (l ++ ds) [] (h_body d)
    end
  end.

(* ---- messages ---- *)
Inductive out :=
| OReply (seq pkg : pyval)      (* MSG_REPLY with the request's sequence number *)
| OExc (seq : pyval) (x : xid)  (* MSG_EXCEPTION with the request's sequence number *)
| OIgnored                      (* a reply / exception for which nothing waits: dropped *)
| OEnd (x : xid)                (* an exception leaves serve(): this connection ends *)
| OClosed                       (* the peer asked to close: this connection ends *)
| ODead                         (* the connection had already ended: nothing is read *)
| OUnm.

Definition propagates (x : xid) : bool :=
  match x with XKbd => c_prop_kbd C | XSysExit => c_prop_sysexit C | _ => false end.
(* serve_all: whatever leaves serve() ends in close() *)
Definition end_conn (s : state) : state := if closed s then s else fst (cleanup s).

(* what reporting an exception to the peer does to the objects it carries: traceback formatting lists dir(obj) of a failed
   attribute lookup to suggest a name; vinegar.dump sends repr() of every argument / attribute that is not a plain value *)
Definition tb_events (x : xid) : list event :=          (* traceback.format_exception on the exception itself: dir(obj) suggestion / str(exc) *)
  match x with
  | XAttrObj o => [EPayload o OpDir]
  | XCarry os => map (fun o => EPayload o OpStr) os
  | _ => []
  end.
Definition dump_events (x : xid) : list event :=        (* vinegar.dump: repr() of non-plain arguments / non-callable attribute values *)
  match x with
  | XAttrObj o => if s_callable S o then [] else [EPayload o OpRepr]
  | XCarry os => map (fun o => EPayload o OpRepr) os
  | _ => []
  end.
Definition payload_events (x : xid) : list event := tb_events x ++ dump_events x.
Definition dispatch_request (seq raw : pyval) : state -> state * out :=
  fun s =>
    let m : M lval :=
      dom ha <- lift (Vinegar.unpack 2 raw);
      match ha with
      | [h; pkg] => dom args <- unbox FUEL pkg; call_handler h args
      | _ => raise_std ValueError
      end in
    match m s with
    | (s1, ROk v) =>
        if closed s1 then (s1, OClosed)
        else match box FUEL v s1 with
             | (s2, ROk p) => (s2, OReply seq p)
             | (s2, _) => (s2, OUnm)
             end
    | (s1, RRaise x) =>
        if closed s1 then (s1, OClosed)
        else if propagates x then (end_conn s1, OEnd x)
        else (fold_left add_ev (tb_events x ++ map (fun c => ECtx (fst c) (snd c)) (ctxs s1) ++ dump_events x) s1, OExc seq x)      (* _send_exc: vinegar.dump *)
    | (s1, RUnm) => (s1, OUnm)
    end.

(* _dispatch_response: try: obj = rebuild(args)  except EOFError: raise  except Exception: deliver the error instead;
   then the callback registered for seq gets it (none is registered for an unsolicited response: dropped) *)
Definition escapes_response (x : xid) : bool :=
  match x with XStd EOFError => true | _ => negb (is_exception x) end.
Definition response_out {A} (sr : state * res A) : state * out :=
  match sr with
  | (s1, ROk _) => (s1, OIgnored)
  | (s1, RRaise x) => if escapes_response x then (end_conn s1, OEnd x) else (s1, OIgnored)
  | (s1, RUnm) => (s1, OUnm)
  end.
Definition handle_msg_core (msg : pyval) (answers : list panswer) (s0 : state) : state * out :=
  if closed s0 then (s0, ODead) else
  let s := with_ctxs (with_script (add_ev s0 EMsg) answers) [] in
  match Vinegar.unpack 3 msg with
  | Ok [kind; seq; args] =>
      match match num_of kind with Some z => assoc_z z ML | None => None end with
      | Some DRequest => dispatch_request seq args s
      | Some DReply =>
          match unbox FUEL args s with
          | (s1, ROk _) => (s1, OIgnored)
          | (s1, RRaise x) => (end_conn s1, OEnd x)
          | (s1, RUnm) => (s1, OUnm)
          end
      | Some DException =>
          match load_exc args s with
          | (s1, ROk _) => (s1, OIgnored)
          | (s1, RRaise x) => (end_conn s1, OEnd x)
          | (s1, RUnm) => (s1, OUnm)
          end
      | Some DReplyG => response_out (unbox FUEL args s)
      | Some DExceptionG => response_out (load_exc args s)
      | None => (end_conn s, OEnd (XStd ValueError))    (* invalid message type *)
      end
  | Ok _ => (end_conn s, OEnd (XStd ValueError))
  | Raise e => (end_conn s, OEnd (XStd e))
  | _ => (s, OUnm)
  end.

(* once a message met something the model does not describe, the model says nothing about the rest of the connection *)
Definition handle_msg (msg : pyval) (answers : list panswer) (s0 : state) : state * out :=
  if lost s0 then (s0, OUnm) else
  match handle_msg_core msg answers s0 with
  | (s', OUnm) => (with_lost s', OUnm)
  | r => r
  end.

Inductive input := IMsg (msg : pyval) (answers : list panswer) | IEnv (f : W -> W).
Definition step (s : state) (i : input) : state * out :=
  match i with
  | IMsg m a => handle_msg m a s
  | IEnv f => (with_w (add_ev s EEnv) (f (wst s)), OIgnored)
  end.
Definition run (s : state) (l : list input) : state := fold_left (fun s i => fst (step s i)) l s.
Definition init (w : W) : state :=
  {| tbl := []; wst := w; tr := []; script := []; closed := false; approx := false; ccache := []; pseen := []; ctxs := []; lost := false |}.
End Interp.

(* ------------------------------------------------------------------ a finite world of objects (harness canaries) *)
Inductive aval := AV (v : pyval) | AAny | AO (o : oid) | AX (x : xid) | ANone.
Record odesc := {
  od_key : pyval; od_type : oid; od_class : bool;
  od_attrs : list (text * aval); od_hooks : bool * bool * bool; od_hookres : aval;
  od_call : aval; od_iter : option (list aval);
  od_repr : text; od_str : text; od_hash : aval; od_dir : list text; od_bool : bool; od_methods : pyval; od_callable : bool }.
Definition nil_desc : odesc :=
  {| od_key := PNone; od_type := 0%N; od_class := false; od_attrs := []; od_hooks := (false, false, false); od_hookres := ANone;
     od_call := ANone; od_iter := None; od_repr := []; od_str := []; od_hash := ANone; od_dir := []; od_bool := true;
     od_methods := PTuple []; od_callable := true |}.
Record world := { w_objs : list odesc; w_builtin : list text }.
Definition desc (w : world) (o : oid) : odesc := nth (N.to_nat o) (w_objs w) nil_desc.
Definition lv_of_aval (missing : exn) (a : aval) : res lval :=
  match a with AV v => ROk (LV v) | AAny => ROk LAny | AO o => ROk (LO o) | AX x => RRaise x | ANone => RRaise (XStd missing) end.
Fixpoint assoc_t {A} (k : text) (l : list (text * A)) : option A :=
  match l with [] => None | (k', v) :: r => if text_eqb k k' then Some v else assoc_t k r end.
Fixpoint avals (l : list aval) : list lval :=
  match l with [] => [] | a :: r => match lv_of_aval TypeError a with ROk v => v :: avals r | _ => avals r end end.
Definition empty_env : Vinegar.env :=
  {| Vinegar.builtins_ns := []; Vinegar.modules := []; Vinegar.importable := []; Vinegar.local_major := [] |}.
(* the builtins namespace as far as the harness uses it: every builtin exception class can be rebuilt with __new__ *)
Definition exc_env (names : list text) (mods : list (text * Vinegar.ns)) : Vinegar.env :=
  {| Vinegar.builtins_ns := map (fun n => (n, Vinegar.AExc (Vinegar.Builtin n) true)) names;
     Vinegar.modules := mods; Vinegar.importable := []; Vinegar.local_major := [53%N] |}.

Definition world_sem (w : world) (excs : list text) (mods : list (text * Vinegar.ns)) (globs : list (text * oid)) : sem unit :=
  {| s_root := 0%N;
     s_key := fun o => od_key (desc w o);
     s_type := fun o => od_type (desc w o);
     s_callable := fun o => od_callable (desc w o);
     s_view := fun _ o => let d := desc w o in
                          let '(g, st, dl) := od_hooks d in
                          {| attrs := map fst (od_attrs d); hook_get := g; hook_set := st; hook_del := dl |};
     s_attr := fun _ o p n _ =>
                 (tt, match p with
                      | PGet => match assoc_t n (od_attrs (desc w o)) with Some a => lv_of_aval AttributeError a | None => RRaise (XAttrObj o) end
                      | _ => RUnm
                      end);
     s_hook := fun _ o _ _ _ => (tt, lv_of_aval AttributeError (od_hookres (desc w o)));
     s_op := fun _ op o _ =>
               let d := desc w o in
               (tt, match op with
                    | OpCall => lv_of_aval TypeError (od_call d)
                    | OpRepr => ROk (LV (PStr (od_repr d)))
                    | OpStr => ROk (LV (PStr (od_str d)))
                    | OpHash => lv_of_aval TypeError (od_hash d)
                    | OpDir => ROk (LV (PTuple (map PStr (od_dir d))))
                    | OpIter | OpDict => match od_iter d with Some l => ROk (LT (avals l)) | None => RRaise (XStd TypeError) end
                    | OpBool => ROk (LV (PBool (od_bool d)))
                    | OpRaise | OpCmp => RRaise (XStd TypeError)
                    | OpIndex => RRaise (XStd ValueError)
                    | OpIsinstance => if od_class d then ROk (LV (PBool false)) else RRaise (XStd TypeError)
                    | OpGetMethods => ROk (LV (od_methods d))
                    | OpFuncStr => ROk LAny
                    | OpEq => ROk (LV (PBool false))
                    | _ => RUnm
                    end);
     s_val := fun op v _ =>
                match op with
                | OpCall => RRaise (XStd TypeError)
                | OpRepr | OpStr | OpDir | OpGetMethods => ROk LAny
                | OpHash => ROk LAny
                | OpIsinstance => match v with
                                  | PTuple [] => ROk (LV (PBool false))       (* isinstance(x, ()) *)
                                  | PTuple _ => RUnm
                                  | _ => RRaise (XStd TypeError)
                                  end
                | _ => RUnm
                end;
     s_builtin_names := w_builtin w;
     s_globals := globs;
     s_env := exc_env excs mods |}.

(* ------------------------------------------------------------------ harness interface *)
Definition xid_of_sx (x : sx) : xid :=
  match x with
  | SL [SI 0%Z; SI k] =>
      XStd (match k with 0%Z => TypeError | 1%Z => ValueError | 2%Z => AttributeError | 3%Z => KeyError | 4%Z => EOFError
                    | 5%Z => UnicodeError | 6%Z => TimeoutError | 7%Z => StopIteration | 8%Z => IndexError | _ => OtherError end)
  | SL [SI 1%Z] => XKbd | SL [SI 2%Z] => XSysExit | SL [SI 3%Z] => XBaseOther
  | SL [SI 5%Z; SL os] => XCarry (map sx_n os) | SL [SI 6%Z; o] => XAttrObj (sx_n o) | _ => XExcOther
  end.
Definition sx_of_xid (x : xid) : sx :=
  match x with
  | XStd e => SL [SS "std"; SS (exn_name e)] | XKbd => SL [SS "kbd"] | XSysExit => SL [SS "sysexit"]
  | XBaseOther => SL [SS "base"] | XExcOther | XCarry _ => SL [SS "exc"] | XAttrObj _ => SL [SS "std"; SS "AttributeError"]
  end.
Definition aval_of_sx (x : sx) : aval :=
  match x with
  | SL [SI 0%Z; v] => AV (pv_of_sx v)
  | SL [SI 1%Z; SI o] => AO (Z.to_N o)
  | SL [SI 2%Z; e] => AX (xid_of_sx e)
  | SL [SI 3%Z] => AAny
  | _ => ANone
  end.
Definition text_of_sx (x : sx) : text := map sx_n (sx_l x).
Definition desc_of_sx (x : sx) : odesc :=
  match x with
  | SL [k; ty; cl; at_; hk; hr; ca; it; rp; st; hs; dr; bo; me; cb] =>
      {| od_key := pv_of_sx k; od_type := sx_n ty; od_class := sx_bool cl;
         od_attrs := map (fun e => match e with SL [n; a] => (text_of_sx n, aval_of_sx a) | _ => ([], ANone) end) (sx_l at_);
         od_hooks := match hk with SL [a; b; c] => (sx_bool a, sx_bool b, sx_bool c) | _ => (false, false, false) end;
         od_hookres := aval_of_sx hr; od_call := aval_of_sx ca;
         od_iter := match it with SL [SI 1%Z; SL l] => Some (map aval_of_sx l) | _ => None end;
         od_repr := text_of_sx rp; od_str := text_of_sx st; od_hash := aval_of_sx hs;
         od_dir := map text_of_sx (sx_l dr); od_bool := sx_bool bo; od_methods := pv_of_sx me; od_callable := sx_bool cb |}
  | _ => nil_desc
  end.
Definition answer_of_sx (x : sx) : panswer :=
  match x with
  | SL [SI 0%Z; p] => PReply (pv_of_sx p)
  | SL [SI 1%Z; p] => PExc (pv_of_sx p)
  | _ => PSilent
  end.
Definition sx_of_text (t : text) : sx := SL (map sN t).
Definition nop_name (op : nop) : string :=
  match op with
  | OpCall => "call" | OpRepr => "repr" | OpStr => "str" | OpHash => "hash" | OpDir => "dir" | OpIter => "iter"
  | OpIslice => "islice" | OpBool => "bool" | OpDict => "dict" | OpRaise => "raise" | OpCmp => "cmp" | OpIndex => "index"
  | OpIsinstance => "isinstance" | OpGetMethods => "getmethods" | OpIdPack => "idpack" | OpHasConn => "hasconn" | OpPickle => "pickle" | OpFuncStr => "funcstr" | OpEq => "eq"
  end.
Definition perm_idx (p : permkey) : Z := match p with PGet => 0 | PSet => 1 | PDel => 2 end%Z.
Definition sx_of_oids (l : list oid) : sx := SL (map sN l).
Definition sx_of_event (e : event) : sx :=
  match e with
  | EMsg => SL [SS "msg"] | EEnv => SL [SS "env"]
  | ERoot o => SL [SS "root"; sN o]
  | EResolve k o => SL [SS "resolve"; sx_of_pv k; sN o]
  | EMiss k => SL [SS "miss"; sx_of_pv k]
  | EType o t => SL [SS "type"; sN o; sN t]
  | EProbe o n => SL [SS "probe"; sN o; sx_of_text n]
  | EAttr o p n ys => SL [SS "attr"; sN o; SI (perm_idx p); sx_of_text n; sx_of_oids ys]
  | EHook o p n ys => SL [SS "hook"; sN o; SI (perm_idx p); sx_of_text n; sx_of_oids ys]
  | ETouch o op ys => SL [SS "touch"; sN o; SS (nop_name op); sx_of_oids ys]
  | EForeign ys => SL [SS "foreign"; sx_of_oids ys]
  | EBox k o => SL [SS "box"; sx_of_pv k; sN o]
  | EDecref k n => SL [SS "decref"; sx_of_pv k; SI n]
  | EClear => SL [SS "clear"] | EDisconnect => SL [SS "disconnect"]
  | EAsk h => SL [SS "ask"; SI h]
  | EPayload o op => SL [SS "payload"; sN o; SS (nop_name op)]
  | ECtx o op => SL [SS "payload"; sN o; SS (nop_name op)]
  | EGlobalRead o => SL [SS "globalread"; sN o]
  | ECls m => SL [SS "clsimport"; sx_of_text m]
  | EVin v => SL [SS "vinegar"; Vinegar.sx_of_effect v]
  end.
Definition sx_of_out (o : out) : sx :=
  match o with
  | OReply seq p => SL [SS "reply"; sx_of_pv seq; sx_of_pv p]
  | OExc seq x => SL [SS "exc"; sx_of_pv seq; sx_of_xid x]
  | OIgnored => SL [SS "ignored"] | OEnd x => SL [SS "end"; sx_of_xid x] | OClosed => SL [SS "closed"]
  | ODead => SL [SS "dead"] | OUnm => SL [SS "unmodelled"]
  end.
Definition sx_of_table (t : table) : sx := SL (map (fun e => match e with (k, o, c) => SL [sx_of_pv k; sN o; SI c] end) t).

(* one session: the outcome, the events of that message (oldest first), the table after it, the flags *)
Definition config_with (m : Vinegar.lookup_mode) : config :=
  {| c_attr := c_attr default_config; c_guard := c_guard default_config; c_pickle := c_pickle default_config;
     c_rflags := c_rflags default_config; c_prop_kbd := c_prop_kbd default_config; c_prop_sysexit := c_prop_sysexit default_config;
     c_cls_mode := m; c_cls_reads := c_cls_reads default_config |}.
Definition with_cls_reads (c : config) (b : bool) : config :=
  {| c_attr := c_attr c; c_guard := c_guard c; c_pickle := c_pickle c; c_rflags := c_rflags c; c_prop_kbd := c_prop_kbd c;
     c_prop_sysexit := c_prop_sysexit c; c_cls_mode := c_cls_mode c; c_cls_reads := b |}.
Fixpoint session (H : list (string * hdef)) (C : config) (S : sem unit) (s : hst unit) (msgs : list sx) : list sx :=
  match msgs with
  | [] => []
  | SL [m; a] :: r =>
      let n0 := List.length (tr s) in
      let '(s', o) := handle_msg S C H dispatch msg_ladder unbox_ladder box_ladder (pv_of_sx m) (map answer_of_sx (sx_l a)) s in
      let evs := rev (firstn (List.length (tr s') - n0) (tr s')) in
      SL [sx_of_out o; SL (map sx_of_event evs); sx_of_table (tbl s'); sbool (closed s'); sbool (approx s')] :: session H C S s' r
  | _ :: r => bad_input :: session H C S s r
  end.
Definition run_hostile (x : sx) : sx :=
  match x with
  | SL [cmd; SL [mode; cmpg; ctxall; reads; globs]; objs; builtin; excs; mods; msgs] =>
      if is_tag "session" cmd then
        let w := {| w_objs := map desc_of_sx (sx_l objs); w_builtin := map text_of_sx (sx_l builtin) |} in
        let g := match cmpg with SL [SI 1%Z; SL names] => Some (map (fun n => string_of_list_byte (sx_b n)) names) | _ => None end in
        let gl := map (fun e => match e with SL [n; o] => (text_of_sx n, sx_n o) | _ => ([], 0%N) end) (sx_l globs) in
        SL (session (handlers_of g (sx_bool ctxall)) (with_cls_reads (config_with (Vinegar.mode_of_sx mode)) (sx_bool reads))
                    (world_sem w (map text_of_sx (sx_l excs)) (Vinegar.mods_of_sx mods) gl) (init tt) (sx_l msgs))
      else bad_input
  | _ => bad_input
  end.
