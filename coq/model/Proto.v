(* Model of the request/response bookkeeping of one endpoint of rpyc/core/protocol.py:
   _dispatch, _dispatch_request, _seq_request_callback, _async_request.
   Everything that can happen while a request is served is an oracle the theorems quantify over. *)
From V Require Import lib.Base lib.Sx.
From Coq Require Import String.

(* facts read off the source by tools/pygen/dispatch.py *)
Record dparams := {
  unpack_in_try : bool;          (* handler, args = raw_args   is inside the guarded region *)
  unbox_in_try : bool;           (* args = self._unbox(args)   is inside the guarded region *)
  handler_in_try : bool;         (* the handler call           is inside the guarded region *)
  reply_encode_guarded : bool;   (* a reply that cannot be encoded is turned into an exception reply *)
  exc_encode_guarded : bool;     (* an exception payload that cannot be encoded is replaced by an encodable one *)
  reraises_marked : bool         (* the except branch re-raises, instead of answering, an exception class the configuration marks for
                                    local propagation: `if t is SystemExit and config[propagate_SystemExit_locally]: raise`, same for KeyboardInterrupt *)
}.
Definition std_params : dparams :=
  {| unpack_in_try := true; unbox_in_try := true; handler_in_try := true; reply_encode_guarded := true; exc_encode_guarded := true;
     reraises_marked := true |}.

(* what happens while one request is served *)
Inductive outcome :=
| OBadShape                      (* raw_args is not a (handler, args) pair *)
| OBadArgs                       (* unboxing the arguments raises (bad label, stale id, ...) *)
| ONoHandler                     (* unknown / unhashable handler id *)
| OValue (encodable : bool)      (* the handler returned; can the boxed result be encoded? *)
| ORaise (encodable : bool)      (* the handler raised; can the exception record be encoded? *)
| ORaiseMarked.                  (* the handler raised SystemExit / KeyboardInterrupt and this connection's configuration marks that class
                                    for local propagation (propagate_..._locally) *)

Inductive frame := FReply (seq : Z) | FExc (seq : Z).
Definition frame_seq (f : frame) : Z := match f with FReply s | FExc s => s end.

Record served := { sent : list frame; invoked : nat; crashed : bool }.

(* one request: frames sent in answer, number of handler invocations, whether an exception escapes _dispatch_request *)
Definition serve_request (P : dparams) (seq : Z) (o : outcome) : served :=
  let exc_path (enc : bool) (inv : nat) :=
    if enc then {| sent := [FExc seq]; invoked := inv; crashed := false |}
    else if exc_encode_guarded P then {| sent := [FExc seq]; invoked := inv; crashed := false |}
    else {| sent := []; invoked := inv; crashed := true |} in
  let unguarded (inv : nat) := {| sent := []; invoked := inv; crashed := true |} in
  match o with
  | OBadShape => if unpack_in_try P then exc_path true 0 else unguarded 0
  | OBadArgs => if unbox_in_try P then exc_path true 0 else unguarded 0
  | ONoHandler => if handler_in_try P then exc_path true 0 else unguarded 0
  | ORaise enc => if handler_in_try P then exc_path enc 1 else unguarded 1
  | ORaiseMarked => if handler_in_try P then (if reraises_marked P then unguarded 1 else exc_path true 1) else unguarded 1
  | OValue true => {| sent := [FReply seq]; invoked := 1; crashed := false |}
  | OValue false => if reply_encode_guarded P then exc_path true 1 else unguarded 1
  end.

(* ---- the requester side: sequence numbers and callbacks ---- *)
Record req_state := { next_seq : Z; callbacks : list (Z * nat) (* seq -> callback id *); log : list (nat * bool) (* callback id, is_exc *) }.
Definition init_req : req_state := {| next_seq := 0; callbacks := []; log := [] |}.

Fixpoint remove_key (k : Z) (l : list (Z * nat)) : list (Z * nat) :=
  match l with [] => [] | (a, b) :: t => if Z.eqb a k then remove_key k t else (a, b) :: remove_key k t end.
Fixpoint find_key (k : Z) (l : list (Z * nat)) : option nat :=
  match l with [] => None | (a, b) :: t => if Z.eqb a k then Some b else find_key k t end.

Inductive ev :=
| ERequest (cb : nat) (send_ok : bool)   (* _async_request: get seq, register, send (which may raise) *)
| EResponse (seq : Z) (is_exc : bool)    (* _dispatch of MSG_REPLY / MSG_EXCEPTION: _seq_request_callback *)
| EUndecodable (seq : Z) (guarded : bool). (* a response bearing seq whose payload cannot be rebuilt on this side (unboxing raises); [guarded]: the
                                            tree turns that into an exception for the request (fact response_decode_guarded), else the error
                                            escapes _dispatch before the callback is looked up *)

Definition req_step (s : req_state) (e : ev) : req_state :=
  match e with
  | ERequest cb ok =>
      let q := next_seq s in
      {| next_seq := (q + 1)%Z;
         callbacks := if ok then (q, cb) :: callbacks s else callbacks s;    (* registered, then popped again when the send raises *)
         log := log s |}
  | EResponse q is_exc =>
      match find_key q (callbacks s) with
      | Some cb => {| next_seq := next_seq s; callbacks := remove_key q (callbacks s); log := log s ++ [(cb, is_exc)] |}
      | None => s
      end
  | EUndecodable q g =>
      match g, find_key q (callbacks s) with
      | true, Some cb => {| next_seq := next_seq s; callbacks := remove_key q (callbacks s); log := log s ++ [(cb, true)] |}
      | _, _ => s
      end
  end.

(* ---- harness interface ---- *)
Definition outcome_of_sx (x : sx) : outcome :=
  match x with
  | SL [SI 0] => OBadShape | SL [SI 1] => OBadArgs | SL [SI 2] => ONoHandler
  | SL [SI 3; b] => OValue (sx_bool b) | SL [SI 4; b] => ORaise (sx_bool b) | SL [SI 5] => ORaiseMarked | _ => OBadShape
  end%Z.
Definition params_of_sx (x : sx) : dparams :=
  match x with
  | SL [a; b; c; d; e; f] => {| unpack_in_try := sx_bool a; unbox_in_try := sx_bool b; handler_in_try := sx_bool c;
                                reply_encode_guarded := sx_bool d; exc_encode_guarded := sx_bool e; reraises_marked := sx_bool f |}
  | _ => std_params
  end.
Definition sx_frame (f : frame) : sx := match f with FReply s => SL [SI 2; SI s] | FExc s => SL [SI 3; SI s] end.
Definition run_proto (x : sx) : sx :=
  match x with
  | SL [op; p; SL items] =>
      if is_tag "serve" op then
        SL (map (fun it => match it with
                           | SL [SI q; o] => let r := serve_request (params_of_sx p) q (outcome_of_sx o) in
                                             SL [SL (map sx_frame (sent r)); snat (invoked r); sbool (crashed r)]
                           | _ => bad_input end) items)
      else if is_tag "requester" op then
        let s := fold_left req_step (map (fun it => match it with
                                                    | SL [SI 0; cb; ok] => ERequest (sx_nat cb) (sx_bool ok)
                                                    | SL [SI 1; SI q; e] => EResponse q (sx_bool e)
                                                    | SL [SI 2; SI q; g] => EUndecodable q (sx_bool g)
                                                    | _ => EResponse (-1) false end%Z) items) init_req in
        SL [SI (next_seq s); SL (map (fun c => SL [SI (fst c); snat (snd c)]) (callbacks s));
            SL (map (fun c => SL [snat (fst c); sbool (snd c)]) (log s))]
      else bad_input
  | _ => bad_input
  end.
