(* Length-class ladders of the serializer: typed form emitted by tools/pygen and interpreted by the model. *)
From V Require Import lib.Base.
Open Scope N_scope.

Inductive lcmp := LEq | LLt | LLe | LGt | LGe | LElse.
Inductive lfield := LNone | LI1 | LI4.
Definition ladder := list (lcmp * N * N * lfield).

Definition lcmp_holds (c : lcmp) (n k : N) : bool :=
  match c with
  | LEq => n =? k | LLt => n <? k | LLe => n <=? k | LGt => k <? n | LGe => k <=? n | LElse => true
  end.
Definition pack_I1 (n : N) : result (list byte) := if n <? 256 then Ok [b_of n] else Raise StructError.
Definition pack_I4 (n : N) : result (list byte) := if n <? 4294967296 then Ok (be4 n) else Raise StructError.
Definition lfield_bytes (f : lfield) (n : N) : result (list byte) :=
  match f with LNone => Ok [] | LI1 => pack_I1 n | LI4 => pack_I4 n end.

(* header emitted for length n: first class whose test holds *)
Fixpoint ladder_hdr (l : ladder) (n : N) : result (list byte) :=
  match l with
  | [] => Unmodelled
  | (c, k, tag, f) :: rest =>
      if lcmp_holds c n k then do fb <- lfield_bytes f n; Ok (b_of tag :: fb) else ladder_hdr rest n
  end.
