(* One stream used in both directions over its lifetime: the CLOSED state of rpyc/core/stream.py on top of model/Channel.v.
   SocketStream / PipeStream close themselves when a read or write meets end-of-stream or a transport error (and raise EOFError);
   from then on every read and write raises EOFError at once, without another transport call. A session is a sequence of
   Channel.send / Channel.recv operations on one channel; [sstep] is one of them. *)
From V Require Import lib.Base lib.Sx model.Ladder model.Channel.
From Coq Require Import String.
Open Scope N_scope.

Record sess := { closed : bool;
                 revs : list revt; avail : list byte;         (* what the transport will do on reads, and the bytes it holds for us *)
                 wevs : list wev; wire : list byte }.         (* what it will do on writes, and the bytes it took from us *)
Inductive sop := SSend (d : list byte) | SRecv.
Inductive sout := OSent | OGot (d : list byte) | OEOF | OZlib | OErr (e : exn).

Section S.
Variable compress : list byte -> list byte.
Variable decompress : list byte -> result (list byte).
Variable P : cparams.
Variable tolerant cmp : bool.

Definition sstep (s : sess) (o : sop) : sess * sout :=
  if closed s then (s, OEOF) else
  match o with
  | SRecv =>
      match channel_recv decompress P tolerant (revs s) (avail s) with
      | (RcvOk d, r', a') => ({| closed := false; revs := r'; avail := a'; wevs := wevs s; wire := wire s |}, OGot d)
      | (RcvEOF, r', a') => ({| closed := true; revs := r'; avail := a'; wevs := wevs s; wire := wire s |}, OEOF)
      | (RcvZlib, r', a') => ({| closed := false; revs := r'; avail := a'; wevs := wevs s; wire := wire s |}, OZlib)
      end
  | SSend d =>
      match channel_send compress P cmp (wevs s) d with
      | Ok (true, w, e') => ({| closed := false; revs := revs s; avail := avail s; wevs := e'; wire := wire s ++ w |}, OSent)
      | Ok (false, w, e') => ({| closed := true; revs := revs s; avail := avail s; wevs := e'; wire := wire s ++ w |}, OEOF)
      | Raise e => (s, OErr e)                      (* a packet the header cannot describe: nothing is written *)
      | _ => (s, OErr TypeError)
      end
  end.

Fixpoint srun (s : sess) (ops : list sop) : sess * list sout :=
  match ops with
  | [] => (s, [])
  | o :: t => let '(s1, r) := sstep s o in let '(s2, rs) := srun s1 t in (s2, r :: rs)
  end.
End S.

(* ---- harness interface: [p; ctbl; dtbl; tolerant; cmp; revs; avail; wevs; ops] with op = [0; data] (send) or [1] (recv) ---- *)
Definition sop_of_sx (x : sx) : sop := match x with SL [SI 0; SB d] => SSend d | _ => SRecv end%Z.
Definition sx_of_sout (o : sout) : sx :=
  match o with OSent => SL [SS "sent"] | OGot d => SL [SS "got"; SB d] | OEOF => SL [SS "eof"] | OZlib => SL [SS "zlib"]
             | OErr e => SL [SS "exc"; SS (exn_name e)] end.
Definition run_session (x : sx) : sx :=
  match x with
  | SL [p; ctbl; dtbl; tol; cmp; r; a; w; SL ops] =>
    let P := params_of_sx p in
    let ct := tbl_of_sx ctbl in let dt := tbl_of_sx dtbl in
    let compress := fun d => match lookup ct d with Some c => c | None => [] end in
    let decompress := fun d => match lookup dt d with Some c => Ok c | None => Raise ZlibError end in
    let s0 := {| closed := false; revs := map rev_of_sx (sx_l r); avail := sx_b a; wevs := map wev_of_sx (sx_l w); wire := [] |} in
    let '(s, outs) := srun compress decompress P (sx_bool tol) (sx_bool cmp) s0 (map sop_of_sx ops) in
    SL [SS "ok"; SL (map sx_of_sout outs); sbool (closed s); SB (wire s); snat (List.length (revs s)); snat (List.length (wevs s)); snat (List.length (avail s))]
  | _ => bad_input
  end.
(* one entry point for the extracted runner: sessions are tagged, everything else is model/Channel.v's interface *)
Definition run_channel_all (x : sx) : sx :=
  match x with
  | SL (op :: rest) => if is_tag "session" op then run_session (SL rest) else run_channel x
  | _ => run_channel x
  end.
