(* Executable model of rpyc/utils/registry.py: RegistryServer (services table, cmd_register /
   cmd_unregister / cmd_query, _add_service / _remove_service, one iteration of _work) and the
   accept/recv order of TCPRegistryServer.  No proofs here (see proofs/RegistryP.v).

   Python behaviour the model does not fix is a parameter of the [Model] section, so every theorem
   holds for all of them:  [upper]/[lower] (str.upper / str.lower), [fso] (iteration order of a
   frozenset), [keq] (== on port values, used for the dict keys (host, port)).
   The facts that differ between source trees come from tools/pygen ([facts], [wstmt] skeletons). *)
From V Require Import lib.Base lib.Sx model.Brine.
From Coq Require Import String.
Open Scope Z_scope.

(* ---------- insertion-ordered dictionaries (Python dict: re-assigning a key keeps its place and
   the key object first inserted) ---------- *)
Section Dict.
Context {K V : Type}.
Variable eqb : K -> K -> bool.
Fixpoint d_find (k : K) (d : list (K * V)) : option V :=
  match d with
  | [] => None
  | (k', v) :: r => if eqb k' k then Some v else d_find k r
  end.
Definition d_mem (k : K) (d : list (K * V)) : bool :=
  match d_find k d with Some _ => true | None => false end.
Fixpoint d_set (k : K) (v : V) (d : list (K * V)) : list (K * V) :=
  match d with
  | [] => [(k, v)]
  | (k', v') :: r => if eqb k' k then (k', v) :: r else (k', v') :: d_set k v r
  end.
Fixpoint d_pop (k : K) (d : list (K * V)) : list (K * V) :=
  match d with
  | [] => []
  | (k', v') :: r => if eqb k' k then r else (k', v') :: d_pop k r
  end.
End Dict.

(* ---------- text ---------- *)
Definition text := list N.                       (* code points *)
Fixpoint text_eqb (a b : text) : bool :=
  match a, b with
  | [], [] => true
  | x :: a', y :: b' => N.eqb x y && text_eqb a' b'
  | _, _ => false
  end.
Definition T (s : string) : text := map Byte.to_N (list_byte_of_string s).
Definition RPYC : text := T "RPYC".

(* ---------- state ---------- *)
Definition addr := (text * pyval)%type.           (* (host, port) *)
Definition table := list (addr * Z).              (* (host, port) -> time of last refresh *)
Definition services := list (text * table).       (* NAME -> table *)
Inductive note := Added (n : text) (a : addr) | Removed (n : text) (a : addr).

(* facts read off the source tree by tools/pygen/registry.py *)
Record facts := {
  lookup_guarded : bool;        (* a command that is not text cannot raise out of _work *)
  notify_only_present : bool;   (* _remove_service calls on_service_removed only when it removed an entry *)
  tcp_timeout : bool;           (* the accepted TCP socket gets a timeout before recv *)
  reply_guarded : bool;         (* brine.dump(reply) sits inside the guarded region of _work *)
  register_validates : bool;    (* cmd_register refuses an address it could not send back in a reply *)
  tcp_closes_unanswered : bool; (* TCP _recv closes accepted sockets whose request got no reply *)
  register_self_equal : bool    (* cmd_register refuses an address that is not == to a copy of itself (NaN) *)
}.

(* what one request asks for, after decoding and all the type checks the commands perform before
   they touch the table (each command either fails before its first mutation or completes) *)
Inductive cmd := CQuery | CRegister | CUnregister.
Inductive req :=
| RNone                                      (* dropped without a reply: the loop just continues *)
| RDie (e : exn)                             (* raises outside every guarded region *)
| RQuery (name : text)                       (* NAME, already upper-cased *)
| RQueryMiss                                 (* query for a bytes name: never a key, reply () *)
| RRegister (names : list text) (port : pyval)   (* NAMES upper-cased, in iteration order *)
| RUnregister (port : pyval).

Inductive outcome :=
| Next (s : services) (notes : list note) (reply : option pyval)
| Dead (e : exn).

Section Model.
Variable upper lower : text -> text.
Variable fso : list pyval -> list pyval.
Variable keq : pyval -> pyval -> bool.
Variable enc : pyval -> bool.       (* brine.dump(v) succeeds where _work calls it (no RecursionError: load accepts deeper nesting than dump) *)
Variable F : facts.
Variable pruning : Z.

Definition aeq (a b : addr) : bool := text_eqb (fst a) (fst b) && keq (snd a) (snd b).

Definition lookup (n : text) (a : addr) (s : services) : option Z :=
  match d_find text_eqb n s with Some tb => d_find aeq a tb | None => None end.
Definition member (n : text) (a : addr) (s : services) : bool :=
  match lookup n a s with Some _ => true | None => false end.

(* _add_service *)
Definition add_service (now : Z) (n : text) (a : addr) (s : services) : services * list note :=
  let tb := match d_find text_eqb n s with Some tb => tb | None => [] end in
  (d_set text_eqb n (d_set aeq a now tb) s, if d_mem aeq a tb then [] else [Added n a]).

(* _remove_service; services[name] raising KeyError is not reachable from the three callers *)
Definition remove_service (n : text) (a : addr) (s : services) : services * list note :=
  match d_find text_eqb n s with
  | None => (s, [])
  | Some tb =>
      let tb' := d_pop aeq a tb in
      (match tb' with [] => d_pop text_eqb n s | _ => d_set text_eqb n tb' s end,
       if notify_only_present F && negb (d_mem aeq a tb) then [] else [Removed n a])
  end.

(* cmd_register: for name in names: _add_service(name.upper(), (host, port)) *)
Fixpoint cmd_register (now : Z) (a : addr) (names : list text) (s : services) : services * list note :=
  match names with
  | [] => (s, [])
  | n :: r => let '(s1, m1) := add_service now n a s in
              let '(s2, m2) := cmd_register now a r s1 in (s2, m1 ++ m2)
  end.

(* cmd_unregister: for name in list(self.services.keys()): _remove_service(name, (host, port)) *)
Fixpoint remove_all (a : addr) (ns : list text) (s : services) : services * list note :=
  match ns with
  | [] => (s, [])
  | n :: r => let '(s1, m1) := remove_service n a s in
              let '(s2, m2) := remove_all a r s1 in (s2, m1 ++ m2)
  end.
Definition cmd_unregister (a : addr) (s : services) : services * list note :=
  remove_all a (map fst s) s.

(* cmd_query: sorted(items, key=time) is stable; stale <-> t < now - pruning *)
Fixpoint insert_by_time (x : addr * Z) (l : list (addr * Z)) : list (addr * Z) :=
  match l with
  | [] => [x]
  | y :: r => if snd x <=? snd y then x :: l else y :: insert_by_time x r
  end.
Definition sort_by_time (l : list (addr * Z)) : list (addr * Z) := fold_right insert_by_time [] l.
Fixpoint prune (oldest : Z) (n : text) (l : list (addr * Z)) (s : services)
  : services * list note * list addr :=
  match l with
  | [] => (s, [], [])
  | (a, t) :: r =>
      if t <? oldest then
        let '(s1, m1) := remove_service n a s in
        let '(s2, m2, srv) := prune oldest n r s1 in (s2, m1 ++ m2, srv)
      else
        let '(s2, m2, srv) := prune oldest n r s in (s2, m2, a :: srv)
  end.
Definition cmd_query (now : Z) (n : text) (s : services) : services * list note * list addr :=
  match d_find text_eqb n s with
  | None => (s, [], [])
  | Some tb => prune (now - pruning) n (sort_by_time tb) s
  end.

(* ---------- decoding a request: the part of _work between brine.load and the table ---------- *)
Definition py_iter (v : pyval) : option (list pyval) :=
  match v with
  | PTuple l => Some l
  | PStr cps => Some (map (fun c => PStr [c]) cps)
  | PBytes b => Some (map (fun x => PInt (Z.of_N (Byte.to_N x))) b)
  | PFset l => Some (fso l)
  | _ => None
  end.
Definition is_text (t : text) (v : pyval) : bool :=
  match v with PStr c => text_eqb c t | _ => false end.
Definition find_cmd (lc : text) : option cmd :=
  if text_eqb lc (T "query") then Some CQuery
  else if text_eqb lc (T "register") then Some CRegister
  else if text_eqb lc (T "unregister") then Some CUnregister
  else None.
(* ", ".join(names) succeeds: every item is text *)
Fixpoint texts_of (l : list pyval) : option (list text) :=
  match l with
  | [] => Some []
  | PStr c :: r => match texts_of r with Some ts => Some (c :: ts) | None => None end
  | _ => None
  end.
Definition addr_val (a : addr) : pyval := PTuple [PStr (fst a); snd a].
(* the repaired cmd_register evaluates brine.dump(((host, port),)) before touching the table *)
Definition accepted (host : text) (port : pyval) : bool :=
  (negb (register_validates F) || enc (PTuple [addr_val (host, port)]))
  && (negb (register_self_equal F) || keq port port).
Definition classify_args (host : text) (k : cmd) (al : list pyval) : req :=
  match k, al with
  | CQuery, [PStr n] => RQuery (upper n)
  | CQuery, [PBytes _] => RQueryMiss
  | CRegister, [names; port] =>
      match py_iter names with
      | Some l => match texts_of l with
                  | Some ts => if accepted host port then RRegister (map upper ts) port else RNone
                  | None => RNone
                  end
      | None => RNone
      end
  | CUnregister, [port] => RUnregister port
  | _, _ => RNone            (* wrong argument count or types: TypeError/AttributeError inside the guard *)
  end.
Definition classify (host : text) (v : pyval) : req :=
  match py_iter v with
  | Some [magic; c; args] =>
      if negb (is_text RPYC magic) then RNone else
      match c with
      | PStr ct =>
          match find_cmd (lower ct) with
          | None => RNone
          | Some k => match py_iter args with Some al => classify_args host k al | None => RNone end
          end
      | PBytes _ => RNone                         (* "cmd_b'..'" is never an attribute *)
      | _ => if lookup_guarded F then RNone else RDie AttributeError   (* cmd.lower() *)
      end
  | _ => RNone                                    (* unpacking fails inside the first guard *)
  end.

Definition OKv : pyval := PStr (T "OK").

Definition exec (now : Z) (host : text) (r : req) (s : services) : outcome :=
  match r with
  | RNone => Next s [] None
  | RDie e => Dead e
  | RQuery n => let '(s', m, srv) := cmd_query now n s in Next s' m (Some (PTuple (map addr_val srv)))
  | RQueryMiss => Next s [] (Some (PTuple []))
  | RRegister ns p => let '(s', m) := cmd_register now (host, p) ns s in Next s' m (Some OKv)
  | RUnregister p => let '(s', m) := cmd_unregister (host, p) s in Next s' m (Some OKv)
  end.

(* self._send(brine.dump(reply), addrinfo): the command has already run when the reply is encoded *)
Definition deliver (o : outcome) : outcome :=
  match o with
  | Next s m (Some v) =>
      if enc v then o else if reply_guarded F then Next s m None else Dead OtherError   (* RecursionError *)
  | _ => o
  end.

(* one iteration of _work on an already decoded datagram *)
Definition work_val (now : Z) (host : text) (s : services) (v : pyval) : outcome :=
  deliver (exec now host (classify host v) s).

(* brine.load inside the first guard: a decoding error just continues.  [None]: the decoder model
   makes no prediction (a slice built from a frozenset); any value Python builds there is covered by
   the theorems about [work_val]. *)
Definition decode (P : bparams) (dg : list byte) : option pyval :=
  match load P dg with
  | Ok v => Some v
  | Raise _ => Some PNone
  | _ => None
  end.
Definition work_step (P : bparams) (now : Z) (host : text) (s : services) (dg : list byte) : option outcome :=
  match decode P dg with Some v => Some (work_val now host s v) | None => None end.

(* ---------- histories ---------- *)
Definition event := (Z * text * req)%type.        (* clock, sender's host, request *)
Definition next_state (o : outcome) (s : services) : services :=
  match o with Next s' _ _ => s' | Dead _ => s end.
(* newest event first *)
Fixpoint state_after (rh : list event) : services :=
  match rh with
  | [] => []
  | (now, h, r) :: older => let s := state_after older in next_state (exec now h r s) s
  end.

(* ---------- the TCP accept loop: clients are served strictly in accept order.  An accepted socket
   stays open until a reply is sent on it; [pending] counts those that got none, [fdmax] is how many
   the process can hold: with [pending >= fdmax] accept() fails for this and every later client. ---------- *)
Inductive client := Silent | Sends (v : pyval).
Inductive tcp_result := TStarved | TReached (reply : option pyval).
Definition no_reply (rep : option pyval) : nat := match rep with None => 1%nat | Some _ => O end.
Fixpoint tcp_run (fdmax pending : nat) (s : services) (cs : list (Z * text * client)) : list tcp_result :=
  match cs with
  | [] => []
  | (now, h, c) :: r =>
      let pending := if tcp_closes_unanswered F then O else pending in       (* swept at the top of _recv *)
      if Nat.leb fdmax pending then map (fun _ => TStarved) cs                (* accept: EMFILE, for good *)
      else match c with
      | Silent =>
          if tcp_timeout F then TReached None :: tcp_run fdmax pending s r    (* recv times out, socket closed *)
          else map (fun _ => TStarved) cs                                      (* recv never returns *)
      | Sends v =>
          match work_val now h s v with
          | Next s' _ rep => TReached rep :: tcp_run fdmax (pending + no_reply rep) s' r
          | Dead _ => TReached None :: map (fun _ => TStarved) r               (* the loop is gone *)
          end
      end
  end.
Fixpoint sends_of (cs : list (Z * text * client)) : list (Z * text * client) :=
  match cs with
  | [] => []
  | (_, _, Silent) :: r => sends_of r
  | c :: r => c :: sends_of r
  end.
Fixpoint results_of_sends (cs : list (Z * text * client)) (rs : list tcp_result) : list tcp_result :=
  match cs, rs with
  | (_, _, Silent) :: cr, _ :: rr => results_of_sends cr rr
  | _ :: cr, x :: rr => x :: results_of_sends cr rr
  | _, _ => []
  end.
(* when every client connects at time 0: a silent client ahead in the queue costs the server's timeout *)
Fixpoint reached_at_ms (timeout_ms : Z) (cs : list client) (i : nat) : Z :=
  match cs, i with
  | _, O => 0
  | Silent :: r, S j => timeout_ms + reached_at_ms timeout_ms r j
  | _ :: r, S j => reached_at_ms timeout_ms r j
  | [], S _ => 0
  end.
End Model.

(* ---------- the _work skeleton as emitted by tools/pygen ---------- *)
Inductive wguard := GNone | GSock | GAny.        (* not in a try / except socket errors / except Exception *)
Inductive wstmt :=
| WRecv | WLoadUnpack | WMagicCheck | WTextCheck | WLookup | WLookupIfText | WUnknownCheck | WCall | WDump | WSendReply.
Definition wstmt_eqb (a b : wstmt) : bool :=
  match a, b with
  | WRecv, WRecv | WLoadUnpack, WLoadUnpack | WMagicCheck, WMagicCheck | WTextCheck, WTextCheck
  | WLookup, WLookup | WLookupIfText, WLookupIfText | WUnknownCheck, WUnknownCheck | WCall, WCall
  | WDump, WDump | WSendReply, WSendReply => true
  | _, _ => false
  end.
Definition wguard_eqb (a b : wguard) : bool :=
  match a, b with GNone, GNone | GSock, GSock | GAny, GAny => true | _, _ => false end.
Definition skeleton := list (wstmt * wguard).
Fixpoint skel_eqb (a b : skeleton) : bool :=
  match a, b with
  | [], [] => true
  | (x, g) :: a', (y, h) :: b' => wstmt_eqb x y && wguard_eqb g h && skel_eqb a' b'
  | _, _ => false
  end.
(* the shapes the model covers.  Lookup: bare, preceded by an isinstance(cmd, str) test, made
   conditional on that test, or inside its own try/except Exception.  Tail: the reply is encoded
   (brine.dump) in the else branch, outside the guard, or inside the try with the command call;
   _send itself may sit in either place. *)
Definition skel_of (lk tl : list (wstmt * wguard)) : skeleton :=
  [(WRecv, GSock); (WLoadUnpack, GAny); (WMagicCheck, GNone)] ++ lk ++
  [(WUnknownCheck, GNone); (WCall, GAny)] ++ tl.
Definition lk_bare := [(WLookup, GNone)].
Definition lk_textcheck := [(WTextCheck, GNone); (WLookup, GNone)].
Definition lk_iftext := [(WLookupIfText, GNone)].
Definition lk_try := [(WLookup, GAny)].
Definition tl_unguarded := [(WDump, GNone); (WSendReply, GNone)].
Definition tl_dump_guarded := [(WDump, GAny); (WSendReply, GNone)].
Definition tl_all_guarded := [(WDump, GAny); (WSendReply, GAny)].
Definition skel_in (k : skeleton) (lks tls : list (list (wstmt * wguard))) : bool :=
  existsb (fun lk => existsb (fun tl => skel_eqb k (skel_of lk tl)) tls) lks.
Definition all_lk := [lk_bare; lk_textcheck; lk_iftext; lk_try].
Definition all_tl := [tl_unguarded; tl_dump_guarded; tl_all_guarded].
Definition skel_known (k : skeleton) : bool := skel_in k all_lk all_tl.
Definition skel_guarded (k : skeleton) : bool := skel_in k [lk_textcheck; lk_iftext; lk_try] all_tl.
Definition skel_reply_guarded (k : skeleton) : bool := skel_in k all_lk [tl_dump_guarded; tl_all_guarded].

(* cmd_register skeleton *)
Inductive gstmt := GJoinCheck | GReplyCheck | GRoundTripCheck | GAddLoop | GReturnOK.
Definition gstmt_eqb (a b : gstmt) : bool :=
  match a, b with
  | GJoinCheck, GJoinCheck | GReplyCheck, GReplyCheck | GRoundTripCheck, GRoundTripCheck | GAddLoop, GAddLoop | GReturnOK, GReturnOK => true
  | _, _ => false
  end.
Fixpoint gskel_eqb (a b : list gstmt) : bool :=
  match a, b with
  | [], [] => true
  | x :: a', y :: b' => gstmt_eqb x y && gskel_eqb a' b'
  | _, _ => false
  end.
Definition gskel_plain : list gstmt := [GJoinCheck; GAddLoop; GReturnOK].
Definition gskel_validating : list gstmt := [GJoinCheck; GReplyCheck; GAddLoop; GReturnOK].
Definition gskel_validating' : list gstmt := [GReplyCheck; GJoinCheck; GAddLoop; GReturnOK].
(* load(dump(((host, port),))) != ((host, port),) -> refuse: encodes like GReplyCheck and compares with a copy *)
Definition gskel_roundtrip : list gstmt := [GJoinCheck; GRoundTripCheck; GAddLoop; GReturnOK].
Definition gskel_self_equal (k : list gstmt) : bool := gskel_eqb k gskel_roundtrip.
Definition gskel_validates (k : list gstmt) : bool :=
  gskel_eqb k gskel_validating || gskel_eqb k gskel_validating' || gskel_eqb k gskel_roundtrip.
Definition gskel_known (k : list gstmt) : bool := gskel_eqb k gskel_plain || gskel_validates k.

(* _remove_service skeleton *)
Inductive rstmt := RTestPresent | RPop | RPopKeep | RDelIfEmpty | RNotify | RNotifyIfPresent.
Definition rstmt_eqb (a b : rstmt) : bool :=
  match a, b with
  | RTestPresent, RTestPresent | RPop, RPop | RPopKeep, RPopKeep | RDelIfEmpty, RDelIfEmpty
  | RNotify, RNotify | RNotifyIfPresent, RNotifyIfPresent => true
  | _, _ => false
  end.
Fixpoint rskel_eqb (a b : list rstmt) : bool :=
  match a, b with
  | [], [] => true
  | x :: a', y :: b' => rstmt_eqb x y && rskel_eqb a' b'
  | _, _ => false
  end.
Definition rskel_always : list rstmt := [RPop; RDelIfEmpty; RNotify].
Definition rskel_tested : list rstmt := [RTestPresent; RPop; RDelIfEmpty; RNotifyIfPresent].
Definition rskel_popped : list rstmt := [RPopKeep; RDelIfEmpty; RNotifyIfPresent].
Definition rskel_known (k : list rstmt) : bool :=
  rskel_eqb k rskel_always || rskel_eqb k rskel_tested || rskel_eqb k rskel_popped.
Definition rskel_only_present (k : list rstmt) : bool :=
  rskel_eqb k rskel_tested || rskel_eqb k rskel_popped.

(* TCPRegistryServer._recv: the calls on the listening and the accepted socket, in program order *)
Inductive tstmt := TSweep | TAccept | TSetTimeout | TPeerName | TRecvData | TStore | TOther.
Definition tstmt_eqb (a b : tstmt) : bool :=
  match a, b with
  | TSweep, TSweep | TAccept, TAccept | TSetTimeout, TSetTimeout | TPeerName, TPeerName | TRecvData, TRecvData
  | TStore, TStore | TOther, TOther => true
  | _, _ => false
  end.
(* a timeout is set on the accepted socket after accept and before the first recv *)
Fixpoint tskel_before_recv (seen_accept seen_to : bool) (k : list tstmt) : bool :=
  match k with
  | [] => false
  | TAccept :: r => tskel_before_recv true false r
  | TSetTimeout :: r => tskel_before_recv seen_accept seen_accept r
  | TRecvData :: _ => seen_accept && seen_to
  | _ :: r => tskel_before_recv seen_accept seen_to r
  end.
Definition tskel_timeout (k : list tstmt) : bool := tskel_before_recv false false k.
Fixpoint tskel_count (x : tstmt) (k : list tstmt) : nat :=
  match k with [] => O | y :: r => (if tstmt_eqb x y then 1 else 0) + tskel_count x r end%nat.
(* sockets left over from requests that got no reply are closed before the next accept *)
Fixpoint tskel_sweeps (k : list tstmt) : bool :=
  match k with
  | [] => false
  | TSweep :: _ => true
  | TAccept :: _ => false
  | _ :: r => tskel_sweeps r
  end.
Definition tskel_known (k : list tstmt) : bool :=
  Nat.eqb (tskel_count TAccept k) 1 && Nat.eqb (tskel_count TRecvData k) 1 && Nat.eqb (tskel_count TStore k) 1.

(* ---------- the concrete instance that is extracted and compared with the implementation ---------- *)
Definition ascii_upper (t : text) : text :=
  map (fun c => if (97 <=? c)%N && (c <=? 122)%N then (c - 32)%N else c) t.
Definition ascii_lower (t : text) : text :=
  map (fun c => if (65 <=? c)%N && (c <=? 90)%N then (c + 32)%N else c) t.
Definition fso_id (l : list pyval) : list pyval := l.
Fixpoint pyval_eqb (a b : pyval) : bool :=
  let fix leq (l m : list pyval) : bool :=
      match l, m with
      | [], [] => true
      | x :: l', y :: m' => pyval_eqb x y && leq l' m'
      | _, _ => false
      end in
  match a, b with
  | PNone, PNone | PNotImpl, PNotImpl | PEllipsis, PEllipsis => true
  | PBool x, PBool y => Bool.eqb x y
  | PInt x, PInt y => Z.eqb x y
  | PFloat x, PFloat y | PComplex x, PComplex y | PBytes x, PBytes y => bytes_eqb x y
  | PStr x, PStr y => text_eqb x y
  | PTuple l, PTuple m | PFset l, PFset m => leq l m
  | PSlice a1 a2 a3, PSlice b1 b2 b3 => pyval_eqb a1 b1 && pyval_eqb a2 b2 && pyval_eqb a3 b3
  | POther x, POther y => N.eqb x y
  | _, _ => false
  end.

(* where the concrete instance is exact: port values on which == is structural (no bool/float/complex
   aliasing 1 == 1.0 == True, no NaN, no sets), ASCII service names, no frozenset with >= 2 items iterated *)
Fixpoint key_ok (v : pyval) : bool :=
  match v with
  | PNone | PNotImpl | PEllipsis | PInt _ | PBytes _ | PStr _ => true
  | PTuple l => forallb key_ok l
  | _ => false
  end.
Definition ascii_text (t : text) : bool := forallb (fun c => (c <? 128)%N) t.
Definition iter_exact (v : pyval) : bool :=
  match v with PFset l => Nat.leb (List.length l) 1 | _ => true end.
Definition py_iter0 := py_iter fso_id.
(* nesting the implementation handles without nearing the interpreter's recursion limit *)
Fixpoint shallow (fuel : nat) (v : pyval) : bool :=
  match fuel with
  | O => false
  | S f => match v with
           | PTuple l | PFset l => forallb (shallow f) l
           | PSlice a b c => shallow f a && shallow f b && shallow f c
           | _ => true
           end
  end.
Definition enc_all (v : pyval) : bool := true.
Definition domain_ok (v : pyval) : bool :=
  shallow 64 v && iter_exact v &&
  match py_iter0 v with
  | Some [magic; PStr ct; args] =>
      if negb (is_text RPYC magic) then true else
      match find_cmd (ascii_lower ct) with
      | None => true
      | Some k =>
          iter_exact args &&
          match py_iter0 args with
          | Some al =>
              match k, al with
              | CQuery, [PStr n] => ascii_text n
              | CRegister, [names; port] =>
                  iter_exact names && key_ok port &&
                  match py_iter0 names with
                  | Some l => match texts_of l with Some ts => forallb ascii_text ts | None => true end
                  | None => true
                  end
              | CUnregister, [port] => key_ok port
              | _, _ => true
              end
          | None => true
          end
      end
  | _ => true
  end.

(* ---------- harness interface ---------- *)
Definition text_sx (t : text) : sx := SL (map sN t).
Definition addr_sx (a : addr) : sx := SL [text_sx (fst a); sx_of_pv (snd a)].
Definition note_sx (n : note) : sx :=
  match n with
  | Added nm a => SL [SI 1; text_sx nm; addr_sx a]
  | Removed nm a => SL [SI 0; text_sx nm; addr_sx a]
  end.
Definition services_sx (s : services) : sx :=
  SL (map (fun e : text * table =>
             SL [text_sx (fst e); SL (map (fun x : addr * Z => SL [addr_sx (fst x); SI (snd x)]) (snd e))]) s).
Definition facts_of_sx (x : sx) : facts :=
  match x with
  | SL [g; n; t; rg; rv; tc; se] =>
      {| lookup_guarded := sx_bool g; notify_only_present := sx_bool n; tcp_timeout := sx_bool t;
         reply_guarded := sx_bool rg; register_validates := sx_bool rv; tcp_closes_unanswered := sx_bool tc;
         register_self_equal := sx_bool se |}
  | _ => {| lookup_guarded := false; notify_only_present := false; tcp_timeout := false;
            reply_guarded := false; register_validates := false; tcp_closes_unanswered := false;
            register_self_equal := false |}
  end.
Definition reply_sx (P : bparams) (r : option pyval) : sx :=
  match r with
  | None => SL []
  | Some v => SL [sx_result SB (dump P v)]
  end.
Definition text_of_bytes (b : list byte) : text := map Byte.to_N b.

Definition c_work_val (F : facts) (pr : Z) := work_val ascii_upper ascii_lower fso_id pyval_eqb enc_all F pr.

(* the harness keeps calling _work after the loop died, so does the runner; the table is unchanged *)
Fixpoint run_events (F : facts) (P : bparams) (pr : Z) (s : services) (evs : list sx) : list sx :=
  match evs with
  | [] => []
  | SL [now; host; dg] :: r =>
      match decode P (sx_b dg) with
      | None => SL [SS "unmod"] :: run_events F P pr s r
      | Some v =>
          let o := c_work_val F pr (sx_z now) (text_of_bytes (sx_b host)) s v in
          let s' := next_state o s in
          SL [SS (if domain_ok v then "ok" else "outside");
              match o with
              | Next _ m rep => SL [SS "next"; reply_sx P rep; SL (map note_sx m)]
              | Dead e => SL [SS "dead"; SS (exn_name e)]
              end;
              services_sx s'] :: run_events F P pr s' r
      end
  | _ :: r => bad_input :: run_events F P pr s r
  end.

Definition client_of_sx (P : bparams) (x : sx) : option (Z * text * client) :=
  match x with
  | SL [now; host; SI _] => Some (sx_z now, text_of_bytes (sx_b host), Silent)
  | SL [now; host; SB dg] =>
      match decode P dg with
      | Some v => Some (sx_z now, text_of_bytes (sx_b host), Sends v)
      | None => None
      end
  | _ => None
  end.
Fixpoint clients_of_sx (P : bparams) (l : list sx) : option (list (Z * text * client)) :=
  match l with
  | [] => Some []
  | x :: r => match client_of_sx P x, clients_of_sx P r with
              | Some c, Some cs => Some (c :: cs)
              | _, _ => None
              end
  end.
Definition tcp_result_sx (P : bparams) (t : tcp_result) : sx :=
  match t with
  | TStarved => SL [SS "starved"]
  | TReached rep => SL [SS "reached"; reply_sx P rep]
  end.

Definition run_registry (x : sx) : sx :=
  match x with
  | SL [op; f; SL (pr :: p :: rest); SL l] =>
      let F := facts_of_sx f in
      let P := params_of_sx p in
      let fdmax := match rest with [n] => sx_nat n | _ => 1000%nat end in
      if is_tag "hist" op then SL (run_events F P (sx_z pr) [] l)
      else if is_tag "tcp" op then
        match clients_of_sx P l with
        | Some cs => SL (map (tcp_result_sx P)
                           (tcp_run ascii_upper ascii_lower fso_id pyval_eqb enc_all F (sx_z pr) fdmax O [] cs))
        | None => SL [SS "unmod"]
        end
      else bad_input
  | _ => bad_input
  end.
