(* The published rpyc 5.x wire format, written by hand from the format description (tag table 0x00-0x1b,
   immediates 0x50+i for -0x30 <= i < 0xa0, frame = !LB header + payload + "\n", zlib level 1 strictly above
   3000 bytes, message kinds 1-3, labels 1-4, handlers 1-20).  Independent of tools/pygen. *)
From V Require Import lib.Base model.Ladder.
From Coq Require Import String.
Open Scope N_scope.

Definition pub_tags : list (string * N) :=
  [("TAG_NONE", 0x00); ("TAG_EMPTY_STR", 0x01); ("TAG_EMPTY_TUPLE", 0x02); ("TAG_TRUE", 0x03); ("TAG_FALSE", 0x04);
   ("TAG_NOT_IMPLEMENTED", 0x05); ("TAG_ELLIPSIS", 0x06); ("TAG_UNICODE", 0x08);
   ("TAG_STR1", 0x0a); ("TAG_STR2", 0x0b); ("TAG_STR3", 0x0c); ("TAG_STR4", 0x0d); ("TAG_STR_L1", 0x0e); ("TAG_STR_L4", 0x0f);
   ("TAG_TUP1", 0x10); ("TAG_TUP2", 0x11); ("TAG_TUP3", 0x12); ("TAG_TUP4", 0x13); ("TAG_TUP_L1", 0x14); ("TAG_TUP_L4", 0x15);
   ("TAG_INT_L1", 0x16); ("TAG_INT_L4", 0x17); ("TAG_FLOAT", 0x18); ("TAG_SLICE", 0x19); ("TAG_FSET", 0x1a); ("TAG_COMPLEX", 0x1b)]%string.
Definition pub_imm_lo : Z := (-0x30)%Z.
Definition pub_imm_hi : Z := 0xa0%Z.
Definition pub_imm_off : Z := 0x50%Z.
(* shortest-first ladders: 0,1,2,3,4 items have their own tag, then one-byte and four-byte counts *)
Definition pub_str_ladder : ladder :=
  [(LEq, 0, 0x01, LNone); (LEq, 1, 0x0a, LNone); (LEq, 2, 0x0b, LNone); (LEq, 3, 0x0c, LNone); (LEq, 4, 0x0d, LNone);
   (LLt, 256, 0x0e, LI1); (LElse, 0, 0x0f, LI4)].
Definition pub_tup_ladder : ladder :=
  [(LEq, 0, 0x02, LNone); (LEq, 1, 0x10, LNone); (LEq, 2, 0x11, LNone); (LEq, 3, 0x12, LNone); (LEq, 4, 0x13, LNone);
   (LLt, 256, 0x14, LI1); (LElse, 0, 0x15, LI4)].
Definition pub_int_ladder : ladder := [(LLt, 256, 0x16, LI1); (LElse, 0, 0x17, LI4)].
Definition pub_structs : list (string * string) := [("I1", "!B"); ("I4", "!L"); ("F8", "!d"); ("C16", "!dd")]%string.

(* frame *)
Definition pub_threshold : N := 3000.
Definition pub_level : N := 1.
Definition pub_header_format : string := "!LB".
Definition pub_header_size : N := 5.
Definition pub_flusher : list N := [10].
Definition pub_compress_when : string := "Gt".     (* strictly above the threshold *)

(* protocol numbers *)
Definition pub_consts : list (string * Z) :=
  [("MSG_REQUEST", 1); ("MSG_REPLY", 2); ("MSG_EXCEPTION", 3);
   ("LABEL_VALUE", 1); ("LABEL_TUPLE", 2); ("LABEL_LOCAL_REF", 3); ("LABEL_REMOTE_REF", 4);
   ("HANDLE_PING", 1); ("HANDLE_CLOSE", 2); ("HANDLE_GETROOT", 3); ("HANDLE_GETATTR", 4); ("HANDLE_DELATTR", 5);
   ("HANDLE_SETATTR", 6); ("HANDLE_CALL", 7); ("HANDLE_CALLATTR", 8); ("HANDLE_REPR", 9); ("HANDLE_STR", 10);
   ("HANDLE_CMP", 11); ("HANDLE_HASH", 12); ("HANDLE_DIR", 13); ("HANDLE_PICKLE", 14); ("HANDLE_DEL", 15);
   ("HANDLE_INSPECT", 16); ("HANDLE_BUFFITER", 17); ("HANDLE_OLDSLICING", 18); ("HANDLE_CTXEXIT", 19);
   ("HANDLE_INSTANCECHECK", 20); ("EXC_STOP_ITERATION", 1)]%string%Z.
Definition pub_handlers : list (string * string) :=
  [("HANDLE_PING", "_handle_ping"); ("HANDLE_CLOSE", "_handle_close"); ("HANDLE_GETROOT", "_handle_getroot");
   ("HANDLE_GETATTR", "_handle_getattr"); ("HANDLE_DELATTR", "_handle_delattr"); ("HANDLE_SETATTR", "_handle_setattr");
   ("HANDLE_CALL", "_handle_call"); ("HANDLE_CALLATTR", "_handle_callattr"); ("HANDLE_REPR", "_handle_repr");
   ("HANDLE_STR", "_handle_str"); ("HANDLE_CMP", "_handle_cmp"); ("HANDLE_HASH", "_handle_hash");
   ("HANDLE_INSTANCECHECK", "_handle_instancecheck"); ("HANDLE_DIR", "_handle_dir"); ("HANDLE_PICKLE", "_handle_pickle");
   ("HANDLE_DEL", "_handle_del"); ("HANDLE_INSPECT", "_handle_inspect"); ("HANDLE_BUFFITER", "_handle_buffiter");
   ("HANDLE_OLDSLICING", "_handle_oldslicing"); ("HANDLE_CTXEXIT", "_handle_ctxexit")]%string.

(* header length of one ladder entry, and which lengths an entry can express *)
Definition entry_hdr_len (e : lcmp * N * N * lfield) : N :=
  match snd e with LNone => 1 | LI1 => 2 | LI4 => 5 end.
Definition entry_admits (e : lcmp * N * N * lfield) (n : N) : bool :=
  match e with
  | (LEq, k, _, LNone) => n =? k
  | (_, _, _, LNone) => false
  | (_, _, _, LI1) => n <? 256
  | (_, _, _, LI4) => n <? 4294967296
  end.
