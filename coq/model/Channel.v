(* Executable model of rpyc/core/channel.py (framing, compression flag, write split) and of the
   read/write loops of SocketStream / PipeStream in rpyc/core/stream.py over a transport oracle. *)
From V Require Import lib.Base lib.Sx model.Ladder.
From Coq Require Import String.
Open Scope N_scope.

Record cparams := { threshold : N; chunk : N; hdr_size : N; flusher : list byte }.

(* ---- transport oracles ---- *)
Inductive wev := WSent (k : N) | WErr.                          (* one sock.send / os.write call *)
Inductive revt := RData (k : N) | RTimeout | RWouldBlock | RErr | REof.   (* one sock.recv / os.read call *)

Definition nfirst (n : N) (l : list byte) := firstn (N.to_nat n) l.
Definition nskip (n : N) (l : list byte) := skipn (N.to_nat n) l.

(* stream.write: (completed?, bytes that reached the wire, unused oracle events) *)
Fixpoint stream_write (chunk : N) (evs : list wev) (data wire : list byte) : bool * list byte * list wev :=
  match data with
  | [] => (true, wire, evs)
  | _ =>
    match evs with
    | [] => (true, wire ++ data, [])                           (* quiet transport: everything is accepted *)
    | WErr :: evs' => (false, wire, evs')                       (* close + EOFError *)
    | WSent k :: evs' =>
        let offered := N.min chunk (nlen data) in
        let n := N.max 1 (N.min k offered) in
        stream_write chunk evs' (nskip n data) (wire ++ nfirst n data)
    end
  end.

(* stream.read(count): (Some bytes | None = close + EOFError, unused events, unread bytes) *)
Fixpoint stream_read (tolerant : bool) (chunk : N) (evs : list revt) (req : N) (avail acc : list byte)
  : option (list byte) * list revt * list byte :=
  if req =? 0 then (Some acc, evs, avail) else
  match evs with
  | [] => if nlen avail <? req then (None, [], []) else (Some (acc ++ nfirst req avail), [], nskip req avail)
  | RData k :: evs' =>
      match avail with
      | [] => (None, evs', [])                                  (* recv returned b"": connection closed by peer *)
      | _ => let n := N.max 1 (N.min k (N.min (N.min chunk req) (nlen avail))) in
             stream_read tolerant chunk evs' (req - n) (nskip n avail) (acc ++ nfirst n avail)
      end
  | RTimeout :: evs' | RWouldBlock :: evs' =>
      if tolerant then stream_read tolerant chunk evs' req avail acc else (None, evs', avail)
  | RErr :: evs' | REof :: evs' => (None, evs', avail)
  end.

Section Zlib.
Variable compress : list byte -> list byte.
Variable decompress : list byte -> result (list byte).
Variable P : cparams.

(* ---- Channel.send ---- *)
Definition frame_body (cmp : bool) (data : list byte) : bool * list byte :=
  if cmp && (threshold P <? nlen data) then (true, compress data) else (false, data).
Definition header (n : N) (flag : bool) : result (list byte) :=
  do l <- pack_I4 n; Ok (l ++ [if flag then x01 else x00]).
Definition frame (cmp : bool) (data : list byte) : result (list byte) :=
  let '(flag, body) := frame_body cmp data in
  do h <- header (nlen body) flag; Ok (h ++ body ++ flusher P).
Definition send_writes (cmp : bool) (data : list byte) : result (list (list byte)) :=
  let '(flag, body) := frame_body cmp data in
  do h <- header (nlen body) flag;
  if hdr_size P + nlen body + nlen (flusher P) <=? chunk P then Ok [h ++ body ++ flusher P]
  else let part1 := chunk P - hdr_size P in Ok [h ++ nfirst part1 body; nskip part1 body; flusher P].

Fixpoint do_writes (evs : list wev) (ws : list (list byte)) (wire : list byte) : bool * list byte * list wev :=
  match ws with
  | [] => (true, wire, evs)
  | w :: ws' => let '(ok, wire', evs') := stream_write (chunk P) evs w wire in
                if ok then do_writes evs' ws' wire' else (false, wire', evs')
  end.
(* Channel.send over a stream: result, bytes on the wire, remaining oracle *)
Definition channel_send (cmp : bool) (evs : list wev) (data : list byte) : result (bool * list byte * list wev) :=
  do ws <- send_writes cmp data; Ok (do_writes evs ws []).

(* ---- Channel.recv ---- *)
Inductive rcv := RcvOk (data : list byte) | RcvEOF | RcvZlib.
Definition channel_recv (tolerant : bool) (evs : list revt) (avail : list byte) : rcv * list revt * list byte :=
  match stream_read tolerant (chunk P) evs (hdr_size P) avail [] with
  | (None, evs1, av1) => (RcvEOF, evs1, av1)
  | (Some h, evs1, av1) =>
    match h with
    | a :: b :: c :: d :: fl :: _ =>
      let len := un4 a b c d in
      match stream_read tolerant (chunk P) evs1 (len + nlen (flusher P)) av1 [] with
      | (None, evs2, av2) => (RcvEOF, evs2, av2)
      | (Some body, evs2, av2) =>
        let data := firstn (List.length body - List.length (flusher P)) body in
        if Byte.eqb fl x00 then (RcvOk data, evs2, av2)
        else match decompress data with
             | Ok d => (RcvOk d, evs2, av2)
             | _ => (RcvZlib, evs2, av2)
             end
      end
    | _ => (RcvEOF, evs1, av1)
    end
  end.

(* receive until the stream ends: packets, whether a zlib error stopped us *)
Fixpoint recv_all (fuel : nat) (tolerant : bool) (evs : list revt) (avail : list byte) (acc : list (list byte))
  : list (list byte) * bool :=
  match fuel with
  | O => (List.rev acc, false)
  | S f => match channel_recv tolerant evs avail with
           | (RcvOk d, evs', av') => recv_all f tolerant evs' av' (d :: acc)
           | (RcvEOF, _, _) => (List.rev acc, false)
           | (RcvZlib, _, _) => (List.rev acc, true)
           end
  end.
End Zlib.

(* ---- harness interface.  zlib is a finite table supplied with each case. ---- *)
Fixpoint lookup (tbl : list (list byte * list byte)) (k : list byte) : option (list byte) :=
  match tbl with [] => None | (a, b) :: t => if bytes_eqb a k then Some b else lookup t k end.
Definition tbl_of_sx (x : sx) : list (list byte * list byte) :=
  map (fun e => match e with SL [SB a; SB b] => (a, b) | _ => ([], []) end) (sx_l x).
Definition params_of_sx (x : sx) : cparams :=
  match x with SL [t; c; h; SB f] => {| threshold := sx_n t; chunk := sx_n c; hdr_size := sx_n h; flusher := f |}
  | _ => {| threshold := 3000; chunk := 64000; hdr_size := 5; flusher := [x0a] |} end.
Definition wev_of_sx (x : sx) : wev := match x with SL [SI 0; k] => WSent (sx_n k) | _ => WErr end.
Definition rev_of_sx (x : sx) : revt :=
  match x with SL [SI 0; k] => RData (sx_n k) | SL [SI 1] => RTimeout | SL [SI 2] => RWouldBlock | SL [SI 3] => RErr | _ => REof end%Z.

Definition run_channel (x : sx) : sx :=
  match x with
  | SL [op; p; ctbl; dtbl; a1; a2; a3] =>
    let P := params_of_sx p in
    let ct := tbl_of_sx ctbl in let dt := tbl_of_sx dtbl in
    let compress := fun d => match lookup ct d with Some c => c | None => [] end in
    let decompress := fun d => match lookup dt d with Some c => Ok c | None => Raise ZlibError end in
    if is_tag "send" op then       (* a1 = compress flag, a2 = write events, a3 = data *)
      match channel_send compress P (sx_bool a1) (map wev_of_sx (sx_l a2)) (sx_b a3) with
      | Ok (ok, wire, _) => SL [SS "ok"; sbool ok; SB wire]
      | Raise e => SL [SS "exc"; SS (exn_name e)]
      | _ => bad_input
      end
    else if is_tag "writes" op then
      match send_writes compress P (sx_bool a1) (sx_b a3) with
      | Ok ws => SL [SS "ok"; SL (map SB ws)]
      | Raise e => SL [SS "exc"; SS (exn_name e)]
      | _ => bad_input
      end
    else if is_tag "recvall" op then   (* a1 = tolerant, a2 = read events, a3 = wire bytes *)
      let '(pk, z) := recv_all decompress P (S (List.length (sx_b a3))) (sx_bool a1) (map rev_of_sx (sx_l a2)) (sx_b a3) [] in
      SL [SS "ok"; SL (map SB pk); sbool z]
    else bad_input
  | _ => bad_input
  end.
