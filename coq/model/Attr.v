(* Executable model of rpyc's attribute-access policy:
     rpyc/core/protocol.py  Connection.__init__ / _check_attr / _access_attr / _handle_{get,set,del,call}attr ...
     rpyc/core/service.py   SlaveService.on_connect (classic mode blanket permissions)
     rpyc/utils/helpers.py  restricted()
   Three layers:
     1. the abstract decision core over booleans (what _check_attr/_access_attr read) -- mirrored by the
        functions tools/pygen/attrpolicy.py regenerates from the source (gen/Gen_attrpolicy.v);
     2. the concrete layer: names are code-point lists / byte strings / non-text, configurations carry a real
        prefix and safe set, objects are attribute sets with optional hooks, every probe (hasattr) and touch
        (getattr/setattr/delattr) on the object is recorded;
     3. connections: a heap of configuration dicts with aliasing, Connection.__init__, on_connect, close.
   No proofs here (see proofs/AttrP.v). *)
From V Require Import lib.Base lib.Sx lib.Utf8.
From Coq Require Import String.
Open Scope bool_scope.

(* ------------------------------------------------------------------ 1. abstract decision core *)

Record switches := { allow_safe : bool; allow_exposed : bool; allow_public : bool; allow_all : bool;
                     allow_getattr : bool; allow_setattr : bool; allow_delattr : bool }.
Inductive permkey := PGet | PSet | PDel.              (* "allow_getattr" / "allow_setattr" / "allow_delattr" *)
Definition lookup_perm (s : switches) (p : permkey) : bool :=
  match p with PGet => allow_getattr s | PSet => allow_setattr s | PDel => allow_delattr s end.

(* what the decision reads of a (text) name, of the object, of the name's Python type *)
Record nview := { starts_prefix : bool; in_safe : bool; starts_underscore : bool }.
Record oview := { has_name : bool; has_twin : bool }.
Inductive nkind := KStr | KBytesOk | KBytesBad | KOther.   (* str / bytes valid utf-8 / bytes not utf-8 / anything else *)
Inductive target := Plain | Twin.                     (* return name / return prefix + name *)
Inductive probe := ProbeTwin | ProbeName.             (* hasattr(obj, prefix + name) / hasattr(obj, name) *)
Inductive reach := ByHook | ByDefault (t : target).   (* accessor = type(obj)._rpyc_xxx / the builtin after _check_attr *)
Definition nk_is_bytes (k : nkind) : bool := match k with KBytesOk | KBytesBad => true | _ => false end.  (* type(name) is bytes *)
Definition nk_is_str (k : nkind) : bool := match k with KStr => true | _ => false end.                    (* type(name) is str *)
Definition nk_decodes (k : nkind) : bool := match k with KBytesBad => false | _ => true end.              (* str(name, "utf8") succeeds *)

(* Connection._check_attr; [pne] = bool(config["exposed_prefix"]) *)
Definition check_attr (s : switches) (perm : permkey) (pne : bool) (n : nview) (o : oview) : result target :=
  if negb (lookup_perm s perm) then Raise AttributeError else
  let prefix := allow_exposed s && pne in
  let plain := allow_all s in
  let plain := plain || (allow_exposed s && starts_prefix n) in
  let plain := plain || (allow_safe s && in_safe n) in
  let plain := plain || (allow_public s && negb (starts_underscore n)) in
  let has_exposed := prefix && has_twin o in
  if plain && (negb has_exposed || has_name o) then Ok Plain
  else if has_exposed then Ok Twin
  else if plain then Ok Plain
  else Raise AttributeError.

(* the hasattr calls _check_attr makes, in program order (Python's short-circuit evaluation) *)
Definition check_probes (s : switches) (perm : permkey) (pne : bool) (n : nview) (o : oview) : list probe :=
  if negb (lookup_perm s perm) then [] else
  let prefix := allow_exposed s && pne in
  let plain := allow_all s || (allow_exposed s && starts_prefix n) || (allow_safe s && in_safe n)
               || (allow_public s && negb (starts_underscore n)) in
  (if prefix then [ProbeTwin] else []) ++ (if plain && (prefix && has_twin o) then [ProbeName] else []).

(* Connection._access_attr; [guarded] = "a bytes name that does not decode is turned into TypeError"
   (generated fact decode_guarded; false on the pinned tree: UnicodeDecodeError escapes) *)
Definition access_attr (guarded : bool) (nk : nkind) (hook : bool) (s : switches) (perm : permkey) (pne : bool)
           (n : nview) (o : oview) : result reach :=
  match nk with
  | KOther => Raise TypeError
  | KBytesBad => Raise (if guarded then TypeError else UnicodeError)
  | _ => if hook then Ok ByHook
         else match check_attr s perm pne n o with
              | Ok t => Ok (ByDefault t) | Raise e => Raise e | OutOfFuel => OutOfFuel | Unmodelled => Unmodelled
              end
  end.

(* ---- the property text as a table (specification; nothing here is derived from the code) ---- *)
Definition spec_allowed (s : switches) (n : nview) : bool :=
  allow_all s || (allow_exposed s && starts_prefix n) || (allow_safe s && in_safe n)
  || (allow_public s && negb (starts_underscore n)).
Definition spec_twin (s : switches) (pne : bool) (o : oview) : bool := allow_exposed s && pne && has_twin o.
Definition spec_access (nk : nkind) (hook : bool) (s : switches) (perm : permkey) (pne : bool) (n : nview) (o : oview)
  : result reach :=
  match nk with
  | KOther | KBytesBad => Raise TypeError                       (* a name that is not text *)
  | _ =>
    if hook then Ok ByHook                                      (* the object's own hook decides *)
    else if negb (lookup_perm s perm) then Raise AttributeError (* kind of operation not enabled *)
    else if spec_allowed s n && (negb (spec_twin s pne o) || has_name o) then Ok (ByDefault Plain)
    else if spec_twin s pne o then Ok (ByDefault Twin)
    else if spec_allowed s n then Ok (ByDefault Plain)          (* allowed but absent: fails on the object itself *)
    else Raise AttributeError
  end.

(* ---- request handlers: which route each takes to an attribute (table regenerated from the source) ---- *)
Inductive route :=
| RAccess (target overrider perm dflt : string)   (* self._access_attr(target, _, _, overrider, perm, dflt); target is
                                                        "obj" (the object the peer named) or "type(obj)" (its class) *)
| RHandler (h : string)                      (* self._handle_<h>(...) *)
| RRaw (what : string).                      (* getattr/setattr/delattr/hasattr/... with a non-constant name *)
Definition htable := list (string * list route).

Fixpoint lookup_h (t : htable) (h : string) : option (list route) :=
  match t with [] => None | (k, v) :: r => if String.eqb k h then Some v else lookup_h r h end.
(* all attribute routes of handler h, following calls to other handlers *)
Fixpoint resolve (fuel : nat) (t : htable) (rs : list route) : list route :=
  match fuel with
  | O => map (fun _ => RRaw "fuel") rs
  | S f => flat_map (fun r => match r with
                              | RHandler h => match lookup_h t h with Some rs' => resolve f t rs' | None => [RRaw h] end
                              | _ => [r] end) rs
  end.
Definition route_perm (r : route) : option permkey :=
  match r with
  | RAccess _ o p d =>
      if (String.eqb o "_rpyc_getattr" && String.eqb p "allow_getattr" && String.eqb d "getattr")%bool then Some PGet
      else if (String.eqb o "_rpyc_setattr" && String.eqb p "allow_setattr" && String.eqb d "setattr")%bool then Some PSet
      else if (String.eqb o "_rpyc_delattr" && String.eqb p "allow_delattr" && String.eqb d "delattr")%bool then Some PDel
      else None
  | _ => None
  end.
Definition handler_perms (t : htable) (h : string) : list (option permkey) :=
  match lookup_h t h with Some rs => map route_perm (resolve 8 t rs) | None => [None] end.
(* the permission the property names for each handler that reaches attributes; every other handler reaches none *)
Definition expected_perms (h : string) : list (option permkey) :=
  if String.eqb h "getattr" then [Some PGet] else if String.eqb h "setattr" then [Some PSet]
  else if String.eqb h "delattr" then [Some PDel] else if String.eqb h "callattr" then [Some PGet]
  else if String.eqb h "cmp" then [Some PGet] else if String.eqb h "ctxexit" then [Some PGet]
  else if String.eqb h "oldslicing" then [Some PGet; Some PGet] else [].
(* which object is handed to _access_attr -- and therefore whose hooks are consulted: Some false = the object itself,
   Some true = type(obj), None = anything else *)
Definition route_target (r : route) : option bool :=
  match r with
  | RAccess t _ _ _ => if String.eqb t "obj" then Some false else if String.eqb t "type(obj)" then Some true else None
  | _ => None
  end.
Definition handler_targets (t : htable) (h : string) : list (option bool) :=
  match lookup_h t h with Some rs => map route_target (resolve 8 t rs) | None => [None] end.
(* every by-name handler hands over the object itself, except cmp, which hands over type(obj): on that route the
   hooks consulted are those of the object's metaclass, NOT the object's own *)
Definition expected_targets (h : string) : list (option bool) :=
  if String.eqb h "cmp" then [Some true] else map (fun _ => Some false) (expected_perms h).
Definition otarget_eqb (a b : option bool) : bool :=
  match a, b with Some x, Some y => Bool.eqb x y | _, _ => false end.
Fixpoint targets_eqb (a b : list (option bool)) : bool :=
  match a, b with [], [] => true | x :: a', y :: b' => otarget_eqb x y && targets_eqb a' b' | _, _ => false end.
Definition operm_eqb (a b : option permkey) : bool :=
  match a, b with
  | Some PGet, Some PGet | Some PSet, Some PSet | Some PDel, Some PDel => true
  | _, _ => false        (* None (a route that is not a well-formed _access_attr triple) never matches *)
  end.
Fixpoint perms_eqb (a b : list (option permkey)) : bool :=
  match a, b with [], [] => true | x :: a', y :: b' => operm_eqb x y && perms_eqb a' b' | _, _ => false end.
Definition routes_ok (t : htable) : bool :=
  forallb (fun e => perms_eqb (handler_perms t (fst e)) (expected_perms (fst e))
                   && targets_eqb (handler_targets t (fst e)) (expected_targets (fst e))) t.
(* The property is about attributes NAMED BY THE PEER.  These are the handlers that take such a name (or use a fixed one),
   in source order; the policy theorems are about them. *)
Definition by_name_handlers : list string :=
  ["cmp"; "getattr"; "delattr"; "setattr"; "callattr"; "ctxexit"; "oldslicing"]%string.
(* Every other handler takes no attribute name: it works on the object as a whole (its special methods, its class, its
   pickled state).  They are OUTSIDE the policy theorems; what they reveal does not depend on the seven attribute switches:
     dir      -> the names dir(obj) lists;      inspect -> names and docstrings of the callables in the class dicts of type(obj);
     pickle   -> the whole state, gated by allow_pickle alone (ValueError when off);
     repr/str/hash/call/buffiter/instancecheck -> special methods of the object;  ping/close/getroot/del -> no object attribute. *)
Definition whole_object_handlers : list string :=
  ["ping"; "close"; "getroot"; "del"; "repr"; "str"; "hash"; "call"; "dir"; "inspect"; "instancecheck"; "pickle"; "buffiter"]%string.
Definition is_nil {A} (l : list A) : bool := match l with [] => true | _ => false end.
Definition handlers_with_routes (t : htable) : list string := map fst (filter (fun e => negb (is_nil (snd e))) t).
Definition handlers_without_routes (t : htable) : list string := map fst (filter (fun e => is_nil (snd e)) t).

(* ------------------------------------------------------------------ 2. concrete layer *)

Definition text := list N.                              (* a Python str: code points *)
Fixpoint text_eqb (a b : text) : bool :=
  match a, b with [] , [] => true | x :: a', y :: b' => N.eqb x y && text_eqb a' b' | _, _ => false end.
Fixpoint starts_with (p s : text) : bool :=              (* s.startswith(p) *)
  match p with
  | [] => true
  | x :: p' => match s with [] => false | y :: s' => N.eqb x y && starts_with p' s' end
  end.
Definition mem (n : text) (l : list text) : bool := existsb (text_eqb n) l.
Definition nonempty (t : text) : bool := match t with [] => false | _ => true end.
Definition underscore : text := [95%N].

Record cfg := { sw : switches; exposed_prefix : text; safe_attrs : list text }.

Inductive pyname := NStr (t : text) | NBytes (b : list byte) | NOther.
Definition nkind_of (p : pyname) : nkind :=
  match p with
  | NStr _ => KStr
  | NBytes b => match utf8_decode false b with Ok _ => KBytesOk | _ => KBytesBad end
  | NOther => KOther
  end.
Definition text_of (p : pyname) : text :=                (* str(name, "utf8") for bytes *)
  match p with
  | NStr t => t
  | NBytes b => match utf8_decode false b with Ok t => t | _ => [] end
  | NOther => []
  end.

(* an object: the attribute names it has, and whether its type defines _rpyc_getattr/_rpyc_setattr/_rpyc_delattr *)
Record obj := { attrs : list text; hook_get : bool; hook_set : bool; hook_del : bool }.
Definition has (o : obj) (n : text) : bool := mem n (attrs o).
Definition hook_for (o : obj) (p : permkey) : bool :=
  match p with PGet => hook_get o | PSet => hook_set o | PDel => hook_del o end.
Definition with_attrs (o : obj) (l : list text) : obj :=
  {| attrs := l; hook_get := hook_get o; hook_set := hook_set o; hook_del := hook_del o |}.

Definition nview_of (c : cfg) (n : text) : nview :=
  {| starts_prefix := starts_with (exposed_prefix c) n; in_safe := mem n (safe_attrs c);
     starts_underscore := starts_with underscore n |}.
Definition oview_of (c : cfg) (n : text) (o : obj) : oview :=
  {| has_name := has o n; has_twin := has o (exposed_prefix c ++ n) |}.

Inductive via := ViaHook (n : text) | ViaDefault (final : text).
Definition via_of (c : cfg) (n : text) (r : result reach) : result via :=
  match r with
  | Ok ByHook => Ok (ViaHook n)
  | Ok (ByDefault Plain) => Ok (ViaDefault n)
  | Ok (ByDefault Twin) => Ok (ViaDefault (exposed_prefix c ++ n))
  | Raise e => Raise e | OutOfFuel => OutOfFuel | Unmodelled => Unmodelled
  end.

(* the decision of _access_attr on concrete inputs *)
Definition decide (g : bool) (c : cfg) (perm : permkey) (p : pyname) (o : obj) : result via :=
  let n := text_of p in
  via_of c n (access_attr g (nkind_of p) (hook_for o perm) (sw c) perm (nonempty (exposed_prefix c))
                          (nview_of c n) (oview_of c n o)).
Definition spec_decide (c : cfg) (perm : permkey) (p : pyname) (o : obj) : result via :=
  let n := text_of p in
  via_of c n (spec_access (nkind_of p) (hook_for o perm) (sw c) perm (nonempty (exposed_prefix c))
                          (nview_of c n) (oview_of c n o)).

(* what happens to the object *)
Inductive ev := EGet (n : text) | ESet (n : text) | EDel (n : text).
Definition is_write (e : ev) : bool := match e with EGet _ => false | _ => true end.
Record outcome := { o_decision : result via;   (* what _access_attr decided *)
                    o_result : result unit;    (* what the peer gets: a value or an exception *)
                    o_trace : list ev;         (* every __getattribute__/__setattr__/__delattr__ on the object, in order *)
                    o_touch : list ev;         (* the part of the trace that is the access itself (not a hasattr probe) *)
                    o_obj : obj }.

Definition add_attr (n : text) (o : obj) : obj := if has o n then o else with_attrs o (attrs o ++ [n]).
Definition del_attr (n : text) (o : obj) : obj := with_attrs o (filter (fun x => negb (text_eqb n x)) (attrs o)).
(* getattr / setattr / delattr (obj, final) on a plain object *)
Definition perform (perm : permkey) (final : text) (o : obj) : result unit * list ev * obj :=
  match perm with
  | PGet => (if has o final then Ok tt else Raise AttributeError, [EGet final], o)
  | PSet => (Ok tt, [ESet final], add_attr final o)
  | PDel => (if has o final then Ok tt else Raise AttributeError, [EDel final], del_attr final o)
  end.
Definition probe_ev (c : cfg) (n : text) (p : probe) : ev :=
  match p with ProbeTwin => EGet (exposed_prefix c ++ n) | ProbeName => EGet n end.
Definition probes_of (c : cfg) (perm : permkey) (p : pyname) (o : obj) : list ev :=
  match nkind_of p with
  | KStr | KBytesOk =>
      if hook_for o perm then []
      else map (probe_ev c (text_of p))
               (check_probes (sw c) perm (nonempty (exposed_prefix c)) (nview_of c (text_of p)) (oview_of c (text_of p) o))
  | _ => []
  end.

(* one of _handle_getattr / _handle_setattr / _handle_delattr on a connection with configuration c *)
Definition handle (g : bool) (c : cfg) (perm : permkey) (p : pyname) (o : obj) : outcome :=
  let d := decide g c perm p o in
  let pr := probes_of c perm p o in
  match d with
  | Ok (ViaDefault final) =>
      let '(r, t, o') := perform perm final o in
      {| o_decision := d; o_result := r; o_trace := pr ++ t; o_touch := t; o_obj := o' |}
  | Ok (ViaHook _) =>     (* the hook runs; what it does is the object's business *)
      {| o_decision := d; o_result := Ok tt; o_trace := []; o_touch := []; o_obj := o |}
  | Raise e => {| o_decision := d; o_result := Raise e; o_trace := pr; o_touch := []; o_obj := o |}
  | OutOfFuel => {| o_decision := d; o_result := OutOfFuel; o_trace := pr; o_touch := []; o_obj := o |}
  | Unmodelled => {| o_decision := d; o_result := Unmodelled; o_trace := pr; o_touch := []; o_obj := o |}
  end.

(* ---- restricted(obj, attrs, wattrs): a wrapper with _rpyc_getattr (= __getattr__) and _rpyc_setattr (= __setattr__),
        no _rpyc_delattr, no attributes of its own ---- *)
Record rview := { r_attrs : list text; r_wattrs : option (list text); r_under : obj }.
Definition r_wlist (r : rview) : list text := match r_wattrs r with None => r_attrs r | Some w => w end.
Definition restricted_get (r : rview) (n : text) : result unit * list ev * obj :=
  if mem n (r_attrs r) then perform PGet n (r_under r) else (Raise AttributeError, [], r_under r).
Definition restricted_set (r : rview) (n : text) : result unit * list ev * obj :=
  if mem n (r_wlist r) then perform PSet n (r_under r) else (Raise AttributeError, [], r_under r).
(* hasattr(wrapper, x): object lookup fails, __getattr__ = _rpyc_getattr runs *)
Definition r_has (r : rview) (x : text) : bool := mem x (r_attrs r) && has (r_under r) x.
Definition r_probe_ev (r : rview) (x : text) : list ev := if mem x (r_attrs r) then [EGet x] else [].
(* result, events on the underlying object, underlying object afterwards *)
Definition handle_restricted (g : bool) (c : cfg) (perm : permkey) (p : pyname) (r : rview)
  : result unit * list ev * obj :=
  let n := text_of p in
  match nkind_of p with
  | KOther => (Raise TypeError, [], r_under r)
  | KBytesBad => (Raise (if g then TypeError else UnicodeError), [], r_under r)
  | _ =>
    match perm with
    | PGet => restricted_get r n
    | PSet => restricted_set r n
    | PDel =>   (* no hook: the configuration decides, then object.__delattr__(wrapper, final) finds nothing to delete *)
        let ov := {| has_name := r_has r n; has_twin := r_has r (exposed_prefix c ++ n) |} in
        let prs := check_probes (sw c) PDel (nonempty (exposed_prefix c)) (nview_of c n) ov in
        (Raise AttributeError, flat_map (fun q => match probe_ev c n q with EGet x => r_probe_ev r x | _ => [] end) prs,
         r_under r)
    end
  end.

(* ---- _handle_cmp(obj, other, op): the name op comes from the peer, the attribute is looked up on type(obj) (modelled by
        [ty]: the class's attributes, hook_get = a hook on the METAclass), then called with (obj, other).  The object's own
        hooks are not consulted on this route.  [restricted]: generated fact "only the comparison protocol is served"
        (the accessor refuses every name outside cmp_names). ---- *)
Definition text_of_string (s : string) : text := map Byte.to_N (list_byte_of_string s).
Definition cmp_names : list string := ["__cmp__"; "__eq__"; "__ne__"; "__lt__"; "__le__"; "__gt__"; "__ge__"]%string.
Definition decide_cmp (restricted : bool) (g : bool) (c : cfg) (p : pyname) (ty : obj) : result via :=
  match decide g c PGet p ty with
  | Ok (ViaDefault final) =>
      if restricted && negb (mem final (map text_of_string cmp_names)) then Raise AttributeError else Ok (ViaDefault final)
  | r => r
  end.

(* ---- a Service instance as the object (rpyc/core/service.py, class Service): no _rpyc_getattr (the configuration decides
        reads), _rpyc_setattr and _rpyc_delattr raise AttributeError("access denied") -- the service denies writes and deletes
        on itself whatever the configuration.  [ds]/[dd]: generated facts "the hook body is exactly that raise". ---- *)
Definition svc_obj (l : list text) : obj := {| attrs := l; hook_get := false; hook_set := true; hook_del := true |}.
Definition handle_service (ds dd : bool) (g : bool) (c : cfg) (perm : permkey) (p : pyname) (l : list text)
  : result unit * list ev * obj :=
  match nkind_of p with
  | KOther => (Raise TypeError, [], svc_obj l)
  | KBytesBad => (Raise (if g then TypeError else UnicodeError), [], svc_obj l)
  | _ =>
    match perm with
    | PGet => let h := handle g c PGet p (svc_obj l) in (o_result h, o_trace h, o_obj h)
    | PSet => if ds then (Raise AttributeError, [], svc_obj l) else (Unmodelled, [], svc_obj l)
    | PDel => if dd then (Raise AttributeError, [], svc_obj l) else (Unmodelled, [], svc_obj l)
    end
  end.

(* ------------------------------------------------------------------ 3. connections *)

Inductive swkey := KSafe | KExposed | KPublic | KAll | KGetattr | KSetattr | KDelattr.
Inductive setting := SetSw (k : swkey) (b : bool) | SetPrefix (p : text) | SetSafe (l : list text).
Definition upd := list setting.                          (* the attribute-related part of a config dict *)

Definition set_sw (k : swkey) (b : bool) (s : switches) : switches :=
  match k with
  | KSafe => {| allow_safe := b; allow_exposed := allow_exposed s; allow_public := allow_public s; allow_all := allow_all s;
                allow_getattr := allow_getattr s; allow_setattr := allow_setattr s; allow_delattr := allow_delattr s |}
  | KExposed => {| allow_safe := allow_safe s; allow_exposed := b; allow_public := allow_public s; allow_all := allow_all s;
                allow_getattr := allow_getattr s; allow_setattr := allow_setattr s; allow_delattr := allow_delattr s |}
  | KPublic => {| allow_safe := allow_safe s; allow_exposed := allow_exposed s; allow_public := b; allow_all := allow_all s;
                allow_getattr := allow_getattr s; allow_setattr := allow_setattr s; allow_delattr := allow_delattr s |}
  | KAll => {| allow_safe := allow_safe s; allow_exposed := allow_exposed s; allow_public := allow_public s; allow_all := b;
                allow_getattr := allow_getattr s; allow_setattr := allow_setattr s; allow_delattr := allow_delattr s |}
  | KGetattr => {| allow_safe := allow_safe s; allow_exposed := allow_exposed s; allow_public := allow_public s; allow_all := allow_all s;
                allow_getattr := b; allow_setattr := allow_setattr s; allow_delattr := allow_delattr s |}
  | KSetattr => {| allow_safe := allow_safe s; allow_exposed := allow_exposed s; allow_public := allow_public s; allow_all := allow_all s;
                allow_getattr := allow_getattr s; allow_setattr := b; allow_delattr := allow_delattr s |}
  | KDelattr => {| allow_safe := allow_safe s; allow_exposed := allow_exposed s; allow_public := allow_public s; allow_all := allow_all s;
                allow_getattr := allow_getattr s; allow_setattr := allow_setattr s; allow_delattr := b |}
  end.
Definition apply_setting (c : cfg) (x : setting) : cfg :=
  match x with
  | SetSw k b => {| sw := set_sw k b (sw c); exposed_prefix := exposed_prefix c; safe_attrs := safe_attrs c |}
  | SetPrefix p => {| sw := sw c; exposed_prefix := p; safe_attrs := safe_attrs c |}
  | SetSafe l => {| sw := sw c; exposed_prefix := exposed_prefix c; safe_attrs := l |}
  end.
Definition apply_upd (u : upd) (c : cfg) : cfg := fold_left apply_setting u c.     (* dict.update *)

(* SlaveService.on_connect's dict, attribute-related keys (tie: proofs/AttrP.v compares with the generated dict) *)
Definition swkey_of (k : string) : option swkey :=
  if String.eqb k "allow_safe_attrs" then Some KSafe else if String.eqb k "allow_exposed_attrs" then Some KExposed
  else if String.eqb k "allow_public_attrs" then Some KPublic else if String.eqb k "allow_all_attrs" then Some KAll
  else if String.eqb k "allow_getattr" then Some KGetattr else if String.eqb k "allow_setattr" then Some KSetattr
  else if String.eqb k "allow_delattr" then Some KDelattr else None.
Definition upd_of_pairs (l : list (string * bool)) : upd :=
  flat_map (fun kv => match swkey_of (fst kv) with Some k => [SetSw k (snd kv)] | None => [] end) l.
Definition classic_upd : upd :=
  [SetSw KAll true; SetSw KGetattr true; SetSw KSetattr true; SetSw KDelattr true; SetSw KExposed false].

(* facts about the source that decide aliasing (regenerated; see Gen_attrpolicy.init_copies_defaults etc.) *)
Record facts := { f_init_copies : bool;      (* Connection.__init__: self._config = DEFAULT_CONFIG.copy() *)
                  f_on_connect_own : bool;   (* SlaveService.on_connect updates conn._config of the conn it was given *)
                  f_requests_leave_config : bool }.
                  (* no code that runs while a request is served (or on close) writes any configuration dict: every write
                     site found by the whole-tree scan is in Connection.__init__ or SlaveService.on_connect *)
(* which of the scanned write sites run at open time only *)
Definition open_time_site (s : string) : bool :=
  String.eqb s "rpyc/core/protocol.py:Connection.__init__" || String.eqb s "rpyc/core/service.py:SlaveService.on_connect".
Definition writes_at_open_only (sites : list (string * string)) : bool := forallb (fun w => open_time_site (fst w)) sites.

Inductive svc := SvcPlain | SvcClassic.      (* SvcClassic: SlaveService / ClassicService (on_connect grants itself everything) *)
Inductive hop :=
| HOpen (u : upd) (s : svc)                  (* Connection(service, channel, config=u); service.on_connect(conn) *)
| HClose (i : nat)                           (* conn_i.close() *)
| HAccess (i : nat).                         (* any request served on conn_i *)
Record conn := { cell : nat; live : bool }.
Record world := { heap : list cfg;           (* dict objects; cell 0 is DEFAULT_CONFIG *)
                  conns : list conn }.

Definition dummy_cfg : cfg :=
  {| sw := {| allow_safe := false; allow_exposed := false; allow_public := false; allow_all := false;
              allow_getattr := false; allow_setattr := false; allow_delattr := false |};
     exposed_prefix := []; safe_attrs := [] |}.
Fixpoint upd_nth {A} (n : nat) (f : A -> A) (l : list A) : list A :=
  match l with [] => [] | x :: r => match n with O => f x :: r | S k => x :: upd_nth k f r end end.
Definition init_world (d : cfg) : world := {| heap := [d]; conns := [] |}.

Definition step (F : facts) (w : world) (op : hop) : world :=
  match op with
  | HOpen u s =>
      let '(h1, c) := if f_init_copies F then (heap w ++ [nth 0 (heap w) dummy_cfg], List.length (heap w))
                      else (heap w, O) in
      let h2 := upd_nth c (apply_upd u) h1 in
      let h3 := match s with
                | SvcPlain => h2
                | SvcClassic => upd_nth (if f_on_connect_own F then c else O) (apply_upd classic_upd) h2
                end in
      {| heap := h3; conns := conns w ++ [{| cell := c; live := true |}] |}
  | HClose i => {| heap := heap w; conns := upd_nth i (fun k => {| cell := cell k; live := false |}) (conns w) |}
  | HAccess _ =>
      if f_requests_leave_config F then w
      else {| heap := map (fun _ => dummy_cfg) (heap w); conns := conns w |}   (* unknown writes: nothing can be said *)
  end.
Definition run (F : facts) (d : cfg) (h : list hop) : world := fold_left (step F) h (init_world d).
Definition cfg_of (w : world) (i : nat) : option cfg :=
  match nth_error (conns w) i with Some k => nth_error (heap w) (cell k) | None => None end.
Definition default_of (w : world) : cfg := nth 0 (heap w) dummy_cfg.
(* what connection i was given at open, plus its own on_connect *)
Definition own_cfg (d : cfg) (u : upd) (s : svc) : cfg :=
  match s with SvcPlain => apply_upd u d | SvcClassic => apply_upd classic_upd (apply_upd u d) end.
Fixpoint nth_open (h : list hop) (i : nat) : option (upd * svc) :=
  match h with
  | [] => None
  | HOpen u s :: r => match i with O => Some (u, s) | S k => nth_open r k end
  | _ :: r => nth_open r i
  end.

(* ------------------------------------------------------------------ harness interface *)
Definition sx_text (x : sx) : text := map sx_n (sx_l x).
Definition text_sx (t : text) : sx := SL (map sN t).
Definition sx_texts (x : sx) : list text := map sx_text (sx_l x).
Definition sx_switches (x : sx) : switches :=
  match sx_l x with
  | [a; b; c; d; e; f; g] => {| allow_safe := sx_bool a; allow_exposed := sx_bool b; allow_public := sx_bool c;
        allow_all := sx_bool d; allow_getattr := sx_bool e; allow_setattr := sx_bool f; allow_delattr := sx_bool g |}
  | _ => sw dummy_cfg
  end.
Definition switches_sx (s : switches) : sx :=
  SL [sbool (allow_safe s); sbool (allow_exposed s); sbool (allow_public s); sbool (allow_all s);
      sbool (allow_getattr s); sbool (allow_setattr s); sbool (allow_delattr s)].
Definition sx_cfg (x : sx) : cfg :=
  match sx_l x with
  | [s; p; l] => {| sw := sx_switches s; exposed_prefix := sx_text p; safe_attrs := sx_texts l |}
  | _ => dummy_cfg
  end.
Definition cfg_sx (c : cfg) : sx := SL [switches_sx (sw c); text_sx (exposed_prefix c); SL (map text_sx (safe_attrs c))].
Definition sx_perm (x : sx) : permkey := match sx_z x with 0%Z => PGet | 1%Z => PSet | _ => PDel end.
Definition sx_name (x : sx) : pyname :=
  match x with
  | SL [SI 0%Z; t] => NStr (sx_text t)
  | SL [SI 1%Z; SB b] => NBytes b
  | _ => NOther
  end.
Definition sx_obj (x : sx) : obj :=
  match sx_l x with
  | [a; g; s; d] => {| attrs := sx_texts a; hook_get := sx_bool g; hook_set := sx_bool s; hook_del := sx_bool d |}
  | _ => {| attrs := []; hook_get := false; hook_set := false; hook_del := false |}
  end.
Definition ev_sx (e : ev) : sx :=
  match e with EGet n => SL [SI 0; text_sx n] | ESet n => SL [SI 1; text_sx n] | EDel n => SL [SI 2; text_sx n] end.
Definition via_sx (v : via) : sx :=
  match v with ViaHook n => SL [SI 0; text_sx n] | ViaDefault n => SL [SI 1; text_sx n] end.
Definition unit_sx (_ : unit) : sx := SL [].
Definition outcome_sx (o : outcome) : sx :=
  SL [sx_result via_sx (o_decision o); sx_result unit_sx (o_result o); SL (map ev_sx (o_trace o));
      SL (map ev_sx (o_touch o)); SL (map text_sx (attrs (o_obj o)))].
Definition triple_sx (t : result unit * list ev * obj) : sx :=
  let '(r, tr, o) := t in SL [sx_result unit_sx r; SL (map ev_sx tr); SL (map text_sx (attrs o))].
Definition sx_swkey (z : Z) : swkey :=
  match z with 0%Z => KSafe | 1%Z => KExposed | 2%Z => KPublic | 3%Z => KAll | 4%Z => KGetattr | 5%Z => KSetattr | _ => KDelattr end.
Definition sx_setting (x : sx) : setting :=
  match x with
  | SL [SI 7%Z; p] => SetPrefix (sx_text p)
  | SL [SI 8%Z; l] => SetSafe (sx_texts l)
  | SL [SI k; b] => SetSw (sx_swkey k) (sx_bool b)
  | _ => SetPrefix []
  end.
Definition sx_hop (x : sx) : hop :=
  match x with
  | SL [SI 0%Z; u; s] => HOpen (map sx_setting (sx_l u)) (if sx_bool s then SvcClassic else SvcPlain)
  | SL [SI 1%Z; i] => HClose (sx_nat i)
  | SL [_; i] => HAccess (sx_nat i)
  | _ => HAccess O
  end.
Definition world_sx (w : world) : sx :=
  SL [cfg_sx (default_of w);
      SL (map (fun k => SL [sbool (live k); match nth_error (heap w) (cell k) with Some c => cfg_sx c | None => SL [] end]) (conns w))].
(* the world after every step *)
Fixpoint snapshots (F : facts) (w : world) (h : list hop) : list sx :=
  match h with [] => [] | op :: r => let w' := step F w op in world_sx w' :: snapshots F w' r end.

Definition run_attr (x : sx) : sx :=
  match x with
  | SL [cmd; g; c; perm; nm; o] =>
      if is_tag "access" cmd then
        SL [outcome_sx (handle (sx_bool g) (sx_cfg c) (sx_perm perm) (sx_name nm) (sx_obj o));
            sx_result via_sx (spec_decide (sx_cfg c) (sx_perm perm) (sx_name nm) (sx_obj o))]
      else bad_input
  | SL [cmd; ds; dd; g; c; perm; nm; l] =>
      if is_tag "service" cmd then
        triple_sx (handle_service (sx_bool ds) (sx_bool dd) (sx_bool g) (sx_cfg c) (sx_perm perm) (sx_name nm) (sx_texts l))
      else if is_tag "restricted" cmd then
        triple_sx (handle_restricted (sx_bool ds) (sx_cfg dd) (sx_perm g) (sx_name c)
                     {| r_attrs := sx_texts perm;
                        r_wattrs := match sx_l nm with [w] => Some (sx_texts w) | _ => None end;
                        r_under := sx_obj l |})
      else bad_input
  | SL [cmd; f; d; ops] =>
      if is_tag "history" cmd then
        match sx_l f with
        | [a; b; r] => SL (snapshots {| f_init_copies := sx_bool a; f_on_connect_own := sx_bool b;
                                         f_requests_leave_config := sx_bool r |}
                                     (init_world (sx_cfg d)) (map sx_hop (sx_l ops)))
        | _ => bad_input
        end
      else bad_input
  | _ => bad_input
  end.
