(* Executable model of rpyc's forwarding layer: what a netref turns an operation into, and what the peer does with it.
     rpyc/core/netref.py    LOCAL_ATTRS, BaseNetref special methods, _make_method, class_factory
     rpyc/core/protocol.py  the _handle_* request handlers
     rpyc/utils/helpers.py  buffiter
   Three layers:
     1. routing: operation on a proxy -> request (handler, argument layout); the tables below are the ones the model uses,
        proofs/ProxyOpsTie.v shows that the tables regenerated from the sources (gen/Gen_netref.v) are the same;
     2. denotation: request -> the action the handler body applies to the target (getattr / call / repr / ...), and the
        attribute names whose permission it checks on the way;
     3. worlds: a heap of objects with an arbitrary semantics [apply] (Python itself: a parameter), operation sequences
        run directly on the objects and run through proxies (boxing, export table, routing, denotation, unboxing);
        buffered iteration with the chunk schedule of the generated loop.
   No proofs here (see proofs/ProxyOpsP.v). *)
From V Require Import lib.Base lib.Sx model.Attr.
From Coq Require Import String Ascii.
Open Scope bool_scope.
Open Scope string_scope.

Definition smem (s : string) (l : list string) : bool := existsb (String.eqb s) l.
Fixpoint slookup {A} (l : list (string * A)) (k : string) : option A :=
  match l with [] => None | (k', v) :: r => if String.eqb k k' then Some v else slookup r k end.

(* ================================================================== 1. routing (rpyc/core/netref.py) *)

(* facts of the source tree that decide clauses of the property; regenerated on every run (gen/Gen_netref.v) *)
Record facts := { f_getattr_repeats : bool;    (* __getattr__ (Python's fallback after AttributeError) asks the peer again *)
                  f_ctxexit_delivers : bool;   (* the target's __exit__ learns the class of the exception raised in the with block *)
                  f_ctxexit_base : bool;       (* ... also for classes outside Exception (KeyboardInterrupt, SystemExit, GeneratorExit): the
                                                  handler's `raise` is guarded by `except BaseException` *)
                  f_reflects : bool }.         (* when the target's binary special method declines (NotImplemented) an operand that came by
                                                  value, the owner tries the operand's reflected method against the target itself *)

Definition deleted_attrs : list string := ["__array_struct__"; "__array_interface__"].
Definition local_attrs : list string :=
  (["____conn__"; "____id_pack__"; "____refcount__"; "__class__"; "__cmp__"; "__del__"; "__delattr__";
   "__dir__"; "__doc__"; "__getattr__"; "__getattribute__"; "__hash__"; "__instancecheck__";
   "__init__"; "__metaclass__"; "__module__"; "__new__"; "__reduce__";
   "__reduce_ex__"; "__repr__"; "__setattr__"; "__slots__"; "__str__";
   "__weakref__"; "__dict__"; "__methods__"; "__exit__";
   "__eq__"; "__ne__"; "__lt__"; "__gt__"; "__le__"; "__ge__"] ++ deleted_attrs)%list.

(* an argument of syncreq as written in a method body *)
Inductive marg :=
| MParam (i : nat)        (* the i-th parameter after self *)
| MConst (s : string)     (* a text literal *)
| MArgs                   (* args   (the *args tuple) *)
| MKwItems.               (* kwargs (after kwargs = tuple(kwargs.items())) *)
Inductive mwrap := WNone | WList.                               (* return syncreq(...) / return list(syncreq(...)) *)
Inductive mroute := MSync (h : string) (args : list marg) (w : mwrap).

(* BaseNetref's own special methods that are a single syncreq *)
Definition base_methods : list (string * mroute) :=
  [("__dir__", MSync "HANDLE_DIR" [] WList);
   ("__hash__", MSync "HANDLE_HASH" [] WNone);
   ("__cmp__", MSync "HANDLE_CMP" [MParam 0; MConst "__cmp__"] WNone);
   ("__eq__", MSync "HANDLE_CMP" [MParam 0; MConst "__eq__"] WNone);
   ("__ne__", MSync "HANDLE_CMP" [MParam 0; MConst "__ne__"] WNone);
   ("__lt__", MSync "HANDLE_CMP" [MParam 0; MConst "__lt__"] WNone);
   ("__gt__", MSync "HANDLE_CMP" [MParam 0; MConst "__gt__"] WNone);
   ("__le__", MSync "HANDLE_CMP" [MParam 0; MConst "__le__"] WNone);
   ("__ge__", MSync "HANDLE_CMP" [MParam 0; MConst "__ge__"] WNone);
   ("__repr__", MSync "HANDLE_REPR" [] WNone);
   ("__str__", MSync "HANDLE_STR" [] WNone);
   ("__exit__", MSync "HANDLE_CTXEXIT" [MParam 0] WNone)].

(* leaves of the attribute methods' bodies *)
Inductive aroute :=
| ARObject                               (* object.__getattribute__/__setattr__/__delattr__(self, name, ...): the proxy's own attribute *)
| ARClass                                (* the __class__ block: local class descriptor, else self.__getattr__("__class__") *)
| ARGetattr (n : string)                 (* return self.__getattr__(n) *)
| ARRaise                                (* raise AttributeError() *)
| ARSync (h : string) (args : list marg). (* syncreq(self, consts.h, ...): parameter 0 is name, parameter 1 is value *)

Definition getattribute_route (name : string) : aroute :=
  if smem name local_attrs then
    if String.eqb name "__class__" then ARClass
    else if String.eqb name "__doc__" then ARGetattr "__doc__"
    else if smem name deleted_attrs then ARRaise
    else ARObject
  else if String.eqb name "__call__" then ARObject
  else if String.eqb name "__array__" then ARObject
  else ARSync "HANDLE_GETATTR" [MParam 0].
Definition getattr_route (F : facts) (name : string) : aroute := (* __getattr__: Python's fallback after AttributeError *)
  if smem name deleted_attrs then ARRaise
  else if negb (f_getattr_repeats F) && negb (smem name local_attrs) then ARRaise
  else ARSync "HANDLE_GETATTR" [MParam 0].
Definition delattr_route (name : string) : aroute :=
  if smem name local_attrs then ARObject else ARSync "HANDLE_DELATTR" [MParam 0].
Definition setattr_route (name : string) : aroute :=
  if smem name local_attrs then ARObject else ARSync "HANDLE_SETATTR" [MParam 0; MParam 1].

(* _make_method: the four shapes *)
Inductive made :=
| MkSync (h : string) (args : list marg)  (* def method(_self, *args, **kwargs): kwargs = tuple(kwargs.items()); return syncreq(_self, h, ...) *)
| MkOldSlice                              (* __getslice__/__setslice__/__delslice__: HANDLE_OLDSLICING *)
| MkPickle.                               (* __array__: pickle.loads(syncreq(self, HANDLE_PICKLE, -1)) *)
Definition slicers : list string := ["__getslice__"; "__delslice__"; "__setslice__"].
Definition MName : marg := MParam 0.      (* in MkSync of the generic shape: the method's own name *)
Definition make_method (name : string) : made :=
  if String.eqb name "__call__" then MkSync "HANDLE_CALL" [MArgs; MKwItems]
  else if smem name slicers then MkOldSlice
  else if String.eqb name "__array__" then MkPickle
  else MkSync "HANDLE_CALLATTR" [MConst name; MArgs; MKwItems].
(* class_factory: `if name not in LOCAL_ATTRS: ns[name] = _make_method(name, doc)` *)
Definition class_factory_skips_local : bool := true.
Definition synthesized (ms : list string) (d : string) : bool :=
  smem d ms && (if class_factory_skips_local then negb (smem d local_attrs) else true).

(* the types whose proxy class is generated once, at import time, from the class object itself (so that the methods of its
   metaclass `type` are synthesized too) and shared by class proxies and instance proxies alike -- as written in _builtin_types *)
Definition builtin_cached_types : list string :=
  ["type"; "object"; "bool"; "complex"; "dict"; "float"; "int"; "list"; "slice"; "str"; "tuple"; "set";
   "frozenset"; "BaseException"; "Exception"; "type(None)"; "types.BuiltinFunctionType"; "types.GeneratorType";
   "types.MethodType"; "types.CodeType"; "types.FrameType"; "types.TracebackType";
   "types.ModuleType"; "types.FunctionType";
   "type(int.__add__)"; "type(1 .__add__)"; "type(iter([]))"; "type(iter(()))"; "type(iter(set()))";
   "bytes"; "bytearray"; "type(iter(range(10)))"; "memoryview"].

(* ---- operations and what goes on the wire ---- *)

(* an argument as it travels: [A] is what stands for an operand of the operation *)
Inductive warg (A : Type) :=
| WStr (s : string)                       (* a text constant chosen by the netref method *)
| WOp (a : A)                             (* an operand of the operation, as the caller gave it *)
| WTuple (l : list A)                     (* the *args tuple *)
| WKw (l : list (string * A)).            (* tuple(kwargs.items()) *)
Arguments WStr {A}. Arguments WOp {A}. Arguments WTuple {A}. Arguments WKw {A}.
Definition wmap {A B} (f : A -> B) (w : warg A) : warg B :=
  match w with
  | WStr s => WStr s | WOp a => WOp (f a) | WTuple l => WTuple (map f l)
  | WKw l => WKw (map (fun p => (fst p, f (snd p))) l)
  end.
Record request (A : Type) := { rq_handler : string; rq_args : list (warg A) }.   (* the proxy itself is always the first argument *)
Arguments rq_handler {A}. Arguments rq_args {A}.
Definition rqmap {A B} (f : A -> B) (r : request A) : request B :=
  {| rq_handler := rq_handler r; rq_args := map (wmap f) (rq_args r) |}.

(* an operation as the interpreter applies it to an object x of type T, operands numbered from 0 *)
Inductive op :=
| OGetAttr (n : string)                              (* x.n *)
| OSetAttr (n : string)                              (* x.n = a0 *)
| ODelAttr (n : string)                              (* del x.n *)
| OSpecial (d : string) (nargs : nat) (kw : list string)
      (* T.d(x, a0 .. a(nargs-1), kw1 = a(nargs), ...): every operator, len/iter/next/bool/hash/repr/str/dir, indexing,
         calling (d = __call__), comparison, __enter__/__exit__ reach the object this way (Python data model) *)
| OFetch.                                            (* buffiter's own request for the next batch of a0 items *)

Definition positional (nargs : nat) : list nat := seq 0 nargs.
Fixpoint keyworded (from : nat) (kw : list string) : list (string * nat) :=
  match kw with [] => [] | k :: r => (k, from) :: keyworded (S from) r end.

(* instantiate a method body's syncreq arguments for a call with [nargs] positional and [kw] keyword operands;
   parameters (name, value, other, exc ...) are positional operands, except that attribute methods receive the name first *)
Definition inst_method (nargs : nat) (kw : list string) (a : marg) : warg nat :=
  match a with
  | MParam i => WOp i
  | MConst s => WStr s
  | MArgs => WTuple (positional nargs)
  | MKwItems => WKw (keyworded nargs kw)
  end.
Definition inst_attr (name : string) (a : marg) : warg nat :=
  match a with
  | MParam 0 => WStr name
  | MParam (S i) => WOp i
  | MConst s => WStr s
  | MArgs => WTuple [] | MKwItems => WKw []
  end.

Inductive routed :=
| RSend (r : request nat) (w : mwrap)     (* one synchronous request *)
| RLocal                                  (* answered by the proxy object itself: nothing is sent *)
| RRaiseAttr                              (* AttributeError raised by the proxy *)
| RNoMethod                               (* the netref class has no such method: the interpreter's own TypeError/fallback *)
| RUnmodelled.                            (* old-style slicing, pickling: outside the property *)

Definition of_aroute (name : string) (r : aroute) : routed :=
  match r with
  | ARSync h args => RSend {| rq_handler := h; rq_args := map (inst_attr name) args |} WNone
  | ARObject => RLocal
  | ARClass => RLocal
  | ARGetattr n => RSend {| rq_handler := "HANDLE_GETATTR"; rq_args := [WStr n] |} WNone   (* __getattr__(n), n not deleted *)
  | ARRaise => RRaiseAttr
  end.

(* which object's method the interpreter finds for T.d on a netref class with synthesized methods [ms]:
   the class's own namespace first, then BaseNetref *)
Definition route (ms : list string) (o : op) : routed :=
  match o with
  | OGetAttr n => of_aroute n (getattribute_route n)
  | OSetAttr n => of_aroute n (setattr_route n)
  | ODelAttr n => of_aroute n (delattr_route n)
  | OSpecial d nargs kw =>
      if synthesized ms d then
        match make_method d with
        | MkSync h args => RSend {| rq_handler := h; rq_args := map (inst_method nargs kw) args |} WNone
        | _ => RUnmodelled
        end
      else match slookup base_methods d with
           | Some (MSync h args w) => RSend {| rq_handler := h; rq_args := map (inst_method nargs kw) args |} w
           | None => RNoMethod
           end
  | OFetch => RSend {| rq_handler := "HANDLE_BUFFITER"; rq_args := [WOp 0] |} WNone
  end.
(* Python's fallback when __getattribute__ raised AttributeError: __getattr__ *)
Definition fallback (F : facts) (o : op) : option (request nat) :=
  match o with
  | OGetAttr n => match getattribute_route n, getattr_route F n with
                  | ARSync _ _, ARSync h args => Some {| rq_handler := h; rq_args := map (inst_attr n) args |}
                  | _, _ => None
                  end
  | _ => None
  end.

(* ---- class queries: p.__class__, isinstance(p, C), isinstance(x, p) ---- *)
(* p.__class__ (and through it isinstance(p, C), issubclass(p.__class__, C)): class_factory puts a class descriptor into the proxy's
   class when it finds a class of the target's module-qualified name on the caller's side (netref._normalized_builtin_types,
   then sys.modules); without one the class is read from the target like any attribute *)
Inductive class_answer :=
| CACallersClassOfThatName                 (* the descriptor: the class (for a class proxy: its metaclass) found by name on the caller's side *)
| CAAsk (r : request nat).                 (* self.__getattr__("__class__") *)
Definition class_query_route (resolved : bool) : class_answer :=
  if resolved then CACallersClassOfThatName else CAAsk {| rq_handler := "HANDLE_GETATTR"; rq_args := [WStr "__class__"] |}.
(* isinstance(other, p): BaseNetref.__instancecheck__ on the proxy p *)
Inductive icroute :=
| ICRaiseTypeError                         (* p is not the proxy of a class *)
| ICFalse | ICTrue                         (* other is a proxy whose class id is p's: the class itself / an instance of exactly that class *)
| ICSync (h : string)                      (* ask the owner: HANDLE_INSTANCECHECK (other is a proxy of another class),
                                              HANDLE_CALLATTR "__instancecheck__" (other is the caller's, the class unknown to the caller) *)
| ICLocalIsinstance                        (* isinstance(other, <the caller's class of that name>) *)
| ICAttributeError.                        (* type(self).__dict__['__class__'] is None: 'NoneType' object has no attribute 'instance' *)
Definition instancecheck_route (asks_owner resolved other_is_proxy self_is_class same_class_id other_is_class : bool) : icroute :=
  if other_is_proxy then
    (if negb self_is_class then ICRaiseTypeError
     else if same_class_id then (if other_is_class then ICFalse else ICTrue)
     else ICSync "HANDLE_INSTANCECHECK")
  else if self_is_class then
    (if negb resolved then (if asks_owner then ICSync "HANDLE_CALLATTR" else ICAttributeError) else ICLocalIsinstance)
  else ICRaiseTypeError.

(* ================================================================== 2. denotation (rpyc/core/protocol.py) *)

(* the handler bodies, as far as the property is concerned *)
Inductive hbody :=
| HBuiltin (f : string)                          (* return f(obj) *)
| HTupleDir                                      (* return tuple(dir(obj)) *)
| HAccess (overrider perm dflt : string) (nvals : nat)
      (* return self._access_attr(obj, name, (v1..vn), overrider, perm, dflt) *)
| HCmpType (overrider perm dflt : string) (reflects : bool)
                                                 (* return [self._reflect(obj, op, (other,),] self._access_attr(type(obj), op, (), ...)(obj, other) [)] *)
| HCallObj                                       (* return obj( *args, **dict(kwargs)) *)
| HGetThenCall (reflects : bool)                 (* res = self._handle_call(self._handle_getattr(obj, name), args, kwargs)
                                                    [then, without kwargs, self._reflect(obj, name, args, res)] *)
| HCtxExit (delivers : bool)                     (* if exc: <raise it to get exc_info> ; return self._handle_getattr(obj, "__exit__")(exc, typ, tb) *)
| HIslice.                                       (* return tuple(itertools.islice(obj, count)) *)

(* f_ctxexit_delivers: on the pinned tree the netref passes the class as a reference to the caller's object and the handler
   `raise`s that proxy: TypeError *)
Definition handler_bodies (F : facts) : list (string * hbody) :=
  [("HANDLE_REPR", HBuiltin "repr"); ("HANDLE_STR", HBuiltin "str"); ("HANDLE_HASH", HBuiltin "hash");
   ("HANDLE_DIR", HTupleDir);
   ("HANDLE_GETATTR", HAccess "_rpyc_getattr" "allow_getattr" "getattr" 0);
   ("HANDLE_DELATTR", HAccess "_rpyc_delattr" "allow_delattr" "delattr" 0);
   ("HANDLE_SETATTR", HAccess "_rpyc_setattr" "allow_setattr" "setattr" 1);
   ("HANDLE_CMP", HCmpType "_rpyc_getattr" "allow_getattr" "getattr" (f_reflects F));
   ("HANDLE_CALL", HCallObj); ("HANDLE_CALLATTR", HGetThenCall (f_reflects F));
   ("HANDLE_CTXEXIT", HCtxExit (f_ctxexit_delivers F)); ("HANDLE_BUFFITER", HIslice)].

(* what the target's __exit__ is told *)
Inductive told (A : Type) :=
| TNothing (a : A)        (* the (false) operand itself, then None, None: no exception *)
| TClass (a : A)          (* the exception a *)
| TTypeError.             (* a TypeError made on the target's side *)
Arguments TNothing {A}. Arguments TClass {A}. Arguments TTypeError {A}.

(* what is applied to the target; [A] stands for operands *)
Inductive act (A : Type) :=
| AGetAttr (n : string)                                          (* getattr(obj, n) *)
| ASetAttr (n : string) (v : A)                                  (* setattr(obj, n, v) *)
| ADelAttr (n : string)                                          (* delattr(obj, n) *)
| ACallAttr (n : string) (args : list A) (kw : list (string * A)) (* getattr(obj, n)( *args, **kw) *)
| ACall (args : list A) (kw : list (string * A))                 (* obj( *args, **kw) *)
| ATypeCall (d : string) (other : A)                             (* getattr(type(obj), d)(obj, other) *)
| ABuiltin (f : string)                                          (* repr(obj) / str(obj) / hash(obj) *)
| ADir                                                           (* the names dir(obj) lists *)
| AExit (t : told A)                                             (* getattr(obj, "__exit__")(typ, val, tb) *)
| AIslice (count : A)                                            (* tuple(itertools.islice(obj, count)) *)
| AReflected (rd : string) (a : A).                              (* getattr(type(a), rd)(a, obj): the operand's reflected method, given the target *)
Arguments AGetAttr {A}. Arguments ASetAttr {A}. Arguments ADelAttr {A}. Arguments ACallAttr {A}. Arguments ACall {A}.
Arguments ATypeCall {A}. Arguments ABuiltin {A}. Arguments ADir {A}. Arguments AExit {A}. Arguments AIslice {A}. Arguments AReflected {A}.
Definition kwmap {A B} (f : A -> B) (kw : list (string * A)) : list (string * B) := map (fun p => (fst p, f (snd p))) kw.
Definition tmap {A B} (f : A -> B) (t : told A) : told B :=
  match t with TNothing a => TNothing (f a) | TClass a => TClass (f a) | TTypeError => TTypeError end.
Definition amap {A B} (f : A -> B) (a : act A) : act B :=
  match a with
  | AGetAttr n => AGetAttr n | ASetAttr n v => ASetAttr n (f v) | ADelAttr n => ADelAttr n
  | ACallAttr n args kw => ACallAttr n (map f args) (kwmap f kw)
  | ACall args kw => ACall (map f args) (kwmap f kw)
  | ATypeCall d o => ATypeCall d (f o) | ABuiltin g => ABuiltin g | ADir => ADir
  | AExit t => AExit (tmap f t) | AIslice c => AIslice (f c) | AReflected rd a => AReflected rd (f a)
  end.

Definition perm_of (p : string) : option permkey :=
  if String.eqb p "allow_getattr" then Some PGet else if String.eqb p "allow_setattr" then Some PSet
  else if String.eqb p "allow_delattr" then Some PDel else None.
Definition access_ok (overrider perm dflt : string) : option permkey :=
  match perm_of perm with
  | Some PGet => if String.eqb overrider "_rpyc_getattr" && String.eqb dflt "getattr" then Some PGet else None
  | Some PSet => if String.eqb overrider "_rpyc_setattr" && String.eqb dflt "setattr" then Some PSet else None
  | Some PDel => if String.eqb overrider "_rpyc_delattr" && String.eqb dflt "delattr" then Some PDel else None
  | None => None
  end.

(* Python's binary-operator protocol (data model): when type(x).d(x, a) returns NotImplemented the interpreter calls
   type(a).rd(a, x) with rd the reflected name; for comparisons the reflected name is the mirrored comparison *)
Definition reflected_names : list (string * string) :=
  [("__add__", "__radd__"); ("__sub__", "__rsub__"); ("__mul__", "__rmul__"); ("__matmul__", "__rmatmul__"); ("__truediv__", "__rtruediv__");
   ("__floordiv__", "__rfloordiv__"); ("__mod__", "__rmod__"); ("__divmod__", "__rdivmod__"); ("__pow__", "__rpow__");
   ("__lshift__", "__rlshift__"); ("__rshift__", "__rrshift__"); ("__and__", "__rand__"); ("__xor__", "__rxor__"); ("__or__", "__ror__");
   ("__radd__", "__add__"); ("__rsub__", "__sub__"); ("__rmul__", "__mul__"); ("__rmatmul__", "__matmul__"); ("__rtruediv__", "__truediv__");
   ("__rfloordiv__", "__floordiv__"); ("__rmod__", "__mod__"); ("__rdivmod__", "__divmod__"); ("__rpow__", "__pow__");
   ("__rlshift__", "__lshift__"); ("__rrshift__", "__rshift__"); ("__rand__", "__and__"); ("__rxor__", "__xor__"); ("__ror__", "__or__");
   ("__eq__", "__eq__"); ("__ne__", "__ne__"); ("__lt__", "__gt__"); ("__gt__", "__lt__"); ("__le__", "__ge__"); ("__ge__", "__le__")].
Definition reflected_of (d : string) : option string := slookup reflected_names d.
(* the table the owner uses (rpyc/core/protocol.py _REFLECTED on a tree that has it) *)
Definition reflect_table (F : facts) : list (string * string) := if f_reflects F then reflected_names else [].

(* the action of a handler body on the unpacked arguments, the (permission, name) pairs _check_attr is asked about, and what
   the owner does when the action's result is NotImplemented (sv_reflect = Some (rd, a): apply type(a).rd(a, obj)).
   [truthy] is Python's bool() of an operand (only `if exc:` in _handle_ctxexit looks); [byval]: did the operand come by value? *)
Record served (A : Type) := { sv_act : act A; sv_checks : list (permkey * string); sv_reflect : option (string * A) }.
Arguments sv_act {A}. Arguments sv_checks {A}. Arguments sv_reflect {A}.
Definition reflect_for {A} (byval : A -> bool) (reflects : bool) (name : string) (args : list A) (nokw : bool) : option (string * A) :=
  match args, reflected_of name with
  | [x], Some rd => if reflects && nokw && byval x then Some (rd, x) else None
  | _, _ => None
  end.
Definition denote {A} (truthy byval : A -> bool) (hb : hbody) (args : list (warg A)) : result (served A) :=
  match hb, args with
  | HBuiltin f, [] => Ok {| sv_act := ABuiltin f; sv_checks := []; sv_reflect := None |}
  | HTupleDir, [] => Ok {| sv_act := ADir; sv_checks := []; sv_reflect := None |}
  | HAccess o p d 0, [WStr n] =>
      match access_ok o p d with
      | Some PGet => Ok {| sv_act := AGetAttr n; sv_checks := [(PGet, n)]; sv_reflect := None |}
      | Some PDel => Ok {| sv_act := ADelAttr n; sv_checks := [(PDel, n)]; sv_reflect := None |}
      | _ => Unmodelled
      end
  | HAccess o p d 1, [WStr n; WOp v] =>
      match access_ok o p d with
      | Some PSet => Ok {| sv_act := ASetAttr n v; sv_checks := [(PSet, n)]; sv_reflect := None |}
      | _ => Unmodelled
      end
  | HCmpType o p d r, [WOp other; WStr nm] =>
      match access_ok o p d with
      | Some PGet => Ok {| sv_act := ATypeCall nm other; sv_checks := [(PGet, nm)]; sv_reflect := reflect_for byval r nm [other] true |}
      | _ => Unmodelled
      end
  | HCallObj, [WTuple a; WKw k] => Ok {| sv_act := ACall a k; sv_checks := []; sv_reflect := None |}
  | HGetThenCall r, [WStr n; WTuple a; WKw k] =>
      Ok {| sv_act := ACallAttr n a k; sv_checks := [(PGet, n)];
            sv_reflect := reflect_for byval r n a (match k with [] => true | _ => false end) |}
  | HCtxExit delivers, [WOp e] =>
      Ok {| sv_act := AExit (if truthy e then (if delivers then TClass e else TTypeError) else TNothing e);
            sv_checks := [(PGet, "__exit__")]; sv_reflect := None |}
  | HIslice, [WOp c] => Ok {| sv_act := AIslice c; sv_checks := []; sv_reflect := None |}
  | _, _ => Raise TypeError                     (* wrong number/shape of arguments for the handler *)
  end.
Definition serve_request {A} (F : facts) (truthy byval : A -> bool) (r : request A) : result (served A) :=
  match slookup (handler_bodies F) (rq_handler r) with
  | Some hb => denote truthy byval hb (rq_args r)
  | None => Raise KeyError
  end.

Definition no_kw_list (kw : list string) : bool := match kw with [] => true | _ => false end.
(* ---- the specification: what Python applies to an object for an operation (data model; nothing derived from rpyc) ---- *)
Definition cmp_names : list string := ["__eq__"; "__ne__"; "__lt__"; "__gt__"; "__le__"; "__ge__"].
Definition direct {A} (truthy : A -> bool) (ops : nat -> A) (o : op) : act A :=
  match o with
  | OGetAttr n => AGetAttr n
  | OSetAttr n => ASetAttr n (ops 0%nat)
  | ODelAttr n => ADelAttr n
  | OSpecial d nargs kw =>
      if String.eqb d "__call__" then ACall (map ops (positional nargs)) (kwmap ops (keyworded nargs kw))
      else if smem d cmp_names then ATypeCall d (ops 0%nat)
      else if String.eqb d "__repr__" then ABuiltin "repr"
      else if String.eqb d "__str__" then ABuiltin "str"
      else if String.eqb d "__hash__" then ABuiltin "hash"
      else if String.eqb d "__dir__" then ADir
      else if String.eqb d "__exit__" then AExit (if truthy (ops 0%nat) then TClass (ops 0%nat) else TNothing (ops 0%nat))
      else ACallAttr d (map ops (positional nargs)) (kwmap ops (keyworded nargs kw))
  | OFetch => AIslice (ops 0%nat)
  end.
(* what a tree with f_reflects lets the owner do after the operation's own method declined: for a one-operand operator whose
   operand came by value, the operand's reflected method against the target *)
Definition serve_reflect {A} (F : facts) (byval : A -> bool) (ops : nat -> A) (o : op) : option (string * A) :=
  match o with
  | OSpecial d nargs kw => reflect_for byval (f_reflects F) d (map ops (positional nargs)) (no_kw_list kw)
  | _ => None
  end.
Definition act_checks {A} (a : act A) : list (permkey * string) :=
  match a with
  | AGetAttr n => [(PGet, n)] | ASetAttr n _ => [(PSet, n)] | ADelAttr n => [(PDel, n)]
  | ACallAttr n _ _ => [(PGet, n)] | ATypeCall d _ => [(PGet, d)] | AExit _ => [(PGet, "__exit__")]
  | _ => []
  end.
Definition direct_checks (o : op) : list (permkey * string) := act_checks (direct (fun _ : nat => true) (fun i => i) o).
Definition no_kw (kw : list string) : bool := match kw with [] => true | _ => false end.
(* arity the operation must have for its special method (comparisons take one operand, __exit__ three, ...), and
   the special methods outside the property (Python 2 leftovers, pickling) *)
Definition well_formed (o : op) : bool :=
  match o with
  | OSpecial d nargs kw =>
      if smem d cmp_names then Nat.eqb nargs 1 && no_kw kw
      else if smem d ["__repr__"; "__str__"; "__hash__"; "__dir__"] then Nat.eqb nargs 0 && no_kw kw
      else if String.eqb d "__exit__" then Nat.eqb nargs 3 && no_kw kw
      else negb (smem d (slicers ++ ["__array__"])%list)
  | _ => true
  end.
(* operations whose route leaves the proxy: everything except reads/writes of the proxy's own names and the special
   methods BaseNetref keeps for itself (construction, destruction, pickling, attribute plumbing) *)
Definition forwarded (o : op) : bool :=
  match o with
  | OGetAttr n => negb (smem n local_attrs) && negb (smem n ["__call__"; "__array__"]) || String.eqb n "__doc__"
  | OSetAttr n | ODelAttr n => negb (smem n local_attrs)
  | OSpecial d _ _ => negb (smem d local_attrs) || (match slookup base_methods d with Some _ => negb (String.eqb d "__cmp__") | None => false end)
  | OFetch => true
  end.
(* BaseNetref's own forwarding methods stand for slots every object has (object.__eq__ ... __repr__ ...); for __exit__ the
   operation is the call the with statement makes after it has found the method *)
Definition always_present (d : string) : bool :=
  match slookup base_methods d with Some _ => true | None => false end.
(* the clause of the property about context managers needs the class of the exception to arrive *)
Definition exit_ok (F : facts) (first_operand_true : bool) (o : op) : bool :=
  match o with
  | OSpecial d _ _ => if String.eqb d "__exit__" then f_ctxexit_delivers F || negb first_operand_true else true
  | _ => true
  end.

(* ---- configurations ---- *)
Fixpoint sprefix (p s : string) : bool :=
  match p with
  | EmptyString => true
  | String a p' => match s with EmptyString => false | String b s' => Ascii.eqb a b && sprefix p' s' end
  end.
Record pconf := { pc_sw : switches; pc_prefix : string; pc_safe : list string }.
Definition pc_nview (c : pconf) (n : string) : nview :=
  {| starts_prefix := sprefix (pc_prefix c) n; in_safe := smem n (pc_safe c); starts_underscore := sprefix "_" n |}.
Definition pc_pne (c : pconf) : bool := match pc_prefix c with EmptyString => false | _ => true end.
(* the decision of _check_attr (model/Attr.v, tied to the source by C06) *)
Definition check_one (c : pconf) (ov : oview) (pn : permkey * string) : result target :=
  check_attr (pc_sw c) (fst pn) (pc_pne c) (pc_nview c (snd pn)) ov.
(* an object that has the attribute and no exposed_ twin of it *)
Definition plain_ov : oview := {| has_name := true; has_twin := false |}.
Definition permitted (c : pconf) (checks : list (permkey * string)) : bool :=
  forallb (fun pn => match check_one c plain_ov pn with Ok Plain => true | _ => false end) checks.

Definition default_safe_attrs : list string :=
  ["__abs__"; "__add__"; "__and__"; "__bool__"; "__cmp__"; "__contains__"; "__delitem__"; "__delslice__"; "__div__"; "__divmod__"; "__doc__";
   "__eq__"; "__float__"; "__floordiv__"; "__ge__"; "__getitem__"; "__getslice__"; "__gt__"; "__hash__"; "__hex__"; "__iadd__"; "__iand__";
   "__idiv__"; "__ifloordiv__"; "__ilshift__"; "__imod__"; "__imul__"; "__index__"; "__int__"; "__invert__"; "__ior__"; "__ipow__"; "__irshift__";
   "__isub__"; "__iter__"; "__itruediv__"; "__ixor__"; "__le__"; "__len__"; "__long__"; "__lshift__"; "__lt__"; "__mod__"; "__mul__"; "__ne__";
   "__neg__"; "__new__"; "__nonzero__"; "__oct__"; "__or__"; "__pos__"; "__pow__"; "__radd__"; "__rand__"; "__rdiv__"; "__rdivmod__"; "__repr__";
   "__rfloordiv__"; "__rlshift__"; "__rmod__"; "__rmul__"; "__ror__"; "__rpow__"; "__rrshift__"; "__rshift__"; "__rsub__"; "__rtruediv__";
   "__rxor__"; "__setitem__"; "__setslice__"; "__str__"; "__sub__"; "__truediv__"; "__xor__"; "next"; "__length_hint__"; "__enter__";
   "__exit__"; "__next__"; "__format__"].
Definition sw_default : switches :=
  {| allow_safe := true; allow_exposed := true; allow_public := false; allow_all := false;
     allow_getattr := true; allow_setattr := false; allow_delattr := false |}.
Definition sw_public : switches :=
  {| allow_safe := true; allow_exposed := true; allow_public := true; allow_all := false;
     allow_getattr := true; allow_setattr := false; allow_delattr := false |}.
Definition sw_classic : switches :=     (* SlaveService.on_connect's update applied to the defaults *)
  {| allow_safe := true; allow_exposed := false; allow_public := false; allow_all := true;
     allow_getattr := true; allow_setattr := true; allow_delattr := true |}.
Definition conf_default : pconf := {| pc_sw := sw_default; pc_prefix := "exposed_"; pc_safe := default_safe_attrs |}.
Definition conf_public : pconf := {| pc_sw := sw_public; pc_prefix := "exposed_"; pc_safe := default_safe_attrs |}.
Definition conf_classic : pconf := {| pc_sw := sw_classic; pc_prefix := "exposed_"; pc_safe := default_safe_attrs |}.

(* special methods behind the operation kinds the property lists (operators except @, indexing, iteration, len/bool,
   conversions, comparison, hash/repr/str, context manager) *)
Definition listed_specials : list string :=
  ["__len__"; "__bool__"; "__iter__"; "__next__"; "__contains__"; "__getitem__"; "__setitem__"; "__delitem__";
   "__add__"; "__sub__"; "__mul__"; "__truediv__"; "__floordiv__"; "__mod__"; "__divmod__"; "__pow__"; "__lshift__"; "__rshift__";
   "__and__"; "__or__"; "__xor__";
   "__radd__"; "__rsub__"; "__rmul__"; "__rtruediv__"; "__rfloordiv__"; "__rmod__"; "__rdivmod__"; "__rpow__"; "__rlshift__"; "__rrshift__";
   "__rand__"; "__ror__"; "__rxor__";
   "__iadd__"; "__isub__"; "__imul__"; "__itruediv__"; "__ifloordiv__"; "__imod__"; "__ipow__"; "__ilshift__"; "__irshift__";
   "__iand__"; "__ior__"; "__ixor__";
   "__neg__"; "__pos__"; "__abs__"; "__invert__"; "__int__"; "__float__"; "__index__";
   "__eq__"; "__ne__"; "__lt__"; "__gt__"; "__le__"; "__ge__"; "__hash__"; "__repr__"; "__str__"; "__format__";
   "__enter__"; "__exit__"; "__length_hint__"].
(* special methods of the listed kinds that the default configuration refuses *)
Definition unlisted_specials : list string := ["__matmul__"; "__rmatmul__"; "__imatmul__"; "__reversed__"; "__round__"; "__missing__"].

(* the exception classes that derive from BaseException only (KeyboardInterrupt, SystemExit, GeneratorExit): in lib/Base's
   enumeration of classes OtherError stands for them *)
Definition base_only (e : exn) : bool := match e with OtherError => true | _ => false end.

(* ================================================================== 3. worlds *)

Fixpoint results_all {A} (l : list (result A)) : result (list A) :=
  match l with
  | [] => Ok []
  | r :: rest => do a <- r; do t <- results_all rest; Ok (a :: t)
  end.
Definition wtraverse {A B} (f : A -> result B) (w : warg A) : result (warg B) :=
  match w with
  | WStr s => Ok (WStr s)
  | WOp a => do b <- f a; Ok (WOp b)
  | WTuple l => do l' <- results_all (map f l); Ok (WTuple l')
  | WKw l => do l' <- results_all (map (fun p => do b <- f (snd p); Ok (fst p, b)) l); Ok (WKw l')
  end.
Definition rqtraverse {A B} (f : A -> result B) (r : request A) : result (request B) :=
  do args <- results_all (map (wtraverse f) (rq_args r)); Ok {| rq_handler := rq_handler r; rq_args := args |}.

Section World.
  Variable imm : Type.                    (* immutable values: cross by value (C03/C04) *)
  Variable truthy_imm : imm -> bool.      (* bool(v) *)
  Variable is_ni : imm -> bool.           (* v is NotImplemented *)
  Variable imm_bool : bool -> imm.        (* True / False *)
  Variable heap : Type.                   (* the state of all objects on the target's side *)
  Definition oid := nat.
  Inductive val := VImm (v : imm) | VRef (o : oid) | VExc (e : exn).   (* a value / an object on the target's side / an exception class *)
  Definition truthy (v : val) : bool := match v with VImm x => truthy_imm x | _ => true end.
  Definition byval (v : val) : bool := match v with VImm _ => true | _ => false end.
  Definition res_ni (r : result val) : bool := match r with Ok (VImm v) => is_ni v | _ => false end.
  (* Python: result (a value, a reference, or the class of the exception raised) and effect of an action on object o *)
  Variable apply : act val -> heap -> oid -> result val * heap.
  Variable methods : oid -> list string.  (* the callables get_methods() finds on type(o) *)
  (* the class of the exception the interpreter raises itself when type(x) has no slot for the operation (TypeError for
     len(); where it falls back to another protocol -- iter(), in, bool() -- that protocol's operations are steps of their
     own): the same for a target and for a proxy whose class lacks the method too; nothing is sent *)
  Variable no_method : op -> exn.

  (* an operand as written in a sequence: a value, one of the objects reached so far, or (for __exit__ only) the
     exception the interpreter passes *)
  Inductive operand := PImm (v : imm) | PSlot (i : nat) | PExc (e : exn).
  Record step := { st_target : nat; st_op : op; st_operands : list operand }.

  Definition has_method (o : oid) (d : string) : bool := always_present d || smem d (methods o).
  Definition finds_slot (o : oid) (p : op) : bool :=
    match p with OSpecial d _ _ => has_method o d | _ => true end.
  Fixpoint all_some {A} (l : list (option A)) : option (list A) :=
    match l with
    | [] => Some []
    | Some a :: r => option_map (cons a) (all_some r)
    | None :: _ => None
    end.
  Definition nth_val (vs : list val) (i : nat) : val := nth i vs (VExc OtherError).
  Definition has_oid (o : oid) (l : list oid) : bool := existsb (Nat.eqb o) l.
  Definition push_ref (slots : list oid) (r : result val) : list oid :=
    match r with Ok (VRef o) => if has_oid o slots then slots else (slots ++ [o])%list | _ => slots end.

  Definition first_truthy (l : list operand) : bool := match l with PImm v :: _ => truthy_imm v | _ => true end.
  (* an __exit__ call for an exception outside Exception: on a tree whose handler guards its `raise` with `except Exception`
     the exception escapes the handler -- the request fails with it and the target's __exit__ is never called *)
  Definition escapes_handler (F : facts) (s : step) : option exn :=
    match st_op s, st_operands s with
    | OSpecial d _ _, PExc e :: _ => if String.eqb d "__exit__" && base_only e && negb (f_ctxexit_base F) then Some e else None
    | _, _ => None
    end.
  Definition exit_class_ok (F : facts) (s : step) : bool := match escapes_handler F s with Some _ => false | None => true end.
  (* the operations the property speaks about, under configuration conf on a tree with facts F *)
  Definition step_ok (conf : pconf) (F : facts) (s : step) : bool :=
    forwarded (st_op s) && well_formed (st_op s) && permitted conf (direct_checks (st_op s))
    && exit_ok F (first_truthy (st_operands s)) (st_op s)
    && exit_class_ok F s.

  (* the rest of Python's binary-operator protocol, for a one-operand operator whose operand is a value: after the target's
     own method declined, the operand's reflected method is given the other operand; when that declines too, == and != fall
     back to identity (an object is not a value: False / True), everything else raises TypeError *)
  Definition give_up (d : string) : result val :=
    if String.eqb d "__eq__" then Ok (VImm (imm_bool false)) else if String.eqb d "__ne__" then Ok (VImm (imm_bool true))
    else Raise TypeError.
  Definition protocol_operand (p : op) (vs : list val) : option (string * string * val) :=
    match p with
    | OSpecial d nargs kw =>
        match reflect_for byval true d (map (nth_val vs) (positional nargs)) (no_kw_list kw) with
        | Some (rd, a) => Some (d, rd, a)
        | None => None
        end
    | _ => None
    end.

  (* ---- on the twin: directly ---- *)
  Record tworld := { tw_heap : heap; tw_slots : list oid }.
  Definition t_operand (slots : list oid) (a : operand) : option val :=
    match a with PImm v => Some (VImm v) | PSlot i => option_map VRef (nth_error slots i) | PExc e => Some (VExc e) end.
  Definition t_step (w : tworld) (s : step) : option (result val * tworld) :=
    match nth_error (tw_slots w) (st_target s), all_some (map (t_operand (tw_slots w)) (st_operands s)) with
    | Some o, Some vs =>
        let '(r, h') :=
          if finds_slot o (st_op s) then
            let '(r1, h1) := apply (direct truthy (nth_val vs) (st_op s)) (tw_heap w) o in
            match protocol_operand (st_op s) vs with
            | Some (d, rd, a) =>
                if res_ni r1 then                        (* the interpreter, holding the target itself, goes on *)
                  let '(r2, h2) := apply (AReflected rd a) h1 o in
                  (if res_ni r2 then give_up d else r2, h2)
                else (r1, h1)
            | None => (r1, h1)
            end
          else (Raise (no_method (st_op s)), tw_heap w) in
        Some (r, {| tw_heap := h'; tw_slots := push_ref (tw_slots w) r |})
    | _, _ => None
    end.

  (* ---- through proxies ---- *)
  Inductive boxed :=
  | BValue (v : imm)          (* LABEL_VALUE *)
  | BLocalRef (o : oid)       (* LABEL_LOCAL_REF: "your object o" (caller -> owner) *)
  | BRemoteRef (o : oid)      (* LABEL_REMOTE_REF: "my object o" (owner -> caller) *)
  | BCallersExc (e : exn).    (* LABEL_REMOTE_REF to the caller's exception class (caller -> owner) *)
  Record pworld := { pw_heap : heap;
                     pw_exported : list oid;     (* the owner's table of objects handed out (_local_objects) *)
                     pw_slots : list oid }.      (* the proxies the caller holds, by the object each stands for *)
  (* what the caller holds is a value or a proxy; as a [val] a proxy is the reference it stands for *)
  Definition box_c (v : val) : boxed :=                                                  (* caller's _box *)
    match v with VImm x => BValue x | VRef o => BLocalRef o | VExc e => BCallersExc e end.
  Definition unbox_s (ex : list oid) (b : boxed) : result val :=                         (* owner's _unbox *)
    match b with
    | BValue v => Ok (VImm v)
    | BLocalRef o => if has_oid o ex then Ok (VRef o) else Raise KeyError
    | BCallersExc e => Ok (VExc e)                                                       (* a proxy to the caller's class *)
    | BRemoteRef _ => Unmodelled
    end.
  Definition box_s (v : val) : boxed :=                                                  (* owner's _box *)
    match v with VImm x => BValue x | VRef o => BRemoteRef o | VExc e => BCallersExc e end.
  Definition unbox_c (b : boxed) : result val :=                                         (* caller's _unbox *)
    match b with BValue v => Ok (VImm v) | BRemoteRef o => Ok (VRef o) | BCallersExc e => Ok (VExc e) | BLocalRef _ => Unmodelled end.
  Definition export (ex : list oid) (r : result val) : list oid :=
    match r with Ok (VRef o) => if has_oid o ex then ex else (ex ++ [o])%list | _ => ex end.
  (* the reply: a boxed result (the owner records a reference it hands out) or the class of the exception (C09) *)
  Definition reply (r : result val) : result val :=
    match r with Ok v => unbox_c (box_s v) | Raise e => Raise e | OutOfFuel => OutOfFuel | Unmodelled => Unmodelled end.

  Variable conf : pconf.
  Variable F : facts.
  (* the owner's side of one request about its object o: unbox, find the handler, check permissions, apply *)
  Definition owner_serves (h : heap) (ex : list oid) (o : oid) (r : request val) : result val * heap :=
    match unbox_s ex (BLocalRef o), rqtraverse (unbox_s ex) (rqmap box_c r) with
    | Ok _, Ok r' =>
        match serve_request F truthy byval r' with
        | Ok sv => if permitted conf (sv_checks sv) then
                     let '(r1, h1) := apply (sv_act sv) h o in
                     match sv_reflect sv with
                     | Some (rd, a) => if res_ni r1 then apply (AReflected rd a) h1 o else (r1, h1)
                     | None => (r1, h1)
                     end
                   else (Raise AttributeError, h)
        | Raise e => (Raise e, h) | OutOfFuel => (OutOfFuel, h) | Unmodelled => (Unmodelled, h)
        end
    | Raise e, _ | Ok _, Raise e => (Raise e, h)
    | _, _ => (Unmodelled, h)
    end.
  Definition p_step (w : pworld) (s : step) : option (result val * pworld) :=
    match nth_error (pw_slots w) (st_target s), all_some (map (t_operand (pw_slots w)) (st_operands s)) with
    | Some o, Some vs =>
        match route (methods o) (st_op s) with
        | RSend rq _ =>
          match escapes_handler F s with
          | Some e => Some (Raise e, w)              (* nothing applied to the target *)
          | None =>
            let '(r1, h1) := owner_serves (pw_heap w) (pw_exported w) o (rqmap (nth_val vs) rq) in
            let '(r2, h2) := match r1, fallback F (st_op s) with
                             | Raise AttributeError, Some rq2 => owner_serves h1 (pw_exported w) o (rqmap (nth_val vs) rq2)
                             | _, _ => (r1, h1)
                             end in
            (* the caller's interpreter: a NotImplemented reply makes it try the operand's reflected method -- against the
               proxy, which no immutable value's method accepts -- and then give up *)
            let r := match protocol_operand (st_op s) vs with
                     | Some (d, _, _) => if res_ni (reply r2) then give_up d else reply r2
                     | None => reply r2
                     end in
            Some (r, {| pw_heap := h2; pw_exported := export (pw_exported w) r2; pw_slots := push_ref (pw_slots w) r |})
          end
        | RNoMethod =>
            Some (Raise (no_method (st_op s)), w)
        | _ => None            (* answered by the proxy itself / outside the property *)
        end
    | _, _ => None
    end.

  (* whole sequences: the list of results, and the final world *)
  Fixpoint t_run (w : tworld) (l : list step) : option (list (result val) * tworld) :=
    match l with
    | [] => Some ([], w)
    | s :: r => match t_step w s with
                | Some (x, w') => match t_run w' r with Some (xs, w'') => Some (x :: xs, w'') | None => None end
                | None => None
                end
    end.
  Fixpoint p_run (w : pworld) (l : list step) : option (list (result val) * pworld) :=
    match l with
    | [] => Some ([], w)
    | s :: r => match p_step w s with
                | Some (x, w') => match p_run w' r with Some (xs, w'') => Some (x :: xs, w'') | None => None end
                | None => None
                end
    end.
End World.

(* ================================================================== 4. buffered iteration (rpyc/utils/helpers.py) *)

Record buff_skel := { bk_factor_below_one_raises : bool;   (* if factor < 1: raise ValueError *)
                      bk_iter_first : bool;                (* it = iter(obj) *)
                      bk_init_is_chunk : bool;             (* count = chunk *)
                      bk_fetch_handler : string;           (* items = syncreq(it, HANDLE_BUFFITER, count) *)
                      bk_next_is_min_mul : bool;           (* count = min(count * factor, max_chunk) *)
                      bk_stop_on_empty : bool;             (* if not items: break *)
                      bk_yields_each : bool }.             (* for elem in items: yield elem *)
Definition buff_skel_model : buff_skel :=
  {| bk_factor_below_one_raises := true; bk_iter_first := true; bk_init_is_chunk := true; bk_fetch_handler := "HANDLE_BUFFITER";
     bk_next_is_min_mul := true; bk_stop_on_empty := true; bk_yields_each := true |}.

Section Buff.
  Variable A : Type.
  (* tuple(itertools.islice(it, count)) on an iterator with remaining items xs *)
  Definition islice (count : Z) (xs : list A) : result (list A * list A) :=
    if (count <? 0)%Z then Raise ValueError else Ok (firstn (Z.to_nat count) xs, skipn (Z.to_nat count) xs).
  Definition next_count (count factor maxc : Z) : Z := Z.min (count * factor) maxc.
  (* yielded items, what is left in the target's iterator, the counts requested *)
  Fixpoint buff_loop (fuel : nat) (count factor maxc : Z) (xs : list A) : result (list A * list A * list Z) :=
    match fuel with
    | O => OutOfFuel
    | S f =>
        do ir <- islice count xs;
        match fst ir with
        | [] => Ok ([], snd ir, [count])
        | _ => do t <- buff_loop f (next_count count factor maxc) factor maxc (snd ir);
               Ok ((fst ir ++ fst (fst t))%list, snd (fst t), count :: snd t)
        end
    end.
  Definition buffiter (chunk maxc factor : Z) (xs : list A) : result (list A * list A * list Z) :=
    if (factor <? 1)%Z then Raise ValueError else buff_loop (S (List.length xs)) chunk factor maxc xs.
  Fixpoint schedule (count factor maxc : Z) (cs : list Z) : Prop :=
    match cs with [] => True | c :: r => c = count /\ schedule (next_count count factor maxc) factor maxc r end.
End Buff.

(* ================================================================== harness interface *)

Definition sx_str (x : sx) : string := string_of_list_byte (sx_b x).
Definition str_sx (s : string) : sx := SB (list_byte_of_string s).
Definition sx_op (x : sx) : option op :=
  match x with
  | SL [t; n] => if is_tag "getattr" t then Some (OGetAttr (sx_str n)) else if is_tag "setattr" t then Some (OSetAttr (sx_str n))
                 else if is_tag "delattr" t then Some (ODelAttr (sx_str n)) else None
  | SL [t; d; n; kw] => if is_tag "special" t then Some (OSpecial (sx_str d) (sx_nat n) (map sx_str (sx_l kw))) else None
  | SL [t] => if is_tag "fetch" t then Some OFetch else None
  | _ => None
  end.
Definition warg_sx (w : warg nat) : sx :=
  match w with
  | WStr s => SL [SS "str"; str_sx s]
  | WOp i => SL [SS "op"; snat i]
  | WTuple l => SL [SS "tuple"; SL (map snat l)]
  | WKw l => SL [SS "kw"; SL (map (fun p => SL [str_sx (fst p); snat (snd p)]) l)]
  end.
Definition request_sx (r : request nat) : sx := SL [str_sx (rq_handler r); SL (map warg_sx (rq_args r))].
Definition routed_sx (r : routed) : sx :=
  match r with
  | RSend rq w => SL [SS "send"; request_sx rq; SS (match w with WNone => "plain" | WList => "list" end)]
  | RLocal => SL [SS "local"] | RRaiseAttr => SL [SS "raise"] | RNoMethod => SL [SS "nomethod"] | RUnmodelled => SL [SS "unmodelled"]
  end.
Definition perm_sx (p : permkey) : sx := SS (match p with PGet => "get" | PSet => "set" | PDel => "del" end).
Definition checks_sx (l : list (permkey * string)) : sx := SL (map (fun p => SL [perm_sx (fst p); str_sx (snd p)]) l).
Definition told_sx (t : told nat) : sx :=
  match t with TNothing a => SL [SS "nothing"; snat a] | TClass a => SL [SS "class"; snat a] | TTypeError => SL [SS "typeerror"] end.
Definition kw_sx (l : list (string * nat)) : sx := SL (map (fun p => SL [str_sx (fst p); snat (snd p)]) l).
Definition act_sx (a : act nat) : sx :=
  match a with
  | AGetAttr n => SL [SS "getattr"; str_sx n] | ASetAttr n v => SL [SS "setattr"; str_sx n; snat v] | ADelAttr n => SL [SS "delattr"; str_sx n]
  | ACallAttr n a k => SL [SS "callattr"; str_sx n; SL (map snat a); kw_sx k]
  | ACall a k => SL [SS "call"; SL (map snat a); kw_sx k]
  | ATypeCall d o => SL [SS "typecall"; str_sx d; snat o] | ABuiltin f => SL [SS "builtin"; str_sx f] | ADir => SL [SS "dir"]
  | AExit t => SL [SS "exit"; told_sx t] | AIslice c => SL [SS "islice"; snat c] | AReflected rd a => SL [SS "reflected"; str_sx rd; snat a]
  end.
Definition conf_of (z : Z) : pconf := if (z =? 0)%Z then conf_classic else if (z =? 1)%Z then conf_public else conf_default.
Definition served_sx (r : result (served nat)) : sx :=
  sx_result (fun sv => SL [act_sx (sv_act sv); checks_sx (sv_checks sv);
                           match sv_reflect sv with Some (rd, a) => SL [str_sx rd; snat a] | None => SL [] end]) r.

Definition run_proxyops (x : sx) : sx :=
  match x with
  | SL [cmd; a1; a2; a3; a4] =>
      if is_tag "op" cmd then
        (* [op; [configuration; getattr repeats; ctxexit delivers; reflects]; synthesized methods of the proxy's class; operation;
            [is operand 0 true?; did operand 0 come by value?]] *)
        match sx_op a3, sx_l a1, sx_l a4 with
        | Some p, [cf; f1; f2; f3; f4], [t0; b0] =>
            let c := conf_of (sx_z cf) in
            let F := {| f_getattr_repeats := sx_bool f1; f_ctxexit_delivers := sx_bool f2; f_ctxexit_base := sx_bool f4; f_reflects := sx_bool f3 |} in
            let truthy := fun _ : nat => sx_bool t0 in
            let byv := fun _ : nat => sx_bool b0 in
            let r := route (map sx_str (sx_l a2)) p in
            SL [routed_sx r;
                match fallback F p with Some rq => SL [request_sx rq] | None => SL [] end;
                match r with RSend rq _ => served_sx (serve_request F truthy byv rq) | _ => SL [] end;
                act_sx (direct truthy (fun i => i) p);
                sbool (forwarded p); sbool (well_formed p);
                sbool (permitted c (direct_checks p));
                match r with
                | RSend rq _ => match serve_request F truthy byv rq with Ok sv => sbool (permitted c (sv_checks sv)) | _ => SL [] end
                | _ => SL []
                end;
                match serve_reflect F byv (fun i => i) p with Some (rd, a) => SL [str_sx rd; snat a] | None => SL [] end]
        | _, _, _ => bad_input
        end
      else if is_tag "buffiter" cmd then
        (* [buffiter; chunk; max_chunk; factor; number of items]: yielded items, items left, counts requested *)
        sx_result (fun t => SL [SL (map snat (fst (fst t))); snat (List.length (snd (fst t))); SL (map SI (snd t))])
                  (buffiter nat (sx_z a1) (sx_z a2) (sx_z a3) (seq 0 (sx_nat a4)))
      else bad_input
  | _ => bad_input
  end.
