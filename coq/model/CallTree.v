(* Call trees over two peers: local big-step semantics and the two-endpoint message machine of rpyc
   (requests/replies with sequence numbers, re-entrant serve while waiting, an idle serving loop).
   A node runs on a peer, calls its children in order (each on either peer), may catch a child's failure - all of them, or
   those of the classes its except clause names -, and finally returns a value computed from its children's results or raises
   an exception of some class. An exception is the raiser's number with the linearised ancestry (MRO) of its class, as class
   numbers; a clause naming class b catches it iff b occurs in that ancestry (Python's isinstance test). What an exception looks
   like after crossing the connection is a parameter [xw] of the machine, one function per RECEIVING peer (the identity when classes
   are reproduced by that receiver; the generic stand-in's ancestry for classes the receiver is configured not to reproduce). *)
From V Require Import lib.Base lib.Sx.
From Coq Require Import Arith Relations String.

Inductive side := SA | SB.
Definition other (s:side) := match s with SA => SB | SB => SA end.
Definition side_eqb a b := match a, b with SA,SA | SB,SB => true | _,_ => false end.
Lemma side_eqb_refl s : side_eqb s s = true. Proof. now destruct s. Qed.
Lemma side_eqb_other s : side_eqb (other s) s = false. Proof. now destruct s. Qed.
Lemma side_eqb_other' s : side_eqb s (other s) = false. Proof. now destruct s. Qed.
Lemma side_eqb_eq a b : side_eqb a b = true -> a = b. Proof. destruct a, b; simpl; congruence. Qed.
Lemma side_neq_other a b : side_eqb a b = false -> a = other b. Proof. destruct a, b; simpl; congruence. Qed.
Lemma other_other s : other (other s) = s. Proof. now destruct s. Qed.

Definition exn := (nat * list nat)%type.
Inductive catch := CatchAll | CatchOnly (cs : list nat).      (* CatchOnly [] catches nothing *)
Definition catches (c : catch) (e : exn) : bool :=
  match c with CatchAll => true | CatchOnly cs => existsb (fun b => existsb (Nat.eqb b) (snd e)) cs end.
Inductive node := Node (s:side) (id:nat) (kids:list (node * catch)) (raises:list nat).     (* raises = [] : returns *)
Definition nside n := match n with Node s _ _ _ => s end.
Definition nid n := match n with Node _ i _ _ => i end.
Definition nkids n := match n with Node _ _ k _ => k end.
Definition nraises n := match n with Node _ _ _ r => r end.
Inductive outcome := Val (v:nat) | Exc (e:exn).
Definition finish (n:node) (acc:nat) : outcome := match nraises n with [] => Val (nid n + acc) | m => Exc (nid n, m) end.
Definition cross (xw : list nat -> list nat) (o : outcome) : outcome :=
  match o with Val v => Val v | Exc e => Exc (fst e, xw (snd e)) end.

(* ---------- local semantics: one process ---------- *)
Fixpoint eval (n:node) : list nat * outcome :=
  match n with Node s i kids r =>
    let '(l,o) := (fix go (ks:list (node*catch)) (acc:nat) : list nat * outcome :=
      match ks with
      | [] => ([], finish (Node s i kids r) acc)
      | (k,c)::ks' =>
          let '(l1,o) := eval k in
          match o with
          | Val v => let '(l2,o2) := go ks' (acc+v) in (l1++l2, o2)
          | Exc e => if catches c e then let '(l2,o2) := go ks' acc in (l1++l2, o2) else (l1, Exc e)
          end
      end) kids 0 in (i::l, o)
  end.
Fixpoint evalk (n:node) (ks:list (node*catch)) (acc:nat) : list nat * outcome :=
  match ks with
  | [] => ([], finish n acc)
  | (k,c)::ks' =>
      let '(l1,o) := eval k in
      match o with
      | Val v => let '(l2,o2) := evalk n ks' (acc+v) in (l1++l2, o2)
      | Exc e => if catches c e then let '(l2,o2) := evalk n ks' acc in (l1++l2, o2) else (l1, Exc e)
      end
  end.
Lemma eval_evalk n : eval n = let '(l,o) := evalk n (nkids n) 0 in (nid n :: l, o).
Proof.
  destruct n as [s i kids r]. cbn [eval nkids nid].
  match goal with |- (let '(l,o) := ?g kids 0 in _) = _ =>
    assert (H: forall ks acc, g ks acc = evalk (Node s i kids r) ks acc) end.
  { induction ks as [|[k c] ks IH]; intros acc; [reflexivity|]. cbn [evalk].
    destruct (eval k) as [l1 [v|e]]; [now rewrite IH| destruct (catches c e); [now rewrite IH|reflexivity]]. }
  now rewrite H.
Qed.

(* ---------- the same evaluation when a failure that passes from a callee on one peer to its caller on the other is seen
   through [xw] (what the connection does to an exception's class). A node other than the root runs on the peer it names; the
   root runs on A. With xw the identity this is [eval] (evalx_id). ---------- *)
Section Crossing.
Variable xw : side -> list nat -> list nat.        (* xw t: what the peer t, RECEIVING an exception, makes of its class (its own configuration) *)
Definition seen_by (s : side) (k : node) (o : outcome) : outcome := if side_eqb (nside k) s then o else cross (xw s) o.
Fixpoint evalx (n:node) : list nat * outcome :=
  match n with Node s i kids r =>
    let '(l,o) := (fix go (ks:list (node*catch)) (acc:nat) : list nat * outcome :=
      match ks with
      | [] => ([], finish (Node s i kids r) acc)
      | (k,c)::ks' =>
          let '(l1,o0) := evalx k in
          match seen_by s k o0 with
          | Val v => let '(l2,o2) := go ks' (acc+v) in (l1++l2, o2)
          | Exc e => if catches c e then let '(l2,o2) := go ks' acc in (l1++l2, o2) else (l1, Exc e)
          end
      end) kids 0 in (i::l, o)
  end.
Fixpoint evalkx (s:side) (n:node) (ks:list (node*catch)) (acc:nat) : list nat * outcome :=
  match ks with
  | [] => ([], finish n acc)
  | (k,c)::ks' =>
      let '(l1,o0) := evalx k in
      match seen_by s k o0 with
      | Val v => let '(l2,o2) := evalkx s n ks' (acc+v) in (l1++l2, o2)
      | Exc e => if catches c e then let '(l2,o2) := evalkx s n ks' acc in (l1++l2, o2) else (l1, Exc e)
      end
  end.
Lemma evalx_evalkx n : evalx n = let '(l,o) := evalkx (nside n) n (nkids n) 0 in (nid n :: l, o).
Proof.
  destruct n as [s i kids r]. cbn [evalx nkids nid nside].
  match goal with |- (let '(l,o) := ?g kids 0 in _) = _ =>
    assert (H: forall ks acc, g ks acc = evalkx s (Node s i kids r) ks acc) end.
  { induction ks as [|[k c] ks IH]; intros acc; [reflexivity|]. cbn [evalkx].
    destruct (evalx k) as [l1 o0]. destruct (seen_by s k o0) as [v|e]; [now rewrite IH| destruct (catches c e); [now rewrite IH|reflexivity]]. }
  now rewrite H.
Qed.
(* the whole program: the root runs on A whatever side it names *)
Definition evalroot (root : node) : list nat * outcome := let '(l,o) := evalkx SA root (nkids root) 0 in (nid root :: l, o).
End Crossing.

(* ---------- distributed machine: two endpoints, message queues, re-entrant serve ---------- *)
Inductive msg := Req (seq:nat) (n:node) | Rep (seq:nat) (o:outcome).
Inductive frame :=
| FRun (reply_to:option nat) (n:node) (rest:list (node*catch)) (acc:nat)
| FCall (reply_to:option nat) (n:node) (rest:list (node*catch)) (acc:nat) (c:catch)
| FRet (reply_to:option nat) (o:outcome)
| FWait (seq:nat).
Record peer := { stack : list frame; nseq : nat; inbox : list msg }.
Record sys := { peers : side -> peer; log : list nat; result : option outcome }.
Definition upd (f:side -> peer) (s:side) (p:peer) : side -> peer := fun t => if side_eqb t s then p else f t.
Definition mk (f:side->peer) l r := {| peers := f; log := l; result := r |}.
Definition send (f:side->peer) (to:side) (m:msg) :=
  upd f to {| stack := stack (f to); nseq := nseq (f to); inbox := inbox (f to) ++ [m] |}.

Section Machine.
Variable xw : side -> list nat -> list nat.

Inductive pstep (s:side) : sys -> sys -> Prop :=
| st_fin f l res r n acc K q ib :
    f s = {| stack := FRun r n [] acc :: K; nseq := q; inbox := ib |} ->
    pstep s (mk f l res) (mk (upd f s {| stack := FRet r (finish n acc) :: K; nseq := q; inbox := ib |}) l res)
| st_local f l res r n k c ks acc K q ib :
    f s = {| stack := FRun r n ((k,c)::ks) acc :: K; nseq := q; inbox := ib |} -> nside k = s ->
    pstep s (mk f l res)
            (mk (upd f s {| stack := FRun None k (nkids k) 0 :: FCall r n ks acc c :: K; nseq := q; inbox := ib |}) (l ++ [nid k]) res)
| st_remote f l res r n k c ks acc K q ib :
    f s = {| stack := FRun r n ((k,c)::ks) acc :: K; nseq := q; inbox := ib |} -> nside k = other s ->
    pstep s (mk f l res)
            (mk (send (upd f s {| stack := FWait q :: FCall r n ks acc c :: K; nseq := S q; inbox := ib |}) (other s) (Req q k)) l res)
| st_reply f l res q0 o K q ib :
    f s = {| stack := FWait q0 :: K; nseq := q; inbox := Rep q0 o :: ib |} ->
    pstep s (mk f l res) (mk (upd f s {| stack := FRet None o :: K; nseq := q; inbox := ib |}) l res)
| st_nested f l res q0 rq k K q ib :
    f s = {| stack := FWait q0 :: K; nseq := q; inbox := Req rq k :: ib |} ->
    pstep s (mk f l res)
            (mk (upd f s {| stack := FRun (Some rq) k (nkids k) 0 :: FWait q0 :: K; nseq := q; inbox := ib |}) (l ++ [nid k]) res)
| st_idle f l res rq k q ib :
    f s = {| stack := []; nseq := q; inbox := Req rq k :: ib |} ->
    pstep s (mk f l res)
            (mk (upd f s {| stack := [FRun (Some rq) k (nkids k) 0]; nseq := q; inbox := ib |}) (l ++ [nid k]) res)
| st_ret_remote f l res rq o K q ib :
    f s = {| stack := FRet (Some rq) o :: K; nseq := q; inbox := ib |} ->
    pstep s (mk f l res)
            (mk (send (upd f s {| stack := K; nseq := q; inbox := ib |}) (other s) (Rep rq (cross (xw (other s)) o))) l res)
| st_ret_val f l res v r n ks acc c K q ib :
    f s = {| stack := FRet None (Val v) :: FCall r n ks acc c :: K; nseq := q; inbox := ib |} ->
    pstep s (mk f l res) (mk (upd f s {| stack := FRun r n ks (acc+v) :: K; nseq := q; inbox := ib |}) l res)
| st_ret_caught f l res e r n ks acc c K q ib :
    f s = {| stack := FRet None (Exc e) :: FCall r n ks acc c :: K; nseq := q; inbox := ib |} -> catches c e = true ->
    pstep s (mk f l res) (mk (upd f s {| stack := FRun r n ks acc :: K; nseq := q; inbox := ib |}) l res)
| st_ret_uncaught f l res e r n ks acc c K q ib :
    f s = {| stack := FRet None (Exc e) :: FCall r n ks acc c :: K; nseq := q; inbox := ib |} -> catches c e = false ->
    pstep s (mk f l res) (mk (upd f s {| stack := FRet r (Exc e) :: K; nseq := q; inbox := ib |}) l res)
| st_root f l o q ib :
    f s = {| stack := [FRet None o]; nseq := q; inbox := ib |} ->
    pstep s (mk f l None) (mk (upd f s {| stack := []; nseq := q; inbox := ib |}) l (Some o)).

Definition step (y y':sys) := exists s, pstep s y y'.
Definition steps := clos_refl_trans sys step.

(* ---------- the same machine as a function (for determinism and for the extracted runner) ---------- *)
Definition pstep_fun (s : side) (y : sys) : option sys :=
  let f := peers y in let l := log y in let res := result y in
  let p := f s in let q := nseq p in let ib := inbox p in
  match stack p with
  | FRun r n [] acc :: K => Some (mk (upd f s {| stack := FRet r (finish n acc) :: K; nseq := q; inbox := ib |}) l res)
  | FRun r n ((k, c) :: ks) acc :: K =>
      if side_eqb (nside k) s
      then Some (mk (upd f s {| stack := FRun None k (nkids k) 0 :: FCall r n ks acc c :: K; nseq := q; inbox := ib |}) (l ++ [nid k]) res)
      else Some (mk (send (upd f s {| stack := FWait q :: FCall r n ks acc c :: K; nseq := S q; inbox := ib |}) (other s) (Req q k)) l res)
  | FWait q0 :: K =>
      match ib with
      | Rep q1 o :: ib' => if Nat.eqb q1 q0 then Some (mk (upd f s {| stack := FRet None o :: K; nseq := q; inbox := ib' |}) l res) else None
      | Req rq k :: ib' => Some (mk (upd f s {| stack := FRun (Some rq) k (nkids k) 0 :: FWait q0 :: K; nseq := q; inbox := ib' |}) (l ++ [nid k]) res)
      | [] => None
      end
  | [] =>
      match ib with
      | Req rq k :: ib' => Some (mk (upd f s {| stack := [FRun (Some rq) k (nkids k) 0]; nseq := q; inbox := ib' |}) (l ++ [nid k]) res)
      | _ => None
      end
  | FRet (Some rq) o :: K => Some (mk (send (upd f s {| stack := K; nseq := q; inbox := ib |}) (other s) (Rep rq (cross (xw (other s)) o))) l res)
  | FRet None o :: FCall r n ks acc c :: K =>
      match o with
      | Val v => Some (mk (upd f s {| stack := FRun r n ks (acc + v) :: K; nseq := q; inbox := ib |}) l res)
      | Exc e => if catches c e then Some (mk (upd f s {| stack := FRun r n ks acc :: K; nseq := q; inbox := ib |}) l res)
                 else Some (mk (upd f s {| stack := FRet r (Exc e) :: K; nseq := q; inbox := ib |}) l res)
      end
  | [FRet None o] =>
      match res with
      | None => Some (mk (upd f s {| stack := []; nseq := q; inbox := ib |}) l (Some o))
      | Some _ => None
      end
  | _ => None
  end.

End Machine.

Definition idle := {| stack := []; nseq := 0; inbox := [] |}.
Definition init (root : node) : sys :=
  mk (fun t => match t with SA => {| stack := [FRun None root (nkids root) 0]; nseq := 0; inbox := [] |} | SB => idle end)
     [nid root] None.

(* run with an A-first scheduler until nothing moves *)
Fixpoint exec (xw : side -> list nat -> list nat) (fuel : nat) (y : sys) : sys :=
  match fuel with
  | O => y
  | S f => match pstep_fun xw SA y with
           | Some y' => exec xw f y'
           | None => match pstep_fun xw SB y with Some y' => exec xw f y' | None => y end
           end
  end.

(* what crossing the connection does to an exception's class, as a table: classes listed are replaced by the ancestry given
   (the receiver's stand-in), all others are reproduced *)
Fixpoint xw_table (tbl : list (nat * list nat)) (m : list nat) : list nat :=
  match m with
  | [] => []
  | c :: _ => match tbl with
              | [] => m
              | (c', m') :: t => if Nat.eqb c c' then m' else xw_table t m
              end
  end.

(* ---- harness interface: a tree as nested lists [side; id; kids [[child; catch]...]; raises [class numbers]];
        catch = [1] (everything) or [0; [class numbers]]; table = [[class; [class numbers]]...] ---- *)
Definition catch_of_sx (x : sx) : catch :=
  match x with SL [SI 1] => CatchAll | SL [SI 0; SL cs] => CatchOnly (map sx_nat cs) | _ => CatchOnly [] end%Z.
Definition dummy := Node SA 0 [] [].
Fixpoint node_of_sx (fuel : nat) (x : sx) : node :=
  match fuel with
  | O => dummy
  | S f =>
    match x with
    | SL [sd; i; SL kids; SL r] =>
        Node (if sx_bool sd then SB else SA) (sx_nat i)
             (map (fun kc => match kc with SL [k; c] => (node_of_sx f k, catch_of_sx c) | _ => (dummy, CatchOnly []) end) kids)
             (map sx_nat r)
    | _ => dummy
    end
  end.
Definition table_of_sx (x : sx) : list (nat * list nat) :=
  match x with SL l => map (fun e => match e with SL [c; SL m] => (sx_nat c, map sx_nat m) | _ => (0, []) end) l | _ => [] end.
Definition sx_outcome (o : outcome) : sx :=
  match o with Val v => SL [SI 0; snat v] | Exc e => SL [SI 1; snat (fst e); SL (map snat (snd e))] end.
Definition run_calltree (x : sx) : sx :=
  match x with
  | SL (fuel :: depth :: t :: tbl :: more) =>       (* one table for both receivers, or [tblA; tblB] *)
      let root := node_of_sx (sx_nat depth) t in
      let '(ll, lo) := eval root in
      let ta := table_of_sx tbl in let tb := match more with tb0 :: _ => table_of_sx tb0 | [] => ta end in
      let y := exec (fun sd => xw_table (match sd with SA => ta | SB => tb end)) (sx_nat fuel) (init root) in
      SL [SL (map snat ll); sx_outcome lo; SL (map snat (log y));
          match result y with Some o => SL [sx_outcome o] | None => SL [] end;
          snat (List.length (stack (peers y SA)) + List.length (stack (peers y SB)) + List.length (inbox (peers y SA)) + List.length (inbox (peers y SB)))]
  | _ => bad_input
  end.
