(* C10 — reference counting of objects lent to the peer.
   Executable model of rpyc/lib/colls.py RefCountingColl, the by-reference parts of
   Connection._box/_unbox/_handle_del/_cleanup (rpyc/core/protocol.py) and
   BaseNetref.__init__/__del__ (rpyc/core/netref.py), for one owner connection A and one peer B
   joined by two FIFO message streams.  No proofs here.

   Objects are numbered k : nat.  The owner's table maps k to the count field of its slot
   ([obj, count]); the peer's weak proxy cache maps k to the ____refcount__ of the live proxy.
   The constants and the comparison used by the code are parameters (record rparams); the values
   found in the source tree are regenerated into gen/Gen_colls.v on every run.

   SCOPE.  The objects of this model are objects whose proxy class the peer already knows (builtin types:
   functions, methods, lists, dicts, sets, ...): unboxing a reference never needs a nested HANDLE_INSPECT
   exchange, one message is consumed per delivery and the peer has at most one live proxy per object.
   User-class instances (a nested exchange for every fresh proxy, possibly several live proxies of one
   object) are NOT modelled; the harness evaluates the property's statement on them directly.
   The model also assumes that an object's key (rpyc.lib.get_id_pack) does not change while it is lent;
   the operation [Morph] models such a change (it is not a [valid_op]). *)
From V Require Import lib.Base lib.Sx.
From Coq Require Import String.
Open Scope Z_scope.

(* ---- parameters read off the code ---- *)
Inductive rcmp := CLt | CLe | CGt | CGe | CEq | CNe.
Inductive delsrc := DRefcount | DDefault | DConst (z : Z).
Record rparams := {
  p_add_init : Z;          (* RefCountingColl.add: slot = [obj, <this>] when absent *)
  p_add_inc : Z;           (* RefCountingColl.add: slot[1] += <this> when present *)
  p_dec_cmp : rcmp;        (* RefCountingColl.decref: if slot[1] <cmp> count: del ... *)
  p_dec_default : Z;       (* _handle_del(self, obj, count=<this>) *)
  p_proxy_init : Z;        (* BaseNetref.__init__: self.____refcount__ = <this> *)
  p_unbox_inc : Z;         (* _unbox: proxy.____refcount__ += <this> when cached *)
  p_del_src : delsrc;      (* BaseNetref.__del__: which count is sent with HANDLE_DEL *)
  p_cleanup_clears : bool; (* _cleanup contains self._local_objects.clear() *)
  p_send_checks_closed : bool;  (* _async_request refuses (EOFError) before boxing once the channel is closed *)
  p_cleanup_guarded : bool;     (* in _cleanup the clear is reached even when the service's on_disconnect raises *)
  p_close_finally : bool;       (* in close() the _cleanup call sits in the `finally` of the try around hook and CLOSE *)
  p_failed_send_releases : bool; (* what _box registered is given back when boxing / encoding the message fails *)
  p_reply_checks_closed : bool  (* _dispatch_request refuses (EOFError) before boxing the result once the channel is closed *)
}.
(* the parameters the theorems are proved for; the three booleans are the facts found in the tree *)
Definition stdp (sc cg cf fr rc : bool) : rparams :=
  {| p_add_init := 0; p_add_inc := 1; p_dec_cmp := CLt; p_dec_default := 1; p_proxy_init := 1;
     p_unbox_inc := 1; p_del_src := DRefcount; p_cleanup_clears := true;
     p_send_checks_closed := sc; p_cleanup_guarded := cg; p_close_finally := cf;
     p_failed_send_releases := fr; p_reply_checks_closed := rc |}.
Definition std_params : rparams := stdp true true true true true.

Definition cmp_holds (c : rcmp) (a b : Z) : bool :=
  match c with
  | CLt => a <? b | CLe => a <=? b | CGt => b <? a | CGe => b <=? a
  | CEq => a =? b | CNe => negb (a =? b)
  end.

(* ---- RefCountingColl ---- *)
Definition upd {A} (f : nat -> A) (k : nat) (v : A) : nat -> A :=
  fun j => if Nat.eqb j k then v else f j.
Definition tbl := nat -> option Z.

Definition coll_add (P : rparams) (t : tbl) (k : nat) : tbl :=
  upd t k (match t k with None => Some (p_add_init P) | Some z => Some (z + p_add_inc P) end).
Definition coll_decref (P : rparams) (t : tbl) (k : nat) (n : Z) : result tbl :=
  match t k with
  | None => Raise KeyError
  | Some z => Ok (if cmp_holds (p_dec_cmp P) z n then upd t k None else upd t k (Some (z - n)))
  end.
Definition coll_getitem (t : tbl) (k : nat) : result unit :=
  match t k with None => Raise KeyError | Some _ => Ok tt end.
Definition coll_clear (t : tbl) : tbl := fun _ => None.

(* ---- messages in flight ---- *)
Inductive umode := UVal | URet | UBoom.   (* the callee returns a plain value / its first argument / raises *)
Inductive msg :=
| MCall (ks : list nat)                 (* A->B request keep(...): one REMOTE_REF per occurrence *)
| MCallRaise (ks : list nat)            (* A->B request whose callee at the peer raises after unboxing *)
| MReplyRef (r : option nat)            (* A->B reply: a plain value, or object r by reference *)
| MExc                                  (* exception reply (either direction) *)
| MDel (k : nat) (n : Z)                (* B->A HANDLE_DEL (LOCAL_REF k, count n) *)
| MDel0 (k : nat)                       (* B->A HANDLE_DEL without a count (handler default) *)
| MUse (c : nat) (args : list nat) (m : umode)
                                        (* B->A request through proxy c, proxies args passed back *)
| MReply.                               (* B->A reply carrying a plain value *)

Record st := {
  slot : tbl;                 (* A._local_objects._dict[k][1] *)
  appref : nat -> bool;       (* the owner application still references object k itself *)
  prox : nat -> option Z;     (* B._proxy_cache[k].____refcount__ (None: no live proxy) *)
  holds : nat -> nat;         (* strong references the peer application has to that proxy *)
  qab : list msg;             (* stream A -> B, head = next to be consumed *)
  qba : list msg;             (* stream B -> A *)
  closed : bool;
  errs : nat;                 (* KeyErrors raised at the owner while serving the peer *)
  tbo : list nat;             (* objects referenced by the frames of A._last_traceback *)
  pin : list nat;             (* proxies referenced by the frames of B._last_traceback *)
  morphed : nat -> bool       (* the object's key changed after it was lent *)
}.
Definition init : st :=
  {| slot := fun _ => None; appref := fun _ => true; prox := fun _ => None; holds := fun _ => O;
     qab := []; qba := []; closed := false; errs := O; tbo := []; pin := []; morphed := fun _ => false |}.

Definition set_slot (s : st) t := {| slot := t; appref := appref s; prox := prox s; holds := holds s; qab := qab s; qba := qba s; closed := closed s; errs := errs s; tbo := tbo s; pin := pin s; morphed := morphed s |}.
Definition set_qab (s : st) q := {| slot := slot s; appref := appref s; prox := prox s; holds := holds s; qab := q; qba := qba s; closed := closed s; errs := errs s; tbo := tbo s; pin := pin s; morphed := morphed s |}.
Definition set_qba (s : st) q := {| slot := slot s; appref := appref s; prox := prox s; holds := holds s; qab := qab s; qba := q; closed := closed s; errs := errs s; tbo := tbo s; pin := pin s; morphed := morphed s |}.
Definition set_peer (s : st) p h := {| slot := slot s; appref := appref s; prox := p; holds := h; qab := qab s; qba := qba s; closed := closed s; errs := errs s; tbo := tbo s; pin := pin s; morphed := morphed s |}.
Definition set_appref (s : st) a := {| slot := slot s; appref := a; prox := prox s; holds := holds s; qab := qab s; qba := qba s; closed := closed s; errs := errs s; tbo := tbo s; pin := pin s; morphed := morphed s |}.
Definition add_err (s : st) := {| slot := slot s; appref := appref s; prox := prox s; holds := holds s; qab := qab s; qba := qba s; closed := closed s; errs := S (errs s); tbo := tbo s; pin := pin s; morphed := morphed s |}.
Definition set_tbo (s : st) l := {| slot := slot s; appref := appref s; prox := prox s; holds := holds s; qab := qab s; qba := qba s; closed := closed s; errs := errs s; tbo := l; pin := pin s; morphed := morphed s |}.
Definition set_pin (s : st) l := {| slot := slot s; appref := appref s; prox := prox s; holds := holds s; qab := qab s; qba := qba s; closed := closed s; errs := errs s; tbo := tbo s; pin := l; morphed := morphed s |}.
Definition set_morphed (s : st) f := {| slot := slot s; appref := appref s; prox := prox s; holds := holds s; qab := qab s; qba := qba s; closed := closed s; errs := errs s; tbo := tbo s; pin := pin s; morphed := f |}.

Definition mem (k : nat) (l : list nat) : bool := existsb (Nat.eqb k) l.

(* ---- owner side ---- *)
(* _box of every occurrence: _local_objects.add *)
Definition box_all (P : rparams) (t : tbl) (ks : list nat) : tbl := fold_left (coll_add P) ks t.

Definition send (P : rparams) (boom : bool) (ks : list nat) (s : st) : st :=
  let ks' := filter (appref s) ks in
  set_qab (set_slot s (box_all P (slot s) ks')) (qab s ++ [if boom then MCallRaise ks' else MCall ks']).

(* all LOCAL_REF lookups of one request succeed? (_unbox: self._local_objects[value]) *)
Definition all_present (t : tbl) (ks : list nat) : bool :=
  forallb (fun k => match t k with Some _ => true | None => false end) ks.

Definition reply (s : st) (m : msg) : st := set_qab s (qab s ++ [m]).
(* a KeyError while serving: counted, answered with an exception; its traceback replaces the previous one
   and references no lent object (pins: the objects its frames do reference) *)
Definition fail_owner (s : st) (pins : list nat) : st := reply (set_tbo (add_err s) pins) MExc.

Definition serve_owner (P : rparams) (m : msg) (s : st) : st :=
  match m with
  | MDel k n =>
      match slot s k with
      | None => fail_owner s []
      | Some _ =>
          (* _handle_del recomputes the key from the object: get_id_pack(obj) *)
          if morphed s k then fail_owner s [k] else
          match coll_decref P (slot s) k n with
          | Ok t => reply (set_slot s t) (MReplyRef None)
          | _ => fail_owner s []
          end
      end
  | MDel0 k =>
      match slot s k with
      | None => fail_owner s []
      | Some _ =>
          if morphed s k then fail_owner s [k] else
          match coll_decref P (slot s) k (p_dec_default P) with
          | Ok t => reply (set_slot s t) (MReplyRef None)
          | _ => fail_owner s []
          end
      end
  | MUse c args md =>
      if all_present (slot s) (c :: args) then
        match md, args with
        | UBoom, _ => reply (set_tbo s (c :: args)) MExc        (* the callee raised: _last_traceback = tb *)
        | URet, r :: _ => reply (set_slot s (coll_add P (slot s) r)) (MReplyRef (Some r))
        | _, _ => reply s (MReplyRef None)
        end
      else fail_owner s []
  | _ => s
  end.

Definition deliver_ba (P : rparams) (s : st) : st :=
  match qba s with
  | [] => s
  | m :: q => serve_owner P m (set_qba s q)
  end.

(* ---- peer side ---- *)
(* _unbox of one REMOTE_REF: bump the cached live proxy or create one *)
Definition unbox_p (P : rparams) (p : nat -> option Z) (k : nat) : nat -> option Z :=
  upd p k (match p k with Some r => Some (r + p_unbox_inc P) | None => Some (p_proxy_init P) end).
(* ... and the result is kept by the peer application *)
Definition unbox1 (P : rparams) (ph : (nat -> option Z) * (nat -> nat)) (k : nat) :=
  let (p, h) := ph in (unbox_p P p k, upd h k (S (h k))).
Definition unbox_all (P : rparams) (s : st) (ks : list nat) : st :=
  let (p, h) := fold_left (unbox1 P) ks (prox s, holds s) in set_peer s p h.

(* the finalizer of proxy k runs: BaseNetref.__del__ *)
Definition del_msg (P : rparams) (k : nat) (r : Z) : msg :=
  match p_del_src P with DRefcount => MDel k r | DDefault => MDel0 k | DConst z => MDel k z end.
Definition finalize (P : rparams) (k : nat) (s : st) : st :=
  match prox s k with
  | Some r => set_qba (set_peer s (upd (prox s) k None) (upd (holds s) k O)) (qba s ++ [del_msg P k r])
  | None => set_peer s (prox s) (upd (holds s) k O)
  end.

(* the callee at the peer raised: B._last_traceback = tb.  The frames of the new traceback reference the
   proxies just unboxed; the exception is reported; the previous traceback is dropped and, once the cycle
   collector has run (frame -> local tb -> frame), the proxies only it kept alive are finalized *)
Definition stale (s : st) (ks : list nat) (j : nat) : bool := Nat.eqb (holds s j) O && negb (mem j ks).
Definition repin (P : rparams) (ks : list nat) (s : st) : st :=
  let s1 := set_pin (set_peer s (fold_left (unbox_p P) ks (prox s)) (holds s)) ks in
  let s2 := set_qba s1 (qba s1 ++ [MExc]) in
  fold_left (fun x j => finalize P j x) (filter (stale s ks) (pin s)) s2.

Definition serve_peer (P : rparams) (m : msg) (s : st) : st :=
  match m with
  | MCall ks => let s' := unbox_all P s ks in set_qba s' (qba s' ++ [MReply])
  | MCallRaise ks => repin P ks s
  | MReplyRef (Some k) => unbox_all P s [k]
  | _ => s
  end.

Definition deliver_ab (P : rparams) (s : st) : st :=
  match qab s with
  | [] => s
  | m :: q => serve_peer P m (set_qab s q)
  end.

(* the peer application lets go; a proxy that B._last_traceback still references stays alive *)
Definition release (P : rparams) (k : nat) (s : st) : st :=
  if mem k (pin s) then set_peer s (prox s) (upd (holds s) k O) else finalize P k s.
Definition drop_one (P : rparams) (k : nat) (s : st) : st :=
  match holds s k with
  | O => s
  | S O => release P k s
  | S h => set_peer s (prox s) (upd (holds s) k h)
  end.
Definition drop_all (P : rparams) (k : nat) (s : st) : st :=
  match holds s k with O => s | S _ => release P k s end.

Definition all_held (s : st) (ks : list nat) : bool :=
  forallb (fun k => negb (Nat.eqb (holds s k) O)) ks.
Definition use (c : nat) (args : list nat) (md : umode) (s : st) : st :=
  if all_held s (c :: args) then set_qba s (qba s ++ [MUse c args md]) else s.

(* forced delivery: the peer consumes everything sent so far, then the owner does *)
Definition sync (P : rparams) (s : st) : st :=
  let s1 := Nat.iter (List.length (qab s)) (deliver_ab P) s in
  Nat.iter (List.length (qba s1)) (deliver_ba P) s1.

(* ---- closing ---- *)
Inductive cfault :=
| FNone     (* nothing goes wrong while closing *)
| FHook     (* the application's before_closed hook raises (close_catchall off) *)
| FDisc.    (* the service's on_disconnect raises *)
(* does the closing connection still reach self._local_objects.clear() ? *)
Definition close_reaches_clear (P : rparams) (by_peer : bool) (f : cfault) : bool :=
  match f with
  | FNone => true
  | FHook => by_peer || p_close_finally P       (* the hook only runs in close(); a CLOSE request goes to _cleanup directly *)
  | FDisc => p_cleanup_guarded P
  end.
Definition cleanup (P : rparams) (reached : bool) (keep_tb : bool) (s : st) : st :=
  {| slot := if reached && p_cleanup_clears P then coll_clear (slot s) else slot s; appref := appref s; prox := prox s;
     holds := holds s; qab := qab s; qba := qba s; closed := true; errs := errs s;
     tbo := if keep_tb then tbo s else []; pin := pin s; morphed := morphed s |}.
Definition close (P : rparams) (by_peer : bool) (f : cfault) (s : st) : st :=
  let reached := close_reaches_clear P by_peer f in
  cleanup P reached (negb reached && negb by_peer)
    (if by_peer then Nat.iter (List.length (qba s)) (deliver_ba P) s else s).

(* ---- histories ---- *)
Inductive op :=
| Send (ks : list nat)            (* lend the objects ks (each occurrence boxed once), asynchronously *)
| SendSync (ks : list nat)        (* the same, waiting for the answer *)
| SendRaise (ks : list nat)       (* lend them to a peer function that raises *)
| DeliverAB                       (* the peer consumes its next message *)
| DeliverBA                       (* the owner consumes its next message *)
| DropOne (k : nat)               (* the peer application drops one reference to proxy k *)
| DropAll (k : nat)               (* ... all its references to proxy k *)
| Use (c : nat) (args : list nat) (md : umode)   (* operate through proxy c, passing proxies back *)
| Forget (k : nat)                (* the owner application drops its own reference to object k *)
| Sync                            (* collect an async result: forces delivery *)
| Close (by_peer : bool) (f : cfault)
| Morph (k : nat)                 (* the owner application changes the lent object's key (class reassigned,
                                     module dropped from sys.modules) and lets go of it: not a valid_op *)
| RawDel (k : nat) (n : Z)        (* misbehaving peer: release notice it is not entitled to send *)
| RawLocal (k : nat)              (* misbehaving peer: refers to an id it does not hold *)
(* the remaining operations are not [valid_op]s: each states, on a drained connection, what the code does in a
   situation the theorems exclude *)
| SendFail (ks : list nat)        (* lend ks in one call together with something that cannot be boxed or encoded:
                                     the call raises at the owner, nothing is sent *)
| ReplyFail (c r : nat)           (* through proxy c, passing proxy r back: the callee returns object r together
                                     with something that cannot be boxed or encoded *)
| SendBadSibling (ks : list nat)  (* lend ks behind a sibling the peer fails to unbox (its INSPECT raises at the
                                     owner): the peer consumes the message without producing a proxy *)
| CloseInCallee (c r : nat).      (* through proxy c, passing proxy r back: the callee closes the owner's connection
                                     and then returns object r by reference *)

(* what a closed connection still does: async_request boxes before it (fails to) send *)
Definition step_closed (P : rparams) (o : op) (s : st) : st :=
  match o with
  | Send ks | SendSync ks | SendRaise ks | SendFail ks | SendBadSibling ks =>
      if p_send_checks_closed P then s else set_slot s (box_all P (slot s) (filter (appref s) ks))
  | Forget k => set_appref s (upd (appref s) k false)
  | Morph k => set_appref s (upd (appref s) k false)
  | _ => s
  end.

(* the situations outside the theorems, each on a drained connection (both streams consumed twice over) *)
Definition adds_unless_released (P : rparams) (ks : list nat) (s : st) : st :=
  if p_failed_send_releases P then s else set_slot s (box_all P (slot s) ks).
Definition reply_fail (P : rparams) (c r : nat) (s0 : st) : st :=
  let s := sync P (sync P s0) in
  if all_held s [c; r] && all_present (slot s) [c; r]
  then reply (adds_unless_released P [r] s) MExc       (* the requester gets the encoding failure as an exception *)
  else s.
(* the owner answers the peer's INSPECT with an exception (a new traceback, referencing no lent object); the peer's
   request handler fails while unboxing: B._last_traceback = tb, exception reply, nothing unboxed *)
Definition bad_sibling (P : rparams) (ks : list nat) (s0 : st) : st :=
  let s := sync P (sync P s0) in
  repin P [] (set_tbo (set_slot s (box_all P (slot s) (filter (appref s) ks))) []).
Definition close_in_callee (P : rparams) (c r : nat) (s0 : st) : st :=
  let s := sync P (sync P s0) in
  if all_held s [c; r] && all_present (slot s) [c; r]
  then let s1 := cleanup P true false s in
       if p_reply_checks_closed P then s1 else set_slot s1 (coll_add P (slot s1) r)
  else s.

Definition step (P : rparams) (o : op) (s : st) : st :=
  if closed s then step_closed P o s else
  match o with
  | Send ks => send P false ks s
  | SendSync ks => sync P (send P false ks s)
  | SendRaise ks => send P true ks s
  | DeliverAB => deliver_ab P s
  | DeliverBA => deliver_ba P s
  | DropOne k => drop_one P k s
  | DropAll k => drop_all P k s
  | Use c args md => use c args md s
  | Forget k => set_appref s (upd (appref s) k false)
  | Sync => sync P s
  | Close b f => close P b f s
  | Morph k => set_morphed (set_appref s (upd (appref s) k false)) (upd (morphed s) k true)
  | RawDel k n => set_qba s (qba s ++ [MDel k n])
  | RawLocal k => set_qba s (qba s ++ [MUse k [] UVal])
  | SendFail ks => adds_unless_released P (filter (appref s) ks) s
  | ReplyFail c r => reply_fail P c r s
  | SendBadSibling ks => bad_sibling P ks s
  | CloseInCallee c r => close_in_callee P c r s
  end.

Definition run_from (P : rparams) (s : st) (ops : list op) : st := fold_left (fun s o => step P o s) ops s.
Definition run (P : rparams) (ops : list op) : st := run_from P init ops.

(* operations of a well-behaved peer on objects whose key is stable *)
Definition valid_op (o : op) : Prop :=
  match o with
  | RawDel _ _ | RawLocal _ | Morph _ | SendFail _ | ReplyFail _ _ | SendBadSibling _ | CloseInCallee _ _ => False
  | _ => True
  end.
(* ... in which, moreover, no remote call raises (so that no traceback is kept) *)
Definition calm_op (o : op) : Prop :=
  match o with
  | RawDel _ _ | RawLocal _ | Morph _ | SendRaise _ | Use _ _ UBoom => False
  | SendFail _ | ReplyFail _ _ | SendBadSibling _ | CloseInCallee _ _ => False
  | _ => True
  end.

(* the object is alive: its owner application, the owner's table, or the frames of the owner connection's
   last traceback reference it *)
Definition alive (s : st) (k : nat) : bool :=
  appref s k || match slot s k with Some _ => true | None => false end || mem k (tbo s).

(* ---- harness interface ---- *)
Definition cmp_of_sx (x : sx) : rcmp :=
  match sx_z x with 0 => CLt | 1 => CLe | 2 => CGt | 3 => CGe | 4 => CEq | _ => CNe end.
Definition delsrc_of_sx (x : sx) : delsrc :=
  match x with SL [SI 0] => DRefcount | SL [SI 1] => DDefault | SL [SI 2; SI z] => DConst z | _ => DRefcount end.
Definition params_of_sx (x : sx) : rparams :=
  match x with
  | SL [a; b; c; d; e; f; g; h; i; j; k; l; m] =>
      {| p_add_init := sx_z a; p_add_inc := sx_z b; p_dec_cmp := cmp_of_sx c; p_dec_default := sx_z d;
         p_proxy_init := sx_z e; p_unbox_inc := sx_z f; p_del_src := delsrc_of_sx g; p_cleanup_clears := sx_bool h;
         p_send_checks_closed := sx_bool i; p_cleanup_guarded := sx_bool j; p_close_finally := sx_bool k;
         p_failed_send_releases := sx_bool l; p_reply_checks_closed := sx_bool m |}
  | _ => std_params
  end.
Definition nats_of_sx (x : sx) : list nat := map sx_nat (sx_l x).
Definition umode_of_sx (x : sx) : umode := match sx_z x with 0 => UVal | 1 => URet | _ => UBoom end.
Definition cfault_of_sx (x : sx) : cfault := match sx_z x with 0 => FNone | 1 => FHook | _ => FDisc end.
Definition op_of_sx (x : sx) : op :=
  match x with
  | SL [SI 0; ks] => Send (nats_of_sx ks)
  | SL [SI 1; ks] => SendSync (nats_of_sx ks)
  | SL [SI 2] => DeliverAB
  | SL [SI 3] => DeliverBA
  | SL [SI 4; k] => DropOne (sx_nat k)
  | SL [SI 5; k] => DropAll (sx_nat k)
  | SL [SI 6; c; args; r] => Use (sx_nat c) (nats_of_sx args) (umode_of_sx r)
  | SL [SI 7; k] => Forget (sx_nat k)
  | SL [SI 8] => Sync
  | SL [SI 9; b; f] => Close (sx_bool b) (cfault_of_sx f)
  | SL [SI 10; k; n] => RawDel (sx_nat k) (sx_z n)
  | SL [SI 11; k] => RawLocal (sx_nat k)
  | SL [SI 12; ks] => SendRaise (nats_of_sx ks)
  | SL [SI 13; k] => Morph (sx_nat k)
  | SL [SI 14; ks] => SendFail (nats_of_sx ks)
  | SL [SI 15; c; r] => ReplyFail (sx_nat c) (sx_nat r)
  | SL [SI 16; ks] => SendBadSibling (nats_of_sx ks)
  | SL [SI 17; c; r] => CloseInCallee (sx_nat c) (sx_nat r)
  | _ => Sync
  end.

Definition sx_optz (o : option Z) : sx := match o with Some z => SL [SI z] | None => SL [] end.
Definition sx_nats (l : list nat) : sx := SL (map snat l).
Definition sx_umode (m : umode) : sx := SI (match m with UVal => 0 | URet => 1 | UBoom => 2 end).
Definition sx_msg (m : msg) : sx :=
  match m with
  | MCall ks => SL [SS "call"; sx_nats ks]
  | MCallRaise ks => SL [SS "callraise"; sx_nats ks]
  | MReplyRef (Some k) => SL [SS "replyref"; snat k]
  | MReplyRef None => SL [SS "reply"]
  | MExc => SL [SS "exc"]
  | MDel k n => SL [SS "del"; snat k; SI n]
  | MDel0 k => SL [SS "del0"; snat k]
  | MUse c args r => SL [SS "use"; sx_nats (c :: args); sx_umode r]
  | MReply => SL [SS "reply"]
  end.
Definition snapshot (n : nat) (s : st) : sx :=
  let ks := seq 0 n in
  SL [SL (map (fun k => sx_optz (slot s k)) ks);
      SL (map (fun k => sx_optz (prox s k)) ks);
      SL (map (fun k => snat (holds s k)) ks);
      SL (map (fun k => sbool (alive s k)) ks);
      SL (map sx_msg (qab s)); SL (map sx_msg (qba s));
      sbool (closed s); snat (errs s)].

Fixpoint trace (P : rparams) (n : nat) (s : st) (ops : list op) : list sx :=
  match ops with
  | [] => []
  | o :: r => let s' := step P o s in snapshot n s' :: trace P n s' r
  end.

(* unit level: a sequence of calls on one RefCountingColl *)
Fixpoint coll_trace (P : rparams) (n : nat) (t : tbl) (ops : list sx) : list sx :=
  match ops with
  | [] => [SL (map (fun k => sx_optz (t k)) (seq 0 n))]
  | o :: r =>
      match o with
      | SL [SI 0; k] => SS "ok" :: coll_trace P n (coll_add P t (sx_nat k)) r
      | SL [SI 1; k; c] =>
          match coll_decref P t (sx_nat k) (sx_z c) with
          | Ok t' => SS "ok" :: coll_trace P n t' r
          | _ => SS "KeyError" :: coll_trace P n t r
          end
      | SL [SI 2; k] =>
          match coll_getitem t (sx_nat k) with
          | Ok _ => SS "ok" :: coll_trace P n t r
          | _ => SS "KeyError" :: coll_trace P n t r
          end
      | SL [SI 3] => SS "ok" :: coll_trace P n (coll_clear t) r
      | _ => SS "bad" :: coll_trace P n t r
      end
  end.

Definition run_refcount (x : sx) : sx :=
  match x with
  | SL [tag; p; n; SL ops] =>
      if is_tag "hist" tag then SL (trace (params_of_sx p) (sx_nat n) init (map op_of_sx ops))
      else if is_tag "coll" tag then SL (coll_trace (params_of_sx p) (sx_nat n) (fun _ => None) ops)
      else bad_input
  | _ => bad_input
  end.
