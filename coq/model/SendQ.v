(* Model of Connection._send (rpyc/core/protocol.py): the queue + try-lock hand-off, as a transition system
   over an unbounded set of threads.  One instruction = one source line that touches shared state.
   A re-entrant send started from inside channel.send on a thread that holds the lock behaves exactly like a send
   by a fresh thread id that runs while its parent is parked at Write (the lock is not re-entrant), so the flat
   system below contains every re-entrant execution as one of its interleavings. *)
From V Require Import lib.Base lib.Sx.
From Coq Require Import String.

(* the program of _send, as emitted by tools/pygen/sendq.py from the source *)
Inductive instr :=
| IAppend                 (* self._send_queue.append(data) *)
| IWhileQueue             (* while self._send_queue: *)
| ITryAcquireElseReturn   (* if not self._sendlock.acquire(False): return *)
| IIfEmptyContinue        (* try: if not self._send_queue: continue *)
| IPop                    (* data = self._send_queue.pop(0) *)
| IWrite                  (* self._channel.send(data) *)
| IFinallyRelease.        (* finally: self._sendlock.release() ; back to the loop test *)
Definition prog : list instr :=
  [IAppend; IWhileQueue; ITryAcquireElseReturn; IIfEmptyContinue; IPop; IWrite; IFinallyRelease].

Inductive pc := P0 | P1 | P2 | P3 | P4 | P5 | P6 | Done.
Definition msg := (nat * nat)%type.          (* (issuing thread, index in that thread's issue order) *)
Record thr := { tpc : pc; next : nat; total : nat; cur : option msg }.
Record st := { thrs : nat -> thr; queue : list msg; lock : option nat; wire : list msg }.

Definition upd (f : nat -> thr) (i : nat) (t : thr) : nat -> thr := fun j => if Nat.eqb j i then t else f j.
Definition in_cs (p : pc) := match p with P3 | P4 | P5 | P6 => true | _ => false end.
(* where a thread goes when this _send call returns: next message, or finished *)
Definition ret_pc (t : thr) := if Nat.ltb (next t) (total t) then P0 else Done.

Definition step (i : nat) (s : st) : option st :=
  let t := thrs s i in
  let mk p nx c q l w := Some {| thrs := upd (thrs s) i {| tpc := p; next := nx; total := total t; cur := c |};
                                queue := q; lock := l; wire := w |} in
  match tpc t with
  | P0 => mk P1 (S (next t)) None (queue s ++ [(i, next t)]) (lock s) (wire s)
  | P1 => match queue s with
          | [] => mk (ret_pc t) (next t) None (queue s) (lock s) (wire s)
          | _ => mk P2 (next t) None (queue s) (lock s) (wire s) end
  | P2 => match lock s with
          | None => mk P3 (next t) None (queue s) (Some i) (wire s)
          | Some _ => mk (ret_pc t) (next t) None (queue s) (lock s) (wire s) end
  | P3 => match queue s with
          | [] => mk P6 (next t) None (queue s) (lock s) (wire s)
          | _ => mk P4 (next t) None (queue s) (lock s) (wire s) end
  | P4 => match queue s with
          | [] => None                                    (* pop from empty list: IndexError *)
          | m :: q => mk P5 (next t) (Some m) q (lock s) (wire s) end
  | P5 => match cur t with
          | None => None
          | Some m => mk P6 (next t) None (queue s) (lock s) (wire s ++ [m]) end
  | P6 => mk P1 (next t) None (queue s) None (wire s)
  | Done => None
  end.

Inductive reach (s0 : st) : st -> Prop :=
| r0 : reach s0 s0
| rS s i s' : reach s0 s -> step i s = Some s' -> reach s0 s'.

(* initial states: thread i has totals i messages to send, nothing sent yet *)
Definition init (totals : nat -> nat) : st :=
  {| thrs := fun i => {| tpc := if Nat.ltb 0 (totals i) then P0 else Done; next := 0; total := totals i; cur := None |};
     queue := []; lock := None; wire := [] |}.

(* ---- harness interface: run a schedule, report every intermediate state ---- *)
Definition pc_n (p : pc) : Z := match p with P0 => 0 | P1 => 1 | P2 => 2 | P3 => 3 | P4 => 4 | P5 => 5 | P6 => 6 | Done => 7 end.
Definition sx_msg (m : msg) : sx := SL [snat (fst m); snat (snd m)].
Definition snapshot (s : st) (i : nat) : sx :=
  SL [SI (pc_n (tpc (thrs s i))); SL (map sx_msg (queue s));
      match lock s with Some h => snat h | None => SI (-1) end; SL (map sx_msg (wire s))].
Fixpoint run_sched (s : st) (sched : list nat) (acc : list sx) : list sx :=
  match sched with
  | [] => List.rev acc
  | i :: rest => match step i s with
                 | Some s' => run_sched s' rest (snapshot s' i :: acc)
                 | None => List.rev (SL [SS "stuck"; snat i] :: acc)
                 end
  end.
Definition run_sendq (x : sx) : sx :=
  match x with
  | SL [SL totals; SL sched] =>
      let tl := map sx_nat totals in
      SL (run_sched (init (fun i => nth i tl 0%nat)) (map sx_nat sched) [])
  | _ => bad_input
  end.
