(* Model of how one side of a connection ends: Connection.close / _cleanup / _handle_close / serve's EOFError path /
   serve_all's finally, over every history of entry points and every fault outcome of the transport calls they make. *)
From V Require Import lib.Base lib.Sx.
From Coq Require Import String.

(* facts read off the source by tools/pygen/lifecycle.py *)
Record lparams := {
  close_checks_closed_first : bool;     (* close(): if self._closed: return *)
  close_sets_closed_before_io : bool;   (* self._closed = True precedes the close request *)
  close_cleanup_in_finally : bool;      (* finally: self._cleanup(_anyway=True) *)
  close_swallows_eof : bool;            (* except EOFError: pass *)
  cleanup_hook_once_guard : bool;       (* _cleanup runs the hook through self._local_root, which it then sets to None *)
  cleanup_clears_in_finally : bool;     (* _cleanup: try: on_disconnect(self) finally: <clear the tables> - a raising hook cannot keep them *)
  serve_read_eof_closes : bool;         (* serve(): except EOFError: self.close(); raise   around poll/recv *)
  serve_dispatch_eof_closes : bool;     (* serve(): EOFError escaping _dispatch also closes *)
  serve_all_finally_closes : bool;      (* serve_all(): finally: self.close() *)
  handle_close_guarded : bool           (* _handle_close: self._cleanup(_anyway=False) - a close request served while close() itself is under way leaves the cleanup to close() *)
}.
Definition std_params : lparams :=
  {| close_checks_closed_first := true; close_sets_closed_before_io := true; close_cleanup_in_finally := true;
     close_swallows_eof := true; cleanup_hook_once_guard := true; cleanup_clears_in_finally := true; serve_read_eof_closes := true;
     serve_dispatch_eof_closes := true; serve_all_finally_closes := true; handle_close_guarded := true |}.

Record side := {
  closed : bool;        (* conn.closed *)
  hooks : nat;          (* how many times on_disconnect ran *)
  has_root : bool;      (* _local_root is not None (tables not yet cleared) *)
  chan_open : bool
}.
Definition fresh : side := {| closed := false; hooks := 0; has_root := true; chan_open := true |}.

Inductive wres := WOk | WEof | WErr.         (* outcome of the one write close() performs: fine / EOFError / another exception *)
Inductive ctx := InWait | InServeAll.        (* who called serve: AsyncResult.wait (or a bare serve) / serve_all *)
Inductive entry :=
| EClose (w : wres)            (* the application calls close() *)
| EHandleClose                 (* the peer's close request is dispatched *)
| ECloseServing (w : wres)     (* close() is not atomic: it sets the flag, then runs the before_closed hook / fetches the root - requests
                                  during which this side serves - and only then writes its close request and cleans up. This entry is a
                                  close() during whose serving the PEER's close request is dispatched (both sides closing at once) *)
| EServeReadEof (c : ctx)      (* poll/recv inside serve ends in EOFError (end of stream or failure at any byte offset) *)
| EDispatchEof (c : ctx).      (* a write made from inside _dispatch (reply, nested request) ends in EOFError *)

Inductive raised := RNone | REof | RAttr | ROther.

(* _cleanup(_anyway): returns the new side and what escaped: AttributeError on a second run over a cleaned-up side; the hook's own
   exception when the service's on_disconnect raises ([hr], a property of the service, so one bool per history) - and then, unless
   the clearing sits in a finally, the tables and the root are still there although the side reports closed *)
Definition cleanup (P : lparams) (hr : bool) (anyway : bool) (s : side) : side * raised :=
  if closed s && negb anyway then (s, RNone) else
  if has_root s then
    if hr && negb (cleanup_clears_in_finally P)
    then ({| closed := true; hooks := S (hooks s); has_root := true; chan_open := false |}, ROther)
    else ({| closed := true; hooks := S (hooks s); has_root := false; chan_open := false |}, if hr then ROther else RNone)
  else if cleanup_hook_once_guard P then
    ({| closed := true; hooks := hooks s; has_root := false; chan_open := false |}, RAttr)
  else ({| closed := true; hooks := S (hooks s); has_root := false; chan_open := false |}, if hr then ROther else RNone).

Definition set_closed_flag (P : lparams) (s : side) : side :=
  if close_sets_closed_before_io P then {| closed := true; hooks := hooks s; has_root := has_root s; chan_open := chan_open s |} else s.
(* close() from the write of its close request on *)
Definition close_tail (P : lparams) (hr : bool) (w : wres) (s1 : side) : side * raised :=
  (* the write fails at once when the channel is already closed *)
  let w' := if chan_open s1 then w else WEof in
  let escapes := match w' with WOk => RNone | WEof => if close_swallows_eof P then RNone else REof | WErr => ROther end in
  if close_cleanup_in_finally P then
    let '(s2, r) := cleanup P hr true s1 in (s2, match r with RNone => escapes | r' => r' end)
  else match escapes with
       | RNone => cleanup P hr true s1
       | r => (s1, r)
       end.
Definition do_close (P : lparams) (hr : bool) (w : wres) (s : side) : side * raised :=
  if close_checks_closed_first P && closed s then (s, RNone) else close_tail P hr w (set_closed_flag P s).
(* the peer's close request: the raw cleanup, or (guarded) a cleanup that leaves an already closing side to its own close() *)
Definition handle_close (P : lparams) (hr : bool) (s : side) : side * raised :=
  if has_root s then cleanup P hr (negb (handle_close_guarded P)) s else (s, RAttr).   (* after a cleanup the handler table is gone *)
Definition do_close_serving (P : lparams) (hr : bool) (w : wres) (s : side) : side * raised :=
  if close_checks_closed_first P && closed s then (s, RNone) else
  let s1 := set_closed_flag P s in
  let s2 := fst (handle_close P hr s1) in        (* whatever the handler raises goes to the peer as its answer, not to close() *)
  close_tail P hr w s2.

Definition step (P : lparams) (hr : bool) (e : entry) (s : side) : side * raised :=
  match e with
  | EClose w => do_close P hr w s
  | EHandleClose => handle_close P hr s
  | ECloseServing w => do_close_serving P hr w s
  | EServeReadEof c =>
      let s0 := {| closed := closed s; hooks := hooks s; has_root := has_root s; chan_open := false |} in   (* the stream closed itself *)
      let '(s1, _) := if serve_read_eof_closes P then do_close P hr WEof s0 else (s0, RNone) in
      match c with
      | InWait => (s1, REof)
      | InServeAll => if serve_all_finally_closes P then (fst (do_close P hr WEof s1), RNone) else (s1, RNone)
      end
  | EDispatchEof c =>
      let s0 := {| closed := closed s; hooks := hooks s; has_root := has_root s; chan_open := false |} in
      let '(s1, _) := if serve_dispatch_eof_closes P then do_close P hr WEof s0 else (s0, RNone) in
      match c with
      | InWait => (s1, REof)
      | InServeAll => if serve_all_finally_closes P then (fst (do_close P hr WEof s1), RNone) else (s1, RNone)
      end
  end.

Definition runs (P : lparams) (hr : bool) (es : list entry) (s : side) : side := fold_left (fun s e => fst (step P hr e s)) es s.

(* what the property demands of a side once it has closed, been told to close, or met the failure while serving *)
Definition ended_clean (s : side) : Prop := closed s = true /\ hooks s = 1 /\ has_root s = false /\ chan_open s = false.

(* ---- harness interface ---- *)
Definition params_of_sx (x : sx) : lparams :=
  match x with
  | SL [a; b; c; d; e; k; f; g; h; hg] =>
      {| close_checks_closed_first := sx_bool a; close_sets_closed_before_io := sx_bool b; close_cleanup_in_finally := sx_bool c;
         close_swallows_eof := sx_bool d; cleanup_hook_once_guard := sx_bool e; cleanup_clears_in_finally := sx_bool k; serve_read_eof_closes := sx_bool f;
         serve_dispatch_eof_closes := sx_bool g; serve_all_finally_closes := sx_bool h; handle_close_guarded := sx_bool hg |}
  | _ => std_params
  end.
Definition entry_of_sx (x : sx) : entry :=
  match x with
  | SL [SI 0; SI w] => EClose (if Z.eqb w 0 then WOk else if Z.eqb w 1 then WEof else WErr)
  | SL [SI 1] => EHandleClose
  | SL [SI 2; c] => EServeReadEof (if sx_bool c then InServeAll else InWait)
  | SL [SI 3; c] => EDispatchEof (if sx_bool c then InServeAll else InWait)
  | SL [SI 4; SI w] => ECloseServing (if Z.eqb w 0 then WOk else if Z.eqb w 1 then WEof else WErr)
  | _ => EHandleClose
  end%Z.
Definition sx_side (s : side) : sx := SL [sbool (closed s); snat (hooks s); sbool (has_root s); sbool (chan_open s)].
Definition raised_n (r : raised) : Z := match r with RNone => 0 | REof => 1 | RAttr => 2 | ROther => 3 end%Z.
Fixpoint runs_raised (P : lparams) (hr : bool) (es : list entry) (s : side) : side * list raised :=
  match es with
  | [] => (s, [])
  | e :: t => let '(s1, r) := step P hr e s in let '(s2, rs) := runs_raised P hr t s1 in (s2, r :: rs)
  end.
Definition run_lifecycle (x : sx) : sx :=
  match x with
  | SL [p; hr; SL es; _] =>       (* with what each entry raised at its caller *)
      let '(s, rs) := runs_raised (params_of_sx p) (sx_bool hr) (map entry_of_sx es) fresh in SL [sx_side s; SL (map (fun r => SI (raised_n r)) rs)]
  | SL [p; hr; SL es] => sx_side (runs (params_of_sx p) (sx_bool hr) (map entry_of_sx es) fresh)
  | _ => bad_input
  end.

(* ---- the requests of one side (second sentence of the property) ----
   A side issues requests (numbered by the caller of this model), receives replies to them, ends in any of the ways above, and its
   threads wait for results. [pend]: requests registered and not yet answered; [got]: requests whose reply was dispatched (a value or
   the peer's exception - what the peer sent); [failed]: requests that could not be sent. What a waiter gets is a function of this
   state: the value if the reply was dispatched; otherwise EOFError if the side has ended or its channel is closed (serve() on a
   closed channel raises EOFError - generated facts below); otherwise it keeps waiting (for traffic or its own timeout). *)
Record rside := { base : side; pend : list nat; got : list nat; failed : list nat }.
Definition rfresh : rside := {| base := fresh; pend := []; got := []; failed := [] |}.
Inductive rentry :=
| RIssue (id : nat) (w : wres)     (* _async_request for a new request; w: what the write does on an open channel *)
| RReply (id : nat)                (* the reply (or exception reply) to id is dispatched *)
| RBase (e : entry).               (* any of the ways a side ends (or close() again, ...) *)
Fixpoint remove_nat (x : nat) (l : list nat) : list nat :=
  match l with [] => [] | y :: t => if Nat.eqb x y then remove_nat x t else y :: remove_nat x t end.
(* three facts of the code the request layer rests on (generated: tools/pygen/stream.py, lifecycle.py, dispatch.py) *)
Record rfacts := {
  closed_stream_raises_eof : bool;     (* every use of a closed stream's descriptor raises EOFError: serve()/wait() on an ended side fail at once *)
  cleanup_clears_callbacks : bool;     (* _cleanup clears the table of pending request callbacks *)
  refuses_closed : bool                (* _async_request on a closed channel raises EOFError before registering anything (otherwise its write fails at once: same outcome) *)
}.
Definition std_rfacts : rfacts := {| closed_stream_raises_eof := true; cleanup_clears_callbacks := true; refuses_closed := true |}.
Definition rstep (P : lparams) (hr : bool) (F : rfacts) (e : rentry) (s : rside) : rside :=
  match e with
  | RIssue id w =>
      (* a closed channel: refused up front (repaired tree) or the write fails at once - either way EOFError and nothing stays registered *)
      if negb (chan_open (base s)) then {| base := base s; pend := pend s; got := got s; failed := id :: failed s |}
      else match w with
           | WOk => {| base := base s; pend := id :: pend s; got := got s; failed := failed s |}
           | _ => {| base := base s; pend := pend s; got := got s; failed := id :: failed s |}     (* registered, send raised, popped again *)
           end
  | RReply id =>
      if existsb (Nat.eqb id) (pend s) then {| base := base s; pend := remove_nat id (pend s); got := id :: got s; failed := failed s |} else s
  | RBase e0 =>
      let b := fst (step P hr e0 (base s)) in
      (* _cleanup clears the callback table *)
      {| base := b; pend := if has_root b then pend s else if cleanup_clears_callbacks F then [] else pend s; got := got s; failed := failed s |}
  end.
Definition rruns (P : lparams) (hr : bool) (F : rfacts) (es : list rentry) (s : rside) : rside := fold_left (fun s e => rstep P hr F e s) es s.
Inductive wait_result := WValue | WEofError | WKeepsWaiting.
Definition wait_outcome (F : rfacts) (s : rside) (id : nat) : wait_result :=
  if existsb (Nat.eqb id) (got s) then WValue
  else if existsb (Nat.eqb id) (failed s) then WEofError
  else if closed (base s) || negb (chan_open (base s)) then (if closed_stream_raises_eof F then WEofError else WKeepsWaiting)
  else WKeepsWaiting.
