(* C20 — executable model of rpyc.utils.classic upload/upload_file/upload_dir and download/download_file/download_dir.

   A file is a byte list; a directory is an association list name -> node in os.listdir order; anything that is
   neither (fifo, dangling symlink, ...) is [Special].  The state at one path is an [option node] (None = nothing
   there).  The world is what exists at the local path and what exists at the remote path.

   The shape of the six functions is described by a [skel] value.  tools/pygen/classic.py regenerates
   Gen_classic.upload_skel / download_skel from the source on every run and props/C20.v proves them equal to
   [std_skel g Local Remote] / [std_skel g Remote Local] (g = the filter guard found in the code) by computation.  The chunk loop is *interpreted* from the
   generated statement list [fk_body]; which side is read and which is written is taken from the skeleton. *)
From V Require Import lib.Base lib.Sx.
From Coq Require Import String.
Open Scope N_scope.

(* ------------------------------------------------------------------ skeleton vocabulary (shared with Gen_classic) *)
Inductive side := Local | Remote.
Definition other (s : side) : side := match s with Local => Remote | Remote => Local end.
Definition side_eqb (a b : side) : bool :=
  match a, b with Local, Local => true | Remote, Remote => true | _, _ => false end.

(* statements of the `while True:` body of upload_file / download_file *)
Inductive fstmt :=
| SRead            (* buf = src.read(chunk_size) *)
| SBreakIfEmpty    (* if not buf: break *)
| SBreakIfShort    (* if len(buf) < chunk_size: break   -- not in the pinned tree; a plausible "optimisation" *)
| SWrite.          (* dst.write(buf) *)

Inductive fmode := RB | WB.
Definition fmode_eqb (a b : fmode) : bool := match a, b with RB, RB => true | WB, WB => true | _, _ => false end.

Record file_skel := {
  fk_src : side; fk_src_mode : fmode;      (* with <side>.open(srcpath, mode) as sf *)
  fk_dst : side; fk_dst_mode : fmode;      (*   with <side>.open(dstpath, mode) as df *)
  fk_body : list fstmt }.                  (*     while True: <body> *)

(* the guard in front of the recursive call *)
Inductive fguard :=
| GTruthy     (* if not filter or filter(fn):      -- a filter object whose truth value is False counts as "no filter" *)
| GIsNone.    (* if filter is None or filter(fn): *)

Record dir_skel := {
  dk_mk : side;               (* if not <side>.os.path.isdir(dstpath): <side>.os.makedirs(dstpath) *)
  dk_list : side;             (* for fn in <side>.os.listdir(srcpath): *)
  dk_guard : fguard;          (*   if <guard on filter and the bare name fn>: *)
  dk_src_join : side;         (*     sfn = <side>.os.path.join(srcpath, fn) *)
  dk_dst_join : side;         (*     dfn = <side>.os.path.join(dstpath, fn) *)
  dk_ignore_invalid : bool }. (*     top(conn, sfn, dfn, filter=filter, ignore_invalid=<b>, chunk_size=chunk_size) *)

Record top_skel := {
  tk_probe : side;            (* if <side>.os.path.isdir(srcpath): dir(conn, srcpath, dstpath, filter, chunk_size) *)
  tk_dir_first : bool;        (* elif <side>.os.path.isfile(srcpath): file(conn, srcpath, dstpath, chunk_size) *)
  tk_raise_unless_ignored : bool }.  (* else: if not ignore_invalid: raise ValueError *)

Record skel := { sk_top : top_skel; sk_file : file_skel; sk_dir : dir_skel }.

Definition std_body : list fstmt := [SRead; SBreakIfEmpty; SWrite].

(* the shape the theorems are proved for: everything about the source on side [s], everything about the destination on [d] *)
Definition std_skel (g : fguard) (s d : side) : skel :=
  {| sk_top := {| tk_probe := s; tk_dir_first := true; tk_raise_unless_ignored := true |};
     sk_file := {| fk_src := s; fk_src_mode := RB; fk_dst := d; fk_dst_mode := WB; fk_body := std_body |};
     sk_dir := {| dk_mk := d; dk_list := s; dk_guard := g; dk_src_join := s; dk_dst_join := d;
                  dk_ignore_invalid := true |} |}.

Definition src_side (k : skel) : side := tk_probe (sk_top k).
Definition dst_side (k : skel) : side := fk_dst (sk_file k).

(* a skeleton the structural model can interpret: one source side, the other side is the destination,
   and the non-loop parts have the standard shape; the loop body is free *)
Definition coherent (k : skel) : bool :=
  let s := src_side k in let d := dst_side k in
  side_eqb d (other s)
  && tk_dir_first (sk_top k) && tk_raise_unless_ignored (sk_top k)
  && side_eqb (fk_src (sk_file k)) s && fmode_eqb (fk_src_mode (sk_file k)) RB && fmode_eqb (fk_dst_mode (sk_file k)) WB
  && side_eqb (dk_mk (sk_dir k)) d && side_eqb (dk_list (sk_dir k)) s
  && side_eqb (dk_src_join (sk_dir k)) s && side_eqb (dk_dst_join (sk_dir k)) d && dk_ignore_invalid (sk_dir k).

(* ------------------------------------------------------------------ one file: the chunk loop *)
Record lstate := { ls_src : list byte;          (* unread rest of the source file *)
                   ls_buf : list byte;          (* the variable buf *)
                   ls_out : list (list byte);   (* arguments of the write calls, newest first *)
                   ls_reads : list N }.         (* lengths returned by the read calls, newest first *)

Inductive body_res := Continue (s : lstate) | Break (s : lstate).

Fixpoint run_body (chunk : N) (body : list fstmt) (s : lstate) : body_res :=
  match body with
  | [] => Continue s
  | SRead :: k =>
      let '(b, rest) := take_upto chunk (ls_src s) in
      run_body chunk k {| ls_src := rest; ls_buf := b; ls_out := ls_out s; ls_reads := nlen b :: ls_reads s |}
  | SBreakIfEmpty :: k => match ls_buf s with [] => Break s | _ => run_body chunk k s end
  | SBreakIfShort :: k => if nlen (ls_buf s) <? chunk then Break s else run_body chunk k s
  | SWrite :: k =>
      run_body chunk k {| ls_src := ls_src s; ls_buf := ls_buf s; ls_out := ls_buf s :: ls_out s; ls_reads := ls_reads s |}
  end.

Fixpoint run_loop (fuel : nat) (chunk : N) (body : list fstmt) (s : lstate) : result lstate :=
  match fuel with
  | O => OutOfFuel
  | S f => match run_body chunk body s with
           | Break s' => Ok s'
           | Continue s' => run_loop f chunk body s'
           end
  end.

(* the write calls (oldest first) and the read results (oldest first) of copying [data] *)
Definition copy_file_trace (body : list fstmt) (chunk : N) (data : list byte) : result (list (list byte) * list N) :=
  do s <- run_loop (S (List.length data)) chunk body {| ls_src := data; ls_buf := []; ls_out := []; ls_reads := [] |};
  Ok (rev (ls_out s), rev (ls_reads s)).

(* content of the destination file afterwards ("wb": truncated at open, then the writes in order) *)
Definition copy_file_with (body : list fstmt) (chunk : N) (data : list byte) : result (list byte) :=
  do t <- copy_file_trace body chunk data; Ok (List.concat (fst t)).

Definition copy_file : N -> list byte -> result (list byte) := copy_file_with std_body.

(* ------------------------------------------------------------------ trees *)
Definition name := list byte.
Inductive node := File (data : list byte) | Dir (entries : list (name * node)) | Special.

Fixpoint lookup_entry (k : name) (es : list (name * node)) : option node :=
  match es with
  | [] => None
  | (k', v) :: r => if bytes_eqb k k' then Some v else lookup_entry k r
  end.

(* create or replace one directory entry; a new entry goes last *)
Fixpoint set_entry (k : name) (v : node) (es : list (name * node)) : list (name * node) :=
  match es with
  | [] => [(k, v)]
  | (k', v') :: r => if bytes_eqb k k' then (k, v) :: r else (k', v') :: set_entry k v r
  end.

(* state of dstpath/k after the recursive call: [None] can only mean "still nothing there" *)
Definition put (k : name) (d : option node) (es : list (name * node)) : list (name * node) :=
  match d with Some v => set_entry k v es | None => es end.

(* the filter argument: None, or a callable object with a truth value *)
Record filter_obj := { fo_truthy : bool; fo_pred : name -> bool }.
(* the guard of the loop, as one predicate on the name *)
Definition guard (g : fguard) (flt : option filter_obj) : name -> bool :=
  fun k => match flt with
           | None => true
           | Some o => match g with GTruthy => negb (fo_truthy o) || fo_pred o k | GIsNone => fo_pred o k end
           end.
(* what the caller asked for: "a predicate that accepts the filename ...; None means any file" *)
Definition wanted (flt : option filter_obj) : name -> bool :=
  fun k => match flt with None => true | Some o => fo_pred o k end.
Definition truthy_or_none (flt : option filter_obj) : bool :=
  match flt with None => true | Some o => fo_truthy o end.

Section Copy.
  Variable body : list fstmt.
  Variable filter : name -> bool.       (* the guard as one predicate on the name *)
  Variable chunk : N.

  (* the for loop of upload_dir / download_dir over the listed entries; [des] is the destination directory so far *)
  Definition copy_entries (rec : node -> option node -> result (option node)) :=
    fix go (es des : list (name * node)) {struct es} : result (list (name * node)) :=
      match es with
      | [] => Ok des
      | (k, c) :: r =>
          if filter k
          then do d' <- rec c (lookup_entry k des); go r (put k d' des)
          else go r des
      end.

  (* upload / download on one path: [src] is what is at the source path, [dst] what is at the destination path;
     the answer is what is at the destination path afterwards *)
  Fixpoint copy_node (ign : bool) (src : node) (dst : option node) {struct src} : result (option node) :=
    match src with
    | Dir es =>                                           (* isdir(srcpath) -> *_dir *)
        do des <- match dst with
                  | Some (Dir des) => Ok des              (* isdir(dstpath): nothing to create *)
                  | None => Ok []                         (* makedirs(dstpath) *)
                  | Some _ => Raise OtherError            (* makedirs on an existing non-directory: FileExistsError *)
                  end;
        do des' <- copy_entries (copy_node true) es des;
        Ok (Some (Dir des'))
    | File data =>                                        (* isfile(srcpath) -> *_file *)
        match dst with
        | Some (Dir _) => Raise OtherError                (* open(dir, "wb"): IsADirectoryError *)
        | Some Special => Unmodelled
        | _ => do d <- copy_file_with body chunk data; Ok (Some (File d))
        end
    | Special => if ign then Ok dst else Raise ValueError
    end.
End Copy.

(* ------------------------------------------------------------------ specification vocabulary *)
(* what the filter leaves of a tree: rejected names go with their subtrees, entries that are neither file nor
   directory go, everything else (empty directories included) stays, order preserved *)
Definition prune_entries (rec : node -> node) (f : name -> bool) :=
  fix go (es : list (name * node)) : list (name * node) :=
    match es with
    | [] => []
    | (k, c) :: r =>
        if f k then match c with Special => go r | _ => (k, rec c) :: go r end else go r
    end.
Fixpoint prune (f : name -> bool) (n : node) : node :=
  match n with
  | Dir es => Dir (prune_entries (prune f) f es)
  | _ => n
  end.

Fixpoint mem_name (k : name) (l : list name) : bool :=
  match l with [] => false | x :: r => bytes_eqb k x || mem_name k r end.
Fixpoint nodup_names (l : list name) : bool :=
  match l with [] => true | x :: r => negb (mem_name x r) && nodup_names r end.
(* names unique per directory (what os.listdir guarantees) *)
Fixpoint wf_tree (n : node) : bool :=
  match n with
  | Dir es => nodup_names (map fst es)
              && (fix all (es : list (name * node)) : bool :=
                    match es with [] => true | (_, c) :: r => wf_tree c && all r end) es
  | _ => true
  end.

(* the node at a relative path *)
Fixpoint lookup (p : list name) (n : node) : option node :=
  match p with
  | [] => Some n
  | k :: q => match n with
              | Dir es => match lookup_entry k es with Some c => lookup q c | None => None end
              | _ => None
              end
  end.
Definition lookup_o (p : list name) (o : option node) : option node :=
  match o with Some n => lookup p n | None => None end.
Definition file_at (p : list name) (o : option node) : option (list byte) :=
  match lookup_o p o with Some (File d) => Some d | _ => None end.
Definition dir_at (p : list name) (o : option node) : bool :=
  match lookup_o p o with Some (Dir _) => true | _ => false end.

(* ------------------------------------------------------------------ the two-sided world *)
Record world := { at_local : option node; at_remote : option node }.
Definition get (s : side) (w : world) : option node := match s with Local => at_local w | Remote => at_remote w end.
Definition set (s : side) (v : option node) (w : world) : world :=
  match s with
  | Local => {| at_local := v; at_remote := at_remote w |}
  | Remote => {| at_local := at_local w; at_remote := v |}
  end.
Definition swap (w : world) : world := {| at_local := at_remote w; at_remote := at_local w |}.

(* run the function family described by [k] on the two paths *)
Definition transfer (k : skel) (flt : option filter_obj) (chunk : N) (ign : bool) (w : world) : result world :=
  if coherent k then
    match get (src_side k) w with
    | None => if ign then Ok w else Raise ValueError     (* neither isdir nor isfile *)
    | Some src =>
        do d <- copy_node (fk_body (sk_file k)) (guard (dk_guard (sk_dir k)) flt) chunk ign src (get (dst_side k) w);
        Ok (set (dst_side k) d w)
    end
  else Unmodelled.

Definition upload (g : fguard) := transfer (std_skel g Local Remote).
Definition download (g : fguard) := transfer (std_skel g Remote Local).

(* upload_package(conn, module, remotepath, chunk_size): upload of the module's directory, no filter, ignore_invalid
   left at its default *)
Definition upload_package (g : fguard) (chunk : N) (w : world) : result world := upload g None chunk false w.

(* no entry that is neither file nor directory anywhere in the tree *)
Fixpoint no_special (n : node) : bool :=
  match n with
  | Special => false
  | File _ => true
  | Dir es => (fix all (es : list (name * node)) : bool :=
                 match es with [] => true | (_, c) :: r => no_special c && all r end) es
  end.

(* on which side each filesystem call of the family runs, as the skeleton says *)
Definition sides_table (k : skel) : list (string * side) :=
  [("probe", tk_probe (sk_top k)); ("open_src", fk_src (sk_file k)); ("open_dst", fk_dst (sk_file k));
   ("mk", dk_mk (sk_dir k)); ("list", dk_list (sk_dir k)); ("join_src", dk_src_join (sk_dir k));
   ("join_dst", dk_dst_join (sk_dir k))]%string.

(* ------------------------------------------------------------------ harness interface *)
Fixpoint node_of_sx (fuel : nat) (x : sx) : node :=
  match fuel with
  | O => Special
  | S f =>
      match x with
      | SL [SI 0%Z; SB d] => File d
      | SL [SI 1%Z; SL es] =>
          Dir (map (fun e => match e with SL [SB k; c] => (k, node_of_sx f c) | _ => ([], Special) end) es)
      | _ => Special
      end
  end.
Fixpoint sx_depth (x : sx) : nat :=
  match x with SL l => S (fold_right (fun y a => Nat.max (sx_depth y) a) O l) | _ => 1%nat end.
Definition node_sx (x : sx) : node := node_of_sx (sx_depth x) x.

Fixpoint sx_of_node (n : node) : sx :=
  match n with
  | File d => SL [SI 0; SB d]
  | Dir es => SL [SI 1; SL ((fix go (es : list (name * node)) : list sx :=
                               match es with [] => [] | (k, c) :: r => SL [SB k; sx_of_node c] :: go r end) es)]
  | Special => SL [SI 2]
  end.
Definition opt_node_sx (x : sx) : option node := match x with SL [n] => Some (node_sx n) | _ => None end.
Definition sx_of_opt (o : option node) : sx := match o with Some n => SL [sx_of_node n] | None => SL [] end.

Fixpoint has_suffix (suf nm : list byte) : bool :=
  bytes_eqb suf nm || match nm with [] => false | _ :: r => has_suffix suf r end.

(* predicates: 0 all; 1 reject the listed names; 2 accept only the listed names; 3 reject a suffix; 4 reject longer than n *)
Definition pred_of_sx (x : sx) : name -> bool :=
  match x with
  | SL [SI 1%Z; SL l] => fun k => negb (mem_name k (map sx_b l))
  | SL [SI 2%Z; SL l] => fun k => mem_name k (map sx_b l)
  | SL [SI 3%Z; SB suf] => fun k => negb (has_suffix suf k)
  | SL [SI 4%Z; SI n] => fun k => (nlen k <=? Z.to_N n)
  | _ => fun _ => true
  end.

(* filter argument: () = None, (truthy pred) = a callable object *)
Definition filter_of_sx (x : sx) : option filter_obj :=
  match x with
  | SL [t; p] => Some {| fo_truthy := sx_bool t; fo_pred := pred_of_sx p |}
  | _ => None
  end.
Definition guard_of_sx (x : sx) : fguard := if sx_bool x then GIsNone else GTruthy.

Definition sx_of_world (w : world) : sx := SL [sx_of_opt (at_local w); sx_of_opt (at_remote w)].

Definition run_files (x : sx) : sx :=
  match x with
  | SL [t; g; dir; chunk; ign; flt; l; r] =>
      if is_tag "transfer" t then
        let w := {| at_local := opt_node_sx l; at_remote := opt_node_sx r |} in
        sx_result sx_of_world
          ((if sx_bool dir then download else upload) (guard_of_sx g) (filter_of_sx flt) (sx_n chunk) (sx_bool ign) w)
      else bad_input
  | SL [t; chunk; SB data] =>
      if is_tag "copyfile" t then
        sx_result (fun tr => SL [SB (List.concat (fst tr)); SL (map (fun p => sN (nlen p)) (fst tr)); SL (map sN (snd tr))])
          (copy_file_trace std_body (sx_n chunk) data)
      else bad_input
  | SL [t; a; b] =>
      if is_tag "prune" t then
        let nd := node_sx b in SL [sbool (wf_tree nd); sx_of_node (prune (wanted (filter_of_sx a)) nd)]
      else if is_tag "sides" t then
        SL (map (fun e => SL [SS (fst e); sbool (match snd e with Remote => true | Local => false end)])
                (sides_table (if sx_bool b then std_skel (guard_of_sx a) Remote Local
                              else std_skel (guard_of_sx a) Local Remote)))
      else bad_input
  | _ => bad_input
  end.
