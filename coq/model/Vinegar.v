(* Executable model of rpyc/core/vinegar.py (dump / load) and of the exception plumbing of
   rpyc/core/protocol.py (Connection._dispatch_request routing, _box_exc, _unbox_exc).
   No proofs here (see proofs/VinegarP.v).

   Sender side: an exception instance is its class identity, its [args] and the list of
   [dir(val)] names with the result of [getattr] (None = AttributeError).  Every Python object is
   abstracted to the pair (brine view of its value, its repr text): [brine.dumpable] decides on the
   first component, [repr] is the second.
   Receiver side: [vload] is the class-resolution ladder of [vinegar.load] interpreted over an
   explicit environment (builtins namespace, sys.modules, importable modules); it returns the list of
   effects it performed (import attempts, __new__ calls; it never calls a constructor) together with
   the instructions that CPython executes on the new object ([exc.args = ..], the [setattr]s in order). *)
From V Require Import lib.Base lib.Sx model.Brine.
From Coq Require Import String.
Open Scope N_scope.

(* ---- text ---- *)
Definition text := list N.                       (* code points *)
Definition txt (s : string) : text := map Byte.to_N (list_byte_of_string s).
Fixpoint text_eqb (a b : text) : bool :=
  match a, b with
  | [], [] => true
  | x :: a', y :: b' => (x =? y) && text_eqb a' b'
  | _, _ => false
  end.

Definition BUILTINS : text := txt "builtins".
Definition ARGS : text := txt "args".
Definition REMOTE_VERSION : text := txt "_remote_version".
Definition DENIED_TB : text := txt "<traceback denied>".
Definition DENIED_VER : text := txt "<version denied>".
Definition IGNORED_ATTRS : list text := [txt "_remote_tb"; txt "with_traceback"].
Definition STOP_ITERATION : text := txt "StopIteration".
Definition SYSTEM_EXIT : text := txt "SystemExit".
Definition KEYBOARD_INTERRUPT : text := txt "KeyboardInterrupt".
Definition EXC_STOP : Z := 1%Z.                   (* consts.EXC_STOP_ITERATION *)

(* ---- sender side ---- *)
Record obj := { o_val : pyval; o_repr : text; o_callable : bool }.   (* brine view, repr(x), callable(x) *)
Inductive clsid := Builtin (name : text) | Custom (modname clsname : text).
Record exc := { e_cls : clsid; e_args : list obj; e_dir : list (text * option obj) }.
Record sflags := { incl_tb : bool; incl_ver : bool; prop_sysexit : bool; prop_kbdint : bool }.
(* generated fact: does dump take the StopIteration fast path only for an instance without args? *)
(* second generated fact: does dump leave out public attributes whose value is callable (methods such as add_note)? *)
Record vparams := { fast_noargs_only : bool; skip_callables : bool }.

Definition clsid_eqb (a b : clsid) : bool :=
  match a, b with
  | Builtin x, Builtin y => text_eqb x y
  | Custom m x, Custom k y => text_eqb m k && text_eqb x y
  | _, _ => false
  end.
Definition cls_key (c : clsid) : text * text :=
  match c with Builtin n => (BUILTINS, n) | Custom m n => (m, n) end.
Definition is_builtin_named (s : text) (c : clsid) : bool :=
  match c with Builtin n => text_eqb n s | Custom _ _ => false end.

(* [a if brine.dumpable(a) else repr(a)] *)
Definition norm (o : obj) : pyval := if dumpable (o_val o) then o_val o else PStr (o_repr o).
Definition is_private (n : text) : bool := match n with c :: _ => c =? 95 | [] => false end.
Definition skipped (n : text) : bool := is_private n || existsb (text_eqb n) IGNORED_ATTRS.

(* the [for name in dir(val)] loop *)
Fixpoint walk_dir (skipc : bool) (args : list obj) (d : list (text * option obj)) : list pyval * list (text * pyval) :=
  match d with
  | [] => ([], [])
  | (n, ov) :: d' =>
      let '(a, t) := walk_dir skipc args d' in
      if text_eqb n ARGS then (map norm args ++ a, t)
      else if skipped n then (a, t)
      else match ov with
           | None => (a, t)                       (* getattr raised AttributeError: skipped *)
           | Some o => if skipc && o_callable o then (a, t) else (a, (n, norm o) :: t)
           end
  end.

Definition no_args (e : exc) : bool := match e_args e with [] => true | _ :: _ => false end.
Definition fast_taken (P : vparams) (e : exc) : bool :=
  is_builtin_named STOP_ITERATION (e_cls e) && (negb (fast_noargs_only P) || no_args e).

Definition attr_pair (na : text * pyval) : pyval := PTuple [PStr (fst na); snd na].
Definition version_attr (fS : sflags) (ver : text) : text * pyval :=
  (REMOTE_VERSION, PStr (if incl_ver fS then ver else DENIED_VER)).
Definition tb_field (fS : sflags) (tb : text) : pyval := PStr (if incl_tb fS then tb else DENIED_TB).

(* vinegar.dump(typ, val, tb, include_local_traceback, include_local_version);
   [ver] = version.version_string, [tb] = "".join(traceback.format_exception(..)) *)
Definition vdump (P : vparams) (fS : sflags) (ver tb : text) (e : exc) : pyval :=
  if fast_taken P e then PInt EXC_STOP else
  let '(args, attrs) := walk_dir (skip_callables P) (e_args e) (e_dir e) in
  let '(m, n) := cls_key (e_cls e) in
  PTuple [PTuple [PStr m; PStr n]; PTuple args;
          PTuple (map attr_pair (attrs ++ [version_attr fS ver])); tb_field fS tb].

(* Connection._dispatch_request: which exceptions are re-raised locally instead of being sent *)
Inductive served := Routed | Sent (payload : pyval).
Definition routed (fS : sflags) (c : clsid) : bool :=
  (is_builtin_named SYSTEM_EXIT c && prop_sysexit fS) || (is_builtin_named KEYBOARD_INTERRUPT c && prop_kbdint fS).
Definition serve_exc (P : vparams) (fS : sflags) (ver tb : text) (e : exc) : served :=
  if routed fS (e_cls e) then Routed else Sent (vdump P fS ver tb e).

(* ---- receiver side ---- *)
Record rflags := { import_custom : bool; inst_custom : bool; inst_oldstyle : bool }.
(* what a module attribute is: a BaseException subclass (with its identity and whether cls.__new__(cls)
   works without arguments) or anything else *)
Inductive attr_kind :=
| AExc (c : clsid) (new_ok : bool)
| AOther
| ALazy (imports : list text) (found : option (clsid * bool)).
  (* not in the module's __dict__: served by a module-level __getattr__ (PEP 562) that imports [imports] and then
     returns an exception class ([Some]) or anything else / raises AttributeError ([None]) *)
(* generated fact: how load() reads a class out of an already imported module.
   LkGetattr: getattr(module, name, None), which runs the module's __getattr__ hook whatever the switches say;
   LkDictUnlessImport: the hook is consulted only when import_custom_exceptions is on, the module's __dict__ otherwise;
   LkDict: the module's __dict__ only *)
Inductive lookup_mode := LkGetattr | LkDictUnlessImport | LkDict.
Definition ns := list (text * attr_kind).
Record env := { builtins_ns : ns; modules : list (text * ns); importable : list (text * ns); local_major : text }.

Fixpoint assoc {A} (k : text) (l : list (text * A)) : option A :=
  match l with
  | [] => None
  | (k', v) :: l' => if text_eqb k k' then Some v else assoc k l'
  end.
(* sys.modules.get(m): "builtins" is always present and is the exceptions module *)
Definition find_module (E : env) (mods : list (text * ns)) (m : text) : option ns :=
  if text_eqb m BUILTINS then Some (builtins_ns E) else assoc m mods.
Definition in_modules (E : env) (mods : list (text * ns)) (modname : pyval) : bool :=
  match modname with
  | PStr m => match find_module E mods m with Some _ => true | None => false end
  | _ => false
  end.

(* the class-resolution ladder of vinegar.load as data (tie: Gen_vinegar.load_ladder = resolution_prog) *)
Inductive rcond := CImportFlag | CInstFlag | CInModules | CNotInModules | CModIsBuiltins | CAnd (a b : rcond).
Inductive rsrc := SrcSysModules | SrcBuiltins | SrcNone.
Inductive rprog := RIf (c : rcond) (t e : rprog) | RRet (s : rsrc).
Definition import_guard : rcond := CAnd CImportFlag CNotInModules.
Definition resolution_prog : rprog :=
  RIf CInstFlag (RIf CInModules (RRet SrcSysModules) (RRet SrcNone))
                (RIf CModIsBuiltins (RRet SrcBuiltins) (RRet SrcNone)).

Section Resolve.
Variable M : lookup_mode.
Variable fR : rflags.
Variable E : env.
Variable mods : list (text * ns).
Variable modname clsname : pyval.

Fixpoint eval_cond (c : rcond) : bool :=
  match c with
  | CImportFlag => import_custom fR
  | CInstFlag => inst_custom fR
  | CInModules => in_modules E mods modname
  | CNotInModules => negb (in_modules E mods modname)
  | CModIsBuiltins => match modname with PStr m => text_eqb m BUILTINS | _ => false end
  | CAnd a b => eval_cond a && eval_cond b
  end.

(* is a module-level __getattr__ hook consulted by the sys.modules lookup? *)
Definition hooks_run : bool :=
  match M with LkGetattr => true | LkDictUnlessImport => import_custom fR | LkDict => false end.
Definition visible (hooks : bool) (k : option attr_kind) : option attr_kind :=
  match k with Some (ALazy _ _) => if hooks then k else None | _ => k end.
(* getattr(module, clsname, None) [strict: the name must be text]  /  module.__dict__.get(clsname) *)
Definition getattr_ns (strict hooks : bool) (n : option ns) : result (option attr_kind) :=
  match clsname with
  | PStr c => Ok (match n with Some x => visible hooks (assoc c x) | None => None end)
  | _ => if strict then Raise TypeError else Ok None
  end.
Definition eval_src (s : rsrc) : result (option attr_kind) :=
  match s with
  | SrcSysModules => getattr_ns hooks_run hooks_run (match modname with PStr m => find_module E mods m | _ => None end)
  | SrcBuiltins => getattr_ns true false (Some (builtins_ns E))     (* the builtins module has no hook *)
  | SrcNone => Ok None
  end.
Fixpoint run_prog (p : rprog) : result (option attr_kind) :=
  match p with
  | RIf c t e => if eval_cond c then run_prog t else run_prog e
  | RRet s => eval_src s
  end.
End Resolve.

(* sys.modules after the guarded __import__ (a failing import is swallowed) *)
Definition after_import (E : env) (modname : pyval) : list (text * ns) :=
  match modname with
  | PStr m => match assoc m (importable E) with Some n => (m, n) :: modules E | None => modules E end
  | _ => modules E
  end.

Inductive rcls := Real (c : clsid) | Generic (modname clsname : pyval).
Inductive effect := EImport (m : text) | ENew (c : rcls) | EInit (c : rcls).
Inductive lstatus := Done (tb : pyval) (warn : bool) | Fail (e : exn).
Inductive lres :=
| LStop                                            (* the class StopIteration itself *)
| LStr (s : text)                                  (* deprecated string exceptions: returned as is *)
| LExc (c : rcls) (args : pyval) (sets : list (pyval * pyval)) (st : lstatus).
  (* exc = cls.__new__(cls); exc.args = args; setattr(exc, n, v) for each of sets (AttributeError ignored);
     then either exc._remote_tb = tb (+ version warning) and return, or the exception of [Fail] *)

(* val == 1 for a brine value *)
Definition ONE_BITS : list byte := [x3f; xf0; x00; x00; x00; x00; x00; x00].
Definition is_zero_bits (b : list byte) : bool :=
  bytes_eqb b [x00; x00; x00; x00; x00; x00; x00; x00] || bytes_eqb b [x80; x00; x00; x00; x00; x00; x00; x00].
Definition py_eq_one (v : pyval) : bool :=
  match v with
  | PInt z => Z.eqb z EXC_STOP
  | PBool b => b
  | PFloat b => bytes_eqb b ONE_BITS
  | PComplex b => bytes_eqb (firstn 8 b) ONE_BITS && is_zero_bits (skipn 8 b)
  | _ => false
  end.

(* a, b, .. = v  (frozenset iteration order is the interpreter's: unmodelled) *)
Definition unpack (n : nat) (v : pyval) : result (list pyval) :=
  do es <- iter_elems true v;
  if Nat.eqb (List.length es) n then Ok es else Raise ValueError.

(* for name, attrval in attrs: setattr(exc, name, attrval) *)
Fixpoint do_sets (items : list pyval) : list (pyval * pyval) * result unit :=
  match items with
  | [] => ([], Ok tt)
  | it :: rest =>
      match unpack 2 it with
      | Ok [n; v] => let '(s, r) := do_sets rest in ((n, v) :: s, r)
      | Ok _ => ([], Raise ValueError)
      | Raise e => ([], Raise e)
      | OutOfFuel => ([], OutOfFuel)
      | Unmodelled => ([], Unmodelled)
      end
  end.

(* getattr(exc, "_remote_version", ..) after the loop: the last value stored under that name *)
Definition last_version (sets : list (pyval * pyval)) : option pyval :=
  fold_left (fun acc nv => match fst nv with
                           | PStr s => if text_eqb s REMOTE_VERSION then Some (snd nv) else acc
                           | _ => acc
                           end) sets None.
Fixpoint major_of (s : text) : text :=            (* s.split('.')[0] *)
  match s with
  | [] => []
  | c :: s' => if c =? 46 then [] else c :: major_of s'
  end.
Definition status_of (E : env) (sets : list (pyval * pyval)) (tb : pyval) : lstatus :=
  match last_version sets with
  | None => Done tb false
  | Some (PStr s) =>
      if text_eqb s DENIED_VER then Done tb false
      else if text_eqb (major_of s) (local_major E) then Done tb false
      else match tb with PStr _ => Done tb true | _ => Fail TypeError end   (* tbtext += warning *)
  | Some (PBytes _) => Fail TypeError              (* bytes.split('.') *)
  | Some _ => Fail AttributeError                  (* no .split *)
  end.

Definition str_cps (v : pyval) : text := match v with PStr s => s | _ => [] end.
Definition is_surr (c : N) : bool := (0xD800 <=? c) && (c <=? 0xDFFF).
(* type(fullname, (GenericException,), ..): the name must be utf-8 encodable and free of NUL;
   str() of a non-text brine value contains neither *)
Definition generic_name_check (modname clsname : pyval) : result unit :=
  let cps := str_cps modname ++ str_cps clsname in
  if existsb is_surr cps then Raise UnicodeError
  else if existsb (N.eqb 0) cps then Raise ValueError
  else Ok tt.

Definition build (E : env) (eff : list effect) (rc : rcls) (new_ok : bool) (args attrs tb : pyval)
  : list effect * result lres :=
  let eff' := eff ++ [ENew rc] in
  if negb new_ok then (eff', Raise TypeError) else
  match iter_elems true attrs with
  | Ok items =>
      let '(sets, r) := do_sets items in
      match r with
      | Ok _ => (eff', Ok (LExc rc args sets (status_of E sets tb)))
      | Raise e => (eff', Ok (LExc rc args sets (Fail e)))
      | OutOfFuel => (eff', OutOfFuel)
      | Unmodelled => (eff', Unmodelled)
      end
  | Raise e => (eff', Ok (LExc rc args [] (Fail e)))
  | OutOfFuel => (eff', OutOfFuel)
  | Unmodelled => (eff', Unmodelled)
  end.

(* vinegar.load(val, import_custom_exceptions, instantiate_custom_exceptions, instantiate_oldstyle_exceptions) *)
Definition generic_or_fail (E : env) (eff : list effect) (modname clsname args attrs tb : pyval) : list effect * result lres :=
  match generic_name_check modname clsname with
  | Ok _ => build E eff (Generic modname clsname) true args attrs tb
  | Raise e => (eff, Raise e)
  | OutOfFuel => (eff, OutOfFuel)
  | Unmodelled => (eff, Unmodelled)
  end.

Definition vload (M : lookup_mode) (fR : rflags) (E : env) (val : pyval) : list effect * result lres :=
  if py_eq_one val then ([], Ok LStop) else
  match val with
  | PStr s => ([], Ok (LStr s))
  | _ =>
    match unpack 4 val with
    | Ok [key; args; attrs; tb] =>
      match unpack 2 key with
      | Ok [modname; clsname] =>
          let imp := eval_cond fR E (modules E) modname import_guard in
          let eff := if imp then match modname with PStr m => [EImport m] | _ => [] end else [] in
          let mods := if imp then after_import E modname else modules E in
          match run_prog M fR E mods modname clsname resolution_prog with
          | Ok (Some (AExc c ok)) => build E eff (Real c) ok args attrs tb
          | Ok (Some (ALazy imps found)) =>           (* the module's hook ran: its imports happen, whatever it returns *)
              let eff' := eff ++ map EImport imps in
              match found with
              | Some (c, ok) => build E eff' (Real c) ok args attrs tb
              | None => generic_or_fail E eff' modname clsname args attrs tb
              end
          | Ok _ => generic_or_fail E eff modname clsname args attrs tb   (* not a type / not a BaseException subclass / absent *)
          | Raise e => (eff, Raise e)
          | OutOfFuel => (eff, OutOfFuel)
          | Unmodelled => (eff, Unmodelled)
          end
      | Ok _ => ([], Raise ValueError)
      | Raise e => ([], Raise e)
      | OutOfFuel => ([], OutOfFuel)
      | Unmodelled => ([], Unmodelled)
      end
    | Ok _ => ([], Raise ValueError)
    | Raise e => ([], Raise e)
    | OutOfFuel => ([], OutOfFuel)
    | Unmodelled => ([], Unmodelled)
    end
  end.

(* Connection._dispatch, MSG_EXCEPTION branch: the rebuilt exception goes to the callback of the request it answers; when
   rebuilding fails, either that failure is delivered to the request instead (generated fact: _dispatch_response; EOFError
   still propagates) or it escapes _dispatch with the callback left registered *)
Inductive delivered := ToRequest (r : lres) | FailsRequest (e : exn) | Escapes (e : exn) | DUnmodelled.
Definition is_eof (e : exn) : bool := match e with EOFError => true | _ => false end.
(* vinegar.load raises: before an object exists ([Raise]) or while filling it in ([Fail]) *)
Definition load_failure (r : result lres) : option exn :=
  match r with
  | Raise e => Some e
  | Ok (LExc _ _ _ (Fail e)) => Some e
  | _ => None
  end.
Definition dispatch_exception (delivers : bool) (r : result lres) : delivered :=
  match load_failure r, r with
  | Some e, _ => if delivers && negb (is_eof e) then FailsRequest e else Escapes e
  | None, Ok l => ToRequest l
  | None, _ => DUnmodelled
  end.

(* ---- harness interface ---- *)
Definition text_of_sx (x : sx) : text := map sx_n (sx_l x).
Definition sx_of_text (t : text) : sx := SL (map sN t).
Definition obj_of_sx (x : sx) : obj :=
  match x with
  | SL [v; r; c] => {| o_val := pv_of_sx v; o_repr := text_of_sx r; o_callable := sx_bool c |}
  | _ => {| o_val := POther 999; o_repr := []; o_callable := false |}
  end.
Definition clsid_of_sx (x : sx) : clsid :=
  match x with
  | SL [SI 0%Z; n] => Builtin (text_of_sx n)
  | SL [SI 1%Z; m; n] => Custom (text_of_sx m) (text_of_sx n)
  | _ => Custom [] []
  end.
Definition sx_of_clsid (c : clsid) : sx :=
  match c with Builtin n => SL [SI 0%Z; sx_of_text n] | Custom m n => SL [SI 1%Z; sx_of_text m; sx_of_text n] end.
Definition dirent_of_sx (x : sx) : text * option obj :=
  match x with
  | SL [n; SI 1%Z; o] => (text_of_sx n, Some (obj_of_sx o))
  | SL (n :: _) => (text_of_sx n, None)
  | _ => ([], None)
  end.
Definition exc_of_sx (x : sx) : exc :=
  match x with
  | SL [c; a; d] => {| e_cls := clsid_of_sx c; e_args := map obj_of_sx (sx_l a); e_dir := map dirent_of_sx (sx_l d) |}
  | _ => {| e_cls := Custom [] []; e_args := []; e_dir := [] |}
  end.
Definition sflags_of_sx (x : sx) : sflags :=
  match x with
  | SL [a; b; c; d] => {| incl_tb := sx_bool a; incl_ver := sx_bool b; prop_sysexit := sx_bool c; prop_kbdint := sx_bool d |}
  | _ => {| incl_tb := true; incl_ver := true; prop_sysexit := false; prop_kbdint := true |}
  end.
Definition rflags_of_sx (x : sx) : rflags :=
  match x with
  | SL [a; b; c] => {| import_custom := sx_bool a; inst_custom := sx_bool b; inst_oldstyle := sx_bool c |}
  | _ => {| import_custom := false; inst_custom := false; inst_oldstyle := false |}
  end.
Definition kind_of_sx (x : sx) : attr_kind :=
  match x with
  | SL [SI 1%Z; c; ok] => AExc (clsid_of_sx c) (sx_bool ok)
  | SL [SI 2%Z; SL imps] => ALazy (map text_of_sx imps) None
  | SL [SI 2%Z; SL imps; c; ok] => ALazy (map text_of_sx imps) (Some (clsid_of_sx c, sx_bool ok))
  | _ => AOther
  end.
Definition mode_of_sx (x : sx) : lookup_mode :=
  match sx_z x with 0%Z => LkGetattr | 1%Z => LkDictUnlessImport | _ => LkDict end.
Definition ns_of_sx (x : sx) : ns :=
  map (fun e => match e with SL [n; k] => (text_of_sx n, kind_of_sx k) | _ => ([], AOther) end) (sx_l x).
Definition mods_of_sx (x : sx) : list (text * ns) :=
  map (fun e => match e with SL [m; n] => (text_of_sx m, ns_of_sx n) | _ => ([], []) end) (sx_l x).
Definition env_of_sx (x : sx) : env :=
  match x with
  | SL [b; m; i; mj] => {| builtins_ns := ns_of_sx b; modules := mods_of_sx m; importable := mods_of_sx i; local_major := text_of_sx mj |}
  | _ => {| builtins_ns := []; modules := []; importable := []; local_major := [] |}
  end.

Definition sx_of_rcls (c : rcls) : sx :=
  match c with Real k => SL [SI 0%Z; sx_of_clsid k] | Generic m n => SL [SI 1%Z; sx_of_pv m; sx_of_pv n] end.
Definition sx_of_effect (e : effect) : sx :=
  match e with
  | EImport m => SL [SI 0%Z; sx_of_text m]
  | ENew c => SL [SI 1%Z; sx_of_rcls c]
  | EInit c => SL [SI 2%Z; sx_of_rcls c]
  end.
Definition sx_of_status (s : lstatus) : sx :=
  match s with Done tb w => SL [SS "done"; sx_of_pv tb; sbool w] | Fail e => SL [SS "fail"; SS (exn_name e)] end.
Definition sx_of_lres (r : lres) : sx :=
  match r with
  | LStop => SL [SS "stop"]
  | LStr s => SL [SS "str"; sx_of_text s]
  | LExc c a sets st => SL [SS "exc"; sx_of_rcls c; sx_of_pv a;
                            SL (map (fun nv => SL [sx_of_pv (fst nv); sx_of_pv (snd nv)]) sets); sx_of_status st]
  end.

Definition vparams_of_sx (x : sx) : vparams :=
  match x with
  | SL [a; b] => {| fast_noargs_only := sx_bool a; skip_callables := sx_bool b |}
  | _ => {| fast_noargs_only := sx_bool x; skip_callables := false |}
  end.
Definition run_vinegar (x : sx) : sx :=
  match x with
  | SL [op; p; f; ver; tb; e] =>
      if is_tag "serve" op then
        match serve_exc (vparams_of_sx p) (sflags_of_sx f) (text_of_sx ver) (text_of_sx tb) (exc_of_sx e) with
        | Routed => SL [SS "routed"]
        | Sent v => SL [SS "sent"; sx_of_pv v]
        end
      else bad_input
  | SL [op; m; f; e; v] =>
      if is_tag "load" op then
        let '(eff, r) := vload (mode_of_sx m) (rflags_of_sx f) (env_of_sx e) (pv_of_sx v) in
        SL [SL (map sx_of_effect eff); sx_result sx_of_lres r]
      else bad_input
  | _ => bad_input
  end.
