(* Model of Connection.serve / AsyncResult.wait / _seq_request_callback / AsyncResult.__call__ for any number of
   threads sharing one connection (client threads waiting for their replies, background serving threads), against
   a peer that answers outstanding requests in any order.  Timeouts are nondeterministic steps. *)
From V Require Import lib.Base lib.Sx.
From Coq Require Import String.

(* the program of serve, as emitted by tools/pygen/serve.py from the source *)
Inductive sinstr :=
| SEnterCond | STryAcquireElseWaitReturn | SExitCond      (* with self._recv_event: if not acquire(False): return wait(...) *)
| SPollRecv | SIfNoDataReturnFalse | SExceptEOFCloseRaise
| SFinallyRelease | SFinallyNotifyAll                     (* finally: release; with recv_event: notify_all() *)
| SDispatch | SReturnTrue.
Definition serve_prog : list sinstr :=
  [SEnterCond; STryAcquireElseWaitReturn; SExitCond; SPollRecv; SIfNoDataReturnFalse; SExceptEOFCloseRaise;
   SFinallyRelease; SFinallyNotifyAll; SDispatch; SReturnTrue].

Inductive pc :=
| Idle                      (* no request issued yet *)
| LoopTest                  (* AsyncResult.wait: while not ready (and not expired): serve(ttl) *)
| S1                        (* atomically under the condition mutex: try-acquire the receive lock, else wait *)
| Asleep                    (* inside recv_event.wait *)
| S2                        (* holds the receive lock: poll + recv *)
| S3                        (* holds the lock, about to release it (with or without a frame in hand) *)
| S4                        (* released, about to notify_all *)
| S5                        (* about to dispatch the frame in hand *)
| Returned                  (* wait() returned: the result cell was ready *)
| TimedOut.                 (* wait() gave up: the request's own expiry had passed and the cell was not ready (AsyncResultTimeout) *)

Inductive phase := PNone | POut | PIn | PHand (t : nat) | PDone.

Record thr := { tpc : pc; myseq : option nat; hand : option nat; server : bool (* background serving thread *) }.
Record st := {
  thrs : nat -> thr;
  counter : nat;                      (* next sequence number *)
  pending : nat -> option nat;        (* request callbacks: seq -> issuing thread *)
  inbox : list nat;                   (* replies in the stream, oldest first *)
  holder : option nat;                (* receive lock *)
  ready : nat -> bool;                (* result cells *)
  dispatched : list nat;              (* log of dispatches *)
  ph : nat -> phase;                  (* ghost: where the reply to each request is *)
  expd : nat -> bool;                 (* the request's own expiry has passed (time only moves on: set by LExpire, never reset) *)
  late : nat -> bool                  (* ghost: the reply was dispatched after the expiry and therefore dropped by AsyncResult.__call__ *)
}.

Definition upd {A} (f : nat -> A) (i : nat) (v : A) : nat -> A := fun j => if Nat.eqb j i then v else f j.
Definition set_pc (t : thr) (p : pc) : thr := {| tpc := p; myseq := myseq t; hand := hand t; server := server t |}.
Definition wake (t : thr) : thr := match tpc t with Asleep => set_pc t LoopTest | _ => t end.

Inductive label :=
| LIssue | LStep | LTimeout       (* thread steps: issue a request / the next program step / a poll or wait times out *)
| LAnswer (s : nat)               (* environment: the peer's reply to request s enters the stream *)
| LExpire (s : nat).              (* environment: the clock passes the expiry of request s *)

Definition with_thr (s : st) (i : nat) (t : thr) : st :=
  {| thrs := upd (thrs s) i t; counter := counter s; pending := pending s; inbox := inbox s; holder := holder s;
     ready := ready s; dispatched := dispatched s; ph := ph s; expd := expd s; late := late s |}.

Definition step (l : label) (i : nat) (s : st) : option st :=
  let t := thrs s i in
  match l with
  | LAnswer q =>
      match ph s q with
      | POut => Some {| thrs := thrs s; counter := counter s; pending := pending s; inbox := inbox s ++ [q]; holder := holder s;
                        ready := ready s; dispatched := dispatched s; ph := upd (ph s) q PIn; expd := expd s; late := late s |}
      | _ => None
      end
  | LExpire q =>
      Some {| thrs := thrs s; counter := counter s; pending := pending s; inbox := inbox s; holder := holder s;
              ready := ready s; dispatched := dispatched s; ph := ph s; expd := upd (expd s) q true; late := late s |}
  | LIssue =>
      match tpc t, server t with
      | Idle, false =>
          let q := counter s in
          Some {| thrs := upd (thrs s) i {| tpc := LoopTest; myseq := Some q; hand := None; server := false |};
                  counter := S q; pending := upd (pending s) q (Some i); inbox := inbox s; holder := holder s;
                  ready := ready s; dispatched := dispatched s; ph := upd (ph s) q POut; expd := expd s; late := late s |}
      | Idle, true => Some (with_thr s i (set_pc t LoopTest))
      | _, _ => None
      end
  | LTimeout =>
      match tpc t with
      | Asleep => Some (with_thr s i (set_pc t LoopTest))            (* recv_event.wait timed out: serve returns *)
      | S2 => Some (with_thr s i (set_pc t S3))                      (* poll timed out: no data; finally: release, notify *)
      | _ => None
      end
  | LStep =>
      match tpc t with
      | LoopTest =>
          match myseq t with
          | Some q => if ready s q then Some (with_thr s i (set_pc t Returned))
                      else if expd s q then Some (with_thr s i (set_pc t TimedOut))     (* while not ready and not expired *)
                      else Some (with_thr s i (set_pc t S1))
          | None => Some (with_thr s i (set_pc t S1))
          end
      | S1 =>
          match holder s with
          | None => Some {| thrs := upd (thrs s) i (set_pc t S2); counter := counter s; pending := pending s; inbox := inbox s;
                            holder := Some i; ready := ready s; dispatched := dispatched s; ph := ph s; expd := expd s; late := late s |}
          | Some _ => Some (with_thr s i (set_pc t Asleep))
          end
      | S2 =>
          match inbox s with
          | q :: rest => Some {| thrs := upd (thrs s) i {| tpc := S3; myseq := myseq t; hand := Some q; server := server t |};
                                 counter := counter s; pending := pending s; inbox := rest; holder := holder s;
                                 ready := ready s; dispatched := dispatched s; ph := upd (ph s) q (PHand i); expd := expd s; late := late s |}
          | [] => None                                                 (* blocked in poll *)
          end
      | S3 => Some {| thrs := upd (thrs s) i (set_pc t S4); counter := counter s; pending := pending s; inbox := inbox s;
                      holder := None; ready := ready s; dispatched := dispatched s; ph := ph s; expd := expd s; late := late s |}
      | S4 =>
          let woken := fun j => wake (thrs s j) in
          Some {| thrs := upd woken i (set_pc t (match hand t with Some _ => S5 | None => LoopTest end));
                  counter := counter s; pending := pending s; inbox := inbox s; holder := holder s;
                  ready := ready s; dispatched := dispatched s; ph := ph s; expd := expd s; late := late s |}
      | S5 =>
          match hand t with
          | Some q =>
              (* _seq_request_callback: pop the callback; AsyncResult.__call__: store, then mark ready *)
              Some {| thrs := upd (thrs s) i {| tpc := LoopTest; myseq := myseq t; hand := None; server := server t |};
                      counter := counter s; pending := upd (pending s) q None; inbox := inbox s; holder := holder s;
                      ready := (match pending s q with Some _ => if expd s q then ready s else upd (ready s) q true | None => ready s end);
                      dispatched := dispatched s ++ [q]; ph := upd (ph s) q PDone; expd := expd s;
                      late := (if expd s q then upd (late s) q true else late s) |}
          | None => None
          end
      | _ => None
      end
  end.

Inductive reach (s0 : st) : st -> Prop :=
| r0 : reach s0 s0
| rS s l i s' : reach s0 s -> step l i s = Some s' -> reach s0 s'.

Definition init (servers : nat -> bool) : st :=
  {| thrs := fun i => {| tpc := Idle; myseq := None; hand := None; server := servers i |};
     counter := 0; pending := fun _ => None; inbox := []; holder := None; ready := fun _ => false; dispatched := [];
     ph := fun _ => PNone; expd := fun _ => false; late := fun _ => false |}.

(* C14: a waiter is stalled when its reply has been processed but it sits in poll on an empty stream *)
Definition stalled (s : st) (w : nat) : Prop :=
  exists q, myseq (thrs s w) = Some q /\ ready s q = true /\ tpc (thrs s w) = S2 /\ inbox s = [].

(* ---- harness interface: replay a trace of (label, tid) events; report whether each was enabled and the final summary ---- *)
Definition pc_n (p : pc) : Z :=
  match p with Idle => 0 | LoopTest => 1 | S1 => 2 | Asleep => 3 | S2 => 4 | S3 => 5 | S4 => 6 | S5 => 7 | Returned => 8 | TimedOut => 9 end.
Definition label_of_sx (x : sx) : label * nat :=
  match x with
  | SL [SI 0; i] => (LIssue, sx_nat i) | SL [SI 1; i] => (LStep, sx_nat i) | SL [SI 2; i] => (LTimeout, sx_nat i)
  | SL [SI 3; q] => (LAnswer (sx_nat q), O) | SL [SI 4; q] => (LExpire (sx_nat q), O) | _ => (LTimeout, O)
  end%Z.
(* what the harness saw the thread do, checked BEFORE the model takes the step: the pc the thread must be at and, for reads and
   dispatches, the sequence number involved: [SL [SI 1; tid; SI pc; SI q]] (q = -1: no number to check) *)
Definition expect_ok (s : st) (i : nat) (e : sx) : bool :=
  match e with
  | SL [_; _; SI p; SI q] =>
      Z.eqb (pc_n (tpc (thrs s i))) p &&
      (if Z.ltb q 0 then true
       else match tpc (thrs s i) with
            | S2 => match inbox s with h :: _ => Nat.eqb h (Z.to_nat q) | [] => false end     (* the frame read is the oldest in the stream *)
            | S5 => match hand (thrs s i) with Some h => Nat.eqb h (Z.to_nat q) | None => false end
            | _ => true
            end)
  | _ => true
  end%Z.
Fixpoint replay (s : st) (evs : list sx) (k : nat) : sx + st :=
  match evs with
  | [] => inr s
  | e :: rest => let '(l, i) := label_of_sx (match e with SL (a :: b :: _) => SL [a; b] | _ => e end) in
                 if negb (expect_ok s i e) then inl (SL [SS "kind-mismatch"; snat k; SI (pc_n (tpc (thrs s i)))]) else
                 match step l i s with
                 | Some s' => replay s' rest (S k)
                 | None => inl (SL [SS "not-enabled"; snat k; SI (pc_n (tpc (thrs s i)))])
                 end
  end.
Definition run_serve (x : sx) : sx :=
  match x with
  | SL [SL servers; SL evs; SL probe_threads; SL probe_seqs] =>
      let sv := map sx_bool servers in
      match replay (init (fun i => nth i sv false)) evs O with
      | inl e => e
      | inr s => SL [SS "ok";
                     SL (map (fun t => SI (pc_n (tpc (thrs s (sx_nat t))))) probe_threads);
                     SL (map (fun q => sbool (ready s (sx_nat q))) probe_seqs);
                     SL (map snat (inbox s)); SL (map snat (dispatched s));
                     match holder s with Some h => snat h | None => SI (-1) end]
      end
  | _ => bad_input
  end.
