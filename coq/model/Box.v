(* C03 — immutable values travel by copy, everything else by reference; identity survives.
   Executable model of Connection._box / _unbox (rpyc/core/protocol.py), the weak proxy cache
   (rpyc/lib/colls.py WeakValueDict), the local-object table (RefCountingColl), get_id_pack
   (rpyc/lib/__init__.py) and obtain / deliver (rpyc/utils/classic.py), for two parties A and B
   joined by one connection.  No proofs here (see proofs/BoxP.v).

   Values are model/Brine.v's [pyval].  [POther k] is any object whose exact type is not in
   brine's registry; in one party's address space
     k odd  (2n+1) : the n-th netref (proxy object) made by that party's connection,
     k even        : an application object (k mod 4 = 2: a class object; 0: anything else:
                     list, dict, function, module, instance of a subclass of int/str/tuple/...).
   A frozenset or slice that contains such an object is itself an object that is not dumpable
   (it is neither a plain value nor an exact tuple) and so has an identity of its own.

   The two decision ladders of _box and _unbox are DATA ([bladder], [uladder]) interpreted by
   [box] / [unbox]; tools/pygen/box.py regenerates them from the source on every run
   (gen/Gen_box.v) and proofs/BoxTie.v equates them with [std_bladder] / [std_uladder], the
   ladders the theorems are proved for.  The package that goes on the wire is itself a [pyval]
   (nested tuples of label and payload), so that C04's round trip applies to it literally. *)
From V Require Import lib.Base lib.Sx model.Brine.
From Coq Require Import String.
Open Scope Z_scope.

(* ---- id packs: (name_pack, id of the class, id of the instance) ---- *)
Definition idpack := (list N * Z * Z)%type.

Fixpoint cps_eqb (a b : list N) : bool :=
  match a, b with
  | [], [] => true
  | x :: a', y :: b' => N.eqb x y && cps_eqb a' b'
  | _, _ => false
  end.
Definition idpack_eqb (a b : idpack) : bool :=
  let '(n1, c1, o1) := a in let '(n2, c2, o2) := b in
  cps_eqb n1 n2 && (c1 =? c2) && (o1 =? o2).

Definition pv_of_idpack (i : idpack) : pyval :=
  let '(n, c, o) := i in PTuple [PStr n; PInt c; PInt o].
(* _unbox, LABEL_REMOTE_REF: id_pack = (str(value[0]), value[1], value[2]) *)
Definition idpack_prefix (v : pyval) : result idpack :=
  match v with
  | PTuple (PStr n :: PInt c :: PInt o :: _) => Ok (n, c, o)
  | PTuple (_ :: _ :: _ :: _) => Unmodelled      (* str() of a non-string / ids that are not ints *)
  | PTuple _ => Raise IndexError
  | _ => Unmodelled
  end.
(* _unbox, LABEL_LOCAL_REF: the payload itself is the dictionary key *)
Definition idpack_exact (v : pyval) : result idpack :=
  match v with
  | PTuple [PStr n; PInt c; PInt o] => Ok (n, c, o)
  | _ => Unmodelled      (* any other key: KeyError unless it compares equal to a stored key *)
  end.

(* ---- association lists keyed by id pack (Python dicts) ---- *)
Fixpoint lookup {A} (k : idpack) (t : list (idpack * A)) : option A :=
  match t with
  | [] => None
  | (k', a) :: r => if idpack_eqb k k' then Some a else lookup k r
  end.
Fixpoint update {A} (k : idpack) (a : A) (t : list (idpack * A)) : list (idpack * A) :=
  match t with
  | [] => [(k, a)]
  | (k', a') :: r => if idpack_eqb k k' then (k', a) :: r else (k', a') :: update k a r
  end.
Fixpoint remove {A} (k : idpack) (t : list (idpack * A)) : list (idpack * A) :=
  match t with
  | [] => []
  | (k', a') :: r => if idpack_eqb k k' then remove k r else (k', a') :: remove k r
  end.
Definition has {A} (k : idpack) (t : list (idpack * A)) : bool :=
  match lookup k t with Some _ => true | None => false end.

(* ---- one party ---- *)
Record side := {
  ltab : list (idpack * (pyval * Z));   (* _local_objects._dict : key -> [obj, count] *)
  made : list idpack;                   (* the netrefs this connection has made; serial = position *)
  cache : list (idpack * (N * Z));      (* _proxy_cache, live entries: key -> (serial, ____refcount__) *)
  mlog : list (pyval * Z)               (* operations the peer applied to this party's objects *)
}.
Definition side0 : side := {| ltab := []; made := []; cache := []; mlog := [] |}.
Definition set_ltab (s : side) t := {| ltab := t; made := made s; cache := cache s; mlog := mlog s |}.
Definition set_cache (s : side) c := {| ltab := ltab s; made := made s; cache := c; mlog := mlog s |}.
Definition set_mlog (s : side) l := {| ltab := ltab s; made := made s; cache := cache s; mlog := l |}.

(* RefCountingColl.add / decref (the constants are C10's subject; tied in proofs/BoxTie.v) *)
Definition coll_add (k : idpack) (obj : pyval) (t : list (idpack * (pyval * Z))) :=
  match lookup k t with
  | None => update k (obj, 0) t
  | Some (o, c) => update k (o, c + 1) t
  end.
Definition coll_decref (k : idpack) (n : Z) (t : list (idpack * (pyval * Z))) : result (list (idpack * (pyval * Z))) :=
  match lookup k t with
  | None => Raise KeyError
  | Some (o, c) => Ok (if c <? n then remove k t else update k (o, c - n) t)
  end.

(* ---- the ladders, as data ---- *)
Inductive bcond := CDumpable | CExactTuple | COwnNetref.
Inductive bact := AValue | AItems | AProxyId | ARegister.
Record bladder := { b_rungs : list (bcond * (Z * bact)); b_else : Z * bact }.
Inductive uact := UValue | UItems | ULocal | URemote.
Definition uladder := list (Z * uact).

Definition std_bladder : bladder :=
  {| b_rungs := [(CDumpable, (1, AValue)); (CExactTuple, (2, AItems)); (COwnNetref, (3, AProxyId))];
     b_else := (4, ARegister) |}.
Definition std_uladder : uladder := [(1, UValue); (2, UItems); (3, ULocal); (4, URemote)].

Definition proxy_name (n : N) : N := (2 * n + 1)%N.
Definition proxy_serial (v : pyval) : option N :=
  match v with POther k => if N.odd k then Some (k / 2)%N else None | _ => None end.
Definition pair (lab : Z) (x : pyval) : pyval := PTuple [PInt lab; x].

(* ---- _box ---- *)
Section BoxS.
Variable lad : bladder.
Variable idp : pyval -> idpack.          (* get_id_pack *)
Variable mk : list idpack.               (* [made] of the sending party *)

(* isinstance(obj, netref.BaseNetref) and obj.____conn__ is self  ->  obj.____id_pack__ *)
Definition own_proxy (v : pyval) : option idpack :=
  match proxy_serial v with Some n => nth_error mk (N.to_nat n) | None => None end.
Definition cond_holds (c : bcond) (v : pyval) : bool :=
  match c with
  | CDumpable => dumpable v
  | CExactTuple => match v with PTuple _ => true | _ => false end
  | COwnNetref => match own_proxy v with Some _ => true | None => false end
  end.
Fixpoint pick (rungs : list (bcond * (Z * bact))) (v : pyval) : Z * bact :=
  match rungs with
  | [] => b_else lad
  | (c, a) :: r => if cond_holds c v then a else pick r v
  end.

(* result: the package and the objects handed to _local_objects.add, in order *)
Fixpoint box (v : pyval) : result (pyval * list pyval) :=
  match pick (b_rungs lad) v with
  | (lab, AValue) => Ok (pair lab v, [])
  | (lab, AItems) =>
      match v with
      | PTuple l =>
          do (ps, rs) <- (fix go (l : list pyval) : result (list pyval * list pyval) :=
                            match l with
                            | [] => Ok ([], [])
                            | y :: ys => do (p, r) <- box y; do (ps, rs) <- go ys; Ok (p :: ps, r ++ rs)
                            end) l;
          Ok (pair lab (PTuple ps), rs)
      | _ => Unmodelled
      end
  | (lab, AProxyId) =>
      match own_proxy v with
      | Some i => Ok (pair lab (pv_of_idpack i), [])
      | None => Raise AttributeError
      end
  | (lab, ARegister) => Ok (pair lab (pv_of_idpack (idp v)), [v])
  end.
Fixpoint box_items (l : list pyval) : result (list pyval * list pyval) :=
  match l with
  | [] => Ok ([], [])
  | y :: ys => do (p, r) <- box y; do (ps, rs) <- box_items ys; Ok (p :: ps, r ++ rs)
  end.

Definition register (regs : list pyval) (t : list (idpack * (pyval * Z))) :=
  fold_left (fun t v => coll_add (idp v) v t) regs t.
End BoxS.

(* ---- _unbox ---- *)
(* label == consts.LABEL_X : ints and bools compare by number *)
Definition label_num (lab : pyval) : result (option Z) :=
  match lab with
  | PInt z => Ok (Some z)
  | PBool b => Ok (Some (if b then 1 else 0))
  | PFloat _ | PComplex _ => Unmodelled
  | _ => Ok None
  end.
Fixpoint pick_label (ul : uladder) (z : option Z) : result uact :=
  match ul with
  | [] => Raise ValueError               (* raise ValueError("invalid label %r") *)
  | (l, a) :: r => match z with
                   | Some x => if x =? l then Ok a else pick_label r z
                   | None => pick_label r z
                   end
  end.

(* the proxy for key k: the live cached one (its count goes up) or a fresh one *)
Definition accept (k : idpack) (s : side) : pyval * side :=
  match lookup k (cache s) with
  | Some (n, rc) => (POther (proxy_name n), set_cache s (update k (n, rc + 1) (cache s)))
  | None => let n := nlen (made s) in
            (POther (proxy_name n),
             {| ltab := ltab s; made := made s ++ [k]; cache := update k (n, 1) (cache s); mlog := mlog s |})
  end.

(* An arrival is not atomic when the class of the object is unknown: _unbox finds no proxy, _netref_factory asks the owner
   for the class (HANDLE_INSPECT) and, WHILE IT WAITS, serves whatever else arrives.  [nested_arrival]: the object k arrives
   twice; the second arrival is dispatched completely while the first waits for the class; then the first resumes.
   [recheck] is the generated fact Gen_box.factory_rechecks_cache_after_inspect: does the resuming arrival look at the proxy
   cache again (and join the proxy that exists, adding its count), or does it go on with what it saw before the wait
   (make a proxy of its own and overwrite the cache entry).  Result: (proxy of the first arrival, proxy of the second). *)
Definition store_fresh (k : idpack) (s : side) : pyval * side :=
  let n := nlen (made s) in
  (POther (proxy_name n),
   {| ltab := ltab s; made := made s ++ [k]; cache := update k (n, 1) (cache s); mlog := mlog s |}).
Definition nested_arrival (recheck : bool) (k : idpack) (r : side) : (pyval * pyval) * side :=
  let (p2, r1) := accept k r in
  let (p1, r2) := if recheck then accept k r1 else store_fresh k r1 in
  ((p1, p2), r2).

Section UnboxS.
Variable ulad : uladder.
Variable fok : idpack -> bool.     (* _netref_factory can build a class: builtin name, or the owner answers HANDLE_INSPECT *)

Fixpoint unbox (pkg : pyval) (s : side) {struct pkg} : result (pyval * side) :=
  match pkg with
  | PTuple [lab; value] =>
      do z <- label_num lab;
      do a <- pick_label ulad z;
      match a with
      | UValue => Ok (value, s)
      | UItems =>
          match value with
          | PTuple l =>
              do (vs, s') <- (fix go (l : list pyval) (s : side) : result (list pyval * side) :=
                                match l with
                                | [] => Ok ([], s)
                                | y :: ys => do (v, s1) <- unbox y s; do (vs, s2) <- go ys s1; Ok (v :: vs, s2)
                                end) l s;
              Ok (PTuple vs, s')
          | _ => Unmodelled
          end
      | ULocal =>
          do k <- idpack_exact value;
          match lookup k (ltab s) with
          | Some (obj, _) => Ok (obj, s)
          | None => Raise KeyError
          end
      | URemote =>
          do k <- idpack_prefix value;
          match lookup k (cache s) with
          | Some _ => Ok (accept k s)
          | None => if fok k then Ok (accept k s) else Raise KeyError
          end
      end
  | PTuple _ => Raise ValueError        (* label, value = package *)
  | _ => Unmodelled
  end.
Fixpoint unbox_items (l : list pyval) (s : side) : result (list pyval * side) :=
  match l with
  | [] => Ok ([], s)
  | y :: ys => do (v, s1) <- unbox y s; do (vs, s2) <- unbox_items ys s1; Ok (v :: vs, s2)
  end.
End UnboxS.

(* ---- two parties ---- *)
Record world := { wa : side; wb : side }.
Definition world0 : world := {| wa := side0; wb := side0 |}.
Definition get (w : world) (a : bool) : side := if a then wa w else wb w.
Definition put2 (from_a : bool) (snd rcv : side) : world :=
  if from_a then {| wa := snd; wb := rcv |} else {| wa := rcv; wb := snd |}.

Section World.
Variable P : bparams.
Variable bl : bladder.
Variable ul : uladder.
Variable idp : pyval -> idpack.

(* one object travels from one party to the other: _box, brine.dump, the wire, brine.load, _unbox *)
Definition transfer (from_a : bool) (v : pyval) (w : world) : result (pyval * world) :=
  let s := get w from_a in
  let r := get w (negb from_a) in
  do (pkg, regs) <- box bl idp (made s) v;
  let s' := set_ltab s (register idp regs (ltab s)) in
  do bytes <- dump P pkg;
  do pkg' <- load P bytes;
  do (v', r') <- unbox ul (fun k => has k (ltab s')) pkg' r;
  Ok (v', put2 from_a s' r').

(* the application at [at_a] lets go of its n-th proxy: the weak cache entry vanishes and the
   finalizer sends HANDLE_DEL(proxy, ____refcount__); the owner serves _handle_del *)
Definition drop (at_a : bool) (n : N) (w : world) : result world :=
  let s := get w at_a in
  match nth_error (made s) (N.to_nat n) with
  | None => Ok w
  | Some k =>
      match lookup k (cache s) with
      | Some (n', rc) =>
          if (n' =? n)%N then
            match transfer at_a (PTuple [POther (proxy_name n); PInt rc]) w with
            | Ok (args, w1) =>
                let s1 := get w1 at_a in
                let o1 := get w1 (negb at_a) in
                let s2 := set_cache s1 (remove k (cache s1)) in
                match args with
                | PTuple [obj; PInt c] =>
                    match coll_decref (idp obj) c (ltab o1) with
                    | Ok t => Ok (put2 at_a s2 (set_ltab o1 t))
                    | _ => Ok (put2 at_a s2 o1)          (* the exception reply is ignored by asyncreq *)
                    end
                | _ => Ok (put2 at_a s2 o1)
                end
            | _ =>    (* the owner could not even resolve the reference: the proxy is gone all the same (the finalizer
                         swallows every exception) *)
                Ok (put2 at_a (set_cache s (remove k (cache s))) (get w (negb at_a)))
            end
          else Ok w
      | None => Ok w
      end
  end.

(* an operation with argument d applied through the n-th proxy held at [at_a]:
   the request carries (proxy, d); the owner applies it to what _unbox gives it *)
Definition mutate (at_a : bool) (n : N) (d : Z) (w : world) : result world :=
  do (args, w1) <- transfer at_a (PTuple [POther (proxy_name n); PInt d]) w;
  match args with
  | PTuple [target; PInt d'] =>
      let o1 := get w1 (negb at_a) in
      Ok (put2 at_a (get w1 at_a) (set_mlog o1 (mlog o1 ++ [(target, d')])))
  | _ => Raise TypeError
  end.

(* a misbehaving peer: an arbitrary package reaches _unbox of party [to_a] *)
Definition raw_unbox (to_a : bool) (fok : bool) (pkg : pyval) (w : world) : result (pyval * world) :=
  let r := get w to_a in
  do (v, r') <- unbox ul (fun _ => fok) pkg r;
  Ok (v, put2 to_a r' (get w (negb to_a))).

(* ---- explicit copy transfer (rpyc/utils/classic.py); pickle is outside: two functions ---- *)
Section Pickle.
Variable pk_dumps : pyval -> list byte.
Variable pk_loads : list byte -> pyval.

(* obtain(proxy) = pickle.loads(pickle.dumps(proxy)): the netref's __reduce_ex__ asks the owner
   (HANDLE_PICKLE) for the pickled bytes of the object; they come back by value *)
Definition obtain (at_a : bool) (n : N) (proto : Z) (w : world) : result (pyval * world) :=
  do (args, w1) <- transfer at_a (PTuple [POther (proxy_name n); PInt proto]) w;
  match args with
  | PTuple [obj; PInt _] =>
      do (b, w2) <- transfer (negb at_a) (PBytes (pk_dumps obj)) w1;
      match b with
      | PBytes bs => Ok (pk_loads bs, w2)
      | _ => Raise TypeError
      end
  | _ => Raise TypeError
  end.

(* deliver(conn, obj) = conn.modules[...].pickle.loads(bytes(pickle.dumps(obj))): the bytes go by value,
   the peer unpickles, the result comes back the way every result does *)
Definition deliver (at_a : bool) (v : pyval) (w : world) : result (pyval * world) :=
  do (b, w1) <- transfer at_a (PBytes (pk_dumps v)) w;
  match b with
  | PBytes bs => transfer (negb at_a) (pk_loads bs) w1
  | _ => Raise TypeError
  end.
End Pickle.

(* ---- histories ---- *)
Inductive op :=
| Send (from_a : bool) (v : pyval)
| Drop (at_a : bool) (n : N)
| Mutate (at_a : bool) (n : N) (d : Z)
| Raw (to_a : bool) (fok : bool) (pkg : pyval).

(* a step that raises leaves the world as it was *)
Definition step (o : op) (w : world) : result (pyval * world) :=
  match o with
  | Send a v => transfer a v w
  | Drop a n => do w' <- drop a n w; Ok (PNone, w')
  | Mutate a n d => do w' <- mutate a n d w; Ok (PNone, w')
  | Raw a f pkg => raw_unbox a f pkg w
  end.
Fixpoint run (ops : list op) (w : world) : list (result pyval) * world :=
  match ops with
  | [] => ([], w)
  | o :: r =>
      match step o w with
      | Ok (v, w') => let (vs, w2) := run r w' in (Ok v :: vs, w2)
      | Raise e => let (vs, w2) := run r w in (Raise e :: vs, w2)
      | OutOfFuel => let (vs, w2) := run r w in (OutOfFuel :: vs, w2)
      | Unmodelled => let (vs, w2) := run r w in (Unmodelled :: vs, w2)
      end
  end.
End World.

(* ---- a concrete get_id_pack for the executable model ----
   name "o"; the address of application object k is k+8 (never 0);
   class objects (k mod 4 = 2): (name, id(obj), 0);  others: (name, id(type(obj)) = 1, id(obj));
   a frozenset / slice with an object inside: its address is derived from the largest object name
   inside (the harness gives every such compound an object of its own). *)
Fixpoint max_other (v : pyval) : N :=
  match v with
  | POther k => k
  | PTuple l | PFset l => fold_right (fun y m => N.max (max_other y) m) 0%N l
  | PSlice a b c => N.max (max_other a) (N.max (max_other b) (max_other c))
  | _ => 0%N
  end.
Definition idp_std (v : pyval) : idpack :=
  match v with
  | POther k => if (k mod 4 =? 2)%N then ([111%N], Z.of_N k + 8, 0) else ([111%N], 1, Z.of_N k + 8)
  | PFset _ => ([102%N], 3, 8 * Z.of_N (max_other v) + 5)
  | PSlice _ _ _ => ([115%N], 5, 8 * Z.of_N (max_other v) + 7)
  | _ => ([118%N], 7, 8 * Z.of_N (max_other v) + 3)
  end.

(* get_id_pack is NOT a function of the object's identity alone: the name and the class id in the pack follow the
   object's current class (o.__class__ = K2) and the class's current name (K.__name__ = "X").  [ren] lists the
   application objects whose pack has been changed that way (an even number of times = back to the original). *)
Fixpoint rekeyed (ren : list N) (k : N) : bool :=
  match ren with
  | [] => false
  | x :: r => xorb (N.eqb x k) (rekeyed r k)
  end.
Definition idp_ren (ren : list N) (v : pyval) : idpack :=
  match v with
  | POther k => let '(n, c, o) := idp_std v in if rekeyed ren k then (n ++ [114%N], c, o) else (n, c, o)
  | _ => idp_std v
  end.

(* ---- harness interface ---- *)
Definition sx_idpack (i : idpack) : sx := let '(n, c, o) := i in SL [SL (map sN n); SI c; SI o].
Definition sx_side (s : side) : sx :=
  SL [SL (map (fun e => SL [sx_idpack (fst e); sx_of_pv (fst (snd e)); SI (snd (snd e))]) (ltab s));
      SL (map (fun e => SL [sx_idpack (fst e); sN (fst (snd e)); SI (snd (snd e))]) (cache s));
      snat (List.length (made s));
      SL (map (fun e => SL [sx_of_pv (fst e); SI (snd e)]) (mlog s))].
Definition sx_world (w : world) : sx := SL [sx_side (wa w); sx_side (wb w)].

Definition op_of_sx (x : sx) : op :=
  match x with
  | SL [SI 0; a; v] => Send (sx_bool a) (pv_of_sx v)
  | SL [SI 1; a; n] => Drop (sx_bool a) (sx_n n)
  | SL [SI 2; a; n; d] => Mutate (sx_bool a) (sx_n n) (sx_z d)
  | SL [SI 3; a; f; p] => Raw (sx_bool a) (sx_bool f) (pv_of_sx p)
  | _ => Drop true 0%N
  end.

Definition bcond_of_sx (x : sx) : bcond := match sx_z x with 0 => CDumpable | 1 => CExactTuple | _ => COwnNetref end.
Definition bact_of_sx (x : sx) : bact := match sx_z x with 0 => AValue | 1 => AItems | 2 => AProxyId | _ => ARegister end.
Definition uact_of_sx (x : sx) : uact := match sx_z x with 0 => UValue | 1 => UItems | 2 => ULocal | _ => URemote end.
Definition bladder_of_sx (x : sx) : bladder :=
  match x with
  | SL [SL rungs; SL [l; a]] =>
      {| b_rungs := map (fun r => match r with SL [c; l; a] => (bcond_of_sx c, (sx_z l, bact_of_sx a)) | _ => (CDumpable, (0, AValue)) end) rungs;
         b_else := (sx_z l, bact_of_sx a) |}
  | _ => std_bladder
  end.
Definition uladder_of_sx (x : sx) : uladder :=
  match x with
  | SL rungs => map (fun r => match r with SL [l; a] => (sx_z l, uact_of_sx a) | _ => (0, UValue) end) rungs
  | _ => std_uladder
  end.

(* a history as the harness sees it: the model's steps, and changes of an object's class / class name in between *)
Inductive top := TOp (o : op) | TRekey (a : bool) (ks : list N).
Definition top_of_sx (x : sx) : top :=
  match x with
  | SL [SI 4; a; SL ks] => TRekey (sx_bool a) (map sx_n ks)
  | _ => TOp (op_of_sx x)
  end.

(* trace: after every step the outcome, the package that went on the wire (Send only) and both parties.
   get_id_pack is evaluated at the party that owns the objects of the step. *)
Fixpoint trace (P : bparams) (bl : bladder) (ul : uladder) (ops : list top) (w : world) (ra rb : list N) : list sx :=
  match ops with
  | [] => []
  | TRekey a ks :: r =>
      SL [sx_result sx_of_pv (Ok PNone); SL []; sx_world w]
        :: trace P bl ul r w (if a then ks ++ ra else ra) (if a then rb else ks ++ rb)
  | TOp o :: r =>
      let idp := match o with
                 | Send a _ => idp_ren (if a then ra else rb)
                 | Drop a _ | Mutate a _ _ => idp_ren (if a then rb else ra)
                 | Raw _ _ _ => idp_std
                 end in
      let pkg := match o with
                 | Send a v => sx_result (fun pr => SL [sx_of_pv (fst pr); SL (map sx_of_pv (snd pr))]) (box bl idp (made (get w a)) v)
                 | _ => SL []
                 end in
      let res := step P bl ul idp o w in
      let w' := match res with Ok (_, w') => w' | _ => w end in
      SL [sx_result (fun vw => sx_of_pv (fst vw)) res; pkg; sx_world w'] :: trace P bl ul r w' ra rb
  end.

Definition run_box (x : sx) : sx :=
  match x with
  | SL [tag; p; bl; ul; SL ops] =>
      if is_tag "hist" tag then
        SL (trace (params_of_sx p) (bladder_of_sx bl) (uladder_of_sx ul) (map top_of_sx ops) world0 [] [])
      else bad_input
  | SL [tag; v] =>
      if is_tag "idp" tag then sx_idpack (idp_std (pv_of_sx v))
      else if is_tag "idpr" tag then sx_idpack (idp_ren [max_other (pv_of_sx v)] (pv_of_sx v))
      else bad_input
  | _ => bad_input
  end.
