(* Executable model of rpyc/utils/server.py: the bookkeeping of Server / ThreadedServer / ThreadPoolServer /
   OneShotServer / ForkingServer as a transition system over events of the accept loop, the clients, the
   per-client workers (thread, child process, inline), the pool's polling thread and pool workers, and close().

   What a client sends is a byte string; the worker that reads it sees what Channel.recv + brine.load +
   Connection._dispatch make of it: a complete frame carrying a request, a complete frame that raises (garbage
   payload, corrupt compressed data, unknown message), an incomplete frame (header promises more than was sent,
   absurd length: the reader BLOCKS), or nothing.  zlib and the request decoder are parameters.

   Each connection owns an endpoint: the service instance made for it by Service._connect (when a class is
   registered; the one shared instance otherwise) and the table of objects exported over it.
   Threads, processes, fork, poll and the kernel are represented only by their effect on this bookkeeping. *)
From V Require Import lib.Base lib.Sx.
From Coq Require Import String.

Definition cid := nat.                       (* a client connection: the accepted socket *)
Definition oid := (nat * nat)%type.          (* an exported object: (owner: the connection whose service instance made it, or 0 for the shared instance; index) *)

Inductive skind := Threaded | Pool | OneShot | Forking.

(* facts read off the source by tools/pygen/server.py *)
Record facts := {
  pool_close_drops : bool;      (* ThreadPoolServer.close closes the connections still in fd_to_conn *)
  pool_fail_discards : bool;    (* ThreadPoolServer._accept_method removes the socket from self.clients when building the connection failed *)
  fork_parent_keeps : bool;     (* ForkingServer's parent keeps the accepted socket in self.clients (so that close() reaches it) *)
  pool_catches_base : bool;     (* ThreadPoolServer._serve_requests catches a BaseException that is not an Exception (drops that connection) *)
  worker_tracks_served : bool;  (* _authenticate_and_serve_client keeps in self.clients the socket it actually serves (the one the authenticator returned) *)
  accept_survives_oserror : bool;  (* Server.accept carries on after an OS error of accept() that is not the listener failing (EMFILE, ENFILE, ECONNABORTED ...) *)
  accept_rechecks_closed : bool;   (* Server.accept looks at _closed again after clients.add(sock): a close() running meanwhile cannot miss the socket *)
  accept_survives_spawn_failure : bool  (* Server.accept gives up a client for which _accept_method cannot start a thread / child process
                                           (RuntimeError, OSError: resource limit) and goes on, instead of letting the error end start() *)
}.
Record cfg := { kind : skind; fx : facts; has_auth : bool; class_svc : bool; nworkers : nat; batch : nat;
                auth_replaces : bool   (* the authenticator returns another socket object than it was given (TLS wrapping) *) }.

(* ---- control skeletons of the methods the model is written against, as emitted by tools/pygen/server.py
        (proofs/ServerTie.v: the regenerated lists equal these) ---- *)
Inductive sinstr :=
| CIfClosedReturn | CSetClosed | CClearActive | CUnregisterGuarded | CListenerShutdownGuarded | CListenerClose
| CForClientsShutdownClose | CClientsClear
| AWhileActive | AAccept | ATimeoutContinue | AEintrContinue | AErrorRaiseEOF | AElseBreak | AIfInactiveReturn
| ASetBlocking | AClientsAdd | ACallAcceptMethod | AResourceErrorSleepContinue | ARecheckClosed | ASpawnFailDiscardClose
| WTry | WIfAuthenticator | WAuthenticate | WAuthErrorReturn | WTrackReplacedSocket | WServeClient | WReraise | WFinallyShutdownGuarded | WFinallyDiscard
| VPeerName | VTry | VConfig | VConnect | VHandle | VFinallyPass | HServeAll
| SListen | SRegister | STryWhileActiveAccept | SExceptEOFPass | SExceptKeyboardInterrupt | SFinallyClose
| OTryServeInline | OFinallyClose | TSpawnWorker
| KFork | KChildRestoreSignals | KChildCloseListener | KChildClearClients | KChildServe | KChildExit | KParentCloseSock | KParentDiscard
| FCBaseClose | FCRestoreSignal
| PCBaseClose | PCJoinPoller | PCDropAll | PCPutNone | PCJoinWorkers
| PATry | PAAuthenticateAndBuildInline | PAFileno | PARegisterFdToConn | PAAddInactive | PAClientsClear | PAExceptCloseSock | PAExceptDiscard
| PBIfAuthenticator | PBAuthenticate | PBPeerName | PBConfig | PBConnect
| DLookupDeleteGuarded | DCloseIfFound
| RForEach | RUnregister | RIfErrorDrop | RElseEnqueue | RKeyErrorPass
| LWhileActive | LPoll | LHandle | LExceptSleep
| QForBatch | QPollServes | QIfNothingAddInactiveReturn | QEOFDropReturn | QOtherRequeueRaise | QBaseDropReturn | QBatchDoneRequeue
| XWhileActive | XBlockingGet | XIfFdServe | XEmptyPass | XExceptSleep
| IRegisterREH | IUnregisterGuarded.

Definition close_prog := [CIfClosedReturn; CSetClosed; CClearActive; CUnregisterGuarded; CListenerShutdownGuarded; CListenerClose;
                          CForClientsShutdownClose; CClientsClear].                                  (* server_close *)
Definition accept_prog_of (survives rechecks spawnguard : bool) :=
  [AWhileActive; AAccept; ATimeoutContinue; AEintrContinue] ++ (if survives then [AResourceErrorSleepContinue] else [])
  ++ [AErrorRaiseEOF; AElseBreak; AIfInactiveReturn; ASetBlocking; AClientsAdd] ++ (if rechecks then [ARecheckClosed] else [])
  ++ [ACallAcceptMethod] ++ (if spawnguard then [ASpawnFailDiscardClose] else []).                    (* EAccept / EAcceptFail / ESpawnFail *)
Definition worker_prog_of (tracks : bool) :=
  [WTry; WIfAuthenticator; WAuthenticate; WAuthErrorReturn] ++ (if tracks then [WTrackReplacedSocket] else [])
  ++ [WServeClient; WReraise; WFinallyShutdownGuarded; WFinallyDiscard].                              (* work / finish_own *)
Definition serve_client_prog := [VPeerName; VTry; VConfig; VConnect; VHandle; VFinallyPass].
Definition handle_prog := [HServeAll].
Definition start_prog := [SListen; SRegister; STryWhileActiveAccept; SExceptEOFPass; SExceptKeyboardInterrupt; SFinallyClose].
Definition oneshot_prog := [OTryServeInline; OFinallyClose].                                         (* busy + finish_own closes *)
Definition threaded_prog := [TSpawnWorker].
Definition forking_prog := [KFork; KChildRestoreSignals; KChildCloseListener; KChildClearClients; KChildServe; KChildExit;
                            KParentCloseSock; KParentDiscard].
Definition forking_close_prog := [FCBaseClose; FCRestoreSignal].
(* ThreadPoolServer.close: the two shapes known to the translator *)
Definition pool_close_prog_of (drops_before_join : bool) (drops : bool) :=
  if drops then (if drops_before_join then [PCBaseClose; PCDropAll; PCJoinPoller; PCPutNone; PCJoinWorkers]
                 else [PCBaseClose; PCJoinPoller; PCDropAll; PCPutNone; PCJoinWorkers])
  else [PCBaseClose; PCJoinPoller; PCPutNone; PCJoinWorkers].
Definition pool_accept_prog_of (discards : bool) :=
  [PATry; PAAuthenticateAndBuildInline; PAFileno; PARegisterFdToConn; PAAddInactive; PAClientsClear; PAExceptCloseSock]
  ++ (if discards then [PAExceptDiscard] else []).
Definition pool_build_prog := [PBIfAuthenticator; PBAuthenticate; PBPeerName; PBConfig; PBConnect].
Definition drop_prog := [DLookupDeleteGuarded; DCloseIfFound].                                       (* drop *)
Definition poll_result_prog := [RForEach; RUnregister; RIfErrorDrop; RElseEnqueue; RKeyErrorPass].   (* poll_step *)
Definition poller_prog := [LWhileActive; LPoll; LHandle; LExceptSleep].
Definition serve_requests_prog_of (catches_base : bool) :=
  [QForBatch; QPollServes; QIfNothingAddInactiveReturn; QEOFDropReturn; QOtherRequeueRaise]
  ++ (if catches_base then [QBaseDropReturn] else []) ++ [QBatchDoneRequeue].                         (* serve_step *)
Definition pool_worker_prog := [XWhileActive; XBlockingGet; XIfFdServe; XEmptyPass; XExceptSleep].   (* take_step *)
Definition add_inactive_prog := [IRegisterREH].
Definition remove_inactive_prog := [IUnregisterGuarded].

Inductive auth := AuthOk | AuthFail | AuthStall.   (* what the client does about authentication: pass, fail, never finish *)
Inductive req := QRoot | QBump (o : oid) | QMake (o : oid) | QStr (o : oid) | QDel (o : oid) | QClose
| QStall   (* not a request: a complete message whose processing makes the server WAIT for this client: a nested request the client
              never answers, a reply the client never reads.  The reader blocks as on an unfinished frame. *)
| QKill.   (* not a request: a message whose processing ends in a BaseException that is not an Exception, e.g. an unsolicited reply
              carrying a remote reference -> nested HANDLE_INSPECT -> answered with an exception record for SystemExit *)
Inductive reply := POid (o : oid) | PVal (n : nat) | POk | PErr.
Inductive stage :=
| Fresh         (* never connected *)
| Backlog       (* connected (may already send, or leave), waiting in the listener's queue *)
| Own           (* its own worker serves it: thread (threaded), child process (forking), the accept loop itself (one-shot) *)
| Authing       (* thread pool: the accept loop is inside the authenticator for this socket *)
| Pooled        (* thread pool: registered in fd_to_conn *)
| Finished.     (* the server side is done with it *)

Record svc := { cnt : nat; nmade : nat }.     (* state of a service instance: a counter, number of objects it created *)
Record conn := {
  stg : stage;
  abeh : auth;
  authd : bool;          (* authenticated and Service._connect done: a service instance / Connection exists *)
  inb : list byte;       (* bytes sent by the client, not yet consumed by the server *)
  gone : bool;           (* the client has left *)
  shut : bool;           (* the server has shut down / closed its socket for this client: the client reads end-of-stream *)
  cclosed : bool;        (* Connection._closed *)
  hooks : nat;           (* calls of on_disconnect *)
  own : svc;             (* the connection's own service instance (class registered) *)
  table : list oid;      (* Connection._local_objects, as a multiset *)
  out : list reply;      (* replies sent on this connection *)
  hist : list req        (* ghost: requests served on this connection *)
}.
Record st := {
  active : bool; closed : bool; lopen : bool;
  busy : option cid;                       (* the accept loop is occupied with this client (one-shot: serving; pool: authenticating) *)
  clients : list cid;                      (* Server.clients *)
  fdmap : list cid;                        (* ThreadPoolServer.fd_to_conn *)
  pollset : list cid;                      (* registered in poll_object *)
  queue : list cid;                        (* _active_connection_queue, head first *)
  workers : list (option (cid * nat));     (* pool workers: idle, or inside _serve_requests(c) with n >= 1 polls of the batch left;
                                              (c, 0): the thread DIED while it held c *)
  shared : svc;                            (* the one service instance when an instance (not a class) is registered *)
  conns : cid -> conn;
  accepted : list cid;                     (* ghost: accepted connections, oldest first *)
  backlog : list cid                       (* connections the listener holds, oldest first *)
}.

(* ---- small list helpers ---- *)
Definition mem (c : cid) (l : list cid) : bool := existsb (Nat.eqb c) l.
Definition rm (c : cid) (l : list cid) : list cid := filter (fun x => negb (Nat.eqb x c)) l.
Definition oeqb (a b : oid) : bool := Nat.eqb (fst a) (fst b) && Nat.eqb (snd a) (snd b).
Definition omem (o : oid) (l : list oid) : bool := existsb (oeqb o) l.
Fixpoint orm1 (o : oid) (l : list oid) : list oid :=
  match l with [] => [] | x :: r => if oeqb o x then r else x :: orm1 o r end.
Fixpoint set_nth {A} (n : nat) (v : A) (l : list A) : list A :=
  match l, n with
  | [], _ => []
  | _ :: r, O => v :: r
  | x :: r, S m => x :: set_nth m v r
  end.
Definition is_none {A} (o : option A) : bool := match o with None => true | Some _ => false end.
Definition is_fresh (g : stage) : bool := match g with Fresh => true | _ => false end.

(* ---- record updates ---- *)
Definition upd (f : cid -> conn) (c : cid) (k : conn) : cid -> conn := fun x => if Nat.eqb x c then k else f x.
Definition with_conns (s : st) (f : cid -> conn) : st :=
  {| active := active s; closed := closed s; lopen := lopen s; busy := busy s; clients := clients s; fdmap := fdmap s;
     pollset := pollset s; queue := queue s; workers := workers s; shared := shared s; conns := f; accepted := accepted s; backlog := backlog s |}.
Definition set_conn (s : st) (c : cid) (k : conn) : st := with_conns s (upd (conns s) c k).
Definition with_clients (s : st) (l : list cid) : st :=
  {| active := active s; closed := closed s; lopen := lopen s; busy := busy s; clients := l; fdmap := fdmap s;
     pollset := pollset s; queue := queue s; workers := workers s; shared := shared s; conns := conns s; accepted := accepted s; backlog := backlog s |}.
Definition with_busy (s : st) (b : option cid) : st :=
  {| active := active s; closed := closed s; lopen := lopen s; busy := b; clients := clients s; fdmap := fdmap s;
     pollset := pollset s; queue := queue s; workers := workers s; shared := shared s; conns := conns s; accepted := accepted s; backlog := backlog s |}.
Definition with_pool (s : st) (fm ps qu : list cid) (ws : list (option (cid * nat))) : st :=
  {| active := active s; closed := closed s; lopen := lopen s; busy := busy s; clients := clients s; fdmap := fm;
     pollset := ps; queue := qu; workers := ws; shared := shared s; conns := conns s; accepted := accepted s; backlog := backlog s |}.
Definition with_shared (s : st) (v : svc) : st :=
  {| active := active s; closed := closed s; lopen := lopen s; busy := busy s; clients := clients s; fdmap := fdmap s;
     pollset := pollset s; queue := queue s; workers := workers s; shared := v; conns := conns s; accepted := accepted s; backlog := backlog s |}.
Definition with_accepted (s : st) (l : list cid) : st :=
  {| active := active s; closed := closed s; lopen := lopen s; busy := busy s; clients := clients s; fdmap := fdmap s;
     pollset := pollset s; queue := queue s; workers := workers s; shared := shared s; conns := conns s; accepted := l; backlog := backlog s |}.

Definition with_backlog (s : st) (l : list cid) : st :=
  {| active := active s; closed := closed s; lopen := lopen s; busy := busy s; clients := clients s; fdmap := fdmap s;
     pollset := pollset s; queue := queue s; workers := workers s; shared := shared s; conns := conns s; accepted := accepted s;
     backlog := l |}.

Definition k_stage (k : conn) (g : stage) : conn :=
  {| stg := g; abeh := abeh k; authd := authd k; inb := inb k; gone := gone k; shut := shut k; cclosed := cclosed k;
     hooks := hooks k; own := own k; table := table k; out := out k; hist := hist k |}.
Definition k_abeh (k : conn) (a : auth) : conn :=
  {| stg := stg k; abeh := a; authd := authd k; inb := inb k; gone := gone k; shut := shut k; cclosed := cclosed k;
     hooks := hooks k; own := own k; table := table k; out := out k; hist := hist k |}.
Definition k_authd (k : conn) : conn :=
  {| stg := stg k; abeh := abeh k; authd := true; inb := inb k; gone := gone k; shut := shut k; cclosed := cclosed k;
     hooks := hooks k; own := own k; table := table k; out := out k; hist := hist k |}.
Definition k_inb (k : conn) (b : list byte) : conn :=
  {| stg := stg k; abeh := abeh k; authd := authd k; inb := b; gone := gone k; shut := shut k; cclosed := cclosed k;
     hooks := hooks k; own := own k; table := table k; out := out k; hist := hist k |}.
Definition k_gone (k : conn) : conn :=
  {| stg := stg k; abeh := abeh k; authd := authd k; inb := inb k; gone := true; shut := shut k; cclosed := cclosed k;
     hooks := hooks k; own := own k; table := table k; out := out k; hist := hist k |}.
Definition k_shut (k : conn) : conn :=
  {| stg := stg k; abeh := abeh k; authd := authd k; inb := inb k; gone := gone k; shut := true; cclosed := cclosed k;
     hooks := hooks k; own := own k; table := table k; out := out k; hist := hist k |}.
(* Connection.close(): guarded by _closed; closes the channel (and with it the socket), runs on_disconnect once *)
Definition close_conn (k : conn) : conn :=
  if cclosed k || negb (authd k) then k else
  {| stg := stg k; abeh := abeh k; authd := authd k; inb := inb k; gone := gone k; shut := true; cclosed := true;
     hooks := S (hooks k); own := own k; table := table k; out := out k; hist := hist k |}.
Definition k_served (k : conn) (rest : list byte) (v : svc) (tb : list oid) (r : reply) (q : req) : conn :=
  {| stg := stg k; abeh := abeh k; authd := authd k; inb := rest; gone := gone k; shut := shut k; cclosed := cclosed k;
     hooks := hooks k; own := v; table := tb; out := out k ++ [r]; hist := hist k ++ [q] |}.

Definition fresh_conn : conn :=
  {| stg := Fresh; abeh := AuthOk; authd := false; inb := []; gone := false; shut := false; cclosed := false; hooks := 0;
     own := {| cnt := 0; nmade := 0 |}; table := []; out := []; hist := [] |}.

(* ---- what a reader makes of the bytes in a connection's buffer ---- *)
Inductive nxt := NEmpty | NBlock | NBad (rest : list byte) | NNop (rest : list byte) | NReq (q : req) (rest : list byte)
| NKill (rest : list byte) | NStall (rest : list byte).

Section Server.
Variable decomp : list byte -> option (list byte).      (* zlib.decompress: None = zlib.error *)
Variable decode : list byte -> option req.               (* brine.load + _dispatch: None = any exception other than EOFError *)
Variable K : cfg.

(* Channel.recv on what has arrived so far: 4-byte big-endian length, 1-byte compression flag, body, 1 flush byte *)
Definition next_input (buf : list byte) : nxt :=
  match buf with
  | [] => NEmpty
  | a :: b :: c :: d :: fl :: body =>
      let len := un4 a b c d in
      if (nlen body <? len + 1)%N then NBlock
      else let payload := firstn (N.to_nat len) body in
           let rest := skipn (N.to_nat (len + 1)) body in
           match (if Byte.eqb fl x00 then Some payload else decomp payload) with
           | None => NBad rest
           | Some [] => NNop rest                       (* Connection.serve: `if not data: return False` *)
           | Some d => match decode d with Some QKill => NKill rest | Some QStall => NStall rest | Some q => NReq q rest | None => NBad rest end
           end
  | _ => NBlock
  end.

(* ---- the endpoint: a request served on connection c against service state v and table tb ---- *)
Definition owner (c : cid) : nat := if class_svc K then c else 0.
Definition serve_req (c : cid) (v : svc) (tb : list oid) (q : req) : svc * list oid * reply :=
  let root := (owner c, 0) in
  match q with
  | QRoot => (v, root :: tb, POid root)
  | QBump o => if omem o tb && oeqb o root then ({| cnt := S (cnt v); nmade := nmade v |}, tb, PVal (S (cnt v))) else (v, tb, PErr)
  | QMake o => if omem o tb && oeqb o root
               then ({| cnt := cnt v; nmade := S (nmade v) |}, (owner c, S (nmade v)) :: tb, POid (owner c, S (nmade v)))
               else (v, tb, PErr)
  | QStr o => (v, tb, if omem o tb then POk else PErr)
  | QDel o => if omem o tb then (v, orm1 o tb, POk) else (v, tb, PErr)
  | QClose => (v, tb, POk)
  | QKill | QStall => (v, tb, PErr)
  end.
Definition is_close (q : req) : bool := match q with QClose => true | _ => false end.

(* serve request q (rest of the buffer: rest) on connection c; HANDLE_CLOSE closes the connection *)
Definition serve_on (s : st) (c : cid) (q : req) (rest : list byte) : st :=
  let k := conns s c in
  let v := if class_svc K then own k else shared s in
  let '(v', tb', r) := serve_req c v (table k) q in
  let k' := k_served k rest (if class_svc K then v' else own k) tb' r q in
  let k'' := if is_close q then close_conn k' else k' in
  let s' := set_conn s c k'' in
  if class_svc K then s' else with_shared s' v'.

(* ---- Server.close ---- *)
Definition shut_all (l : list cid) (f : cid -> conn) : cid -> conn := fun x => if mem x l then k_shut (f x) else f x.
Definition drop_all (l : list cid) (f : cid -> conn) : cid -> conn :=
  fun x => if mem x l then k_stage (close_conn (f x)) Finished else f x.
Definition reset_all (l : list cid) (f : cid -> conn) : cid -> conn :=
  fun x => if mem x l then k_stage (k_shut (f x)) Finished else f x.
Definition server_close (s : st) : st :=
  if closed s then s else
  let f1 := shut_all (clients s) (reset_all (backlog s) (conns s)) in    (* closing the listener resets what it still queued *)
  let pool_fix := match kind K with Pool => pool_close_drops (fx K) | _ => false end in
  {| active := false; closed := true; lopen := false; busy := busy s; clients := [];
     fdmap := if pool_fix then [] else fdmap s;
     pollset := if pool_fix then [] else pollset s;
     queue := queue s; workers := workers s; shared := shared s;
     conns := if pool_fix then drop_all (fdmap s) f1 else f1;
     accepted := accepted s; backlog := [] |}.

(* the `finally` of _authenticate_and_serve_client: shutdown, discard from clients; a one-shot server then closes itself *)
Definition finish_own (c : cid) (s : st) : st :=
  let s1 := with_clients (set_conn s c (k_stage (k_shut (conns s c)) Finished)) (rm c (clients s)) in
  match kind K with
  | OneShot => server_close (with_busy s1 None)
  | _ => s1
  end.

(* ---- accept() + _accept_method ---- *)
Definition pool_register (c : cid) (s : st) : st :=
  let k := conns s c in
  with_clients (with_pool (set_conn s c (k_authd (k_stage k Pooled))) (fdmap s ++ [c]) (pollset s ++ [c]) (queue s) (workers s)) [].
Definition pool_reject (c : cid) (s : st) : st :=
  let k := conns s c in
  with_clients (set_conn s c (k_stage (k_shut k) Finished))
               (if pool_fail_discards (fx K) then rm c (clients s) else clients s).
Definition accept (c : cid) (rest : list cid) (s : st) : st :=
  let a := abeh (conns s c) in
  let s0 := with_backlog (with_accepted (with_clients (set_conn s c (k_stage (conns s c) Own)) (clients s ++ [c])) (accepted s ++ [c])) rest in
  match kind K with
  | Threaded => s0
  | OneShot => with_busy s0 (Some c)
  | Forking => if fork_parent_keeps (fx K) then s0 else with_clients s0 (rm c (clients s0))
  | Pool =>
      if gone (conns s c) && match a with AuthStall => true | _ => false end then pool_reject c s0    (* getpeername / the authenticator fails *)
      else if has_auth K then
        match a with
        | AuthOk => pool_register c s0
        | AuthFail => pool_reject c s0
        | AuthStall => with_busy (set_conn s0 c (k_stage (conns s0 c) Authing)) (Some c)
        end
      else pool_register c s0
  end.

Definition is_stall (a : auth) : bool := match a with AuthStall => true | _ => false end.
(* a socket-replacing authenticator: unless the worker registers the socket it serves, Server.clients is left with the dead original *)
Definition loose : bool :=
  match kind K with
  | Threaded | OneShot => has_auth K && auth_replaces K && negb (worker_tracks_served (fx K))
  | _ => false
  end.
Definition track_served (c : cid) (s : st) : st := with_clients s (if loose then rm c (clients s) else clients s).

(* ---- the worker of a connection served on its own (thread / child / inline), or the inline authenticator of the pool ---- *)
Definition work (c : cid) (s : st) : option st :=
  let k := conns s c in
  match stg k with
  | Own =>
      if negb (authd k) then
        (* first step: authenticate if configured, then Service._connect (getpeername first: a peer that reset is gone) *)
        if shut k || (gone k && is_stall (abeh k)) then Some (finish_own c s)
        else if has_auth K then
          match abeh k with
          | AuthOk => Some (track_served c (set_conn s c (k_authd k)))
          | AuthFail => Some (finish_own c s)
          | AuthStall => if gone k then Some (finish_own c s) else None
          end
        else Some (set_conn s c (k_authd k))
      else if shut k then Some (finish_own c (set_conn s c (close_conn k)))
      else match next_input (inb k) with
           | NReq q rest =>
               let s1 := serve_on s c q rest in
               if is_close q then Some (finish_own c s1) else Some s1
           | NBad rest | NKill rest => Some (finish_own c (set_conn s c (close_conn (k_inb k rest))))
           | NNop rest => Some (set_conn s c (k_inb k rest))
           | NBlock | NEmpty | NStall _ => if gone k then Some (finish_own c (set_conn s c (close_conn k))) else None
           end
  | Authing =>
      if gone k || shut k then Some (with_busy (pool_reject c s) None) else None
  | _ => None
  end.

(* ---- thread pool ---- *)
(* _drop_connection *)
Definition drop (c : cid) (s : st) : st :=
  if mem c (fdmap s)
  then with_pool (set_conn s c (k_stage (close_conn (conns s c)) Finished)) (rm c (fdmap s)) (pollset s) (queue s) (workers s)
  else s.
Definition set_worker (s : st) (w : nat) (v : option (cid * nat)) : st :=
  with_pool s (fdmap s) (pollset s) (queue s) (set_nth w v (workers s)).
Definition enqueue (s : st) (c : cid) : st := with_pool s (fdmap s) (pollset s) (queue s ++ [c]) (workers s).
Definition add_inactive (s : st) (c : cid) : st := with_pool s (fdmap s) (pollset s ++ [c]) (queue s) (workers s).

Definition poll_step (c : cid) (hup : bool) (s : st) : option st :=
  let k := conns s c in
  if active s && mem c (pollset s) && (negb (is_none (head (inb k))) || gone k) && (negb hup || gone k) then
    let s1 := with_pool s (fdmap s) (rm c (pollset s)) (queue s) (workers s) in
    Some (if hup then drop c s1 else enqueue s1 c)
  else None.
Definition take_step (w : nat) (s : st) : option st :=
  match nth_error (workers s) w, queue s with
  | Some None, c :: rest =>
      if active s then Some (with_pool s (fdmap s) (pollset s) rest (set_nth w (Some (c, Nat.max 1 (batch K))) (workers s))) else None
  | _, _ => None
  end.
Definition serve_step (w : nat) (s : st) : option st :=
  match nth_error (workers s) w with
  | Some (Some (c, O)) => None                                                        (* the thread is dead *)
  | Some (Some (c, n)) =>
      let k := conns s c in
      if negb (mem c (fdmap s)) then Some (enqueue (set_worker s w None) c)           (* KeyError: back to the queue *)
      else match next_input (inb k) with
           | NReq q rest =>
               let s1 := serve_on s c q rest in
               if is_close q then Some (drop c (set_worker s1 w None))
               else match n with
                    | S (S m) => Some (set_worker s1 w (Some (c, S m)))
                    | _ => Some (enqueue (set_worker s1 w None) c)
                    end
           | NBad rest => Some (enqueue (set_worker (set_conn s c (k_inb k rest)) w None) c)
           | NNop rest => Some (add_inactive (set_worker (set_conn s c (k_inb k rest)) w None) c)
           | NKill rest =>
               if pool_catches_base (fx K) then Some (drop c (set_worker (set_conn s c (k_inb k rest)) w None))
               else Some (set_worker (set_conn s c (k_inb k rest)) w (Some (c, O)))   (* escapes both handlers: the worker thread ends *)
           | NBlock | NStall _ => if gone k then Some (drop c (set_worker s w None)) else None
           | NEmpty => if gone k then Some (drop c (set_worker s w None)) else Some (add_inactive (set_worker s w None) c)
           end
  | _ => None
  end.

Inductive event :=
| EConnect (c : cid) (a : auth)      (* a new client connects (the kernel queues it); a: what it will do about authentication *)
| EAccept                            (* the accept loop takes the oldest queued connection *)
| ESend (c : cid) (bs : list byte)   (* the client sends bytes: ANY bytes *)
| ELeave (c : cid) (abrupt : bool)   (* the client leaves: close (FIN) or reset; a reset discards what the server has not read
                                        (credentials included) *)
| EWork (c : cid)                    (* the next step of c's own worker *)
| EPoll (c : cid) (hup : bool)       (* pool: the polling thread reports c (readable, or hung up) *)
| ETake (w : nat)                    (* pool: idle worker w takes the head of the active queue *)
| EServe (w : nat)                   (* pool: worker w does one Connection.poll() on the connection it holds *)
| EAcceptFail                        (* accept() raises an OS error that is neither a timeout nor EINTR/EAGAIN (descriptor limit, aborted connection) *)
| ESpawnFail                         (* threaded / forking: the accept loop takes the oldest queued connection, but the thread or child
                                        process that should serve it cannot be started (RLIMIT_NPROC: RuntimeError / BlockingIOError) *)
| EClose.                            (* Server.close() *)

(* the servers whose _accept_method starts a thread or a process per client *)
Definition spawns : bool := match kind K with Threaded | Forking => true | _ => false end.
(* accept() has added the socket to Server.clients; _accept_method raises before any worker exists.  A tree that guards the call
   discards and closes that socket (exactly the worker's own `finally`) and goes on; otherwise the error leaves accept() and start(),
   whose `finally: self.close()` throws every client out. *)
Definition spawn_fail (c : cid) (rest : list cid) (s : st) : st :=
  let s1 := finish_own c (accept c rest s) in
  if accept_survives_spawn_failure (fx K) then s1 else server_close s1.

Definition step (e : event) (s : st) : option st :=
  match e with
  | EConnect c a =>
      if lopen s && is_fresh (stg (conns s c))
      then Some (with_backlog (set_conn s c (k_abeh (k_stage (conns s c) Backlog) a)) (backlog s ++ [c])) else None
  | EAccept =>
      match backlog s with
      | c :: rest => if active s && lopen s && is_none (busy s) then Some (accept c rest s) else None
      | [] => None
      end
  | ESend c bs =>
      let k := conns s c in
      if is_fresh (stg k) || gone k then None else Some (set_conn s c (k_inb k (inb k ++ bs)))
  | ELeave c abrupt =>
      let k := conns s c in
      if is_fresh (stg k) || gone k then None
      else Some (set_conn s c (k_gone (if abrupt then k_inb (if authd k then k else k_abeh k AuthStall) [] else k)))
  | EWork c => work c s
  | EPoll c hup => match kind K with Pool => poll_step c hup s | _ => None end
  | ETake w => match kind K with Pool => take_step w s | _ => None end
  | EServe w => match kind K with Pool => serve_step w s | _ => None end
  | EAcceptFail =>
      if active s && lopen s && is_none (busy s)
      then Some (if accept_survives_oserror (fx K) then s else server_close s)      (* start(): except EOFError: pass; finally: close() *)
      else None
  | ESpawnFail =>
      match backlog s with
      | c :: rest =>
          if active s && lopen s && is_none (busy s) && spawns
          then Some (spawn_fail c rest s)
          else None
      | [] => None
      end
  | EClose => Some (server_close s)
  end.

(* The window in Server.accept between `if not self.active: return` and `self.clients.add(sock)`: a close() that runs to completion in
   it does not see the socket.  [late_register c s] is the second half of accept() for a connection c the listener had already handed
   out, run on the state s that close() left.  (The transition system itself takes accept() as one step, which is faithful on a tree
   that looks at _closed again after clients.add.) *)
Definition late_register (c : cid) (s : st) : st :=
  if accept_rechecks_closed (fx K) && closed s
  then set_conn s c (k_stage (k_shut (conns s c)) Finished)
  else accept c (backlog s) s.

Definition init : st :=
  {| active := true; closed := false; lopen := true; busy := None; clients := []; fdmap := []; pollset := []; queue := [];
     workers := match kind K with Pool => repeat None (nworkers K) | _ => [] end;
     shared := {| cnt := 0; nmade := 0 |}; conns := fun _ => fresh_conn; accepted := []; backlog := [] |}.

(* histories: events that are not enabled are skipped (run) or reported (run_log) *)
Fixpoint run (l : list event) (s : st) : st :=
  match l with
  | [] => s
  | e :: r => run r (match step e s with Some s' => s' | None => s end)
  end.
(* reachable by a history (oldest event first) all of whose events were enabled *)
Inductive reach_by : list event -> st -> Prop :=
| reach0 : reach_by [] init
| reachS l s e s' : reach_by l s -> step e s = Some s' -> reach_by (l ++ [e]) s'.
Definition reach (s : st) : Prop := exists l, reach_by l s.

(* events of the server's own threads (not of clients, not close) *)
Definition internal (e : event) : bool :=
  match e with EAccept | EWork _ | EPoll _ _ | ETake _ | EServe _ => true | _ => false end.
Definition quiescent (s : st) : Prop := forall e, internal e = true -> step e s = None.

(* the pure endpoint semantics of one connection, as a function of the requests served on it *)
Fixpoint ep_run (c : cid) (v : svc) (tb : list oid) (acc : list reply) (l : list req) : svc * list oid * list reply :=
  match l with
  | [] => (v, tb, acc)
  | q :: r => let '(v', tb', p) := serve_req c v tb q in ep_run c v' tb' (acc ++ [p]) r
  end.

End Server.

(* ================= harness interface ================= *)
Definition kind_of_z (z : Z) : skind :=
  match z with 0 => Threaded | 1 => Pool | 2 => OneShot | _ => Forking end%Z.
Definition auth_of_z (z : Z) : auth := match z with 0 => AuthOk | 1 => AuthFail | _ => AuthStall end%Z.
Definition oid_of_sx (x : sx) : oid := match x with SL [a; b] => (sx_nat a, sx_nat b) | _ => (0, 0) end.
Definition req_of_sx (x : sx) : option req :=
  match x with
  | SL [SI 0] => Some QRoot
  | SL [SI 1; o] => Some (QBump (oid_of_sx o))
  | SL [SI 2; o] => Some (QMake (oid_of_sx o))
  | SL [SI 3; o] => Some (QStr (oid_of_sx o))
  | SL [SI 4; o] => Some (QDel (oid_of_sx o))
  | SL [SI 5] => Some QClose
  | SL [SI 6] => Some QKill
  | SL [SI 7] => Some QStall
  | _ => None
  end%Z.
Definition sx_oid (o : oid) : sx := SL [snat (fst o); snat (snd o)].
Definition sx_reply (r : reply) : sx :=
  match r with POid o => SL [SI 0; sx_oid o] | PVal n => SL [SI 1; snat n] | POk => SL [SI 2] | PErr => SL [SI 3] end.
Definition stage_z (g : stage) : Z :=
  match g with Fresh => 0 | Own => 1 | Authing => 2 | Pooled => 3 | Finished => 4 | Backlog => 5 end.
Definition event_of_sx (x : sx) : option event :=
  match x with
  | SL [SI 0; c; a] => Some (EConnect (sx_nat c) (auth_of_z (sx_z a)))
  | SL [SI 8] => Some EAccept
  | SL [SI 9] => Some EAcceptFail
  | SL [SI 10] => Some ESpawnFail
  | SL [SI 1; c; SB b] => Some (ESend (sx_nat c) b)
  | SL [SI 2; c; ab] => Some (ELeave (sx_nat c) (sx_bool ab))
  | SL [SI 3; c] => Some (EWork (sx_nat c))
  | SL [SI 4; c; h] => Some (EPoll (sx_nat c) (sx_bool h))
  | SL [SI 5; w] => Some (ETake (sx_nat w))
  | SL [SI 6; w] => Some (EServe (sx_nat w))
  | SL [SI 7] => Some EClose
  | _ => None
  end%Z.
Fixpoint tlookup {A} (tbl : list (list byte * A)) (k : list byte) : option A :=
  match tbl with [] => None | (a, b) :: t => if bytes_eqb a k then Some b else tlookup t k end.

(* run the server's own threads to quiescence in a fixed order (own workers oldest first, then poller, then pool workers) *)
Section Drain.
Variable decomp : list byte -> option (list byte).
Variable decode : list byte -> option req.
Variable K : cfg.
Definition try_first (s : st) (evs : list event) : option st :=
  fold_left (fun acc e => match acc with Some _ => acc | None => step decomp decode K e s end) evs None.
(* abrupt departures are reported by the poller as hang-ups, graceful ones as readable *)
Definition candidates (hups : list cid) (s : st) : list event :=
  EAccept :: map EWork (accepted s)
  ++ map (fun c => EPoll c (mem c hups)) (pollset s)
  ++ map EServe (seq 0 (List.length (workers s)))
  ++ map ETake (seq 0 (List.length (workers s))).
Fixpoint drain (fuel : nat) (hups : list cid) (s : st) : st * bool :=
  match fuel with
  | O => (s, false)
  | S f => match try_first s (candidates hups s) with
           | Some s' => drain f hups s'
           | None => (s, true)
           end
  end.
End Drain.

Definition sx_conn (c : cid) (k : conn) : sx :=
  SL [snat c; SI (stage_z (stg k)); sbool (authd k); sbool (gone k); sbool (shut k); sbool (cclosed k); snat (hooks k);
      SL (map sx_oid (table k)); SL (map sx_reply (out k)); snat (List.length (inb k))].
Definition sx_state (s : st) : sx :=
  SL [sbool (active s); sbool (closed s); sbool (lopen s);
      match busy s with Some c => snat c | None => SI (-1) end;
      SL (map snat (clients s)); SL (map snat (fdmap s)); SL (map snat (pollset s)); SL (map snat (queue s));
      SL (map (fun w => match w with Some (c, n) => SL [snat c; snat n] | None => SL [] end) (workers s));
      SL (map (fun c => sx_conn c (conns s c)) (accepted s)); SL (map snat (backlog s))].

(* a case: configuration, decoder tables, and a script of items:
     (0 ev)  apply the event, report whether it was enabled
     (1 hups) run the server's own threads to quiescence, report the state
     (2 ev)  is the event enabled? (no state change) *)
Definition run_server (x : sx) : sx :=
  match x with
  | SL [SL [kd; f1; f2; f3; f4; f5; f6; f7; f8; au; cl; nw; bt; ar]; SL dtbl; SL ztbl; SL script] =>
      let K := {| kind := kind_of_z (sx_z kd);
                  fx := {| pool_close_drops := sx_bool f1; pool_fail_discards := sx_bool f2; fork_parent_keeps := sx_bool f3; pool_catches_base := sx_bool f4;
                           worker_tracks_served := sx_bool f5; accept_survives_oserror := sx_bool f6; accept_rechecks_closed := sx_bool f7;
                           accept_survives_spawn_failure := sx_bool f8 |};
                  has_auth := sx_bool au; class_svc := sx_bool cl; nworkers := sx_nat nw; batch := sx_nat bt; auth_replaces := sx_bool ar |} in
      let dt := map (fun e => match e with SL [SB a; q] => (a, req_of_sx q) | _ => ([], None) end) dtbl in
      let zt := map (fun e => match e with SL [SB a; SB b] => (a, b) | _ => ([], []) end) ztbl in
      let decode := fun b => match tlookup dt b with Some (Some q) => Some q | _ => None end in
      let decomp := fun b => tlookup zt b in
      let fix go (s : st) (items : list sx) (acc : list sx) : list sx :=
        match items with
        | [] => List.rev acc
        | SL [SI 0; ev] :: r =>
            match event_of_sx ev with
            | Some e => match step decomp decode K e s with
                        | Some s' => go s' r (SI 1 :: acc)
                        | None => go s r (SI 0 :: acc)
                        end
            | None => go s r (bad_input :: acc)
            end
        | SL [SI 1; SL hups] :: r =>
            let '(s', q) := drain decomp decode K 10000 (map sx_nat hups) s in
            go s' r (SL [sbool q; sx_state s'] :: acc)
        | SL [SI 2; ev] :: r =>
            match event_of_sx ev with
            | Some e => go s r (sbool (match step decomp decode K e s with Some _ => true | None => false end) :: acc)
            | None => go s r (bad_input :: acc)
            end
        | _ :: r => go s r (bad_input :: acc)
        end%Z in
      SL (go (init K) script [])
  | _ => bad_input
  end.
