(* Executable model of rpyc/core/async_.py (AsyncResult), rpyc/lib/__init__.py (Timeout),
   Connection.serve / poll_all / sync_request / async_request (rpyc/core/protocol.py) and
   rpyc/utils/helpers.py (timed), over a virtual clock and a scripted channel.
   Clock values and timeouts are integers (ticks).  No proofs here (see proofs/AsyncP.v). *)
From V Require Import lib.Base lib.Sx.
From Coq Require Import String.
Open Scope Z_scope.

(* ------------------------------------------------------------------ rpyc.lib.Timeout *)
(* [tmax] is meaningful only when [finite] (Python stores None otherwise; every use is guarded by [finite]) *)
Record timeout := { finite : bool; tmax : Z }.

Definition oz (o : option Z) : Z := match o with Some z => z | None => 0 end.

(* self.finite = timeout is not None and timeout >= 0 *)
Definition timeout_finite (t : option Z) : bool :=
  match t with Some t => t >=? 0 | None => false end.
(* self.tmax = time.time() + timeout if self.finite else None *)
Definition timeout_tmax (now : Z) (t : option Z) (fin : bool) : Z :=
  if fin then now + oz t else 0.
Definition mk_timeout (now : Z) (t : option Z) : timeout :=
  {| finite := timeout_finite t; tmax := timeout_tmax now t (timeout_finite t) |}.
(* return self.finite and time.time() >= self.tmax *)
Definition timeout_expired (fin : bool) (tm : Z) (now : Z) : bool := fin && (now >=? tm).
(* return max((0, self.tmax - time.time())) if self.finite else None *)
Definition timeout_timeleft (fin : bool) (tm : Z) (now : Z) : option Z :=
  if fin then Some (Z.max 0 (tm - now)) else None.

Definition expired_at (tt : timeout) (t : Z) : bool := timeout_expired (finite tt) (tmax tt) t.
Definition timeleft (tt : timeout) (t : Z) : option Z := timeout_timeleft (finite tt) (tmax tt) t.
Definition never : timeout := mk_timeout 0 None.

(* ------------------------------------------------------------------ state *)
(* what the scripted channel delivers: the reply to our request (value or exception), an unrelated
   request whose dispatch keeps the serving thread busy for [d] ticks, or a reply nobody waits for *)
Inductive msg := Reply (e : bool) (v : Z) | Traffic (d : N) | Stray.

Record ar := { ready : bool; is_exc : bool; obj : Z; callbacks : list N; ttl : timeout }.

Record world := {
  now : Z;                         (* virtual clock *)
  res : ar;                        (* the AsyncResult *)
  registered : bool;               (* conn._request_callbacks still holds our seq *)
  queue : list (Z * msg);          (* channel script: (arrival clock, message), FIFO *)
  tie : bool;                      (* channel: data arriving exactly at a poll deadline is seen *)
  log : list (N * Z);              (* callback invocations: (callback id, clock) *)
  g_regs : list (N * Z);           (* ghost: registrations (id, clock) *)
  g_disp : list (Z * Z * msg);     (* ghost: dispatches (clock at receipt, clock at end, message) *)
  g_got : option Z                 (* ghost: clock at which the result became ready *)
}.

Definition set_now (w : world) (t : Z) : world :=
  {| now := t; res := res w; registered := registered w; queue := queue w; tie := tie w; log := log w;
     g_regs := g_regs w; g_disp := g_disp w; g_got := g_got w |}.
Definition set_res (w : world) (a : ar) : world :=
  {| now := now w; res := a; registered := registered w; queue := queue w; tie := tie w; log := log w;
     g_regs := g_regs w; g_disp := g_disp w; g_got := g_got w |}.
Definition set_registered (w : world) (b : bool) : world :=
  {| now := now w; res := res w; registered := b; queue := queue w; tie := tie w; log := log w;
     g_regs := g_regs w; g_disp := g_disp w; g_got := g_got w |}.
Definition set_queue (w : world) (q : list (Z * msg)) : world :=
  {| now := now w; res := res w; registered := registered w; queue := q; tie := tie w; log := log w;
     g_regs := g_regs w; g_disp := g_disp w; g_got := g_got w |}.
Definition set_log (w : world) (l : list (N * Z)) : world :=
  {| now := now w; res := res w; registered := registered w; queue := queue w; tie := tie w; log := l;
     g_regs := g_regs w; g_disp := g_disp w; g_got := g_got w |}.
Definition add_reg (w : world) (r : N * Z) : world :=
  {| now := now w; res := res w; registered := registered w; queue := queue w; tie := tie w; log := log w;
     g_regs := g_regs w ++ [r]; g_disp := g_disp w; g_got := g_got w |}.
Definition add_disp (w : world) (d : Z * Z * msg) : world :=
  {| now := now w; res := res w; registered := registered w; queue := queue w; tie := tie w; log := log w;
     g_regs := g_regs w; g_disp := g_disp w ++ [d]; g_got := g_got w |}.
Definition set_got (w : world) (t : Z) : world :=
  {| now := now w; res := res w; registered := registered w; queue := queue w; tie := tie w; log := log w;
     g_regs := g_regs w; g_disp := g_disp w; g_got := Some t |}.

Definition new_ar : ar := {| ready := false; is_exc := false; obj := 0; callbacks := []; ttl := never |}.
Definition fresh (t0 : Z) (tb : bool) (q : list (Z * msg)) : world :=
  {| now := t0; res := new_ar; registered := false; queue := q; tie := tb; log := [];
     g_regs := []; g_disp := []; g_got := None |}.

(* ------------------------------------------------------------------ AsyncResult *)
(* property expired:  not self._is_ready and self._ttl.expired() *)
Definition ar_expired (a : ar) (t : Z) : bool := negb (ready a) && expired_at (ttl a) t.

(* __call__(is_exc, obj) *)
Definition ar_call (w : world) (e : bool) (v : Z) : world :=
  if ar_expired (res w) (now w) then w
  else
    let a := res w in
    let w1 := set_res w {| ready := true; is_exc := e; obj := v; callbacks := []; ttl := ttl a |} in
    set_got (set_log w1 (log w ++ map (fun c => (c, now w)) (callbacks a))) (now w).

(* add_callback(func) *)
Definition ar_add_callback (w : world) (c : N) : world :=
  let a := res w in
  let w1 := add_reg w (c, now w) in
  if ready a then set_log w1 (log w ++ [(c, now w)])
  else set_res w1 {| ready := ready a; is_exc := is_exc a; obj := obj a; callbacks := callbacks a ++ [c]; ttl := ttl a |}.

(* set_expiry(timeout):  self._ttl = Timeout(timeout) *)
Definition ar_set_expiry (w : world) (t : option Z) : world :=
  let a := res w in
  set_res w {| ready := ready a; is_exc := is_exc a; obj := obj a; callbacks := callbacks a; ttl := mk_timeout (now w) t |}.

(* ------------------------------------------------------------------ Connection + channel *)
(* Connection._dispatch of one received message *)
Definition dispatch (w : world) (m : msg) : world :=
  let w1 := match m with
            | Reply e v => if registered w then ar_call (set_registered w false) e v else w
            | Traffic d => set_now w (now w + Z.of_N d)
            | Stray => w
            end in
  add_disp w1 (now w, now w1, m).

Inductive pollres := PData | PNothing | PHang.

(* channel.poll(timeout): data already there -> at once; otherwise sleep until the next arrival or the
   deadline, whichever is first (a tie goes to the data iff [tie]); no deadline and nothing scripted: blocks forever *)
Definition chan_poll (tt : timeout) (w : world) : world * pollres :=
  match queue w with
  | (a, _) :: _ =>
      if a <=? now w then (w, PData)
      else match timeleft tt (now w) with
           | None => (set_now w a, PData)
           | Some tl => let dl := now w + tl in
                        if (a <? dl) || ((a =? dl) && tie w) then (set_now w a, PData) else (set_now w dl, PNothing)
           end
  | [] => match timeleft tt (now w) with
          | None => (w, PHang)
          | Some tl => (set_now w (now w + tl), PNothing)
          end
  end.

(* Connection.serve(timeout) on an uncontended connection: poll, recv, dispatch *)
Definition serve_tt (tt : timeout) (w : world) : world * pollres :=
  match chan_poll tt w with
  | (w1, PData) => match queue w1 with
                   | (_, m) :: q => (dispatch (set_queue w1 q) m, PData)
                   | [] => (w1, PNothing)
                   end
  | r => r
  end.

(* Connection.poll_all(0): its deadline is "now", so the loop body runs exactly once *)
Definition poll_all0 (w : world) : world := fst (serve_tt (mk_timeout (now w) (Some 0)) w).

(* property ready *)
Definition q_ready (w : world) : world * bool :=
  if ready (res w) then (w, true)
  else if expired_at (ttl (res w)) (now w) then (w, false)
  else let w' := poll_all0 w in (w', ready (res w')).
(* property error:  self.ready and self._is_exc *)
Definition q_error (w : world) : world * bool :=
  let (w', r) := q_ready w in (w', r && is_exc (res w')).

Inductive obs := ONone | OBool (b : bool) | OVal (v : Z) | ORaise (v : Z) | OTimeout | OHang | OFuel.

(* wait():  while not self._is_ready and not self._ttl.expired(): self._conn.serve(self._ttl)
            if not self._is_ready: raise AsyncResultTimeout *)
Fixpoint wait_loop (fuel : nat) (w : world) : world * obs :=
  if ready (res w) then (w, ONone)
  else if expired_at (ttl (res w)) (now w) then (w, OTimeout)
  else match fuel with
       | O => (w, OFuel)
       | S f => match serve_tt (ttl (res w)) w with
                | (w', PHang) => (w', OHang)
                | (w', _) => wait_loop f w'
                end
       end.
Definition wait_fuel (w : world) : nat := S (S (List.length (queue w))).
Definition ar_wait (w : world) : world * obs := wait_loop (wait_fuel w) w.

(* property value *)
Definition q_value (w : world) : world * obs :=
  match ar_wait w with
  | (w', ONone) => (w', if is_exc (res w') then ORaise (obj (res w')) else OVal (obj (res w')))
  | r => r
  end.

(* ------------------------------------------------------------------ histories *)
Inductive action :=
| Advance (d : N)            (* the caller does something else for d ticks *)
| AddCb (c : N) | SetExpiry (t : option Z)
| QReady | QError | QExpired | QValue | Wait
| Serve (t : option Z).      (* the caller serves the connection itself: conn.serve(t) *)

Definition step (w : world) (a : action) : world * obs :=
  match a with
  | Advance d => (set_now w (now w + Z.of_N d), ONone)
  | AddCb c => (ar_add_callback w c, ONone)
  | SetExpiry t => (ar_set_expiry w t, ONone)
  | QReady => let (w', b) := q_ready w in (w', OBool b)
  | QError => let (w', b) := q_error w in (w', OBool b)
  | QExpired => (w, OBool (ar_expired (res w) (now w)))
  | QValue => q_value w
  | Wait => ar_wait w
  | Serve t => match serve_tt (mk_timeout (now w) t) w with
               | (w', PData) => (w', OBool true)
               | (w', PNothing) => (w', OBool false)
               | (w', PHang) => (w', OHang)
               end
  end.

Fixpoint run_hist (w : world) (acts : list action) : world * list (obs * Z) :=
  match acts with
  | [] => (w, [])
  | a :: rest => let (w1, o) := step w a in
                 let (w2, tr) := run_hist w1 rest in (w2, (o, now w1) :: tr)
  end.
Definition run_w (w : world) (acts : list action) : world := fold_left (fun w a => fst (step w a)) acts w.

(* Connection.async_request(handler, ..., timeout=t): new result, register + send (takes send_dur), then
   "if timeout is not None: res.set_expiry(timeout)" *)
Definition async_request (t : option Z) (send_dur : N) (w : world) : world :=
  let w1 := set_now (set_registered (set_res w new_ar) true) (now w + Z.of_N send_dur) in
  match t with None => w1 | Some _ => ar_set_expiry w1 t end.
(* Connection.sync_request:  timeout = self._config["sync_request_timeout"]; return self.async_request(..., timeout=timeout).value *)
Definition sync_request (cfg_timeout : option Z) (send_dur : N) (w : world) : world * obs :=
  q_value (async_request cfg_timeout send_dur w).
(* timed(proxy, t)(...):  res = self.proxy(...); res.set_expiry(self.timeout); return res *)
Definition timed_call (t : option Z) (send_dur : N) (w : world) : world :=
  ar_set_expiry (async_request None send_dur w) t.

Inductive outcome := Pending | Got (e : bool) (v : Z) | Expired.
Definition outcome_of (w : world) : outcome :=
  if ready (res w) then Got (is_exc (res w)) (obj (res w))
  else if expired_at (ttl (res w)) (now w) then Expired else Pending.

(* ------------------------------------------------------------------ control skeletons (tie) *)
(* the anchored methods as the translator (tools/pygen/async_.py) emits them; proofs/AsyncP.v shows that
   interpreting these programs gives exactly the functions above, proofs/AsyncTie.v that they are what the source says *)
Inductive guard := GReady | GIsExc | GTtlExpired | GExpiredProp | GReadyProp | GNot (g : guard) | GAnd (a b : guard).
Inductive stmt :=
| SIfRet (g : guard) (r : option bool)     (* if g: return [r] *)
| SSetExc | SSetObj | SSetReady            (* self._is_exc = is_exc / self._obj = obj / self._is_ready = True *)
| SRunCallbacks                            (* for cb in self._callbacks: cb(self) *)
| SDelCallbacks                            (* del self._callbacks[:] *)
| SWhileServe (g : guard)                  (* while g: self._conn.serve(self._ttl) *)
| SIfRaiseTimeout (g : guard)              (* if g: raise AsyncResultTimeout(...) *)
| SIfCallElseAppend (g : guard)            (* if g: func(self) else: self._callbacks.append(func) *)
| SSetTtl                                  (* self._ttl = Timeout(timeout) *)
| SPollAll                                 (* self._conn.poll_all() *)
| SRetGuard (g : guard)                    (* return <g> *)
| SWait                                    (* self.wait() *)
| SIfRaiseObjElseRetObj (g : guard).       (* if g: raise self._obj else: return self._obj *)

Definition call_prog : list stmt := [SIfRet GExpiredProp None; SSetExc; SSetObj; SSetReady; SRunCallbacks; SDelCallbacks].
Definition wait_prog : list stmt := [SWhileServe (GAnd (GNot GReady) (GNot GTtlExpired)); SIfRaiseTimeout (GNot GReady)].
Definition add_callback_prog : list stmt := [SIfCallElseAppend GReady].
Definition set_expiry_prog : list stmt := [SSetTtl].
Definition ready_prog : list stmt := [SIfRet GReady (Some true); SIfRet GTtlExpired (Some false); SPollAll; SRetGuard GReady].
Definition error_prog : list stmt := [SRetGuard (GAnd GReadyProp GIsExc)].
Definition expired_prog : list stmt := [SRetGuard (GAnd (GNot GReady) GTtlExpired)].
Definition value_prog : list stmt := [SWait; SIfRaiseObjElseRetObj GIsExc].

(* Connection.sync_request / async_request and timed.__call__ as facts *)
Inductive cstmt :=
| CReadConfigTimeout (key : string)        (* timeout = self._config[key] *)
| CNewResult                               (* res = AsyncResult(self) *)
| CSendRequest                             (* self._async_request(handler, args, res) *)
| CIfTimeoutNotNoneSetExpiry               (* if timeout is not None: res.set_expiry(timeout) *)
| CSetExpiryOwn                            (* res.set_expiry(self.timeout) *)
| CAsyncRequestWithTimeout                 (* self.async_request(handler, ..., timeout=timeout) *)
| CAsyncProxyCall                          (* res = self.proxy( *args, **kwargs ) *)
| CReturnValue                             (* return <that>.value *)
| CReturnRes.                              (* return res *)
Definition async_request_prog : list cstmt := [CNewResult; CSendRequest; CIfTimeoutNotNoneSetExpiry; CReturnRes].
Definition sync_request_prog : list cstmt := [CReadConfigTimeout "sync_request_timeout"; CAsyncRequestWithTimeout; CReturnValue].
Definition timed_call_prog : list cstmt := [CAsyncProxyCall; CSetExpiryOwn; CReturnRes].

Record args := { a_exc : bool; a_obj : Z; a_func : N; a_timeout : option Z }.

Fixpoint eval_guard (g : guard) (w : world) : world * bool :=
  match g with
  | GReady => (w, ready (res w))
  | GIsExc => (w, is_exc (res w))
  | GTtlExpired => (w, expired_at (ttl (res w)) (now w))
  | GExpiredProp => (w, ar_expired (res w) (now w))
  | GReadyProp => q_ready w
  | GNot g => let (w', b) := eval_guard g w in (w', negb b)
  | GAnd a b => let (w', x) := eval_guard a w in if x then eval_guard b w' else (w', false)
  end.

Definition upd_ar (w : world) (f : ar -> ar) : world := set_res w (f (res w)).

Fixpoint while_serve (fuel : nat) (g : guard) (w : world) : world * option obs :=
  let (w0, b) := eval_guard g w in
  if b then match fuel with
            | O => (w0, Some OFuel)
            | S f => match serve_tt (ttl (res w0)) w0 with
                     | (w', PHang) => (w', Some OHang)
                     | (w', _) => while_serve f g w'
                     end
            end
  else (w0, None).

(* one statement: Some o = the method returned / raised with observation o *)
Definition exec1 (s : stmt) (x : args) (w : world) : world * option obs :=
  match s with
  | SIfRet g r => let (w', b) := eval_guard g w in
                  (w', if b then Some (match r with Some v => OBool v | None => ONone end) else None)
  | SSetExc => (upd_ar w (fun a => {| ready := ready a; is_exc := a_exc x; obj := obj a; callbacks := callbacks a; ttl := ttl a |}), None)
  | SSetObj => (upd_ar w (fun a => {| ready := ready a; is_exc := is_exc a; obj := a_obj x; callbacks := callbacks a; ttl := ttl a |}), None)
  | SSetReady => (set_got (upd_ar w (fun a => {| ready := true; is_exc := is_exc a; obj := obj a; callbacks := callbacks a; ttl := ttl a |})) (now w), None)
  | SRunCallbacks => (set_log w (log w ++ map (fun c => (c, now w)) (callbacks (res w))), None)
  | SDelCallbacks => (upd_ar w (fun a => {| ready := ready a; is_exc := is_exc a; obj := obj a; callbacks := []; ttl := ttl a |}), None)
  | SWhileServe g => while_serve (wait_fuel w) g w
  | SIfRaiseTimeout g => let (w', b) := eval_guard g w in (w', if b then Some OTimeout else None)
  | SIfCallElseAppend g =>
      let (w', b) := eval_guard g w in
      let w1 := add_reg w' (a_func x, now w') in
      (if b then set_log w1 (log w' ++ [(a_func x, now w')])
       else upd_ar w1 (fun a => {| ready := ready a; is_exc := is_exc a; obj := obj a; callbacks := callbacks a ++ [a_func x]; ttl := ttl a |}), None)
  | SSetTtl => (upd_ar w (fun a => {| ready := ready a; is_exc := is_exc a; obj := obj a; callbacks := callbacks a; ttl := mk_timeout (now w) (a_timeout x) |}), None)
  | SPollAll => (poll_all0 w, None)
  | SRetGuard g => let (w', b) := eval_guard g w in (w', Some (OBool b))
  | SWait => match ar_wait w with (w', ONone) => (w', None) | (w', o) => (w', Some o) end
  | SIfRaiseObjElseRetObj g => let (w', b) := eval_guard g w in (w', Some (if b then ORaise (obj (res w')) else OVal (obj (res w'))))
  end.

Fixpoint exec (p : list stmt) (x : args) (w : world) : world * obs :=
  match p with
  | [] => (w, ONone)
  | s :: rest => match exec1 s x w with
                 | (w', Some o) => (w', o)
                 | (w', None) => exec rest x w'
                 end
  end.

(* interpretation of the Connection.async_request / sync_request / timed.__call__ skeletons;
   [cfg] is the connection's configuration, [own] the timed object's self.timeout, [c_timeout] the local variable *)
Record cframe := { c_w : world; c_timeout : option Z; c_ret : option obs }.
Definition cexec1 (cfg : string -> option Z) (own : option Z) (sd : N) (s : cstmt) (f : cframe) : cframe :=
  let w := c_w f in
  match s with
  | CReadConfigTimeout key => {| c_w := w; c_timeout := cfg key; c_ret := c_ret f |}
  | CNewResult => {| c_w := set_res w new_ar; c_timeout := c_timeout f; c_ret := c_ret f |}
  | CSendRequest => {| c_w := set_now (set_registered w true) (now w + Z.of_N sd); c_timeout := c_timeout f; c_ret := c_ret f |}
  | CIfTimeoutNotNoneSetExpiry =>
      match c_timeout f with
      | None => f
      | Some _ => {| c_w := ar_set_expiry w (c_timeout f); c_timeout := c_timeout f; c_ret := c_ret f |}
      end
  | CSetExpiryOwn => {| c_w := ar_set_expiry w own; c_timeout := c_timeout f; c_ret := c_ret f |}
  | CAsyncRequestWithTimeout => {| c_w := async_request (c_timeout f) sd w; c_timeout := c_timeout f; c_ret := c_ret f |}
  | CAsyncProxyCall => {| c_w := async_request None sd w; c_timeout := c_timeout f; c_ret := c_ret f |}
  | CReturnValue => let (w', o) := q_value w in {| c_w := w'; c_timeout := c_timeout f; c_ret := Some o |}
  | CReturnRes => f
  end.
Definition cexec (cfg : string -> option Z) (own : option Z) (sd : N) (p : list cstmt) (f : cframe) : cframe :=
  fold_left (fun f s => cexec1 cfg own sd s f) p f.

(* ------------------------------------------------------------------ harness interface *)
Definition opt_of_sx (x : sx) : option Z := match x with SL [v] => Some (sx_z v) | _ => None end.
Definition msg_of_sx (x : sx) : Z * msg :=
  match x with
  | SL [a; k; p; q] =>
      (sx_z a, if sx_z k =? 0 then Reply (sx_bool p) (sx_z q) else if sx_z k =? 1 then Traffic (sx_n p) else Stray)
  | _ => (0, Stray)
  end.
Definition action_of_sx (x : sx) : action :=
  match x with
  | SL [k; p] =>
      let k := sx_z k in
      if k =? 0 then Advance (sx_n p) else if k =? 1 then AddCb (sx_n p) else if k =? 2 then SetExpiry (opt_of_sx p)
      else if k =? 3 then QReady else if k =? 4 then QError else if k =? 5 then QExpired else if k =? 6 then QValue
      else if k =? 7 then Wait else Serve (opt_of_sx p)
  | _ => Advance 0
  end.
Definition sx_of_obs (o : obs) : sx :=
  match o with
  | ONone => SL [SI 0] | OBool b => SL [SI 1; sbool b] | OVal v => SL [SI 2; SI v] | ORaise v => SL [SI 3; SI v]
  | OTimeout => SL [SI 4] | OHang => SL [SI 5] | OFuel => SL [SI 6]
  end.
Definition sx_of_world (w : world) : sx :=
  SL [SL (map (fun p => SL [sN (fst p); SI (snd p)]) (log w));
      sbool (ready (res w)); sbool (is_exc (res w)); SI (obj (res w));
      SL (map sN (callbacks (res w)));
      sbool (finite (ttl (res w))); SI (if finite (ttl (res w)) then tmax (ttl (res w)) else 0);
      sbool (registered w); snat (List.length (queue w)); SI (now w)].
Definition sx_of_trace (tr : list (obs * Z)) : sx := SL (map (fun p => SL [sx_of_obs (fst p); SI (snd p)]) tr).

(* cases:
   ("hist" mode tie t0 timeout send_dur queue actions)  mode 0 = async_request(timeout=..), 1 = sync_request with
                                                         config timeout, 2 = timed(proxy, timeout)(..)
   ("tmo" timeout t_create t_query)                      the Timeout class alone *)
Definition run_async (x : sx) : sx :=
  match x with
  | SL [op; mode; tb; t0; tmo; sd; q; acts] =>
      if is_tag "hist" op then
        let w0 := fresh (sx_z t0) (sx_bool tb) (map msg_of_sx (sx_l q)) in
        let t := opt_of_sx tmo in
        if sx_z mode =? 1 then
          let (w1, o) := sync_request t (sx_n sd) w0 in
          SL [SL [SL [sx_of_obs o; SI (now w1)]]; sx_of_world w1]
        else
          let w1 := if sx_z mode =? 0 then async_request t (sx_n sd) w0 else timed_call t (sx_n sd) w0 in
          let (w2, tr) := run_hist w1 (map action_of_sx (sx_l acts)) in
          SL [sx_of_trace tr; sx_of_world w2]
      else bad_input
  | SL [op; tmo; tc; tq] =>
      if is_tag "tmo" op then
        let tt := mk_timeout (sx_z tc) (opt_of_sx tmo) in
        SL [sbool (finite tt); SI (if finite tt then tmax tt else 0); sbool (expired_at tt (sx_z tq));
            match timeleft tt (sx_z tq) with Some l => SL [SI l] | None => SL [] end]
      else bad_input
  | _ => bad_input
  end.
