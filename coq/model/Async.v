(* Executable model of rpyc/core/async_.py (AsyncResult), rpyc/lib/__init__.py (Timeout),
   Connection.serve / _dispatch / poll_all / sync_request / async_request (rpyc/core/protocol.py),
   netref.syncreq / asyncreq and rpyc/utils/helpers.py (timed), over a virtual clock and a scripted byte stream.
   Clock values and timeouts are integers (ticks).  No proofs here (see proofs/AsyncP.v).

   What the model is honest about (each is a finding on the current tree, see props/C15.v):
   - a frame becomes visible to poll() at its first byte but recv() blocks, without deadline, until it is complete;
   - the value of a reply is unboxed BEFORE the result looks at its expiry, and unboxing may take time (a proxy of a
     class not seen before needs a round trip);
   - callbacks may raise: in the current tree the first raising callback aborts the loop ([iso] = false);
   - add_callback tests readiness and appends in two steps that a dispatch on another thread can separate
     ([atom] = false): AddCbTest / AddCbCommit. *)
From V Require Import lib.Base lib.Sx.
From Coq Require Import String.
Open Scope Z_scope.

(* ------------------------------------------------------------------ rpyc.lib.Timeout *)
(* [tmax] is meaningful only when [finite] (Python stores None otherwise; every use is guarded by [finite]) *)
Record timeout := { finite : bool; tmax : Z }.

Definition oz (o : option Z) : Z := match o with Some z => z | None => 0 end.

(* self.finite = timeout is not None and timeout >= 0 *)
Definition timeout_finite (t : option Z) : bool :=
  match t with Some t => t >=? 0 | None => false end.
(* self.tmax = time.time() + timeout if self.finite else None *)
Definition timeout_tmax (now : Z) (t : option Z) (fin : bool) : Z :=
  if fin then now + oz t else 0.
Definition mk_timeout (now : Z) (t : option Z) : timeout :=
  {| finite := timeout_finite t; tmax := timeout_tmax now t (timeout_finite t) |}.
(* return self.finite and time.time() >= self.tmax *)
Definition timeout_expired (fin : bool) (tm : Z) (now : Z) : bool := fin && (now >=? tm).
(* return max((0, self.tmax - time.time())) if self.finite else None *)
Definition timeout_timeleft (fin : bool) (tm : Z) (now : Z) : option Z :=
  if fin then Some (Z.max 0 (tm - now)) else None.

Definition expired_at (tt : timeout) (t : Z) : bool := timeout_expired (finite tt) (tmax tt) t.
Definition timeleft (tt : timeout) (t : Z) : option Z := timeout_timeleft (finite tt) (tmax tt) t.
Definition never : timeout := mk_timeout 0 None.

(* ------------------------------------------------------------------ state *)
(* what the scripted stream delivers: the reply to our request (value or exception; materialising the value takes
   [u] ticks -- 0 for plain values, a round trip for a proxy of an unseen class), an unrelated request whose dispatch
   keeps the serving thread busy for [d] ticks, or a reply to ANOTHER pending request of the same connection, whose own
   callbacks keep the serving thread busy for [d] ticks (0: nobody waits for it) *)
Inductive msg := Reply (e : bool) (v : Z) (u : N) | Traffic (d : N) | Stray (d : N).

(* a callback: its id and whether it raises when run *)
Record ar := { ready : bool; is_exc : bool; obj : Z; callbacks : list (N * bool); ttl : timeout }.

Record world := {
  now : Z;                         (* virtual clock *)
  res : ar;                        (* the AsyncResult *)
  registered : bool;               (* conn._request_callbacks still holds our seq *)
  queue : list (Z * Z * msg);      (* stream script: (clock of first byte, clock when complete, message), FIFO *)
  tie : bool;                      (* stream: data arriving exactly at a poll deadline is seen *)
  iso : bool;                      (* generated fact: a raising callback does not stop the others *)
  atom : bool;                     (* generated fact: add_callback's test and append are one atomic step w.r.t. __call__ *)
  pend : option (N * bool);        (* a registration by another thread between its readiness test and its append *)
  log : list (N * Z);              (* callback invocations: (callback id, clock) *)
  g_regs : list (N * Z);           (* ghost: registrations (id, clock) *)
  g_disp : list (Z * Z * Z * msg); (* ghost: dispatches (clock first byte seen, clock frame complete, clock at end, message) *)
  g_got : option Z                 (* ghost: clock at which the result became ready *)
}.

Definition set_now (w : world) (t : Z) : world :=
  {| now := t; res := res w; registered := registered w; queue := queue w; tie := tie w; iso := iso w; atom := atom w; pend := pend w; log := log w; g_regs := g_regs w; g_disp := g_disp w; g_got := g_got w |}.
Definition set_res (w : world) (a : ar) : world :=
  {| now := now w; res := a; registered := registered w; queue := queue w; tie := tie w; iso := iso w; atom := atom w; pend := pend w; log := log w; g_regs := g_regs w; g_disp := g_disp w; g_got := g_got w |}.
Definition set_registered (w : world) (b : bool) : world :=
  {| now := now w; res := res w; registered := b; queue := queue w; tie := tie w; iso := iso w; atom := atom w; pend := pend w; log := log w; g_regs := g_regs w; g_disp := g_disp w; g_got := g_got w |}.
Definition set_queue (w : world) (q : list (Z * Z * msg)) : world :=
  {| now := now w; res := res w; registered := registered w; queue := q; tie := tie w; iso := iso w; atom := atom w; pend := pend w; log := log w; g_regs := g_regs w; g_disp := g_disp w; g_got := g_got w |}.
Definition set_pend (w : world) (p : option (N * bool)) : world :=
  {| now := now w; res := res w; registered := registered w; queue := queue w; tie := tie w; iso := iso w; atom := atom w; pend := p; log := log w; g_regs := g_regs w; g_disp := g_disp w; g_got := g_got w |}.
Definition set_log (w : world) (l : list (N * Z)) : world :=
  {| now := now w; res := res w; registered := registered w; queue := queue w; tie := tie w; iso := iso w; atom := atom w; pend := pend w; log := l; g_regs := g_regs w; g_disp := g_disp w; g_got := g_got w |}.
Definition add_reg (w : world) (r : N * Z) : world :=
  {| now := now w; res := res w; registered := registered w; queue := queue w; tie := tie w; iso := iso w; atom := atom w; pend := pend w; log := log w; g_regs := g_regs w ++ [r]; g_disp := g_disp w; g_got := g_got w |}.
Definition add_disp (w : world) (d : Z * Z * Z * msg) : world :=
  {| now := now w; res := res w; registered := registered w; queue := queue w; tie := tie w; iso := iso w; atom := atom w; pend := pend w; log := log w; g_regs := g_regs w; g_disp := g_disp w ++ [d]; g_got := g_got w |}.
Definition set_got (w : world) (t : Z) : world :=
  {| now := now w; res := res w; registered := registered w; queue := queue w; tie := tie w; iso := iso w; atom := atom w; pend := pend w; log := log w; g_regs := g_regs w; g_disp := g_disp w; g_got := Some t |}.

Definition new_ar : ar := {| ready := false; is_exc := false; obj := 0; callbacks := []; ttl := never |}.
Definition fresh (t0 : Z) (tb i a : bool) (q : list (Z * Z * msg)) : world :=
  {| now := t0; res := new_ar; registered := false; queue := q; tie := tb; iso := i; atom := a; pend := None; log := [];
     g_regs := []; g_disp := []; g_got := None |}.

Definition with_callbacks (a : ar) (cbs : list (N * bool)) : ar :=
  {| ready := ready a; is_exc := is_exc a; obj := obj a; callbacks := cbs; ttl := ttl a |}.

(* ------------------------------------------------------------------ AsyncResult *)
Inductive obs := ONone | OBool (b : bool) | OVal (v : Z) | ORaise (v : Z) | OTimeout | OHang | OFuel
               | OCbExc (c : N).    (* the exception of callback c propagated to the caller *)

(* property expired:  not self._is_ready and self._ttl.expired() *)
Definition ar_expired (a : ar) (t : Z) : bool := negb (ready a) && expired_at (ttl a) t.

(* running the callback list at clock t: (invocations, the callback whose exception propagates) *)
Fixpoint run_all (t : Z) (cbs : list (N * bool)) : list (N * Z) * option N :=      (* isolated: all run, first error re-raised *)
  match cbs with
  | [] => ([], None)
  | (c, r) :: rest => let (l, x) := run_all t rest in ((c, t) :: l, if r then Some c else x)
  end.
Fixpoint run_until (t : Z) (cbs : list (N * bool)) : list (N * Z) * option N :=    (* the plain loop: stops at the first error *)
  match cbs with
  | [] => ([], None)
  | (c, r) :: rest => if r then ([(c, t)], Some c) else let (l, x) := run_until t rest in ((c, t) :: l, x)
  end.

(* __call__(is_exc, obj); Some c = callback c's exception leaves __call__ *)
Definition ar_call (w : world) (e : bool) (v : Z) : world * option N :=
  if ar_expired (res w) (now w) then (w, None)
  else
    let a := res w in
    let (l, x) := if iso w then run_all (now w) (callbacks a) else run_until (now w) (callbacks a) in
    let left := if iso w then [] else match x with None => [] | Some _ => callbacks a end in   (* del callbacks[:] not reached *)
    let w1 := set_res w {| ready := true; is_exc := e; obj := v; callbacks := left; ttl := ttl a |} in
    (set_got (set_log w1 (log w ++ l)) (now w), x).

(* add_callback(func) as one step *)
Definition ar_add_callback (w : world) (c : N) (r : bool) : world * option N :=
  let a := res w in
  let w1 := add_reg w (c, now w) in
  if ready a then (set_log w1 (log w ++ [(c, now w)]), if r then Some c else None)
  else (set_res w1 (with_callbacks a (callbacks a ++ [(c, r)])), None).
(* the append branch alone, taken on the strength of an earlier test *)
Definition ar_append_callback (w : world) (c : N) (r : bool) : world :=
  set_res (add_reg w (c, now w)) (with_callbacks (res w) (callbacks (res w) ++ [(c, r)])).

(* set_expiry(timeout):  self._ttl = Timeout(timeout) *)
Definition ar_set_expiry (w : world) (t : option Z) : world :=
  let a := res w in
  set_res w {| ready := ready a; is_exc := is_exc a; obj := obj a; callbacks := callbacks a; ttl := mk_timeout (now w) t |}.

(* ------------------------------------------------------------------ Connection + channel + stream *)
(* Connection._dispatch of one received frame; [r] = clock at which its first byte was seen, now w = clock at which it
   was complete.  For a reply: obj = self._unbox(args) comes first, then the callback is looked up and called. *)
Definition dispatch (w : world) (r : Z) (m : msg) : world * option N :=
  let '(w1, x) := match m with
                  | Reply e v u =>
                      let w0 := set_now w (now w + Z.of_N u) in
                      if registered w then ar_call (set_registered w0 false) e v else (w0, None)
                  | Traffic d => (set_now w (now w + Z.of_N d), None)
                  | Stray d => (set_now w (now w + Z.of_N d), None)
                  end in
  (add_disp w1 (r, now w, now w1, m), x).

Inductive pollres := PData | PNothing | PHang | PExc (c : N).

(* channel.poll(timeout) = stream.poll: a first byte already there -> at once; otherwise sleep until the next first byte
   or the deadline, whichever is first (a tie goes to the data iff [tie]); no deadline and nothing scripted: blocks forever *)
Definition chan_poll (tt : timeout) (w : world) : world * pollres :=
  match queue w with
  | (a, _, _) :: _ =>
      if a <=? now w then (w, PData)
      else match timeleft tt (now w) with
           | None => (set_now w a, PData)
           | Some tl => let dl := now w + tl in
                        if (a <? dl) || ((a =? dl) && tie w) then (set_now w a, PData) else (set_now w dl, PNothing)
           end
  | [] => match timeleft tt (now w) with
          | None => (w, PHang)
          | Some tl => (set_now w (now w + tl), PNothing)
          end
  end.

(* Connection.serve(timeout) on an uncontended connection: poll, recv (blocks until the frame is complete), dispatch *)
Definition serve_tt (tt : timeout) (w : world) : world * pollres :=
  match chan_poll tt w with
  | (w1, PData) => match queue w1 with
                   | (_, c, m) :: q =>
                       match dispatch (set_queue (set_now w1 (Z.max (now w1) c)) q) (now w1) m with
                       | (w2, None) => (w2, PData)
                       | (w2, Some cb) => (w2, PExc cb)
                       end
                   | [] => (w1, PNothing)
                   end
  | r => r
  end.

(* Connection.poll_all(0): its deadline is "now", so the loop body runs exactly once *)
Definition poll_all0 (w : world) : world * option N :=
  match serve_tt (mk_timeout (now w) (Some 0)) w with
  | (w', PExc c) => (w', Some c)
  | (w', _) => (w', None)
  end.

(* property ready *)
Definition q_ready (w : world) : world * obs :=
  if ready (res w) then (w, OBool true)
  else if expired_at (ttl (res w)) (now w) then (w, OBool false)
  else match poll_all0 w with
       | (w', Some c) => (w', OCbExc c)
       | (w', None) => (w', OBool (ready (res w')))
       end.
(* property error:  self.ready and self._is_exc *)
Definition q_error (w : world) : world * obs :=
  match q_ready w with
  | (w', OBool r) => (w', OBool (r && is_exc (res w')))
  | r => r
  end.

(* wait():  while not self._is_ready and not self._ttl.expired(): self._conn.serve(self._ttl)
            if not self._is_ready: raise AsyncResultTimeout *)
Fixpoint wait_loop (fuel : nat) (w : world) : world * obs :=
  if ready (res w) then (w, ONone)
  else if expired_at (ttl (res w)) (now w) then (w, OTimeout)
  else match fuel with
       | O => (w, OFuel)
       | S f => match serve_tt (ttl (res w)) w with
                | (w', PHang) => (w', OHang)
                | (w', PExc c) => (w', OCbExc c)
                | (w', _) => wait_loop f w'
                end
       end.
Definition wait_fuel (w : world) : nat := S (S (List.length (queue w))).
Definition ar_wait (w : world) : world * obs := wait_loop (wait_fuel w) w.

(* property value *)
Definition q_value (w : world) : world * obs :=
  match ar_wait w with
  | (w', ONone) => (w', if is_exc (res w') then ORaise (obj (res w')) else OVal (obj (res w')))
  | r => r
  end.

(* ------------------------------------------------------------------ histories *)
Inductive action :=
| Advance (d : N)                 (* the caller does something else for d ticks *)
| AddCb (c : N) (r : bool)        (* add_callback of a callback that raises iff r *)
| AddCbTest (c : N) (r : bool)    (* another thread enters add_callback and tests readiness ... *)
| AddCbCommit                     (* ... and later performs the branch it chose *)
| SetExpiry (t : option Z)
| QReady | QError | QExpired | QValue | Wait
| Serve (t : option Z).           (* the caller serves the connection itself: conn.serve(t) *)

Definition obs_of_exc (x : option N) : obs := match x with Some c => OCbExc c | None => ONone end.

Definition step (w : world) (a : action) : world * obs :=
  match a with
  | Advance d => (set_now w (now w + Z.of_N d), ONone)
  | AddCb c r => let (w', x) := ar_add_callback w c r in (w', obs_of_exc x)
  | AddCbTest c r =>
      match pend w with
      | Some _ => (w, ONone)                                  (* one registration in flight at a time *)
      | None => if atom w then (set_pend w (Some (c, r)), ONone)        (* atomic: takes effect at the commit *)
                else if ready (res w) then let (w', x) := ar_add_callback w c r in (w', obs_of_exc x)
                else (set_pend w (Some (c, r)), ONone)         (* saw "not ready": will append, whatever happens meanwhile *)
      end
  | AddCbCommit =>
      match pend w with
      | None => (w, ONone)
      | Some (c, r) => let w1 := set_pend w None in
                       if atom w then let (w', x) := ar_add_callback w1 c r in (w', obs_of_exc x)
                       else (ar_append_callback w1 c r, ONone)
      end
  | SetExpiry t => (ar_set_expiry w t, ONone)
  | QReady => q_ready w
  | QError => q_error w
  | QExpired => (w, OBool (ar_expired (res w) (now w)))
  | QValue => q_value w
  | Wait => ar_wait w
  | Serve t => match serve_tt (mk_timeout (now w) t) w with
               | (w', PData) => (w', OBool true)
               | (w', PNothing) => (w', OBool false)
               | (w', PHang) => (w', OHang)
               | (w', PExc c) => (w', OCbExc c)
               end
  end.

Fixpoint run_hist (w : world) (acts : list action) : world * list (obs * Z) :=
  match acts with
  | [] => (w, [])
  | a :: rest => let (w1, o) := step w a in
                 let (w2, tr) := run_hist w1 rest in (w2, (o, now w1) :: tr)
  end.
Definition run_w (w : world) (acts : list action) : world := fold_left (fun w a => fst (step w a)) acts w.

(* Connection.async_request(handler, ..., timeout=t): new result, register + send (takes send_dur), then
   "if timeout is not None: res.set_expiry(timeout)" *)
Definition async_request (t : option Z) (send_dur : N) (w : world) : world :=
  let w1 := set_now (set_registered (set_res w new_ar) true) (now w + Z.of_N send_dur) in
  match t with None => w1 | Some _ => ar_set_expiry w1 t end.
(* Connection.sync_request:  timeout = self._config["sync_request_timeout"]; return self.async_request(..., timeout=timeout).value *)
Definition sync_request (cfg_timeout : option Z) (send_dur : N) (w : world) : world * obs :=
  q_value (async_request cfg_timeout send_dur w).
(* timed(proxy, t)(...):  res = self.proxy(...); res.set_expiry(self.timeout); return res *)
Definition timed_call (t : option Z) (send_dur : N) (w : world) : world :=
  ar_set_expiry (async_request None send_dur w) t.

Inductive outcome := Pending | Got (e : bool) (v : Z) | Expired.
Definition outcome_of (w : world) : outcome :=
  if ready (res w) then Got (is_exc (res w)) (obj (res w))
  else if expired_at (ttl (res w)) (now w) then Expired else Pending.

(* ------------------------------------------------------------------ control skeletons (tie) *)
(* the anchored methods as the translator (tools/pygen/async_.py) emits them; proofs/AsyncP.v shows that
   interpreting these programs gives exactly the functions above, proofs/AsyncTie.v that they are what the source says *)
Inductive guard := GReady | GIsExc | GTtlExpired | GExpiredProp | GReadyProp | GNot (g : guard) | GAnd (a b : guard).
Inductive stmt :=
| SIfRet (g : guard) (r : option bool)     (* if g: return [r] *)
| SSetExc | SSetObj | SSetReady            (* self._is_exc = is_exc / self._obj = obj / self._is_ready = True *)
| SRunCallbacks                            (* for cb in self._callbacks: cb(self) *)
| SDelCallbacks                            (* del self._callbacks[:] *)
| SWhileServe (g : guard)                  (* while g: self._conn.serve(self._ttl) *)
| SIfRaiseTimeout (g : guard)              (* if g: raise AsyncResultTimeout(...) *)
| SIfCallElseAppend (g : guard)            (* if g: func(self) else: self._callbacks.append(func) *)
| SSetTtl                                  (* self._ttl = Timeout(timeout) *)
| SPollAll                                 (* self._conn.poll_all() *)
| SRetGuard (g : guard)                    (* return <g> *)
| SWait                                    (* self.wait() *)
| SIfRaiseObjElseRetObj (g : guard)        (* if g: raise self._obj else: return self._obj *)
(* statements of the repaired form *)
| SLockAcquire | SLockRelease              (* with self._lock: ... (a return inside releases it) *)
| STakeCallbacks                           (* callbacks = self._callbacks[:] *)
| SRunTakenIsolated                        (* error = None; for cb in callbacks: try: cb(self) except Exception as ex: keep the first *)
| SReraiseFirst                            (* if error is not None: raise error *)
| SIfNotReadyAppendRet                     (* if not self._is_ready: self._callbacks.append(func); return *)
| SCallFunc.                               (* func(self) *)

Definition call_prog_current : list stmt := [SIfRet GExpiredProp None; SSetExc; SSetObj; SSetReady; SRunCallbacks; SDelCallbacks].
Definition call_prog_repaired : list stmt :=
  [SLockAcquire; SIfRet GExpiredProp None; SSetExc; SSetObj; SSetReady; STakeCallbacks; SDelCallbacks; SLockRelease;
   SRunTakenIsolated; SReraiseFirst].
Definition add_callback_prog_current : list stmt := [SIfCallElseAppend GReady].
Definition add_callback_prog_repaired : list stmt := [SLockAcquire; SIfNotReadyAppendRet; SLockRelease; SCallFunc].
Definition call_prog (i : bool) : list stmt := if i then call_prog_repaired else call_prog_current.
Definition add_callback_prog (a : bool) : list stmt := if a then add_callback_prog_repaired else add_callback_prog_current.
Definition wait_prog : list stmt := [SWhileServe (GAnd (GNot GReady) (GNot GTtlExpired)); SIfRaiseTimeout (GNot GReady)].
Definition set_expiry_prog : list stmt := [SSetTtl].
Definition ready_prog : list stmt := [SIfRet GReady (Some true); SIfRet GTtlExpired (Some false); SPollAll; SRetGuard GReady].
Definition error_prog : list stmt := [SRetGuard (GAnd GReadyProp GIsExc)].
Definition expired_prog : list stmt := [SRetGuard (GAnd (GNot GReady) GTtlExpired)].
Definition value_prog : list stmt := [SWait; SIfRaiseObjElseRetObj GIsExc].

(* the two facts, read off the programs: callbacks are isolated iff the loop is the try/except one; the registration is
   atomic iff the readiness write of __call__ and the test-and-append of add_callback both sit inside the lock *)
Definition stmt_eqb (a b : stmt) : bool :=
  match a, b with
  | SRunCallbacks, SRunCallbacks | SRunTakenIsolated, SRunTakenIsolated | SLockAcquire, SLockAcquire
  | SLockRelease, SLockRelease | SSetReady, SSetReady | SIfNotReadyAppendRet, SIfNotReadyAppendRet
  | STakeCallbacks, STakeCallbacks | SIfCallElseAppend _, SIfCallElseAppend _ => true
  | _, _ => false
  end.
Definition has (s : stmt) (p : list stmt) : bool := existsb (stmt_eqb s) p.
Fixpoint locked_part (inside : bool) (p : list stmt) : list stmt :=
  match p with
  | [] => []
  | SLockAcquire :: r => locked_part true r
  | SLockRelease :: r => locked_part false r
  | s :: r => if inside then s :: locked_part inside r else locked_part inside r
  end.
Definition isolated_of (callp : list stmt) : bool := has SRunTakenIsolated callp && negb (has SRunCallbacks callp).
Definition atomic_of (callp addp : list stmt) : bool :=
  has SSetReady (locked_part false callp) && has STakeCallbacks (locked_part false callp) &&
  has SIfNotReadyAppendRet (locked_part false addp) && negb (has (SIfCallElseAppend GReady) addp).

(* Connection.sync_request / async_request, netref.syncreq / asyncreq and timed.__call__ as facts *)
Inductive cstmt :=
| CReadConfigTimeout (key : string)        (* timeout = self._config[key] *)
| CNewResult                               (* res = AsyncResult(self) *)
| CSendRequest                             (* self._async_request(handler, args, res) *)
| CIfTimeoutNotNoneSetExpiry               (* if timeout is not None: res.set_expiry(timeout) *)
| CSetExpiryOwn                            (* res.set_expiry(self.timeout) *)
| CAsyncRequestWithTimeout                 (* self.async_request(handler, ..., timeout=timeout) *)
| CAsyncProxyCall                          (* res = self.proxy( *args, **kwargs ) *)
| CReturnValue                             (* return <that>.value *)
| CReturnRes                               (* return res *)
| CGetConn                                 (* conn = object.__getattribute__(proxy, "____conn__") *)
| CReturnConnSyncRequest                   (* return conn.sync_request(handler, proxy, ... ) *)
| CReturnConnAsyncRequest.                 (* return conn.async_request(handler, proxy, ... )  -- no timeout *)
Definition async_request_prog : list cstmt := [CNewResult; CSendRequest; CIfTimeoutNotNoneSetExpiry; CReturnRes].
Definition sync_request_prog : list cstmt := [CReadConfigTimeout "sync_request_timeout"; CAsyncRequestWithTimeout; CReturnValue].
Definition timed_call_prog : list cstmt := [CAsyncProxyCall; CSetExpiryOwn; CReturnRes].
Definition syncreq_prog : list cstmt := [CGetConn; CReturnConnSyncRequest].
Definition asyncreq_prog : list cstmt := [CGetConn; CReturnConnAsyncRequest].
(* Connection._dispatch, reply branch: the value is unboxed before the callback is looked up and called *)
Definition dispatch_reply_order : list string := ["obj = self._unbox(args)"; "self._seq_request_callback(msg, seq, False, obj)"]%string.

Record args := { a_exc : bool; a_obj : Z; a_func : N; a_raises : bool; a_timeout : option Z }.
Record locals := { l_taken : list (N * bool); l_err : option N }.

Definition gres := (bool + N)%type.      (* value of a guard, or the callback whose exception it let through *)
Fixpoint eval_guard (g : guard) (w : world) : world * gres :=
  match g with
  | GReady => (w, inl (ready (res w)))
  | GIsExc => (w, inl (is_exc (res w)))
  | GTtlExpired => (w, inl (expired_at (ttl (res w)) (now w)))
  | GExpiredProp => (w, inl (ar_expired (res w) (now w)))
  | GReadyProp => match q_ready w with (w', OBool b) => (w', inl b) | (w', OCbExc c) => (w', inr c) | (w', _) => (w', inl false) end
  | GNot g => match eval_guard g w with (w', inl b) => (w', inl (negb b)) | r => r end
  | GAnd a b => match eval_guard a w with (w', inl true) => eval_guard b w' | r => r end
  end.

Definition upd_ar (w : world) (f : ar -> ar) : world := set_res w (f (res w)).

Fixpoint while_serve (fuel : nat) (g : guard) (w : world) : world * option obs :=
  match eval_guard g w with
  | (w0, inr c) => (w0, Some (OCbExc c))
  | (w0, inl false) => (w0, None)
  | (w0, inl true) =>
      match fuel with
      | O => (w0, Some OFuel)
      | S f => match serve_tt (ttl (res w0)) w0 with
               | (w', PHang) => (w', Some OHang)
               | (w', PExc c) => (w', Some (OCbExc c))
               | (w', _) => while_serve f g w'
               end
      end
  end.

(* a guard's value decides; an exception inside it leaves the method *)
Definition on_guard (g : guard) (w : world) (k : world -> bool -> world * option obs) : world * option obs :=
  match eval_guard g w with (w', inl b) => k w' b | (w', inr c) => (w', Some (OCbExc c)) end.

(* one statement: Some o = the method returned / raised with observation o *)
Definition exec1 (s : stmt) (x : args) (l : locals) (w : world) : locals * (world * option obs) :=
  match s with
  | SIfRet g r => (l, on_guard g w (fun w' b => (w', if b then Some (match r with Some v => OBool v | None => ONone end) else None)))
  | SSetExc => (l, (upd_ar w (fun a => {| ready := ready a; is_exc := a_exc x; obj := obj a; callbacks := callbacks a; ttl := ttl a |}), None))
  | SSetObj => (l, (upd_ar w (fun a => {| ready := ready a; is_exc := is_exc a; obj := a_obj x; callbacks := callbacks a; ttl := ttl a |}), None))
  | SSetReady => (l, (set_got (upd_ar w (fun a => {| ready := true; is_exc := is_exc a; obj := obj a; callbacks := callbacks a; ttl := ttl a |})) (now w), None))
  | SRunCallbacks => let (lg, e) := run_until (now w) (callbacks (res w)) in
                     (l, (set_log w (log w ++ lg), match e with Some c => Some (OCbExc c) | None => None end))
  | SDelCallbacks => (l, (upd_ar w (fun a => with_callbacks a []), None))
  | SWhileServe g => (l, while_serve (wait_fuel w) g w)
  | SIfRaiseTimeout g => (l, on_guard g w (fun w' b => (w', if b then Some OTimeout else None)))
  | SIfCallElseAppend g =>
      (l, on_guard g w (fun w' b =>
        let w1 := add_reg w' (a_func x, now w') in
        if b then (set_log w1 (log w' ++ [(a_func x, now w')]), if a_raises x then Some (OCbExc (a_func x)) else None)
        else (upd_ar w1 (fun a => with_callbacks a (callbacks a ++ [(a_func x, a_raises x)])), None)))
  | SSetTtl => (l, (upd_ar w (fun a => {| ready := ready a; is_exc := is_exc a; obj := obj a; callbacks := callbacks a; ttl := mk_timeout (now w) (a_timeout x) |}), None))
  | SPollAll => match poll_all0 w with (w', Some c) => (l, (w', Some (OCbExc c))) | (w', None) => (l, (w', None)) end
  | SRetGuard g => (l, on_guard g w (fun w' b => (w', Some (OBool b))))
  | SWait => (l, match ar_wait w with (w', ONone) => (w', None) | (w', o) => (w', Some o) end)
  | SIfRaiseObjElseRetObj g => (l, on_guard g w (fun w' b => (w', Some (if b then ORaise (obj (res w')) else OVal (obj (res w'))))))
  | SLockAcquire | SLockRelease => (l, (w, None))
  | STakeCallbacks => ({| l_taken := callbacks (res w); l_err := l_err l |}, (w, None))
  | SRunTakenIsolated => let (lg, e) := run_all (now w) (l_taken l) in
                         ({| l_taken := l_taken l; l_err := e |}, (set_log w (log w ++ lg), None))
  | SReraiseFirst => (l, (w, match l_err l with Some c => Some (OCbExc c) | None => None end))
  | SIfNotReadyAppendRet =>
      (l, if ready (res w) then (w, None)
          else (upd_ar (add_reg w (a_func x, now w)) (fun a => with_callbacks a (callbacks a ++ [(a_func x, a_raises x)])), Some ONone))
  | SCallFunc => (l, (set_log (add_reg w (a_func x, now w)) (log w ++ [(a_func x, now w)]),
                      if a_raises x then Some (OCbExc (a_func x)) else None))
  end.

Fixpoint exec_l (p : list stmt) (x : args) (l : locals) (w : world) : world * obs :=
  match p with
  | [] => (w, ONone)
  | s :: rest => match exec1 s x l w with
                 | (_, (w', Some o)) => (w', o)
                 | (l', (w', None)) => exec_l rest x l' w'
                 end
  end.
Definition exec (p : list stmt) (x : args) (w : world) : world * obs := exec_l p x {| l_taken := []; l_err := None |} w.

(* interpretation of the Connection.async_request / sync_request / netref.syncreq / asyncreq / timed.__call__ skeletons;
   [cfg] is the connection's configuration, [own] the timed object's self.timeout, [c_timeout] the local variable *)
Record cframe := { c_w : world; c_timeout : option Z; c_ret : option obs }.
Definition cexec1 (cfg : string -> option Z) (own : option Z) (sd : N) (s : cstmt) (f : cframe) : cframe :=
  let w := c_w f in
  match s with
  | CReadConfigTimeout key => {| c_w := w; c_timeout := cfg key; c_ret := c_ret f |}
  | CNewResult => {| c_w := set_res w new_ar; c_timeout := c_timeout f; c_ret := c_ret f |}
  | CSendRequest => {| c_w := set_now (set_registered w true) (now w + Z.of_N sd); c_timeout := c_timeout f; c_ret := c_ret f |}
  | CIfTimeoutNotNoneSetExpiry =>
      match c_timeout f with
      | None => f
      | Some _ => {| c_w := ar_set_expiry w (c_timeout f); c_timeout := c_timeout f; c_ret := c_ret f |}
      end
  | CSetExpiryOwn => {| c_w := ar_set_expiry w own; c_timeout := c_timeout f; c_ret := c_ret f |}
  | CAsyncRequestWithTimeout => {| c_w := async_request (c_timeout f) sd w; c_timeout := c_timeout f; c_ret := c_ret f |}
  | CAsyncProxyCall => {| c_w := async_request None sd w; c_timeout := c_timeout f; c_ret := c_ret f |}
  | CReturnValue => let (w', o) := q_value w in {| c_w := w'; c_timeout := c_timeout f; c_ret := Some o |}
  | CReturnRes => f
  | CGetConn => f
  | CReturnConnSyncRequest => let (w', o) := sync_request (cfg "sync_request_timeout"%string) sd w in
                              {| c_w := w'; c_timeout := c_timeout f; c_ret := Some o |}
  | CReturnConnAsyncRequest => {| c_w := async_request None sd w; c_timeout := c_timeout f; c_ret := c_ret f |}
  end.
Definition cexec (cfg : string -> option Z) (own : option Z) (sd : N) (p : list cstmt) (f : cframe) : cframe :=
  fold_left (fun f s => cexec1 cfg own sd s f) p f.

(* ------------------------------------------------------------------ materialisation is bounded by sync_request_timeout *)
(* unboxing a proxy of an unseen class is a nested sync_request(HANDLE_INSPECT) under the connection's configured timeout
   [cfg]: if the peer needs u >= cfg ticks the inquiry times out after cfg ticks, and _dispatch_response delivers that
   timeout error -- an instance of the very class wait() raises -- to the request as its exception ([tmark] stands for it).
   The bound is a property of the message and the configuration alone, so it is applied to the script up front. *)
Definition tmark : Z := -999.
Definition bound_reply (cfg : option Z) (m : msg) : msg :=
  match m with
  | Reply e v u => if timeout_finite cfg && (oz cfg <=? Z.of_N u) && negb (u =? 0)%N then Reply true tmark (Z.to_N (oz cfg)) else m
  | _ => m
  end.
Definition norm_queue (cfg : option Z) (q : list (Z * Z * msg)) : list (Z * Z * msg) :=
  map (fun x => (fst x, bound_reply cfg (snd x))) q.

(* ------------------------------------------------------------------ harness interface *)
Definition opt_of_sx (x : sx) : option Z := match x with SL [v] => Some (sx_z v) | _ => None end.
Definition msg_of_sx (x : sx) : Z * Z * msg :=
  match x with
  | SL [a; c; k; p; q; u] =>
      (sx_z a, sx_z c, if sx_z k =? 0 then Reply (sx_bool p) (sx_z q) (sx_n u) else if sx_z k =? 1 then Traffic (sx_n p) else Stray (sx_n p))
  | _ => (0, 0, Stray 0)
  end.
Definition action_of_sx (x : sx) : action :=
  match x with
  | SL [k; p; r] =>
      let k := sx_z k in
      if k =? 0 then Advance (sx_n p) else if k =? 1 then AddCb (sx_n p) (sx_bool r) else if k =? 2 then SetExpiry (opt_of_sx p)
      else if k =? 3 then QReady else if k =? 4 then QError else if k =? 5 then QExpired else if k =? 6 then QValue
      else if k =? 7 then Wait else if k =? 8 then Serve (opt_of_sx p)
      else if k =? 9 then AddCbTest (sx_n p) (sx_bool r) else AddCbCommit
  | _ => Advance 0
  end.
Definition sx_of_obs (o : obs) : sx :=
  match o with
  | ONone => SL [SI 0] | OBool b => SL [SI 1; sbool b] | OVal v => SL [SI 2; SI v] | ORaise v => SL [SI 3; SI v]
  | OTimeout => SL [SI 4] | OHang => SL [SI 5] | OFuel => SL [SI 6] | OCbExc c => SL [SI 7; sN c]
  end.
Definition sx_of_world (w : world) : sx :=
  SL [SL (map (fun p => SL [sN (fst p); SI (snd p)]) (log w));
      sbool (ready (res w)); sbool (is_exc (res w)); SI (obj (res w));
      SL (map (fun p => sN (fst p)) (callbacks (res w)));
      sbool (finite (ttl (res w))); SI (if finite (ttl (res w)) then tmax (ttl (res w)) else 0);
      sbool (registered w); snat (List.length (queue w)); SI (now w)].
Definition sx_of_trace (tr : list (obs * Z)) : sx := SL (map (fun p => SL [sx_of_obs (fst p); SI (snd p)]) tr).

(* cases:
   ("hist" (mode tie iso atom cfg) t0 timeout send_dur queue actions)     cfg = the configured sync_request_timeout
        mode 0 = async_request(timeout=..), 1 = conn.sync_request with config timeout, 2 = timed(proxy, timeout)(..),
        3 = a synchronous operation on a proxy (netref.syncreq) with config timeout
   ("tmo" timeout t_create t_query)                      the Timeout class alone *)
Definition run_async (x : sx) : sx :=
  match x with
  | SL [op; SL [mode; tb; i; a; cfg]; t0; tmo; sd; q; acts] =>
      if is_tag "hist" op then
        let w0 := fresh (sx_z t0) (sx_bool tb) (sx_bool i) (sx_bool a) (norm_queue (opt_of_sx cfg) (map msg_of_sx (sx_l q))) in
        let t := opt_of_sx tmo in
        if (sx_z mode =? 1) || (sx_z mode =? 3) then
          let (w1, o) := sync_request t (sx_n sd) w0 in
          SL [SL [SL [sx_of_obs o; SI (now w1)]]; sx_of_world w1]
        else
          let w1 := if sx_z mode =? 0 then async_request t (sx_n sd) w0 else timed_call t (sx_n sd) w0 in
          let (w2, tr) := run_hist w1 (map action_of_sx (sx_l acts)) in
          SL [sx_of_trace tr; sx_of_world w2]
      else bad_input
  | SL [op; tmo; tc; tq] =>
      if is_tag "tmo" op then
        let tt := mk_timeout (sx_z tc) (opt_of_sx tmo) in
        SL [sbool (finite tt); SI (if finite tt then tmax tt else 0); sbool (expired_at tt (sx_z tq));
            match timeleft tt (sx_z tq) with Some l => SL [SI l] | None => SL [] end]
      else bad_input
  | _ => bad_input
  end.
