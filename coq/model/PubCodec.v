(* The published 5.x value encoding written out directly, as one reads it in the format description - explicit tag bytes and
   length classes, no ladder tables, no code shared with model/Brine.v's encoder except the value type and CPython's own
   primitives (decimal text of an int: lib/Decimal.v, UTF-8: lib/Utf8.v).  proofs/PubCodecP.v proves it equal to Brine.dump. *)
From V Require Import lib.Base lib.Decimal lib.Utf8 model.Brine.
Open Scope N_scope.

(* a count n in front of n items of a kind whose tags are: none / one..four items / one-byte count / four-byte count *)
Definition pub_count (t0 t1 l1 l4 : N) (n : N) : result (list byte) :=
  if n =? 0 then Ok [b_of t0]
  else if n <=? 4 then Ok [b_of (t1 + (n - 1))]             (* 1..4 items: consecutive tags *)
  else if n <? 256 then Ok [b_of l1; b_of n]
  else if n <? 4294967296 then Ok (b_of l4 :: be4 n)
  else Raise StructError.                                     (* struct.pack("!L") refuses *)
Definition pub_bytes (b : list byte) : result (list byte) :=
  do h <- pub_count 0x01 0x0a 0x0e 0x0f (nlen b); Ok (h ++ b).
Definition pub_int (maxd : N) (z : Z) : result (list byte) :=
  if ((-0x30 <=? z) && (z <? 0xa0))%Z then Ok [b_of (Z.to_N (z + 0x50))]             (* one byte: 0x50 + i *)
  else do t <- render maxd z;                                                       (* ASCII decimal *)
       if nlen t <? 256 then Ok (b_of 0x16 :: b_of (nlen t) :: t)
       else if nlen t <? 4294967296 then Ok (b_of 0x17 :: be4 (nlen t) ++ t)
       else Raise StructError.

Section Pub.
Variable surrogatepass : bool.     (* text codec: the repaired tree's extension for lone surrogates (F1); strict = published *)
Variable maxd : N.                 (* the interpreter's limit on int <-> text conversion *)
Fixpoint pub_dump (v : pyval) : result (list byte) :=
  let items := fix go (l : list pyval) : result (list byte) :=
      match l with [] => Ok [] | y :: ys => do a <- pub_dump y; do b <- go ys; Ok (a ++ b) end in
  match v with
  | PNone => Ok [b_of 0x00]
  | PNotImpl => Ok [b_of 0x05]
  | PEllipsis => Ok [b_of 0x06]
  | PBool b => Ok [b_of (if b then 0x03 else 0x04)]
  | PInt z => pub_int maxd z
  | PFloat bits => Ok (b_of 0x18 :: bits)                      (* "!d" *)
  | PComplex bits => Ok (b_of 0x1b :: bits)                    (* "!dd" *)
  | PBytes b => pub_bytes b
  | PStr cps => do e <- utf8_encode surrogatepass cps; do d <- pub_bytes e; Ok (b_of 0x08 :: d)
  | PTuple l => do h <- pub_count 0x02 0x10 0x14 0x15 (nlen l); do body <- items l; Ok (h ++ body)
  | PFset l => do h <- pub_count 0x02 0x10 0x14 0x15 (nlen l); do body <- items l; Ok (b_of 0x1a :: h ++ body)
  | PSlice a b c => do x <- pub_dump a; do y <- pub_dump b; do z <- pub_dump c; Ok (b_of 0x19 :: b_of 0x12 :: x ++ y ++ z)
  | POther _ => Raise TypeError
  end.
End Pub.

(* the published frame: 4-byte big-endian length of the body, one flag byte (1 = body is a zlib stream, only when the sender compresses
   and the payload is strictly longer than 3000 bytes), the body, a newline *)
Definition pub_frame (zlib : list byte -> list byte) (compressing : bool) (payload : list byte) : result (list byte) :=
  let flag := compressing && (3000 <? nlen payload) in
  let body := if flag then zlib payload else payload in
  if nlen body <? 4294967296 then Ok (be4 (nlen body) ++ [b_of (if flag then 1 else 0)] ++ body ++ [b_of 10])
  else Raise StructError.
