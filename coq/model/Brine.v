(* Executable model of rpyc/core/brine.py (dump / load / dumpable) over an inductive
   universe of Python values.  No proofs here (see proofs/BrineP.v). *)
From V Require Import lib.Base lib.Sx lib.Decimal lib.Utf8 model.Ladder.
From Coq Require Import String.
Open Scope N_scope.

Inductive pyval :=
| PNone | PNotImpl | PEllipsis
| PBool (b : bool)
| PInt (z : Z)
| PFloat (bits : list byte)           (* IEEE-754 big-endian, 8 bytes *)
| PComplex (bits : list byte)         (* real ++ imag, 16 bytes *)
| PBytes (b : list byte)
| PStr (cps : list N)                 (* code points, surrogates allowed *)
| PTuple (l : list pyval)
| PFset (l : list pyval)              (* elements in the sender's iteration order *)
| PSlice (a b c : pyval)
| POther (k : N).                     (* any value whose exact type is not in the registry *)

Record bparams := { sp : bool; maxdigits : N }.

(* ---- tags (tie: proofs/BrineTie.v compares them with Gen_brine) ---- *)
Definition TAG_NONE := x00.         Definition TAG_EMPTY_STR := x01.   Definition TAG_EMPTY_TUPLE := x02.
Definition TAG_TRUE := x03.         Definition TAG_FALSE := x04.       Definition TAG_NOT_IMPLEMENTED := x05.
Definition TAG_ELLIPSIS := x06.     Definition TAG_UNICODE := x08.
Definition TAG_STR1 := x0a.  Definition TAG_STR2 := x0b.  Definition TAG_STR3 := x0c.  Definition TAG_STR4 := x0d.
Definition TAG_STR_L1 := x0e. Definition TAG_STR_L4 := x0f.
Definition TAG_TUP1 := x10.  Definition TAG_TUP2 := x11.  Definition TAG_TUP3 := x12.  Definition TAG_TUP4 := x13.
Definition TAG_TUP_L1 := x14. Definition TAG_TUP_L4 := x15.
Definition TAG_INT_L1 := x16. Definition TAG_INT_L4 := x17.
Definition TAG_FLOAT := x18. Definition TAG_SLICE := x19. Definition TAG_FSET := x1a. Definition TAG_COMPLEX := x1b.
Definition IMM_LO : Z := (-0x30)%Z.   Definition IMM_HI : Z := 0xa0%Z.   Definition IMM_OFF : Z := 0x50%Z.

Definition str_ladder : ladder :=
  [(LEq, 0, 1, LNone); (LEq, 1, 10, LNone); (LEq, 2, 11, LNone); (LEq, 3, 12, LNone); (LEq, 4, 13, LNone);
   (LLt, 256, 14, LI1); (LElse, 0, 15, LI4)].
Definition tup_ladder : ladder :=
  [(LEq, 0, 2, LNone); (LEq, 1, 16, LNone); (LEq, 2, 17, LNone); (LEq, 3, 18, LNone); (LEq, 4, 19, LNone);
   (LLt, 256, 20, LI1); (LElse, 0, 21, LI4)].
Definition int_ladder : ladder := [(LLt, 256, 22, LI1); (LElse, 0, 23, LI4)].
(* the six-step ladders of _dump_bytes / _dump_tuple, and the two-step one of _dump_int *)
Definition hdr_str (n : N) : result (list byte) := ladder_hdr str_ladder n.
Definition hdr_tup (n : N) : result (list byte) := ladder_hdr tup_ladder n.
Definition hdr_int (n : N) : result (list byte) := ladder_hdr int_ladder n.

Definition dump_bytes (b : list byte) : result (list byte) :=
  do h <- hdr_str (nlen b); Ok (h ++ b).

Definition is_imm (z : Z) : bool := (IMM_LO <=? z)%Z && (z <? IMM_HI)%Z.
Definition dump_int (P : bparams) (z : Z) : result (list byte) :=
  if is_imm z then Ok [b_of (Z.to_N (z + IMM_OFF))]
  else do t <- render (maxdigits P) z; do h <- hdr_int (nlen t); Ok (h ++ t).

Section Dump.
Variable P : bparams.
Fixpoint dump (v : pyval) : result (list byte) :=
  let dump_items := fix go (l : list pyval) : result (list byte) :=
      match l with [] => Ok [] | y :: ys => do a <- dump y; do b <- go ys; Ok (a ++ b) end in
  match v with
  | PNone => Ok [TAG_NONE]
  | PNotImpl => Ok [TAG_NOT_IMPLEMENTED]
  | PEllipsis => Ok [TAG_ELLIPSIS]
  | PBool b => Ok [if b then TAG_TRUE else TAG_FALSE]
  | PInt z => dump_int P z
  | PFloat bits => Ok (TAG_FLOAT :: bits)
  | PComplex bits => Ok (TAG_COMPLEX :: bits)
  | PBytes b => dump_bytes b
  | PStr cps => do e <- utf8_encode (sp P) cps; do d <- dump_bytes e; Ok (TAG_UNICODE :: d)
  | PTuple l => do h <- hdr_tup (nlen l); do body <- dump_items l; Ok (h ++ body)
  | PFset l => do h <- hdr_tup (nlen l); do body <- dump_items l; Ok (TAG_FSET :: h ++ body)
  | PSlice a b c => do x <- dump a; do y <- dump b; do z <- dump c; Ok (TAG_SLICE :: TAG_TUP3 :: x ++ y ++ z)
  | POther _ => Raise TypeError
  end.
Fixpoint dump_items (l : list pyval) : result (list byte) :=
  match l with [] => Ok [] | y :: ys => do a <- dump y; do b <- dump_items ys; Ok (a ++ b) end.
End Dump.

Fixpoint dumpable (v : pyval) : bool :=
  match v with
  | PNone | PNotImpl | PEllipsis | PBool _ | PInt _ | PFloat _ | PComplex _ | PBytes _ | PStr _ => true
  | PTuple l | PFset l => forallb dumpable l
  | PSlice a b c => dumpable a && dumpable b && dumpable c
  | POther _ => false
  end.

(* ---- loading (open recursion; fuel bounds nesting depth only) ---- *)
Definition iter_elems (for_slice : bool) (v : pyval) : result (list pyval) :=
  match v with
  | PTuple l => Ok l
  | PBytes b => Ok (map (fun x => PInt (Z.of_N (Byte.to_N x))) b)
  | PStr cps => Ok (map (fun c => PStr [c]) cps)
  | PFset l => if for_slice then Unmodelled else Ok l
  | _ => Raise TypeError
  end.

Section Open.
Variable P : bparams.
Variable rec : list byte -> result (pyval * list byte).

Fixpoint items (k : nat) (n : N) (bs : list byte) (acc : list pyval) {struct k}
  : result (list pyval * list byte) :=
  if n =? 0 then Ok (rev acc, bs) else
  match k with
  | O => OutOfFuel
  | S k' => do (y, r) <- rec bs; items k' (n - 1) r (y :: acc)
  end.
Definition tup_of (n : N) (r : list byte) : result (pyval * list byte) :=
  do (l, r') <- items (S (List.length r)) n r []; Ok (PTuple l, r').
Definition bytes_of (n : N) (r : list byte) : result (pyval * list byte) :=
  let '(b, r') := take_upto n r in Ok (PBytes b, r').
Definition int_of (n : N) (r : list byte) : result (pyval * list byte) :=
  let '(t, r') := take_upto n r in do z <- parse (maxdigits P) t; Ok (PInt z, r').
Definition with_I1 (r : list byte) (k : N -> list byte -> result (pyval * list byte)) :=
  match r with n :: r1 => k (Byte.to_N n) r1 | [] => Raise StructError end.
Definition with_I4 (r : list byte) (k : N -> list byte -> result (pyval * list byte)) :=
  match r with a :: b :: c :: d :: r1 => k (un4 a b c d) r1 | _ => Raise StructError end.

Definition load_body (bs : list byte) : result (pyval * list byte) :=
  match bs with
  | [] => Raise TypeError            (* _load_registry.get(b"") is None -> None(stream) *)
  | t :: r =>
    let n := Byte.to_N t in
    if (0x20 <=? n) && (n <? 0xF0) then Ok (PInt (Z.of_N n - IMM_OFF)%Z, r) else
    match t with
    | x00 => Ok (PNone, r)
    | x01 => Ok (PBytes [], r)
    | x02 => Ok (PTuple [], r)
    | x03 => Ok (PBool true, r)
    | x04 => Ok (PBool false, r)
    | x05 => Ok (PNotImpl, r)
    | x06 => Ok (PEllipsis, r)
    | x08 => do (o, r') <- rec r;
             match o with
             | PBytes b => match utf8_decode (sp P) b with
                           | Ok cps => Ok (PStr cps, r')
                           | Raise e => Raise e | OutOfFuel => OutOfFuel | Unmodelled => Unmodelled end
             | _ => Raise AttributeError
             end
    | x0a => bytes_of 1 r | x0b => bytes_of 2 r | x0c => bytes_of 3 r | x0d => bytes_of 4 r
    | x0e => with_I1 r bytes_of
    | x0f => with_I4 r bytes_of
    | x10 => tup_of 1 r | x11 => tup_of 2 r | x12 => tup_of 3 r | x13 => tup_of 4 r
    | x14 => with_I1 r tup_of
    | x15 => with_I4 r tup_of
    | x16 => with_I1 r int_of
    | x17 => with_I4 r int_of
    | x18 => let '(b, r') := take_upto 8 r in
             if nlen b =? 8 then Ok (PFloat b, r') else Raise StructError
    | x1b => let '(b, r') := take_upto 16 r in
             if nlen b =? 16 then Ok (PComplex b, r') else Raise StructError
    | x19 => do (o, r') <- rec r;
             do es <- iter_elems true o;
             match es with
             | [a; b; c] => Ok (PSlice a b c, r')
             | _ => Raise ValueError
             end
    | x1a => do (o, r') <- rec r;
             do es <- iter_elems false o;
             Ok (PFset es, r')
    | _ => Raise TypeError
    end
  end.
End Open.

Fixpoint load_f (P : bparams) (fuel : nat) : list byte -> result (pyval * list byte) :=
  match fuel with
  | O => fun _ => OutOfFuel
  | S f => load_body P (load_f P f)
  end.
(* brine.load: nesting depth never exceeds the number of bytes *)
Definition load (P : bparams) (bs : list byte) : result pyval :=
  do (v, _) <- load_f P (S (List.length bs)) bs; Ok v.

(* ---- harness interface ---- *)
Fixpoint pv_of_sx (x : sx) : pyval :=
  match x with
  | SL [SI 0] => PNone | SL [SI 1] => PNotImpl | SL [SI 2] => PEllipsis
  | SL [SI 3; b] => PBool (sx_bool b)
  | SL [SI 4; SI z] => PInt z
  | SL [SI 5; SB b] => PFloat b
  | SL [SI 6; SB b] => PComplex b
  | SL [SI 7; SB b] => PBytes b
  | SL [SI 8; SL cps] => PStr (map sx_n cps)
  | SL [SI 9; SL l] => PTuple (map pv_of_sx l)
  | SL [SI 10; SL l] => PFset (map pv_of_sx l)
  | SL [SI 11; a; b; c] => PSlice (pv_of_sx a) (pv_of_sx b) (pv_of_sx c)
  | SL [SI 12; SI k] => POther (Z.to_N k)
  | _ => POther 999
  end%Z.
Fixpoint sx_of_pv (v : pyval) : sx :=
  match v with
  | PNone => SL [SI 0] | PNotImpl => SL [SI 1] | PEllipsis => SL [SI 2]
  | PBool b => SL [SI 3; sbool b]
  | PInt z => SL [SI 4; SI z]
  | PFloat b => SL [SI 5; SB b]
  | PComplex b => SL [SI 6; SB b]
  | PBytes b => SL [SI 7; SB b]
  | PStr cps => SL [SI 8; SL (map sN cps)]
  | PTuple l => SL [SI 9; SL (map sx_of_pv l)]
  | PFset l => SL [SI 10; SL (map sx_of_pv l)]
  | PSlice a b c => SL [SI 11; sx_of_pv a; sx_of_pv b; sx_of_pv c]
  | POther k => SL [SI 12; sN k]
  end%Z.

Definition params_of_sx (x : sx) : bparams :=
  match x with SL [s; m] => {| sp := sx_bool s; maxdigits := sx_n m |} | _ => {| sp := false; maxdigits := 4300 |} end.

Definition run_brine (x : sx) : sx :=
  match x with
  | SL [op; p; arg] =>
      if is_tag "dump" op then sx_result SB (dump (params_of_sx p) (pv_of_sx arg))
      else if is_tag "dumpable" op then sbool (dumpable (pv_of_sx arg))
      else if is_tag "load" op then sx_result sx_of_pv (load (params_of_sx p) (sx_b arg))
      else bad_input
  | _ => bad_input
  end.
