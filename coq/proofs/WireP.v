(* The layers composed: values -> brine bytes -> frames -> arbitrarily fragmented byte stream -> frames -> values.
   Nothing new is modelled here; the theorems glue BrineP (C04) and ChannelP (C05) together and add the receiver-side
   statement for frames an independent sender may emit (any flag byte, compressed at any size). *)
From Coq Require Import List NArith Lia.
From V Require Import lib.Base model.Brine model.Channel proofs.BrineP proofs.ChannelP.
Import ListNotations.
Open Scope N_scope.

Section Wire.
Variable decompress : list byte -> result (list byte).
Variable P : cparams.
Hypothesis Hhdr : hdr_size P = 5.
Hypothesis Hchunk : hdr_size P + nlen (flusher P) <= chunk P.

(* ---- a frame built by anybody who follows the published layout ----
   4-byte big-endian length of the body, one flag byte, the body, the trailer; the body is the payload itself when the flag
   byte is 0 and otherwise anything the receiver's zlib inflates to the payload. No threshold is demanded of the sender. *)
Definition conforming (fl : byte) (body payload : list byte) : Prop :=
  nlen body < 4294967296 /\ (if Byte.eqb fl x00 then Ok body else decompress body) = Ok payload.
Definition wire_frame (fl : byte) (body : list byte) : list byte :=
  (be4 (nlen body) ++ [fl]) ++ body ++ flusher P.

Lemma channel_recv_conforming tol fl body payload evs rest : conforming fl body payload ->
  (exists evs', channel_recv decompress P tol evs (wire_frame fl body ++ rest) = (RcvOk payload, evs', rest)
                /\ (benign_r tol evs -> benign_r tol evs'))
  \/ (exists evs' av, channel_recv decompress P tol evs (wire_frame fl body ++ rest) = (RcvEOF, evs', av) /\ ~ benign_r tol evs).
Proof.
  intros [Hl Hd]. unfold channel_recv, wire_frame. rewrite Hhdr. rewrite <- !app_assoc.
  pose proof (chunk_pos P Hhdr Hchunk) as Hc.
  destruct (stream_read_spec (fun x => x) Ok (fun x => eq_refl) P Hhdr Hchunk tol evs 5 (be4 (nlen body) ++ [fl]) (body ++ flusher P ++ rest) [] Hc eq_refl)
    as [(evs1 & E1 & B1)|(evs1 & av & E1 & B1)].
  2:{ right. rewrite <- app_assoc in E1. cbn [app] in *. rewrite E1. eauto. }
  rewrite <- app_assoc in E1. cbn [app] in E1. cbn [app]. rewrite E1. cbn [be4 app]. rewrite un4_be4 by exact Hl.
  replace (body ++ flusher P ++ rest) with ((body ++ flusher P) ++ rest) by (now rewrite app_assoc).
  destruct (stream_read_spec (fun x => x) Ok (fun x => eq_refl) P Hhdr Hchunk tol evs1 (nlen body + nlen (flusher P)) (body ++ flusher P) rest [] Hc ltac:(now rewrite nlen_app))
    as [(evs2 & E2 & B2)|(evs2 & av & E2 & B2)].
  2:{ right. rewrite E2. exists evs2, av. split; [reflexivity|]. intros Hb. apply B2. auto. }
  left. rewrite E2. cbn [app]. rewrite app_length, Nat.add_sub, firstn_app, Nat.sub_diag, firstn_all. cbn [firstn]. rewrite app_nil_r.
  exists evs2. split; [|auto]. destruct (Byte.eqb fl x00).
  - injection Hd as ->. reflexivity.
  - rewrite Hd. reflexivity.
Qed.

Lemma recv_nothing tol evs : exists evs' av, channel_recv decompress P tol evs [] = (RcvEOF, evs', av).
Proof.
  unfold channel_recv. destruct (stream_read_short (fun x => x) Ok (fun x => eq_refl) P Hhdr Hchunk tol evs (hdr_size P) [] []) as (e & a & E).
  { rewrite Hhdr. unfold nlen. cbn. lia. } rewrite E. eauto.
Qed.

(* a whole stream of conforming frames, read through any benign fragmentation, is delivered payload by payload *)
Fixpoint wire_of (fs : list (byte * list byte)) : list byte :=
  match fs with [] => [] | (fl, body) :: t => wire_frame fl body ++ wire_of t end.

Theorem recv_all_conforming tol : forall fs payloads evs acc fuel,
  Forall2 (fun f p => conforming (fst f) (snd f) p) fs payloads -> benign_r tol evs -> (length fs < fuel)%nat ->
  recv_all decompress P fuel tol evs (wire_of fs) acc = (List.rev acc ++ payloads, false).
Proof.
  induction fs as [|[fl body] fs IH]; intros payloads evs acc fuel HF Hb Hfuel; inversion HF as [|? p ? ps Hc HF']; subst.
  - destruct fuel as [|fuel]; [cbn in Hfuel; lia|]. cbn [recv_all wire_of].
    destruct (recv_nothing tol evs) as (evs' & av & ->). now rewrite app_nil_r.
  - destruct fuel as [|fuel]; [cbn in Hfuel; lia|]. cbn [recv_all wire_of]. cbn [fst snd] in Hc.
    destruct (channel_recv_conforming tol fl body p evs (wire_of fs) Hc) as [(evs' & -> & B)|(evs' & av & _ & B)]; [|contradiction].
    rewrite (IH ps evs' (p :: acc) fuel HF' (B Hb)) by (cbn in Hfuel; lia). cbn [List.rev]. now rewrite <- app_assoc.
Qed.

(* ---- values across the whole stack ---- *)
Variable compress : list byte -> list byte.
Hypothesis zlib_roundtrip : forall x, decompress (compress x) = Ok x.
Variable BP : bparams.

Definition transferable (v : pyval) : Prop := wf BP v = true /\ dumpable v = true /\ text_ok BP v = true.

Fixpoint dump_all (vs : list pyval) : result (list (list byte)) :=
  match vs with
  | [] => Ok []
  | v :: t => do b <- dump BP v; do r <- dump_all t; Ok (b :: r)
  end.
Fixpoint load_all (pkts : list (list byte)) : result (list pyval) :=
  match pkts with
  | [] => Ok []
  | b :: t => do v <- load BP b; do r <- load_all t; Ok (v :: r)
  end.

Lemma dump_load_all : forall vs, Forall transferable vs -> exists pkts, dump_all vs = Ok pkts /\ load_all pkts = Ok vs /\ length pkts = length vs.
Proof.
  induction vs as [|v vs IH]; intros HF.
  - exists []. repeat split.
  - inversion HF as [|? ? (Hw & Hd & Ht) HF']; subst. destruct (IH HF') as (pkts & E & L & N).
    destruct (load_dump BP v Hw Hd Ht) as (bs & Eb & Lb).
    exists (bs :: pkts). cbn [dump_all load_all]. rewrite Eb, E, Lb, L. cbn. now rewrite N.
Qed.

(* every finite sequence of transferable values, encoded, framed (with or without compression), written through a transport
   that accepts any number of bytes per call and read through one that splits, coalesces and interrupts reads arbitrarily,
   decodes at the far end to exactly the same sequence of values; the only side condition is the format's own 4-byte length *)
Theorem values_end_to_end tol cmp vs : Forall transferable vs ->
  exists pkts, dump_all vs = Ok pkts /\
    forall fs wevs revs fuel, frames compress P cmp pkts = Ok fs -> benign_w wevs -> benign_r tol revs -> (length vs < fuel)%nat ->
      exists wire got, send_all compress P cmp wevs pkts [] = Ok (true, wire)
                       /\ recv_all decompress P fuel tol revs wire [] = (got, false) /\ load_all got = Ok vs.
Proof.
  intros HF. destruct (dump_load_all vs HF) as (pkts & E & L & N). exists pkts. split; [exact E|].
  intros fs wevs revs fuel Hfs Hw Hr Hfuel.
  destruct (end_to_end compress decompress zlib_roundtrip P Hhdr Hchunk tol cmp pkts fs wevs revs fuel Hfs Hw Hr ltac:(now rewrite N))
    as (wire & Es & Er).
  exists wire, pkts. auto.
Qed.
End Wire.
