(* A ghost layer over model/Serve.v (the transition system itself is untouched): per thread, how many dispatches had happened at its
   last readiness test, and whether it has slept on the condition since. With it the window of C14 is a statement about HISTORY: a
   waiter that is past its test (trying for the lock, holding it, polling) came there straight from a test made when its reply had not
   been dispatched yet - it never reaches the lock after a sleep without looking at its result again. *)
From V Require Import lib.Base model.Serve proofs.ServeP.
From Coq Require Import Arith.

Record ghost := { tlen : nat -> nat; slept : nat -> bool }.
Definition g_init : ghost := {| tlen := fun _ => 0; slept := fun _ => false |}.
Definition gupd (l : label) (i : nat) (s : st) (g : ghost) : ghost :=
  match l with
  | LStep =>
      match tpc (thrs s i) with
      | LoopTest => {| tlen := upd (tlen g) i (List.length (dispatched s)); slept := upd (slept g) i false |}
      | S1 => match holder s with Some _ => {| tlen := tlen g; slept := upd (slept g) i true |} | None => g end
      | _ => g
      end
  | _ => g
  end.
Inductive greach (s0 : st) : st -> ghost -> Prop :=
| g0 : greach s0 s0 g_init
| gS s g l i s' : greach s0 s g -> step l i s = Some s' -> greach s0 s' (gupd l i s g).

Lemma greach_reach s0 s g : greach s0 s g -> reach s0 s.
Proof. induction 1; [constructor|econstructor; eauto]. Qed.
Lemma reach_greach s0 s : reach s0 s -> exists g, greach s0 s g.
Proof. induction 1 as [|s l i s' R [g G] E]; [exists g_init; constructor|exists (gupd l i s g); econstructor; eauto]. Qed.

Definition past_test (p : pc) : bool := match p with S1 | S2 | S3 | S4 | S5 => true | _ => false end.
Definition in_serve (p : pc) : bool := match p with S1 | Asleep | S2 | S3 | S4 | S5 => true | _ => false end.

Record InvG (s : st) (g : ghost) : Prop := {
  G_len : forall w, tlen g w <= List.length (dispatched s);
  G_test : forall w q, myseq (thrs s w) = Some q -> in_serve (tpc (thrs s w)) = true -> ~ In q (firstn (tlen g w) (dispatched s));
  G_slept : forall w, past_test (tpc (thrs s w)) = true -> slept g w = false
}.

Lemma firstn_app_le {A} (l x : list A) n : n <= List.length l -> firstn n (l ++ x) = firstn n l.
Proof. intros H. rewrite firstn_app. replace (n - List.length l) with 0 by lia. cbn. apply app_nil_r. Qed.

Lemma invG_init sv : InvG (init sv) g_init.
Proof. constructor; cbn; intros; [lia|tauto|reflexivity]. Qed.

(* what one step does to the dispatch log and to a thread's program counter / request *)
Lemma step_dispatched_grows s l i s' : step l i s = Some s' -> exists x, dispatched s' = dispatched s ++ x.
Proof.
  unfold step. cbv zeta. destruct l as [| | |q|q].
  - destruct (tpc (thrs s i)); try discriminate. destruct (server (thrs s i)); intros [= <-]; exists []; cbn; now rewrite app_nil_r.
  - destruct (tpc (thrs s i)); try discriminate.
    + destruct (myseq (thrs s i)) as [q|]; [destruct (ready s q); [|destruct (expd s q)]|]; intros [= <-]; exists []; cbn; now rewrite app_nil_r.
    + destruct (holder s); intros [= <-]; exists []; cbn; now rewrite app_nil_r.
    + destruct (inbox s); [discriminate|]. intros [= <-]; exists []; cbn; now rewrite app_nil_r.
    + intros [= <-]; exists []; cbn; now rewrite app_nil_r.
    + intros [= <-]; exists []; cbn; now rewrite app_nil_r.
    + destruct (hand (thrs s i)) as [q|]; [|discriminate]. intros [= <-]. exists [q]. reflexivity.
  - destruct (tpc (thrs s i)); try discriminate; intros [= <-]; exists []; cbn; now rewrite app_nil_r.
  - destruct (ph s q); try discriminate. intros [= <-]; exists []; cbn; now rewrite app_nil_r.
  - intros [= <-]; exists []; cbn; now rewrite app_nil_r.
Qed.

Lemma step_others s l i s' j : step l i s = Some s' -> j <> i ->
  myseq (thrs s' j) = myseq (thrs s j) /\
  (tpc (thrs s' j) = tpc (thrs s j) \/ (tpc (thrs s j) = Asleep /\ tpc (thrs s' j) = LoopTest)).
Proof.
  intros H Hj. unfold step in H. cbv zeta in H. destruct l as [| | |q|q].
  - destruct (tpc (thrs s i)); try discriminate. destruct (server (thrs s i)); injection H as <-; cbn [thrs with_thr]; rewrite upd_other by assumption; auto.
  - destruct (tpc (thrs s i)) eqn:E; try discriminate.
    + destruct (myseq (thrs s i)) as [q|]; [destruct (ready s q); [|destruct (expd s q)]|]; injection H as <-; cbn [thrs with_thr]; rewrite upd_other by assumption; auto.
    + destruct (holder s); injection H as <-; cbn [thrs with_thr]; rewrite upd_other by assumption; auto.
    + destruct (inbox s); [discriminate|]. injection H as <-; cbn [thrs]; rewrite upd_other by assumption; auto.
    + injection H as <-; cbn [thrs]; rewrite upd_other by assumption; auto.
    + injection H as <-; cbn [thrs]. rewrite upd_other by assumption. unfold wake. destruct (thrs s j) as [p m h sv]; cbn. destruct p; cbn; auto.
    + destruct (hand (thrs s i)); [|discriminate]. injection H as <-; cbn [thrs]; rewrite upd_other by assumption; auto.
  - destruct (tpc (thrs s i)); try discriminate; injection H as <-; cbn [thrs with_thr]; rewrite upd_other by assumption; auto.
  - destruct (ph s q); try discriminate. injection H as <-; cbn [thrs]; auto.
  - injection H as <-; cbn [thrs]; auto.
Qed.

(* the moving thread: where it was, where it is, and that its request is the same one unless it has just issued it *)
Lemma step_self s l i s' : step l i s = Some s' ->
  match l with
  | LAnswer _ | LExpire _ => thrs s' = thrs s
  | LIssue => tpc (thrs s i) = Idle /\ tpc (thrs s' i) = LoopTest
  | LTimeout => myseq (thrs s' i) = myseq (thrs s i) /\
                ((tpc (thrs s i) = Asleep /\ tpc (thrs s' i) = LoopTest) \/ (tpc (thrs s i) = S2 /\ tpc (thrs s' i) = S3))
  | LStep => myseq (thrs s' i) = myseq (thrs s i) /\
      match tpc (thrs s i) with
      | LoopTest => match myseq (thrs s i) with
                    | Some q => (ready s q = true /\ tpc (thrs s' i) = Returned) \/ (ready s q = false /\ expd s q = true /\ tpc (thrs s' i) = TimedOut)
                                \/ (ready s q = false /\ expd s q = false /\ tpc (thrs s' i) = S1)
                    | None => tpc (thrs s' i) = S1
                    end
      | S1 => (holder s = None /\ tpc (thrs s' i) = S2) \/ (holder s <> None /\ tpc (thrs s' i) = Asleep)
      | S2 => tpc (thrs s' i) = S3
      | S3 => tpc (thrs s' i) = S4
      | S4 => tpc (thrs s' i) = S5 \/ tpc (thrs s' i) = LoopTest
      | S5 => tpc (thrs s' i) = LoopTest
      | _ => False
      end
  end.
Proof.
  intros H. unfold step in H. cbv zeta in H. destruct l as [| | |q|q].
  - destruct (tpc (thrs s i)) eqn:E; try discriminate. destruct (server (thrs s i)); injection H as <-; cbn [thrs with_thr]; rewrite upd_same; cbn; auto.
  - destruct (tpc (thrs s i)) eqn:E; try discriminate.
    + destruct (myseq (thrs s i)) as [q|] eqn:Em; [destruct (ready s q) eqn:Er; [|destruct (expd s q) eqn:Ex]|]; injection H as <-;
        cbn [thrs with_thr]; rewrite upd_same; cbn; rewrite ?Em; split; auto.
    + destruct (holder s) eqn:Eh; injection H as <-; cbn [thrs with_thr]; rewrite upd_same; cbn; split; auto. right. split; [discriminate|reflexivity].
    + destruct (inbox s); [discriminate|]. injection H as <-; cbn [thrs]; rewrite upd_same; cbn; auto.
    + injection H as <-; cbn [thrs]; rewrite upd_same; cbn; auto.
    + injection H as <-; cbn [thrs]. rewrite upd_same. cbn. split; [reflexivity|]. destruct (hand (thrs s i)); auto.
    + destruct (hand (thrs s i)); [|discriminate]. injection H as <-; cbn [thrs]; rewrite upd_same; cbn; auto.
  - destruct (tpc (thrs s i)) eqn:E; try discriminate; injection H as <-; cbn [thrs with_thr]; rewrite upd_same; cbn; auto.
  - destruct (ph s q); try discriminate. injection H as <-; reflexivity.
  - injection H as <-; reflexivity.
Qed.

(* a request whose result is not ready and whose expiry has not passed has not been dispatched *)
Lemma not_ready_not_dispatched s q : InvB s -> ready s q = false -> expd s q = false -> ~ In q (dispatched s).
Proof.
  intros IB Hr Hx Hin. apply (proj2 (B_disp s IB)) in Hin.
  destruct (late s q) eqn:El.
  - destruct (B_late s IB q El) as [_ X]. congruence.
  - assert (ready s q = true) by (apply (B_ready s IB q); auto). congruence.
Qed.

Lemma invG_step s g l i s' : InvB s -> InvG s g -> step l i s = Some s' -> InvG s' (gupd l i s g).
Proof.
  intros IB [Hlen Htest Hslept] H.
  destruct (step_dispatched_grows s l i s' H) as [x Ex].
  pose proof (step_self s l i s' H) as Self.
  assert (Gi : forall j, j <> i -> tlen (gupd l i s g) j = tlen g j /\ slept (gupd l i s g) j = slept g j).
  { intros j Hj. unfold gupd. destruct l; auto. destruct (tpc (thrs s i)); auto; [cbn; now rewrite !upd_other by assumption|].
    destruct (holder s); auto. cbn. now rewrite upd_other by assumption. }
  constructor.
  - (* the recorded length never exceeds the log *)
    intros w. rewrite Ex, app_length. destruct (Nat.eq_dec w i) as [->|Hw]; [|destruct (Gi w Hw) as [-> _]; specialize (Hlen w); lia].
    unfold gupd. destruct l; try (specialize (Hlen i); lia). destruct (tpc (thrs s i)); try (specialize (Hlen i); lia).
    + cbn. rewrite upd_same. lia.
    + destruct (holder s); cbn; specialize (Hlen i); lia.
  - (* tested before the dispatch *)
    intros w q Hm Hs. rewrite Ex. destruct (Nat.eq_dec w i) as [->|Hw].
    + (* the moving thread *)
      destruct l as [| | |a|a]; cbn [gupd]; cbv beta iota in Self.
      * destruct Self as [_ E]. rewrite E in Hs. discriminate.
      * destruct Self as [Em Self]. rewrite Em in Hm. destruct (tpc (thrs s i)) eqn:Ep; try contradiction.
        -- (* the test itself *)
           cbn. rewrite upd_same. rewrite Hm in Self. destruct Self as [[_ E]|[(_ & _ & E)|(Hr & Hx & E)]]; try (rewrite E in Hs; discriminate).
           rewrite firstn_app_le by lia. rewrite firstn_all. exact (not_ready_not_dispatched s q IB Hr Hx).
        -- destruct (holder s); cbn [tlen]; rewrite firstn_app_le by apply Hlen; apply Htest; auto; rewrite Ep; reflexivity.
        -- rewrite firstn_app_le by apply Hlen. apply Htest; auto. rewrite Ep. reflexivity.
        -- rewrite firstn_app_le by apply Hlen. apply Htest; auto. rewrite Ep. reflexivity.
        -- destruct Self as [E|E]; [|rewrite E in Hs; discriminate]. rewrite firstn_app_le by apply Hlen. apply Htest; auto. rewrite Ep. reflexivity.
        -- rewrite Self in Hs. discriminate.
      * destruct Self as [Em [[Ea E]|[Ea E]]]; rewrite Em in Hm.
        -- rewrite E in Hs. discriminate.
        -- rewrite firstn_app_le by apply Hlen. apply Htest; auto. rewrite Ea. reflexivity.
      * rewrite Self in Hm, Hs. rewrite firstn_app_le by apply Hlen. now apply Htest.
      * rewrite Self in Hm, Hs. rewrite firstn_app_le by apply Hlen. now apply Htest.
    + (* another thread: same request; it can only have been woken, which takes it out of serve *)
      destruct (Gi w Hw) as [-> _]. rewrite firstn_app_le by apply Hlen.
      destruct l as [| | |a|a]; try (destruct (step_others s _ i s' w H Hw) as [Em [Ep|[_ Ep]]]; [rewrite Em in Hm; rewrite Ep in Hs; now apply Htest|rewrite Ep in Hs; discriminate]).
  - (* past the test: not slept since *)
    intros w Hp. destruct (Nat.eq_dec w i) as [->|Hw].
    + destruct l as [| | |a|a]; cbn [gupd]; cbv beta iota in Self.
      * destruct Self as [_ E]. rewrite E in Hp. discriminate.
      * destruct Self as [_ Self]. destruct (tpc (thrs s i)) eqn:Ep; try contradiction.
        -- cbn. now rewrite upd_same.
        -- destruct Self as [[Eh E]|[Eh E]]; [rewrite Eh; apply Hslept; rewrite Ep; reflexivity|rewrite E in Hp; discriminate].
        -- apply Hslept. rewrite Ep. reflexivity.
        -- apply Hslept. rewrite Ep. reflexivity.
        -- apply Hslept. rewrite Ep. reflexivity.
        -- rewrite Self in Hp. discriminate.
      * destruct Self as [_ [[Ea E]|[Ea E]]]; [rewrite E in Hp; discriminate|apply Hslept; rewrite Ea; reflexivity].
      * rewrite Self in Hp. now apply Hslept.
      * rewrite Self in Hp. now apply Hslept.
    + destruct (Gi w Hw) as [_ ->].
      destruct (step_others s l i s' w H Hw) as [_ [Ep|[_ Ep]]]; [rewrite Ep in Hp; now apply Hslept|rewrite Ep in Hp; discriminate].
Qed.

Theorem invG_greach sv s g : greach (init sv) s g -> InvG s g.
Proof.
  induction 1 as [|s g l i s' R IH E]; [apply invG_init|].
  apply invG_step; [exact (invB_reach sv s (greach_reach _ _ _ R))|exact IH|exact E].
Qed.

(* C14's window, as history: a waiter past its readiness test (trying for the lock, holding it, polling, about to notify or dispatch)
   whose reply HAS been processed made that test when the reply had not been dispatched yet, and has not slept on the condition since -
   it came straight from the test. (A woken sleeper goes back to the test first: it is never past the test with [slept] set.) *)
Theorem window_entered_from_the_test sv s g w q : greach (init sv) s g ->
  myseq (thrs s w) = Some q -> past_test (tpc (thrs s w)) = true ->
  ~ In q (firstn (tlen g w) (dispatched s)) /\ slept g w = false.
Proof.
  intros R Hm Hp. destruct (invG_greach sv s g R) as [_ Ht Hs]. split; [|now apply Hs].
  apply Ht; [exact Hm|]. destruct (tpc (thrs s w)); try discriminate; reflexivity.
Qed.
