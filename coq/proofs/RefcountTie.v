(* Tie between the facts regenerated from rpyc/lib/colls.py, rpyc/core/protocol.py and rpyc/core/netref.py
   (gen/Gen_colls.v) and the parameters the C10 theorems are proved for.  Every lemma is by computation:
   a change of a constant, of the comparison in decref, of the count sent by the finalizer or of what
   _cleanup clears makes this file stop compiling.  The three close-path facts (does _async_request refuse
   before boxing on a closed channel / can on_disconnect skip the clear / is _cleanup called in close()'s finally)
   and the two facts about failures (is what _box registered given back when the message is not sent / does the reply
   path refuse before boxing once the channel is closed) may be true or false: the theorems are proved for both values
   and guarded by them. *)
From V Require Import lib.Base model.Refcount gen.Gen_colls.
Open Scope Z_scope.

(* RefCountingColl.add: absent -> [obj, 0]; present -> count + 1 *)
Lemma tie_add : Gen_colls.add_init = 0 /\ Gen_colls.add_inc = 1.
Proof. split; reflexivity. Qed.
(* RefCountingColl.decref: delete when count field < n, else subtract n; both defaults are 1 *)
Lemma tie_decref : Gen_colls.dec_cmp = CLt /\ Gen_colls.decref_default = 1 /\ Gen_colls.handle_del_default = 1.
Proof. repeat split. Qed.
(* a fresh proxy counts 1, a cache hit in _unbox adds 1, the finalizer sends the whole count *)
Lemma tie_proxy : Gen_colls.proxy_init = 1 /\ Gen_colls.unbox_inc = 1 /\ Gen_colls.del_src = DRefcount.
Proof. repeat split. Qed.
(* _cleanup contains the clear; _dispatch_request stores the traceback of a failing call (the model's tbo / pin) *)
Lemma tie_cleanup : Gen_colls.cleanup_clears = true.
Proof. reflexivity. Qed.
Lemma tie_last_traceback : Gen_colls.keeps_last_traceback = true.
Proof. reflexivity. Qed.

(* the parameters of the current tree are the ones of the proofs, instantiated with the tree's close-path facts *)
Lemma tie_params : Gen_colls.params =
  stdp Gen_colls.send_checks_closed Gen_colls.cleanup_guarded Gen_colls.close_finally
       Gen_colls.failed_send_releases Gen_colls.reply_checks_closed.
Proof. reflexivity. Qed.
