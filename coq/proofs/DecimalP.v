From V Require Import lib.Base lib.Decimal.
Open Scope N_scope.
Ltac Zify.zify_post_hook ::= Z.to_euclidean_division_equations.

Lemma dbl_val : forall l c, val_le (dbl c l) = 2 * val_le l + c.
Proof.
  induction l as [|d t IH]; intros c; cbn [dbl val_le fold_right].
  - destruct (N.eqb_spec c 0); cbn [fold_right]; lia.
  - destruct (N.ltb_spec (2 * d + c) 10); cbn [fold_right].
    + fold (val_le (dbl 0 t)). fold (val_le t). rewrite IH. lia.
    + fold (val_le (dbl 1 t)). fold (val_le t). rewrite IH. lia.
Qed.

Lemma dbl_small : forall l c, c <= 1 -> Forall (fun d => d < 10) l -> Forall (fun d => d < 10) (dbl c l).
Proof.
  induction l as [|d t IH]; intros c Hc HF; cbn [dbl].
  - destruct (N.eqb_spec c 0); constructor; [lia|constructor].
  - inversion HF as [|? ? Hd Ht]; subst. destruct (N.ltb_spec (2 * d + c) 10); (constructor; [lia|]); (apply IH; [lia|exact Ht]).
Qed.

Lemma dbl_nonempty : forall l c, l <> [] -> dbl c l <> [].
Proof. destruct l; intros; cbn [dbl]; [congruence|]. destruct (2 * n + c <? 10); discriminate. Qed.

Lemma digits_val p : val_le (digits_le p) = Npos p.
Proof. induction p; cbn [digits_le]; rewrite ?dbl_val, ?IHp; cbn; lia. Qed.

Lemma digits_small p : Forall (fun d => d < 10) (digits_le p).
Proof. induction p; cbn [digits_le]; try (apply dbl_small; [lia|assumption]). repeat constructor. Qed.

Lemma digits_nonempty p : digits_le p <> [].
Proof. induction p; cbn [digits_le]; try (apply dbl_nonempty; assumption). discriminate. Qed.

Lemma small_cases d : d < 10 -> d = 0 \/ d = 1 \/ d = 2 \/ d = 3 \/ d = 4 \/ d = 5 \/ d = 6 \/ d = 7 \/ d = 8 \/ d = 9.
Proof. lia. Qed.

Lemma digit_val_char d : d < 10 -> digit_val (digit_char d) = Some d.
Proof. intros H. apply small_cases in H. repeat (destruct H as [->|H]; [reflexivity|]). subst. reflexivity. Qed.
Lemma digit_not_ws d : d < 10 -> is_ws (digit_char d) = false.
Proof. intros H. apply small_cases in H. repeat (destruct H as [->|H]; [reflexivity|]). subst. reflexivity. Qed.
Lemma digit_not_sign d : d < 10 -> Byte.eqb (digit_char d) minus_char = false /\ Byte.eqb (digit_char d) plus_char = false.
Proof. intros H. apply small_cases in H. repeat (destruct H as [->|H]; [split; reflexivity|]). subst. split; reflexivity. Qed.

Lemma scan_digits : forall ds prev acc, Forall (fun d => d < 10) ds -> (ds <> [] \/ prev = true) ->
  scan (map digit_char ds) prev acc = Some (rev acc ++ ds).
Proof.
  induction ds as [|d t IH]; intros prev acc HF Hne.
  - destruct Hne as [Hne| ->]; [congruence|]. cbn. now rewrite app_nil_r.
  - inversion HF as [|? ? Hd Ht]; subst. cbn [map scan]. rewrite digit_val_char by exact Hd.
    rewrite IH by (auto). cbn [rev]. now rewrite <- app_assoc.
Qed.

Lemma val_be_rev l : val_be (rev l) = val_le l.
Proof.
  unfold val_be, val_le. rewrite fold_left_rev_right with (f := fun d acc => acc * 10 + d) || idtac.
  rewrite <- fold_left_rev_right. rewrite rev_involutive.
  induction l as [|d t IH]; cbn [fold_right]; [reflexivity|]. rewrite IH. lia.
Qed.

Lemma strip_ws_head b t : is_ws b = false -> strip_ws (b :: t) = b :: t.
Proof. intros H. cbn. now rewrite H. Qed.

Lemma render_pos_shape p : exists d t, d < 10 /\ render_pos p = digit_char d :: t /\
  exists d' t', d' < 10 /\ rev (render_pos p) = digit_char d' :: t'.
Proof.
  unfold render_pos. rewrite rev_involutive.
  pose proof (digits_small p) as HS. pose proof (digits_nonempty p) as HN.
  destruct (digits_le p) as [|d0 t0] eqn:E; [congruence|].
  assert (HS' : Forall (fun d => d < 10) (rev (d0 :: t0))) by (apply Forall_rev; exact HS).
  rewrite <- map_rev.
  destruct (rev (d0 :: t0)) as [|d1 t1] eqn:E1.
  { apply (f_equal (@length N)) in E1. rewrite rev_length in E1. discriminate. }
  inversion HS'; subst. inversion HS; subst.
  exists d1, (map digit_char t1). repeat split; auto.
  exists d0, (map digit_char t0). repeat split; auto.
Qed.

Lemma strip_both_render_pos p : rev (strip_ws (rev (strip_ws (render_pos p)))) = render_pos p.
Proof.
  destruct (render_pos_shape p) as (d & t & Hd & E & d' & t' & Hd' & E').
  rewrite E at 1. rewrite strip_ws_head by (apply digit_not_ws; exact Hd). rewrite <- E.
  rewrite E'. rewrite strip_ws_head by (apply digit_not_ws; exact Hd'). rewrite <- E'.
  apply rev_involutive.
Qed.

Lemma scan_render_pos p : scan (render_pos p) false [] = Some (rev (digits_le p)).
Proof.
  unfold render_pos. rewrite <- map_rev. rewrite scan_digits.
  - reflexivity.
  - apply Forall_rev, digits_small.
  - left. intros H. apply (f_equal (@length N)) in H. rewrite rev_length in H.
    pose proof (digits_nonempty p). destruct (digits_le p); [congruence|discriminate].
Qed.

Theorem parse_render m z bs : render m z = Ok bs -> parse m bs = Ok z.
Proof.
  unfold render. destruct (over_limit m (ndigits z)) eqn:EL; [discriminate|]. intros [= <-].
  destruct z as [|p|p]; [cbn [ndigits] in EL; unfold parse; cbn [render_raw]; vm_compute; vm_compute in EL; now rewrite EL| |].
  - cbn [render_raw]. unfold parse. rewrite strip_both_render_pos.
    destruct (render_pos_shape p) as (d & t & Hd & E & _).
    destruct (digit_not_sign d Hd) as [S1 S2].
    rewrite E. rewrite S1, S2. rewrite <- E. rewrite scan_render_pos.
    unfold nlen. rewrite rev_length. cbn [ndigits] in EL. unfold nlen in EL. rewrite EL.
    rewrite val_be_rev, digits_val. reflexivity.
  - cbn [render_raw]. unfold parse.
    assert (HS : rev (strip_ws (rev (strip_ws (minus_char :: render_pos p)))) = minus_char :: render_pos p).
    { rewrite strip_ws_head by reflexivity.
      destruct (render_pos_shape p) as (_ & _ & _ & _ & d' & t' & Hd' & E').
      cbn [rev]. rewrite E'. cbn [app]. rewrite strip_ws_head by (apply digit_not_ws; exact Hd').
      change (digit_char d' :: t' ++ [minus_char]) with ((digit_char d' :: t') ++ [minus_char]).
      rewrite <- E'. rewrite rev_app_distr, rev_involutive. reflexivity. }
    rewrite HS. cbn [Byte.eqb]. change (Byte.eqb minus_char minus_char) with true. cbv iota.
    rewrite scan_render_pos. unfold nlen. rewrite rev_length. cbn [ndigits] in EL. unfold nlen in EL. rewrite EL.
    rewrite val_be_rev, digits_val. reflexivity.
Qed.
