From V Require Import lib.Base model.Lifecycle.

(* the invariant of a side, over every history: the hook count is 0 while the root is still there and 1 afterwards;
   a side that reports closed has been cleaned up (flag and cleanup happen inside the same call); cleaned sides have a closed channel *)
Definition Inv (s : side) : Prop :=
  (has_root s = true -> hooks s = 0 /\ closed s = false)
  /\ (has_root s = false -> hooks s = 1 /\ closed s = true /\ chan_open s = false).

Lemma inv_fresh : Inv fresh.
Proof. split; cbn; [auto|discriminate]. Qed.

Definition core_ok (P : lparams) : bool :=
  close_checks_closed_first P && close_sets_closed_before_io P && close_cleanup_in_finally P && close_swallows_eof P
  && cleanup_hook_once_guard P && cleanup_clears_in_finally P.

Lemma core_ok_spec P : core_ok P = true ->
  close_checks_closed_first P = true /\ close_sets_closed_before_io P = true /\ close_cleanup_in_finally P = true
  /\ close_swallows_eof P = true /\ cleanup_hook_once_guard P = true /\ cleanup_clears_in_finally P = true.
Proof. unfold core_ok. intros H. repeat (apply andb_true_iff in H as [H ?]). repeat split; assumption. Qed.
Ltac unpack H := destruct (core_ok_spec _ H) as (Ka & Kb & Kc & Kd & Ke & Kf).

Lemma inv_cases s : Inv s -> (has_root s = true /\ hooks s = 0 /\ closed s = false) \/ ended_clean s.
Proof.
  intros [A B]. destruct (has_root s) eqn:E; [left; destruct (A eq_refl); auto|right].
  destruct (B eq_refl) as (U & V & W). repeat split; auto.
Qed.
Lemma clean_inv s : ended_clean s -> Inv s.
Proof. intros (A & B & C & D). split; intros X; [congruence|auto]. Qed.

(* close(): on an untouched side it ends clean whatever the write does; on an ended side it is the identity *)
Lemma do_close_spec P hr w s : core_ok P = true -> Inv s -> ended_clean (fst (do_close P hr w s)).
Proof.
  intros HP I. unpack HP. unfold do_close, close_tail, set_closed_flag. rewrite Ka, Kb, Kc, Kd.
  destruct (inv_cases s I) as [(Hr & Hh & Hc)|C].
  - rewrite Hc. cbn [andb]. unfold cleanup. cbn. rewrite Hr, Kf. cbn. rewrite andb_false_r. cbn. rewrite Hh. repeat split.
  - destruct C as (Hc & Hh & Hr & Ho). rewrite Hc. cbn. repeat split; auto.
Qed.
(* the peer's close request, and a close() during which it is served: clean afterwards, whichever form the handler has *)
Lemma handle_close_spec P hr s : core_ok P = true -> Inv s -> closed s = false -> ended_clean (fst (handle_close P hr s)).
Proof.
  intros HP I Hc. unpack HP. unfold handle_close. destruct (inv_cases s I) as [(Hr & Hh & _)|C].
  - rewrite Hr. unfold cleanup. rewrite Hc, Hr, Kf. cbn. rewrite andb_false_r. cbn. rewrite Hh. repeat split.
  - destruct C as (Hc' & _). congruence.
Qed.
Lemma do_close_serving_spec P hr w s : core_ok P = true -> Inv s -> ended_clean (fst (do_close_serving P hr w s)).
Proof.
  intros HP I. unpack HP. unfold do_close_serving, close_tail, set_closed_flag, handle_close. rewrite Ka, Kb, Kc, Kd.
  destruct (inv_cases s I) as [(Hr & Hh & Hc)|C].
  - rewrite Hc. cbn [andb has_root]. rewrite Hr. unfold cleanup. cbn [closed has_root hooks chan_open]. rewrite ?Hr, ?Kf.
    destruct (handle_close_guarded P); cbn [negb andb]; rewrite ?andb_false_r; cbn [fst closed has_root hooks chan_open negb andb];
      rewrite ?Hr, ?Kf, ?Ke; rewrite ?andb_false_r; cbn; rewrite Hh; repeat split.
  - destruct C as (Hc & Hh & Hr & Ho). rewrite Hc. cbn. repeat split; auto.
Qed.
Theorem close_idempotent P hr w s : close_checks_closed_first P = true -> closed s = true -> do_close P hr w s = (s, RNone).
Proof. intros H Hc. unfold do_close. now rewrite H, Hc. Qed.

Lemma chan_closed_inv s : Inv s -> Inv {| closed := closed s; hooks := hooks s; has_root := has_root s; chan_open := false |}.
Proof. intros [A B]. split; cbn; [exact A|]. intros X. destruct (B X) as (U & V & W). auto. Qed.

Lemma step_inv P hr e s : core_ok P = true -> Inv s -> Inv (fst (step P hr e s)).
Proof.
  intros HP I. unpack HP.
  destruct e as [w| |w|c|c]; cbn [step].
  - apply clean_inv. now apply do_close_spec.
  - destruct (inv_cases s I) as [(Hr & Hh & Hc)|C].
    + apply clean_inv. now apply handle_close_spec.
    + destruct C as (Hc & Hh & Hr & Ho). unfold handle_close. rewrite Hr. exact I.
  - apply clean_inv. now apply do_close_serving_spec.
  - set (s0 := {| closed := closed s; hooks := hooks s; has_root := has_root s; chan_open := false |}).
    assert (I0 : Inv s0) by (apply chan_closed_inv; exact I).
    destruct (serve_read_eof_closes P).
    + destruct (do_close P hr WEof s0) as [s1 r] eqn:E.
      assert (I1 : Inv s1) by (change s1 with (fst (s1, r)); rewrite <- E; apply clean_inv; now apply do_close_spec).
      destruct c; cbn [fst]; [exact I1|]. destruct (serve_all_finally_closes P); cbn [fst]; [apply clean_inv; now apply do_close_spec|exact I1].
    + destruct c; cbn [fst]; [exact I0|]. destruct (serve_all_finally_closes P); cbn [fst]; [apply clean_inv; now apply do_close_spec|exact I0].
  - set (s0 := {| closed := closed s; hooks := hooks s; has_root := has_root s; chan_open := false |}).
    assert (I0 : Inv s0) by (apply chan_closed_inv; exact I).
    destruct (serve_dispatch_eof_closes P).
    + destruct (do_close P hr WEof s0) as [s1 r] eqn:E.
      assert (I1 : Inv s1) by (change s1 with (fst (s1, r)); rewrite <- E; apply clean_inv; now apply do_close_spec).
      destruct c; cbn [fst]; [exact I1|]. destruct (serve_all_finally_closes P); cbn [fst]; [apply clean_inv; now apply do_close_spec|exact I1].
    + destruct c; cbn [fst]; [exact I0|]. destruct (serve_all_finally_closes P); cbn [fst]; [apply clean_inv; now apply do_close_spec|exact I0].
Qed.

Theorem run_inv P hr es : core_ok P = true -> forall s, Inv s -> Inv (runs P hr es s).
Proof.
  intros HP. induction es as [|e t IH]; intros s I; cbn; [exact I|]. apply IH. now apply step_inv.
Qed.

(* the hook never runs twice, whatever happens *)
Theorem hooks_at_most_once P hr es : core_ok P = true -> hooks (runs P hr es fresh) <= 1.
Proof.
  intros HP. destruct (inv_cases _ (run_inv P hr es HP fresh inv_fresh)) as [(_ & -> & _)|(_ & -> & _)]; lia.
Qed.

(* a side never reports closed before its hook has run and its tables are cleared *)
Theorem closed_means_clean P hr es : core_ok P = true -> closed (runs P hr es fresh) = true -> ended_clean (runs P hr es fresh).
Proof.
  intros HP Hc. destruct (inv_cases _ (run_inv P hr es HP fresh inv_fresh)) as [(_ & _ & X)|C]; [congruence|exact C].
Qed.

Definition must_end (P : lparams) (e : entry) : bool :=
  match e with
  | EClose _ | EHandleClose | ECloseServing _ => true
  | EServeReadEof _ => serve_read_eof_closes P
  | EDispatchEof c => serve_dispatch_eof_closes P || (match c with InServeAll => serve_all_finally_closes P | InWait => false end)
  end.

(* after any history, an entry point that closes / is told to close / meets the failure while serving leaves the side clean *)
Theorem ends_clean P hr es e : core_ok P = true -> must_end P e = true -> ended_clean (fst (step P hr e (runs P hr es fresh))).
Proof.
  intros HP Hm. set (s := runs P hr es fresh). assert (I : Inv s) by (apply run_inv; [exact HP|exact inv_fresh]).
  unpack HP.
  destruct e as [w| |w|c|c]; cbn [step must_end] in *.
  - now apply do_close_spec.
  - destruct (inv_cases s I) as [(Hr & Hh & Hc)|C].
    + now apply handle_close_spec.
    + destruct C as (Hc & Hh & Hr & Ho). unfold handle_close. rewrite Hr. cbn. repeat split; auto.
  - now apply do_close_serving_spec.
  - rewrite Hm. set (s0 := {| closed := closed s; hooks := hooks s; has_root := has_root s; chan_open := false |}).
    assert (I0 : Inv s0) by (apply chan_closed_inv; exact I).
    destruct (do_close P hr WEof s0) as [s1 r] eqn:E.
    assert (C1 : ended_clean s1) by (change s1 with (fst (s1, r)); rewrite <- E; now apply do_close_spec).
    destruct c; cbn [fst]; [exact C1|]. destruct (serve_all_finally_closes P); cbn [fst]; [|exact C1].
    apply do_close_spec; [exact HP|now apply clean_inv].
  - set (s0 := {| closed := closed s; hooks := hooks s; has_root := has_root s; chan_open := false |}).
    assert (I0 : Inv s0) by (apply chan_closed_inv; exact I).
    destruct (serve_dispatch_eof_closes P) eqn:Ed.
    + destruct (do_close P hr WEof s0) as [s1 r] eqn:E.
      assert (C1 : ended_clean s1) by (change s1 with (fst (s1, r)); rewrite <- E; now apply do_close_spec).
      destruct c; cbn [fst]; [exact C1|]. destruct (serve_all_finally_closes P); cbn [fst]; [|exact C1].
      apply do_close_spec; [exact HP|now apply clean_inv].
    + cbn [orb] in Hm. destruct c; [discriminate|]. rewrite Hm. cbn [fst]. now apply do_close_spec.
Qed.

(* F6: when serve does not close on an EOFError escaping _dispatch, a side that meets the failure while serving a callback
   during AsyncResult.wait stays open with its hook never run *)
Theorem dispatch_eof_refuted P hr : serve_dispatch_eof_closes P = false ->
  let s := fst (step P hr (EDispatchEof InWait) fresh) in closed s = false /\ hooks s = 0.
Proof. intros H. cbn. rewrite H. cbn. split; reflexivity. Qed.

(* a raising disconnect hook: unless the clearing sits in a finally, close() on a fresh side leaves it reporting closed with its
   tables and root still in place - and nothing will ever clear them (close is the identity from then on) *)
Theorem raising_hook_refuted P w : cleanup_clears_in_finally P = false -> close_checks_closed_first P = true ->
  close_sets_closed_before_io P = true -> close_cleanup_in_finally P = true ->
  let s := fst (do_close P true w fresh) in
  closed s = true /\ has_root s = true /\ forall w', do_close P true w' s = (s, RNone).
Proof.
  intros Hf Ka Kb Kc.
  assert (E : do_close P true w fresh = ({| closed := true; hooks := 1; has_root := true; chan_open := false |}, ROther)).
  { unfold do_close, close_tail, set_closed_flag. rewrite Ka, Kb, Kc. cbn. unfold cleanup. cbn. rewrite Hf. cbn. reflexivity. }
  rewrite E. cbn. repeat split. intros w'. unfold do_close. rewrite Ka. reflexivity.
Qed.

(* ---- requests: nobody hangs, nobody gets a value the peer did not send ---- *)
Lemma existsb_eqb_in x l : existsb (Nat.eqb x) l = true <-> In x l.
Proof.
  rewrite existsb_exists. split.
  - intros (y & Hy & E). apply Nat.eqb_eq in E. now subst.
  - intros H. exists x. split; [exact H|apply Nat.eqb_refl].
Qed.

(* once the side has ended (it reports closed, or its channel is closed) no wait keeps waiting: value or EOFError *)
Theorem ended_nobody_waits rc s id : closed_stream_raises_eof rc = true ->
  closed (base s) = true \/ chan_open (base s) = false -> wait_outcome rc s id <> WKeepsWaiting.
Proof.
  intros Hf H. unfold wait_outcome. rewrite Hf. destruct (existsb (Nat.eqb id) (got s)); [discriminate|].
  destruct (existsb (Nat.eqb id) (failed s)); [discriminate|].
  destruct H as [H|H]; rewrite H; cbn; [discriminate|]. rewrite orb_true_r. discriminate.
Qed.
(* on a tree whose closed stream does not raise, a request pending when the side ended waits for ever *)
Theorem ended_waits_refuted rc s id : closed_stream_raises_eof rc = false -> ~ In id (got s) -> ~ In id (failed s) -> wait_outcome rc s id = WKeepsWaiting.
Proof.
  intros Hf Hg Hx. unfold wait_outcome. rewrite Hf.
  destruct (existsb (Nat.eqb id) (got s)) eqn:E; [apply existsb_eqb_in in E; contradiction|].
  destruct (existsb (Nat.eqb id) (failed s)) eqn:E2; [apply existsb_eqb_in in E2; contradiction|].
  now destruct (closed (base s) || negb (chan_open (base s))).
Qed.

(* a request issued after the end fails with EOFError and leaves nothing registered *)
Theorem issue_after_end P hr rc s id w : chan_open (base s) = false ->
  let s' := rstep P hr rc (RIssue id w) s in pend s' = pend s /\ (~ In id (got s) -> wait_outcome rc s' id = WEofError).
Proof.
  intros H. cbn. rewrite H. cbn. split; [reflexivity|]. intros Hn. unfold wait_outcome. cbn [got failed].
  destruct (existsb (Nat.eqb id) (got s)) eqn:E; [apply existsb_eqb_in in E; contradiction|].
  cbn. now rewrite Nat.eqb_refl.
Qed.

(* no phantom values: a request has a value only if its reply was dispatched while it was registered; [got] only grows by RReply *)
Definition replied (es : list rentry) (id : nat) : Prop := In (RReply id) es.
Lemma got_step P hr rc e s x : In x (got (rstep P hr rc e s)) -> In x (got s) \/ e = RReply x.
Proof.
  destruct e as [id w|id|e0]; cbn.
  - destruct (negb (chan_open (base s))); [auto|]. destruct w; auto.
  - destruct (existsb (Nat.eqb id) (pend s)); cbn; [|auto]. intros [<-|H]; auto.
  - auto.
Qed.
Theorem value_only_if_replied P hr rc : forall es s id, wait_outcome rc (rruns P hr rc es s) id = WValue -> In id (got s) \/ replied es id.
Proof.
  intros es s id H.
  assert (G : In id (got (rruns P hr rc es s))).
  { unfold wait_outcome in H. destruct (existsb (Nat.eqb id) (got (rruns P hr rc es s))) eqn:E; [now apply existsb_eqb_in|].
    destruct (existsb _ (failed _)); [discriminate|]. destruct (_ || _); [destruct (closed_stream_raises_eof rc)|]; discriminate. }
  clear H. revert s G. induction es as [|e t IH]; intros s G; cbn in G; [now left|].
  destruct (IH _ G) as [H|H].
  - destruct (got_step _ _ _ _ _ _ H) as [H'|H']; [now left|right; left; exact H'].
  - right. now right.
Qed.

(* the two together with the first sentence: after ANY history in which the side closed, was told to close or met the failure while
   serving (last entry e with must_end), every request ever issued on it has its value (if the peer's reply was dispatched) or
   fails with EOFError - none waits on *)
Theorem ends_and_nobody_waits P hr rc es e id : core_ok P = true -> closed_stream_raises_eof rc = true -> must_end P e = true ->
  let s := rstep P hr rc (RBase e) (rruns P hr rc es rfresh) in wait_outcome rc s id <> WKeepsWaiting.
Proof.
  intros HP Hf Hm. cbn zeta. apply ended_nobody_waits; [exact Hf|]. left. cbn [rstep base].
  assert (B : base (rruns P hr rc es rfresh) = runs P hr (fold_right (fun x acc => match x with RBase e0 => e0 :: acc | _ => acc end) [] es) fresh).
  { assert (G : forall s, base (rruns P hr rc es s) = runs P hr (fold_right (fun x acc => match x with RBase e0 => e0 :: acc | _ => acc end) [] es) (base s)).
    { induction es as [|x t IH]; intros s; [reflexivity|]. cbn [rruns fold_left]. change (fold_left _ t ?a) with (rruns P hr rc t a).
      rewrite IH. destruct x as [i w|i|e0]; cbn [fold_right].
      - cbn. destruct (negb (chan_open (base s))); [reflexivity|]. destruct w; reflexivity.
      - cbn. destruct (existsb (Nat.eqb i) (pend s)); reflexivity.
      - reflexivity. }
    apply G. }
  rewrite B. destruct (ends_clean P hr (fold_right (fun x acc => match x with RBase e0 => e0 :: acc | _ => acc end) [] es) e HP Hm) as (Hc & _). exact Hc.
Qed.

Definition base_entries (es : list rentry) : list entry := fold_right (fun x acc => match x with RBase e0 => e0 :: acc | _ => acc end) [] es.
Lemma base_rruns P hr rc es : forall s, base (rruns P hr rc es s) = runs P hr (base_entries es) (base s).
Proof.
  induction es as [|x t IH]; intros s; [reflexivity|]. cbn [rruns fold_left]. change (fold_left _ t ?a) with (rruns P hr rc t a).
  rewrite IH. unfold base_entries. destruct x as [i w|i|e0]; cbn [fold_right].
  - cbn. destruct (negb (chan_open (base s))); [reflexivity|]. destruct w; reflexivity.
  - cbn. destruct (existsb (Nat.eqb i) (pend s)); reflexivity.
  - reflexivity.
Qed.
(* and nothing stays registered on a side that has ended - on a tree whose cleanup clears the callback table; on one that does not the
   table keeps every request that was pending *)
Theorem ended_nothing_registered P hr rc es e : core_ok P = true -> cleanup_clears_callbacks rc = true -> must_end P e = true ->
  pend (rstep P hr rc (RBase e) (rruns P hr rc es rfresh)) = [].
Proof.
  intros HP Hf Hm. cbn [rstep pend]. rewrite base_rruns. cbn [base rfresh].
  destruct (ends_clean P hr (base_entries es) e HP Hm) as (_ & _ & Hr & _). rewrite Hr, Hf. reflexivity.
Qed.
Theorem ended_registered_refuted P hr rc es e : cleanup_clears_callbacks rc = false ->
  pend (rstep P hr rc (RBase e) (rruns P hr rc es rfresh)) = pend (rruns P hr rc es rfresh).
Proof. intros Hf. cbn [rstep pend]. rewrite Hf. now destruct (has_root _). Qed.

(* ---- close() is not atomic: the peer's close request served while close() itself is under way ---- *)
(* with the guarded handler the closing side comes out clean and close() raises nothing of its own (only what its write or its
   hook raised); with the raw cleanup as handler the second cleanup of the same close() finds the handler table already gone:
   AttributeError out of close() on a side where nothing else went wrong *)
Theorem close_while_serving_quiet P w s : core_ok P = true -> handle_close_guarded P = true -> Inv s -> closed s = false -> w <> WErr ->
  step P false (ECloseServing w) s = ({| closed := true; hooks := 1; has_root := false; chan_open := false |}, RNone).
Proof.
  intros HP Hg I Hc Hw. unpack HP. cbn [step]. unfold do_close_serving, close_tail, set_closed_flag, handle_close. rewrite Ka, Kb, Kc, Kd, Hg, Hc.
  destruct (inv_cases s I) as [(Hr & Hh & _)|C]; [|destruct C as (X & _); congruence].
  cbn [andb has_root]. rewrite Hr. unfold cleanup. cbn [closed has_root hooks chan_open negb andb fst]. rewrite ?Hr, ?Kf. cbn. rewrite Hh.
  destruct (chan_open s), w; try congruence; reflexivity.
Qed.
Theorem close_while_serving_refuted P w : core_ok P = true -> handle_close_guarded P = false ->
  step P false (ECloseServing w) fresh = ({| closed := true; hooks := 1; has_root := false; chan_open := false |}, RAttr).
Proof.
  intros HP Hg. unpack HP. cbn [step]. unfold do_close_serving, close_tail, set_closed_flag, handle_close. rewrite Ka, Kb, Kc, Kd, Hg. cbn.
  unfold cleanup. cbn. rewrite ?Kf, ?Ke. cbn. rewrite ?Kf, ?Ke. reflexivity.
Qed.
